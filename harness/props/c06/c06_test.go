// C06 — TypeScript types are erased without runtime effect. See DESIGN.md section 5 / C06.
package c06

import (
	"encoding/json"
	"fmt"
	"sort"
	"strings"
	"testing"

	"github.com/evanw/esbuild/pkg/api"
	"github.com/evanw/esbuild/verif/jsgen"
	"github.com/evanw/esbuild/verif/jslib"
	"github.com/evanw/esbuild/verif/jsref"
	"github.com/evanw/esbuild/verif/jsutil"
	"github.com/evanw/esbuild/verif/noderun"
	"github.com/evanw/esbuild/verif/vdrv"
	"pgregory.net/rapid"
)

var H *vdrv.H
var W *noderun.Worker

// ----------------------------------------------------------------------------- type grammar

type tg struct{ t *rapid.T }

func (g tg) n(k int, l string) int {
	if k <= 1 {
		return 0
	}
	return rapid.IntRange(0, k-1).Draw(g.t, l)
}

var typeNames = []string{"T", "U", "Foo", "Bar.Baz", "Array", "Map", "Promise"}

func (g tg) Type(d int) string {
	if d <= 0 {
		return []string{"number", "string", "any", "unknown", "void", "never", "boolean", "null", "undefined", "object", "symbol", "bigint", "T", "Foo", "Bar.Baz", "this", "\"lit\"", "42", "-1", "true", "unique symbol"}[g.n(21, "prim")]
	}
	switch g.n(22, "type") {
	case 0:
		return g.Type(d-1) + "[]"
	case 1:
		return g.Type(d-1) + " | " + g.Type(d-1)
	case 2:
		return g.Type(d-1) + " & " + g.Type(d-1)
	case 3:
		return "[" + g.Type(d-1) + ", " + g.Type(d-1) + "?, ..." + g.Type(d-1) + "[]]"
	case 4:
		return "[a: " + g.Type(d-1) + ", b?: " + g.Type(d-1) + "]"
	case 5:
		return "(a: " + g.Type(d-1) + ", ...r: " + g.Type(d-1) + "[]) => " + g.Type(d-1)
	case 6:
		return "new (a?: " + g.Type(d-1) + ") => " + g.Type(d-1)
	case 7:
		return g.Type(d-1) + " extends " + g.Type(d-1) + " ? " + g.Type(d-1) + " : " + g.Type(d-1)
	case 8:
		return g.Type(d-1) + " extends (infer I)[] ? I : never"
	case 9:
		return g.Type(d-1) + " extends (infer I extends string) ? I : never"
	case 10:
		return "`a${" + g.Type(d-1) + "}b${string}`"
	case 11:
		return "{ readonly [K in keyof T]?: T[K] }"
	case 12:
		return "{ -readonly [K in keyof T as `get${K & string}`]-?: " + g.Type(d-1) + " }"
	case 13:
		return "{ a: " + g.Type(d-1) + "; b?: " + g.Type(d-1) + ", readonly c: number; m(x: number): void; [k: string]: unknown; new (): Foo; (y: string): void; get p(): number; set p(v) }"
	case 14:
		return "Map<string, Array<Array<" + g.Type(d-1) + ">>>"
	case 15:
		return "typeof globalThis"
	case 16:
		return "keyof " + g.Type(d-1)
	case 17:
		return g.Type(d-1) + "[\"a\"]"
	case 18:
		return "(" + g.Type(d-1) + ")"
	case 19:
		return "import(\"./types\").X<" + g.Type(d-1) + ">"
	case 20:
		return "abstract new () => " + g.Type(d-1)
	case 21:
		return "<V extends " + g.Type(d-1) + " = " + g.Type(d-1) + ">(v: V) => asserts v is V"
	}
	return "any"
}

var typeStatements = []string{
	"interface I%d<T = any> extends Foo, Bar.Baz<T> { a: T; m(x: number): void; [k: string]: unknown; readonly r?: T }",
	"type A%d<T> = T extends (infer U)[] ? U : never;",
	"type B%d = `a${string}` | { [K in \"x\" | \"y\"]: K };",
	"declare const dc%d: number;",
	"declare let dl%d: string, dl%db: any;",
	"declare function df%d(a: string, ...r: number[]): void;",
	"declare class DC%d<T> extends Foo implements Bar { m(): void; static s: T; private x; constructor(a: number); }",
	"declare module \"mod%d\" { export const a: number; export default function f(): void; }",
	"declare namespace DN%d { export const a: number; namespace Inner { const b: string } }",
	"declare enum DE%d { A, B = 2 }",
	"declare const enum DCE%d { A }",
	"namespace TypesOnly%d { export interface X {} export type Y = X; namespace Deep { export interface Z {} } }",
	"type Fn%d = <T>(x: T) => T; type Ctor%d = new (...a: any[]) => object; type G%d = Array<Array<number>>;",
	"abstract class AC%d { abstract m(): void; abstract x: number; protected abstract get g(): string; }",
	"function ov%d(a: number): number; function ov%d(a: string): string; function ov%d(a: any) { return a; }",
	"type Rec%d = { a: Rec%d } | null;",
	"let typedLet%d: { a: number }[] | undefined, typedLet%db!: string;",
	"var asVar%d = 1 as number as any as unknown;",
	"var satVar%d = { a: 1 } satisfies Record<string, number>;",
	"var nn%d = log!;",
	"function assertIs%d(v: unknown): asserts v is string {}",
	"function isStr%d(this: void, v?: unknown): v is string { return true; }",
	"var arrowRet%d = (a: number, b?: string): number | undefined => a;",
	"var arrowGen%d = <T,>(a: T): T => a;",
	"var fnGen%d = function <T extends object = {}>(this: unknown, a: T) { return a; };",
	"var call%d = isStr%d<string>;",
	"class TC%d<T> extends Object implements Foo, Bar { declare d: number; private a = 1; protected readonly b: T; public static s?: number; x!: string; [k: string]: any; private constructor(a?: T); constructor(a?: T) { super(); } m<U>(this: TC%d<T>, u: U): u is U { return true; } get g(): number { return 1; } set g(v: number) {} static { } accessor_?: number; override toString(): string { return \"\"; } }",
}

// ----------------------------------------------------------------------------- decoration

type ins struct {
	pos  int
	text string
}

// decorate inserts type syntax into a JavaScript program at positions found with jsref. The program
// text between insertions is untouched, so the typed program erases to exactly the plain one.
func decorate(rt *rapid.T, src string, tsx bool) (string, int, []string) {
	prog, err := jsref.Parse(src, jsref.Options{})
	if err != nil {
		return src, 0, nil
	}
	g := tg{rt}
	var edits []ins
	kinds := map[string]bool{}
	chance := func(p int, l string) bool { return rapid.IntRange(0, 99).Draw(rt, l) < p }
	add := func(pos int, text, kind string) {
		edits = append(edits, ins{pos, text})
		kinds[kind] = true
	}
	ty := func() string { return g.Type(rapid.IntRange(0, 2).Draw(rt, "tdepth")) }
	var visit func(n, parent *jsref.Node)
	forHead := map[*jsref.Node]bool{}
	visit = func(n, parent *jsref.Node) {
		if n == nil {
			return
		}
		switch n.Type {
		case jsref.NForIn, jsref.NForOf:
			forHead[n.A] = true
		case jsref.NVarDecl:
			if !forHead[n] && (parent == nil || parent.Type != jsref.NFor) {
				for _, d := range n.List {
					if d != nil && d.A != nil && chance(35, "annot-var") {
						add(d.A.End, ": "+ty(), "var-annotation")
					}
				}
			}
		case jsref.NFunctionDecl, jsref.NFunctionExpr:
			if n.A != nil && chance(25, "fn-generic") {
				add(n.A.End, "<T, U extends "+ty()+" = "+ty()+">", "function-generics")
			}
			for i, p := range n.List {
				if p == nil {
					continue
				}
				target := p
				if p.Type == jsref.NAssign {
					target = p.A
				}
				if target.Type == jsref.NSpread {
					if chance(30, "annot-rest") {
						add(target.End, ": "+ty()+"[]", "param-annotation")
					}
					continue
				}
				if chance(35, "annot-param") {
					opt := ""
					if p.Type != jsref.NAssign && i == len(n.List)-1 && target.Type == jsref.NIdent && chance(30, "optional") {
						opt = "?"
					}
					add(target.End, opt+": "+ty(), "param-annotation")
				}
			}
			if n.B != nil && chance(30, "ret") {
				// the `)` that closes the parameter list is the last `)` before the body
				if i := strings.LastIndex(src[:n.B.Start], ")"); i >= 0 && i >= n.Start {
					add(i+1, ": "+ty(), "return-type")
				}
			}
		case jsref.NArrow:
			// only annotate parenthesised parameter lists
			if len(n.List) > 0 && n.List[0] != nil {
				j := n.List[0].Start - 1
				for j >= 0 && (src[j] == ' ' || src[j] == '\n') {
					j--
				}
				if j >= 0 && src[j] == '(' {
					for _, p := range n.List {
						if p == nil || p.Type == jsref.NSpread {
							continue
						}
						target := p
						if p.Type == jsref.NAssign {
							target = p.A
						}
						if chance(30, "annot-arrow-param") {
							add(target.End, ": "+ty(), "arrow-param-annotation")
						}
					}
				}
			}
		case jsref.NClassDecl, jsref.NClassExpr:
			if n.A != nil && chance(30, "class-generic") {
				add(n.A.End, "<T = "+ty()+">", "class-generics")
			}
			for _, m := range n.List {
				if m == nil {
					continue
				}
				switch m.Type {
				case jsref.NField:
					if !m.Has(jsref.FlagComputed) && m.A != nil && m.A.Type != jsref.NPrivateName && chance(40, "field-mod") {
						mod := []string{"public ", "private ", "protected ", "readonly ", "public readonly ", "declare_"}[g.n(5, "mod")]
						pos := m.Start
						if m.Has(jsref.FlagStatic) {
							pos = m.A.Start // after `static `
						}
						add(pos, mod, "member-modifier")
					}
					if m.A != nil && chance(30, "field-type") {
						add(m.A.End+closeBracket(src, m), ": "+ty(), "field-annotation")
					}
				case jsref.NMethod:
					if m.Name == "method" && !m.Has(jsref.FlagComputed) && m.A != nil && m.A.Type != jsref.NPrivateName && chance(30, "method-mod") {
						mod := []string{"public ", "private ", "protected ", "override ", "public override "}[g.n(3, "mmod")]
						pos := m.Start
						if m.Has(jsref.FlagStatic) {
							pos = m.A.Start
						}
						if src[pos] != '*' && !strings.HasPrefix(src[m.Start:], "async") && !strings.HasPrefix(src[m.Start:], "get ") && !strings.HasPrefix(src[m.Start:], "set ") {
							add(pos, mod, "member-modifier")
						}
					}
				}
			}
			if chance(20, "extra-member") && n.End > 0 {
				add(n.End-1, " declare dd"+fmt.Sprint(n.Start)+": "+ty()+"; [idx: string]: any; ", "declare-field")
			}
		case jsref.NCall:
			if n.A != nil && n.A.Type == jsref.NIdent && chance(12, "call-generic") && !n.Has(jsref.FlagOptional) {
				add(n.A.End, "<"+ty()+">", "call-type-args")
			}
		case jsref.NNew:
			if n.A != nil && n.A.Type == jsref.NIdent && len(src) > n.A.End && src[n.A.End] == '(' && chance(25, "new-generic") {
				add(n.A.End, "<"+ty()+">", "new-type-args")
			}
		}
		// expression-level assertions on identifier reads that are plain call arguments: log(x) -> log(x as T)
		if n.Type == jsref.NCall {
			for _, a := range n.List {
				if a != nil && a.Type == jsref.NIdent && chance(15, "assert") {
					switch g.n(4, "assertkind") {
					case 0:
						add(a.End, " as "+ty(), "as")
					case 1:
						add(a.End, " satisfies "+ty(), "satisfies")
					case 2:
						add(a.End, "!", "non-null")
					default:
						if !tsx {
							add(a.Start, "<"+ty()+">", "angle-assertion")
						} else {
							add(a.End, " as any", "as")
						}
					}
				}
			}
		}
		visit(n.A, n)
		visit(n.B, n)
		visit(n.C, n)
		visit(n.D, n)
		for _, c := range n.List {
			visit(c, n)
		}
	}
	visit(prog.Body, nil)
	// whole statements between top-level statements (never before a directive prologue)
	if prog.Body != nil {
		id := 0
		for i, st := range prog.Body.List {
			if st == nil || i == 0 {
				continue
			}
			if chance(25, "type-stmt") {
				id++
				t := typeStatements[g.n(len(typeStatements), "tstmt")]
				cnt := strings.Count(t, "%d")
				args := make([]interface{}, cnt)
				for k := range args {
					args[k] = id*100 + i
				}
				// statements that emit code (typed let/var, functions, classes) are appended to BOTH programs by the caller
				if isErased(t) {
					add(st.Start, fmt.Sprintf(t, args...)+"\n", "type-statement")
				}
			}
		}
	}
	sort.SliceStable(edits, func(i, j int) bool { return edits[i].pos < edits[j].pos })
	var sb strings.Builder
	last := 0
	for _, e := range edits {
		if e.pos < last {
			continue
		}
		sb.WriteString(src[last:e.pos])
		sb.WriteString(strings.Replace(e.text, "declare_", "", 1))
		last = e.pos
	}
	sb.WriteString(src[last:])
	var ks []string
	for k := range kinds {
		ks = append(ks, k)
	}
	sort.Strings(ks)
	return sb.String(), len(edits), ks
}

// closeBracket: for a computed key `[expr]` the annotation goes after the closing bracket
func closeBracket(src string, m *jsref.Node) int {
	if m.Has(jsref.FlagComputed) && m.A != nil {
		i := m.A.End
		for i < len(src) && src[i] != ']' {
			i++
		}
		return i + 1 - m.A.End
	}
	return 0
}

// isErased: the statement leaves no trace in the output
func isErased(t string) bool {
	for _, p := range []string{"interface ", "type ", "declare ", "namespace TypesOnly", "abstract class", "export type", "export interface"} {
		if strings.HasPrefix(t, p) {
			return !strings.HasPrefix(t, "abstract class")
		}
	}
	return false
}

type EraseCase struct {
	Plain  string `json:"plain"`
	Typed  string `json:"typed"`
	Loader string `json:"loader"` // ts | tsx
	Minify bool   `json:"minify,omitempty"`
	Target string `json:"target,omitempty"`
}

func tsOpts(c EraseCase) api.TransformOptions {
	o := api.TransformOptions{LogLevel: api.LogLevelSilent, Loader: api.LoaderTS}
	if c.Loader == "tsx" {
		o.Loader = api.LoaderTSX
	}
	if c.Minify {
		// not minify-identifiers: short names are assigned by character frequency of the source text, which
		// legitimately includes the erased type text; the property's quantifier does not range over it
		o.MinifySyntax, o.MinifyWhitespace = true, true
	}
	if c.Target == "es2017" {
		o.Target = api.ES2017
	}
	return o
}

func judgeErase(c EraseCase, nedits int, kinds []string) vdrv.Verdict {
	rp := api.Transform(c.Plain, tsOpts(c))
	if len(rp.Errors) > 0 {
		return vdrv.Skip("plain-rejected-by-ts-loader") // e.g. a<b>(c) look-alikes: language-defined difference
	}
	rt := api.Transform(c.Typed, tsOpts(c))
	if len(rt.Errors) > 0 {
		// without tsc the validity of the decoration cannot be confirmed independently: counted, inspected by hand
		v := vdrv.Skip("typed-rejected")
		return v
	}
	cls := []string{"loader=" + c.Loader}
	for _, k := range kinds {
		cls = append(cls, "kind="+k)
	}
	if string(rp.Code) == string(rt.Code) {
		v := vdrv.Pass(nedits >= 3 && len(kinds) >= 2, cls...)
		v.Observed = fmt.Sprintf("%d insertions of kinds %v", nedits, kinds)
		return v
	}
	return vdrv.Fail("adding type syntax changed the emitted JavaScript", string(rp.Code), string(rt.Code))
}

func replayErase(raw json.RawMessage) vdrv.Verdict {
	var c EraseCase
	if json.Unmarshal(raw, &c) != nil {
		return vdrv.Skip("bad-replay")
	}
	return judgeErase(c, 3, []string{"replay", "replay2"})
}

func runErase(t *testing.T) {
	H.Rule("erase", "rapid: a JavaScript program (jsgen, construct families, rare-production snippets) is decorated with type syntax at positions found by an independent parser: annotations on variables/parameters/returns/fields, optional parameters, generics on functions/classes/calls/new, as / satisfies / ! / <T>x assertions, member modifiers, declare fields, index signatures, and whole erased statements (interfaces, aliases with conditional/infer/template/mapped types, declare var/function/class/module/namespace/enum, type-only namespaces, export type) with types drawn from a recursive type grammar × loader {ts, tsx} × minify × target; oracle: Transform(typed) is byte-identical to Transform(plain) under the same TypeScript loader; non-trivial = ≥3 insertions of ≥2 kinds")
	H.SetupRapid("erase", H.N(6000, 300000))
	rapid.Check(t, func(rt *rapid.T) {
		var plain string
		switch rapid.IntRange(0, 3).Draw(rt, "src") {
		case 0:
			plain = rapid.SampledFrom(jslib.Families).Draw(rt, "family")
		case 1:
			plain = rapid.SampledFrom(jslib.RareSnippets).Draw(rt, "rare")
		default:
			plain = jsgen.Program(rt, jsgen.Config{Features: jsgen.FAll, Strict: true, MaxDepth: 3, MaxStmts: 6, WrapAsync: rapid.Bool().Draw(rt, "async")})
		}
		c := EraseCase{Plain: plain, Loader: rapid.SampledFrom([]string{"ts", "ts", "tsx"}).Draw(rt, "loader"), Minify: rapid.IntRange(0, 3).Draw(rt, "minify") == 0}
		if rapid.IntRange(0, 4).Draw(rt, "target") == 0 {
			c.Target = "es2017"
		}
		typed, n, kinds := decorate(rt, plain, c.Loader == "tsx")
		c.Typed = typed
		H.Report(rt, "erase", c.Typed+c.Loader+fmt.Sprint(c.Minify, c.Target), c, judgeErase(c, n, kinds))
	})
}

// ----------------------------------------------------------------------------- ts loader == js loader on plain JavaScript

type SameCase struct {
	Code   string `json:"code"`
	Minify bool   `json:"minify,omitempty"`
}

func usesTSDifference(code string) bool {
	// the two language-defined differences: a<b>(c) style look-alikes and statement-initial TS keywords
	p, err := jsref.Parse(code, jsref.Options{})
	if err != nil {
		return true
	}
	bad := false
	for i, t := range p.Tokens {
		if t.Raw == "<" || t.Raw == ">" || t.Raw == ">>" || t.Raw == ">>>" || t.Raw == "<<" {
			bad = true // any relational/shift operator could form a type-argument look-alike
		}
		if t.Kind == jsref.TIdent {
			switch t.Ident {
			case "type", "declare", "namespace", "module", "abstract", "enum", "interface", "as", "satisfies", "asserts", "is", "infer", "keyof", "readonly", "unique", "accessor", "override", "public", "private", "protected", "implements", "global", "out", "in":
				bad = true
			}
		}
		_ = i
	}
	jsutil.Walk(p.Body, func(n *jsref.Node) {
		if n.Type == jsref.NImportDecl || n.Type == jsref.NArrow && false {
			bad = true // unused imports are elided by the ts loader (documented)
		}
	})
	return bad
}

func judgeSame(c SameCase) vdrv.Verdict {
	if usesTSDifference(c.Code) {
		return vdrv.Skip("language-defined-ts-js-difference")
	}
	o := api.TransformOptions{LogLevel: api.LogLevelSilent}
	if c.Minify {
		o.MinifySyntax, o.MinifyWhitespace = true, true
	}
	o.Loader = api.LoaderJS
	rj := api.Transform(c.Code, o)
	o.Loader = api.LoaderTS
	rt := api.Transform(c.Code, o)
	if len(rj.Errors) > 0 {
		return vdrv.Skip("js-rejected")
	}
	if len(rt.Errors) > 0 {
		return vdrv.Fail("the ts loader rejects a JavaScript program the js loader accepts: "+rt.Errors[0].Text, "accepted", rt.Errors[0].Text)
	}
	if string(rj.Code) == string(rt.Code) {
		return vdrv.Pass(len(c.Code) > 40, "same")
	}
	return vdrv.Fail("the ts and js loaders compile a JavaScript program differently", string(rj.Code), string(rt.Code))
}

func replaySame(raw json.RawMessage) vdrv.Verdict {
	var c SameCase
	if json.Unmarshal(raw, &c) != nil {
		return vdrv.Skip("bad-replay")
	}
	return judgeSame(c)
}

func runSame(t *testing.T) {
	H.Rule("same", "rapid: plain JavaScript (jsgen programs, construct families, rare-production snippets) without imports and without the spellings TypeScript itself parses differently (relational/shift operators that can look like type arguments, TypeScript contextual keywords) × minify; oracle: Transform with loader ts == Transform with loader js, byte for byte")
	H.SetupRapid("same", H.N(4000, 200000))
	rapid.Check(t, func(rt *rapid.T) {
		var code string
		switch rapid.IntRange(0, 3).Draw(rt, "src") {
		case 0:
			code = rapid.SampledFrom(jslib.Families).Draw(rt, "family")
		case 1:
			code = rapid.SampledFrom(jslib.RareSnippets).Draw(rt, "rare")
		default:
			code = jsgen.Program(rt, jsgen.Config{Features: jsgen.FAll, Strict: rapid.Bool().Draw(rt, "strict"), MaxDepth: 3, MaxStmts: 6})
		}
		c := SameCase{Code: code, Minify: rapid.Bool().Draw(rt, "minify")}
		H.Report(rt, "same", fmt.Sprint(c), c, judgeSame(c))
	})
}

// ----------------------------------------------------------------------------- TS-only runtime constructs

type RunCase struct {
	TS        string `json:"ts"`        // TypeScript program
	Reference string `json:"reference"` // the JavaScript the TypeScript handbook/compiler defines for it
	Minify    bool   `json:"minify,omitempty"`
	UseDefine string `json:"use_define_for_class_fields,omitempty"` // "", true, false
	Kind      string `json:"kind"`
}

func judgeRun(c RunCase) vdrv.Verdict {
	ref, err := W.Script(c.Reference, false)
	if err != nil {
		return vdrv.Skip("node-infra")
	}
	if ref.ParseError != "" {
		return vdrv.Skip("reference-invalid:" + ref.ParseMessage)
	}
	o := api.TransformOptions{LogLevel: api.LogLevelSilent, Loader: api.LoaderTS}
	if c.Minify {
		o.MinifySyntax, o.MinifyWhitespace, o.MinifyIdentifiers = true, true, true
	}
	if c.UseDefine != "" {
		o.TsconfigRaw = fmt.Sprintf(`{"compilerOptions":{"useDefineForClassFields":%s}}`, c.UseDefine)
	}
	r := api.Transform(c.TS, o)
	if len(r.Errors) > 0 {
		return vdrv.Fail("esbuild rejects the TypeScript program: "+r.Errors[0].Text, "accepted", r.Errors[0].Text)
	}
	got, err := W.Script(string(r.Code), false)
	if err != nil {
		return vdrv.Skip("node-infra")
	}
	if ref.Trace() == got.Trace() {
		v := vdrv.Pass(len(ref.Events) >= 2, "kind="+c.Kind)
		v.Observed = fmt.Sprintf("%d events", len(ref.Events))
		return v
	}
	return vdrv.Fail("TypeScript-only construct behaves differently from its defined JavaScript meaning ("+c.Kind+")", ref.Trace(), got.Trace()+"\n--- output\n"+string(r.Code))
}

func replayRun(raw json.RawMessage) vdrv.Verdict {
	var c RunCase
	if json.Unmarshal(raw, &c) != nil {
		return vdrv.Skip("bad-replay")
	}
	return judgeRun(c)
}

// enum generator: members with constant-expression initialisers; the reference is the classic tsc emit.
func genEnum(rt *rapid.T, name string, pfx string, merged bool) (ts, ref, uses string) {
	n := rapid.IntRange(1, 6).Draw(rt, "nmembers")
	var tsb, rb strings.Builder
	fmt.Fprintf(&tsb, "enum %s { ", name)
	fmt.Fprintf(&rb, "var %s; (function (%s) { ", name, name)
	var numeric, stringy []string
	auto := 0.0
	autoOK := true
	if merged {
		// a later declaration of a merged enum: start with an explicit member so that auto-increment is defined
		fmt.Fprintf(&tsb, "%sZ = 50, ", pfx)
		fmt.Fprintf(&rb, "%s[%s[\"%sZ\"] = 50] = \"%sZ\"; ", name, name, pfx, pfx)
		numeric = append(numeric, pfx+"Z")
		auto = 51
	}
	for i := 0; i < n; i++ {
		m := fmt.Sprintf("%s%d", pfx, i)
		kind := rapid.IntRange(0, 9).Draw(rt, "mkind")
		switch {
		case kind <= 2 && autoOK: // auto-increment
			fmt.Fprintf(&tsb, "%s, ", m)
			if len(numeric) == 0 {
				fmt.Fprintf(&rb, "%s[%s[\"%s\"] = %v] = \"%s\"; ", name, name, m, auto, m)
			} else {
				prev := numeric[len(numeric)-1] // auto-increment continues from the previous (numeric) member
				fmt.Fprintf(&rb, "%s[%s[\"%s\"] = %s.%s + 1] = \"%s\"; ", name, name, m, name, prev, m)
			}
			numeric = append(numeric, m)
			auto++
		case kind <= 6: // numeric constant expression
			expr, rexpr := numExpr(rt, name, numeric, 2)
			fmt.Fprintf(&tsb, "%s = %s, ", m, expr)
			fmt.Fprintf(&rb, "%s[%s[\"%s\"] = %s] = \"%s\"; ", name, name, m, rexpr, m)
			numeric = append(numeric, m)
			autoOK = true
		default: // string member
			s := rapid.SampledFrom([]string{`"a"`, `"b c"`, `""`, "`tpl`", `"é"`, `"0"`}).Draw(rt, "str")
			expr, rexpr := s, s
			if len(stringy) > 0 && rapid.Bool().Draw(rt, "strref") {
				prev := stringy[rapid.IntRange(0, len(stringy)-1).Draw(rt, "sprev")]
				expr = prev + " + " + s
				rexpr = name + "." + prev + " + " + s
			}
			fmt.Fprintf(&tsb, "%s = %s, ", m, expr)
			fmt.Fprintf(&rb, "%s[\"%s\"] = %s; ", name, m, rexpr)
			stringy = append(stringy, m)
			autoOK = false
		}
	}
	tsb.WriteString("}")
	fmt.Fprintf(&rb, "})(%s || (%s = {}));", name, name)
	var u strings.Builder
	fmt.Fprintf(&u, "log(\"%s\", Object.keys(%s).sort().map(function (k) { return [k, %s[k]]; }));", name, name, name)
	for _, m := range append(append([]string{}, numeric...), stringy...) {
		fmt.Fprintf(&u, " log(%s.%s, %s[\"%s\"]);", name, m, name, m)
	}
	return tsb.String(), rb.String(), u.String()
}

func numExpr(rt *rapid.T, enum string, members []string, depth int) (string, string) {
	if depth == 0 || rapid.IntRange(0, 2).Draw(rt, "leaf") == 0 {
		if len(members) > 0 && rapid.Bool().Draw(rt, "memberref") {
			m := members[rapid.IntRange(0, len(members)-1).Draw(rt, "mref")]
			if rapid.Bool().Draw(rt, "qualified") {
				return enum + "." + m, enum + "." + m
			}
			return m, enum + "." + m
		}
		lit := rapid.SampledFrom([]string{"0", "1", "2", "7", "10", "0x10", "1.5", "1e3", "255", "-1", "4294967295", "2147483648"}).Draw(rt, "num")
		if strings.HasPrefix(lit, "-") {
			lit = "(" + lit + ")"
		}
		return lit, lit
	}
	if rapid.IntRange(0, 4).Draw(rt, "unary") == 0 {
		op := rapid.SampledFrom([]string{"-", "+", "~"}).Draw(rt, "uop")
		a, ra := numExpr(rt, enum, members, depth-1)
		return op + "(" + a + ")", op + "(" + ra + ")"
	}
	op := rapid.SampledFrom([]string{"+", "-", "*", "/", "%", "<<", ">>", ">>>", "&", "|", "^"}).Draw(rt, "bop")
	a, ra := numExpr(rt, enum, members, depth-1)
	b, rb := numExpr(rt, enum, members, depth-1)
	return "(" + a + ") " + op + " (" + b + ")", "(" + ra + ") " + op + " (" + rb + ")"
}

func runTSRuntime(t *testing.T) {
	H.Rule("tsruntime", "rapid: TypeScript-only runtime constructs printed both as TypeScript and as the JavaScript the language defines for them (classic tsc emit written by hand): enums (auto-increment, numeric constant expressions over earlier members, string members and concatenations, const enums inlined at uses, merged enums), namespaces (exported/unexported members, nesting, merging, functions closing over siblings), parameter properties (public/private/readonly, defaults, order relative to super() and to field initialisers with useDefineForClassFields true/false) × minify; oracle: V8 trace of the reference JavaScript vs esbuild's output")
	H.SetupRapid("tsruntime", H.N(3000, 150000))
	rapid.Check(t, func(rt *rapid.T) {
		c := RunCase{Minify: rapid.Bool().Draw(rt, "minify")}
		switch rapid.IntRange(0, 4).Draw(rt, "kind") {
		case 0, 1:
			c.Kind = "enum"
			ts1, ref1, use1 := genEnum(rt, "E", "M", false)
			c.TS, c.Reference = ts1+"\n"+use1, ref1+"\n"+use1
			if rapid.Bool().Draw(rt, "merge") {
				ts2, ref2, use2 := genEnum(rt, "E", "N", true)
				ref2 = strings.Replace(ref2, "var E; ", "", 1)
				c.TS += "\n" + ts2 + "\n" + use2
				c.Reference += "\n" + ref2 + "\n" + use2
				c.Kind = "enum-merged"
			}
		case 2:
			c.Kind = "const-enum"
			ts1, ref1, use1 := genEnum(rt, "CE", "M", false)
			c.TS = "const " + ts1 + "\n" + strings.Split(use1, " log(CE.")[0][:0] // the object itself must not be observed for a const enum
			var uses []string
			for _, part := range strings.Split(use1, ";") {
				if strings.Contains(part, "log(CE.") {
					uses = append(uses, strings.TrimSpace(part)+";")
				}
			}
			c.TS += strings.Join(uses, " ")
			c.Reference = ref1 + "\n" + strings.Join(uses, " ")
		case 3:
			c.Kind = "namespace"
			a, b := rapid.IntRange(1, 9).Draw(rt, "a"), rapid.IntRange(1, 9).Draw(rt, "b")
			c.TS = fmt.Sprintf(`namespace N { export const a = p(1, %d); const hidden = p(2, %d); export function f() { return a + hidden; } export namespace M { export const c = a * 2; export function g() { return f() + c; } } export let counter = 0; export function inc() { counter++; } }
namespace N { export const late = a + M.c; }
N.inc(); log(N.a, N.f(), N.M.c, N.M.g(), N.counter, N.late, Object.keys(N).sort(), typeof N.hidden);`, a, b)
			c.Reference = fmt.Sprintf(`var N; (function (N) { N.a = p(1, %d); const hidden = p(2, %d); function f() { return N.a + hidden; } N.f = f; let M; (function (M) { M.c = N.a * 2; function g() { return f() + M.c; } M.g = g; })(M = N.M || (N.M = {})); N.counter = 0; function inc() { N.counter++; } N.inc = inc; })(N || (N = {}));
(function (N) { N.late = N.a + N.M.c; })(N || (N = {}));
N.inc(); log(N.a, N.f(), N.M.c, N.M.g(), N.counter, N.late, Object.keys(N).sort(), typeof N.hidden);`, a, b)
		default:
			c.Kind = "parameter-properties"
			c.UseDefine = rapid.SampledFrom([]string{"", "true", "false"}).Draw(rt, "usedefine")
			derived := rapid.Bool().Draw(rt, "derived")
			ext, sup := "", ""
			if derived {
				ext, sup = " extends Base", "super(p(10, a)); "
			}
			c.TS = fmt.Sprintf(`class Base { constructor(x) { log("base", x, Object.keys(this)); } }
class C%s { constructor(public a: number, private b = p(1, 2), readonly c?: string, d = p(2, 4)) { %slog("body", this.a, this.b, this.c, d, Object.keys(this)); } }
log(new C(p(3, 1), undefined, "x"));`, ext, sup)
			c.Reference = fmt.Sprintf(`class Base { constructor(x) { log("base", x, Object.keys(this)); } }
class C%s { constructor(a, b = p(1, 2), c, d = p(2, 4)) { %sthis.a = a; this.b = b; this.c = c; log("body", this.a, this.b, this.c, d, Object.keys(this)); } }
log(new C(p(3, 1), undefined, "x"));`, ext, sup)
			if c.UseDefine == "true" {
				c.Kind = "parameter-properties-define"
				// with useDefineForClassFields the declared-but-unassigned order of own keys can differ: the reference
				// defines the properties in parameter order at the same place, which is also what tsc emits for ES2022
			}
		}
		H.Report(rt, "tsruntime", c.TS+fmt.Sprint(c.Minify, c.UseDefine), c, judgeRun(c))
	})
}

var subs = map[string]vdrv.ReplayFunc{"erase": replayErase, "same": replaySame, "tsruntime": replayRun,
	"importeq": replayImportEq, "enumx": replayEnumX, "fields": replayFields, "decor": replayDecor}

func setup(t *testing.T) {
	H = vdrv.New("C06")
	var err error
	W, err = noderun.Start("")
	if err != nil {
		t.Fatalf("INFRA: %v", err)
	}
}

func TestCheck(t *testing.T) {
	setup(t)
	defer W.Close()
	complete := false
	defer func() { H.Finish(complete) }()
	H.RunReplays(t, subs)
	H.Sub(t, "erase", runErase)
	H.Sub(t, "same", runSame)
	H.Sub(t, "tsruntime", runTSRuntime)
	H.Sub(t, "importeq", runImportEq)
	H.Sub(t, "enumx", runEnumX)
	H.Sub(t, "fields", runFields)
	H.Sub(t, "decor", runDecor)
	complete = true
}

func TestReplay(t *testing.T) {
	setup(t)
	defer W.Close()
	H.ReplayOne(t, subs)
}

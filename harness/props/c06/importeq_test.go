// C06 sub-check "importeq": `import x = require("…")`, `import x = A.B.C`, `export import`, `export =`.
package c06

import (
	"encoding/json"
	"fmt"
	"regexp"
	"strings"
	"testing"

	"github.com/evanw/esbuild/pkg/api"
	"github.com/evanw/esbuild/verif/noderun"
	"github.com/evanw/esbuild/verif/vdrv"
	"pgregory.net/rapid"
)

type ImportEqCase struct {
	Files     map[string]string `json:"files"`               // TypeScript sources; the entry is main.ts
	Reference string            `json:"reference"`           // CommonJS module body with the JavaScript meaning of the whole program
	Externals map[string]string `json:"externals,omitempty"` // specifier -> object literal
	Bundle    bool              `json:"bundle,omitempty"`
	Minify    string            `json:"minify,omitempty"`
	// Statements `import a = T.…;` inside a namespace body that are never used as a value and whose root
	// namespace has no runtime value (matcher of known finding C06-unused-import-alias-in-namespace).
	TypeAliasInNamespace []string `json:"type_alias_in_namespace,omitempty"`
	Features             []string `json:"features,omitempty"`
}

func (c ImportEqCase) compile(files map[string]string) (string, string) {
	minS, minW, minI := c.Minify != "", c.Minify == "all", c.Minify == "all"
	if !c.Bundle {
		r := api.Transform(files["main.ts"], api.TransformOptions{LogLevel: api.LogLevelSilent, Loader: api.LoaderTS, Format: api.FormatCommonJS,
			Sourcefile: "main.ts", MinifySyntax: minS, MinifyWhitespace: minW, MinifyIdentifiers: minI})
		if len(r.Errors) > 0 {
			return "", msgTexts(r.Errors)
		}
		return string(r.Code), ""
	}
	r := memBuild(files, "main.ts", api.BuildOptions{Format: api.FormatCommonJS, MinifySyntax: minS, MinifyWhitespace: minW, MinifyIdentifiers: minI})
	if len(r.Errors) > 0 {
		return "", msgTexts(r.Errors)
	}
	return firstOutput(r), ""
}

func (c ImportEqCase) run(code string) (*noderun.Resp, error) {
	return W.Call(noderun.Req{Kind: "cjs", Code: code, Externals: c.Externals})
}

var typeAliasStmt = regexp.MustCompile(`^import \w+ = [TD]\w*(\.\w+)*;$`)

// a top-level import-alias statement of the entry directly followed by another one or by a `const` statement
var adjacentAliases = regexp.MustCompile(`(?m)^import \w+ = [A-Za-z_][\w.]*;\n(import \w+ = [A-Za-z_][\w.]*;$|const )`)

// judgeImportEq judges the case and, when it fails, tries the two listed known findings as explanations:
//   - C06-unused-import-alias-in-namespace: the failure is a ReferenceError and disappears when the unused
//     type-only alias statements inside a namespace (which TypeScript never emits) are deleted;
//   - C06-minify-merges-import-alias: syntax minification is on, the entry has a top-level import-alias
//     statement directly followed by another one or by a `const` statement, the failure is a ReferenceError
//     and disappears without minification.
//
// A failure that neither (nor both together) explains is reported.
func judgeImportEq(c ImportEqCase) vdrv.Verdict {
	v := judgeImportEq1(c, c.Files)
	if v.OK || v.Discard != "" || !strings.Contains(v.Observed, "END throw:err:ReferenceError") {
		return v
	}
	var stripped map[string]string
	if len(c.TypeAliasInNamespace) > 0 {
		stripped = map[string]string{}
		for k, s := range c.Files {
			stripped[k] = s
		}
		for _, st := range c.TypeAliasInNamespace {
			if !typeAliasStmt.MatchString(st) {
				return v
			}
			stripped["main.ts"] = strings.Replace(stripped["main.ts"], st, "", 1)
		}
	}
	unminified := c
	unminified.Minify = ""
	merges := c.Minify != "" && adjacentAliases.MatchString(c.Files["main.ts"])
	passes := func(cc ImportEqCase, files map[string]string) bool {
		w := judgeImportEq1(cc, files)
		return w.OK && w.Discard == ""
	}
	switch {
	case stripped != nil && passes(c, stripped):
		v.Known = "C06-unused-import-alias-in-namespace"
	case merges && passes(unminified, c.Files):
		v.Known = "C06-minify-merges-import-alias"
	case stripped != nil && merges && passes(unminified, stripped):
		v.Known = "C06-unused-import-alias-in-namespace"
	}
	return v
}

func judgeImportEq1(c ImportEqCase, files map[string]string) vdrv.Verdict {
	ref, err := c.run(c.Reference)
	if err != nil {
		return vdrv.Skip("node-infra")
	}
	if ref.ParseError != "" {
		return vdrv.Skip("reference-invalid:" + ref.ParseMessage)
	}
	if ref.Timeout {
		return vdrv.Skip("reference-timeout")
	}
	code, errs := c.compile(files)
	if errs != "" {
		return vdrv.Fail("esbuild rejects the TypeScript program: "+errs, "accepted", errs)
	}
	got, err := c.run(code)
	if err != nil {
		return vdrv.Skip("node-infra")
	}
	cls := []string{fmt.Sprintf("bundle=%v", c.Bundle), "minify=" + c.Minify}
	for _, f := range c.Features {
		cls = append(cls, "has="+f)
	}
	if ref.Trace() == got.Trace() {
		v := vdrv.Pass(len(ref.Events) >= 3 && len(c.Features) >= 2, cls...)
		v.Observed = fmt.Sprintf("%d events", len(ref.Events))
		return v
	}
	return vdrv.Fail(fmt.Sprintf("import-equals / export-equals program behaves differently from its TypeScript-defined meaning (bundle=%v minify=%s)", c.Bundle, c.Minify),
		ref.Trace(), got.Trace()+"\n--- output\n"+code)
}

func replayImportEq(raw json.RawMessage) vdrv.Verdict {
	var c ImportEqCase
	if json.Unmarshal(raw, &c) != nil {
		return vdrv.Skip("bad-replay")
	}
	return judgeImportEq(c)
}

// ----------------------------------------------------------------------------- generator

type ieGen struct {
	G
	id    int
	feats []string
}

func (g *ieGen) nextID() int   { g.id++; return g.id }
func (g *ieGen) feat(s string) { g.feats = append(g.feats, s) }

// An internal module of the bundle: TypeScript text, its CommonJS meaning, and how a requirer observes it.
type ieModule struct {
	name    string // "./m1"
	ts, ref string
	use     func(alias string) string // statements (valid both as TS and JS) that observe the required value
	esm     bool                      // uses ES exports: the required value is a module namespace (emulation), observed through members only
}

func (g *ieGen) module(name string, deps []ieModule, externals []string) ieModule {
	m := ieModule{name: "./" + name}
	var ts, ref strings.Builder
	both := func(s string) { ts.WriteString(s); ref.WriteString(s) }
	both(fmt.Sprintf("log(\"%s evaluated\");\n", name))
	extra := "0"
	// the module's own import-equals requires (always used as a value)
	if len(externals) > 0 && g.chance("modext", 50) {
		e := externals[g.n("whichext", len(externals))]
		fmt.Fprintf(&ts, "import e = require(%q);\n", e)
		fmt.Fprintf(&ref, "var e = require(%q);\n", e)
		extra = "e.a"
		g.feat("require-external-in-dependency")
	}
	if len(deps) > 0 && g.chance("moddep", 60) {
		d := deps[g.n("whichdep", len(deps))]
		fmt.Fprintf(&ts, "import dep = require(%q);\n", d.name)
		fmt.Fprintf(&ref, "var dep = __load(%q);\n", d.name)
		both(d.use("dep") + "\n")
		g.feat("require-chain")
	}
	id := g.nextID()
	switch g.n("modkind", 5) {
	case 0:
		fmt.Fprintf(&ts, "export = { v: p(%d, %s), f() { return \"%s.f\"; } };\n", id, extra, name)
		fmt.Fprintf(&ref, "module.exports = { v: p(%d, %s), f() { return \"%s.f\"; } };\n", id, extra, name)
		m.use = func(a string) string { return fmt.Sprintf("log(\"%s\", %s.v, %s.f());", name, a, a) }
		g.feat("export-equals-object")
	case 1:
		both(fmt.Sprintf("class K { static sm() { return p(%d, %s); } m() { return \"%s.K.m\"; } }\n", id, extra, name))
		ts.WriteString("export = K;\n")
		ref.WriteString("module.exports = K;\n")
		m.use = func(a string) string { return fmt.Sprintf("log(\"%s\", %s.sm(), new %s().m());", name, a, a) }
		g.feat("export-equals-class")
	case 2:
		both(fmt.Sprintf("function fn(x) { return p(%d, %s) + x; }\n", id, extra))
		ts.WriteString("export = fn;\n")
		ref.WriteString("module.exports = fn;\n")
		m.use = func(a string) string { return fmt.Sprintf("log(\"%s\", %s(1));", name, a) }
		g.feat("export-equals-function")
	case 3:
		fmt.Fprintf(&ts, "namespace NS { export const q = p(%d, %s); export function g() { return q; } }\nexport = NS;\n", id, extra)
		fmt.Fprintf(&ref, "var NS; (function (NS) { NS.q = p(%d, %s); function g() { return NS.q; } NS.g = g; })(NS || (NS = {}));\nmodule.exports = NS;\n", id, extra)
		m.use = func(a string) string { return fmt.Sprintf("log(\"%s\", %s.q, %s.g());", name, a, a) }
		g.feat("export-equals-namespace")
	default:
		fmt.Fprintf(&ts, "export const a = p(%d, %s);\nexport function f() { return [a, counter]; }\nexport let counter = 0;\nexport function inc() { counter++; }\n", id, extra)
		fmt.Fprintf(&ref, "exports.a = p(%d, %s);\nfunction f() { return [exports.a, exports.counter]; }\nexports.f = f;\nexports.counter = 0;\nfunction inc() { exports.counter++; }\nexports.inc = inc;\n", id, extra)
		m.use = func(a string) string {
			return fmt.Sprintf("log(\"%s\", %s.a, %s.f()); %s.inc(); log(\"%s counter\", %s.counter);", name, a, a, a, name, a)
		}
		g.feat("require-of-es-module")
		m.esm = true
	}
	m.ts, m.ref = ts.String(), ref.String()
	return m
}

// The namespaces that alias statements point into.
type tgtInfo struct {
	kind string // value | fn | ns | enum | constenum | type | typens | ambient | ambientns
	kids []string
}

var aliasTargets = map[string]tgtInfo{
	"N": {"ns", []string{"y", "w", "M", "E", "CE", "I", "Ty"}}, "N.y": {"value", nil}, "N.w": {"value", nil}, "N.M": {"ns", []string{"z", "f"}},
	"N.M.z": {"value", nil}, "N.M.f": {"fn", nil}, "N.E": {"enum", nil}, "N.CE": {"constenum", nil}, "N.I": {"type", nil}, "N.Ty": {"type", nil},
	"T": {"typens", []string{"I", "T2"}}, "T.I": {"type", nil}, "T.T2": {"typens", []string{"Q"}}, "T.T2.Q": {"type", nil},
	"D": {"ambientns", []string{"x", "Inner"}}, "D.x": {"ambient", nil}, "D.Inner": {"ambientns", []string{"y"}}, "D.Inner.y": {"ambient", nil},
}

type ieAlias struct {
	name     string
	written  string // the entity name as written (may start with an earlier alias)
	path     string // canonical path
	base     *ieAlias
	inNS     bool
	exported bool
	valueUse bool
	typeUse  bool
	emitted  bool
}

func nsLike(kind string) bool { return kind == "ns" || kind == "typens" || kind == "ambientns" }

// valueObs prints statements observing an alias of the given target through the expression e.
func valueObs(label, e, path string) string {
	switch aliasTargets[path].kind {
	case "fn":
		return fmt.Sprintf("log(%q, %s());", label, e)
	case "ns":
		if path == "N" {
			return fmt.Sprintf("log(%q, %s.y, %s.M.z);", label, e, e)
		}
		return fmt.Sprintf("log(%q, %s.z, %s.f());", label, e, e)
	case "enum":
		return fmt.Sprintf("log(%q, %s.A, %s.B, %s[%s.A]);", label, e, e, e, e)
	case "constenum":
		return fmt.Sprintf("log(%q, %s.X);", label, e)
	}
	return fmt.Sprintf("log(%q, %s);", label, e)
}

func typeObs(a *ieAlias) string {
	n := a.name
	ty := "typeof " + n
	switch a.path {
	case "N", "T":
		ty = n + ".I"
	case "N.M":
		ty = "typeof " + n + ".z"
	case "T.T2":
		ty = n + ".Q"
	case "D":
		ty = "typeof " + n + ".x"
	case "D.Inner":
		ty = "typeof " + n + ".y"
	default:
		switch aliasTargets[a.path].kind {
		case "type", "enum", "constenum":
			ty = n
		}
	}
	return fmt.Sprintf("let v_%s: %s | undefined;", n, ty)
}

// alias draws `import name = <entity name>`: the entity name starts at a root namespace or at an earlier
// namespace-like alias in scope and descends zero or more members.
func (g *ieGen) alias(name string, scope []*ieAlias, inNS bool, typeRootPct int) *ieAlias {
	a := &ieAlias{name: name, inNS: inNS}
	var nsAliases []*ieAlias
	for _, s := range scope {
		if nsLike(aliasTargets[s.path].kind) && (strings.HasPrefix(s.path, "N") || typeRootPct >= 30) {
			nsAliases = append(nsAliases, s)
		}
	}
	cur := "N"
	a.written = "N"
	switch {
	case len(nsAliases) > 0 && g.chance("chain", 40):
		a.base = nsAliases[g.n("base", len(nsAliases))]
		cur, a.written = a.base.path, a.base.name
	case g.chance("typeroot", typeRootPct):
		cur = g.pick("root", []string{"T", "D"})
		a.written = cur
	}
	steps := 0
	for len(aliasTargets[cur].kids) > 0 {
		stop := 35
		if steps == 0 {
			stop = 12 // `import n = N`, `import b = a`: the whole namespace / an alias of an alias
		}
		if steps >= 1 && g.chance("stop", stop) || steps == 0 && g.n("stop0", 100) >= 100-stop {
			break
		}
		kids := aliasTargets[cur].kids
		kid := kids[g.n("kid", len(kids))]
		cur += "." + kid
		a.written += "." + kid
		steps++
	}
	a.path = cur
	return a
}

// refExpr is the entity name of an alias as the reference program spells it: earlier aliases are
// variables of the same name, or X.name for an exported alias inside namespace X.
func refExpr(a *ieAlias) string {
	if a.base != nil && a.base.exported && a.base.inNS {
		return "X." + a.written
	}
	return a.written
}

func (g *ieGen) emitAlias(ts, ref *strings.Builder, c *ImportEqCase, a *ieAlias) {
	ex := ""
	if a.exported {
		ex = "export "
	}
	stmt := fmt.Sprintf("import %s = %s;", a.name, a.written)
	fmt.Fprintf(ts, "%s%s\n", ex, stmt)
	if !strings.HasPrefix(a.path, "N") {
		g.feat("alias-of-type-only-namespace-elided")
		if a.inNS {
			c.TypeAliasInNamespace = append(c.TypeAliasInNamespace, stmt)
			g.feat("type-only-alias-inside-namespace")
		}
	}
	if a.emitted {
		switch {
		case a.exported && a.inNS:
			// an exported alias inside a namespace is a property of the namespace object
			fmt.Fprintf(ref, "X.%s = %s;\n", a.name, refExpr(a))
		case a.exported:
			fmt.Fprintf(ref, "var %s = %s;\nexports.%s = %s;\n", a.name, refExpr(a), a.name, a.name)
		default:
			fmt.Fprintf(ref, "var %s = %s;\n", a.name, refExpr(a))
		}
	}
	if a.base != nil {
		g.feat("alias-chain")
	}
	if a.valueUse {
		ts.WriteString(valueObs(a.name, a.name, a.path) + "\n")
		if a.exported && a.inNS {
			ref.WriteString(valueObs(a.name, "X."+a.name, a.path) + "\n")
		} else {
			ref.WriteString(valueObs(a.name, a.name, a.path) + "\n")
		}
		g.feat("alias-used-as-value:" + aliasTargets[a.path].kind)
	}
	if a.typeUse {
		ts.WriteString(typeObs(a) + "\n")
		g.feat("alias-used-as-type-only")
	}
}

func genImportEqCase(rt *rapid.T) ImportEqCase {
	g := &ieGen{G: G{rt}}
	c := ImportEqCase{Files: map[string]string{}, Externals: map[string]string{}}
	c.Bundle = g.chance("bundle", 55)
	c.Minify = g.pick("minify", []string{"", "", "syntax", "all"})
	externals := []string{"ext1", "ext2"}
	c.Externals["ext1"] = `{ a: 11, f: function () { return "ext1.f"; } }`
	c.Externals["ext2"] = `{ a: 22, f: function () { return "ext2.f"; } }`
	extUse := func(spec string) func(string) string {
		return func(a string) string { return fmt.Sprintf("log(%q, %s.a, %s.f());", spec, a, a) }
	}

	var mods []ieModule
	if c.Bundle {
		nm := g.rng("nmods", 1, 3)
		for i := 0; i < nm; i++ {
			mods = append(mods, g.module(fmt.Sprintf("m%d", i+1), mods, externals))
		}
	}

	var ts, ref strings.Builder
	both := func(s string) { ts.WriteString(s); ref.WriteString(s) }
	if c.Bundle {
		ref.WriteString("var __defs = {\n")
		for _, m := range mods {
			fmt.Fprintf(&ref, "%q: function (module, exports) {\n%s},\n", m.name, m.ref)
			c.Files[strings.TrimPrefix(m.name, "./")+".ts"] = m.ts
		}
		ref.WriteString("};\nvar __cache = {};\nfunction __load(name) { if (__cache[name]) return __cache[name].exports; var m = __cache[name] = { exports: {} }; __defs[name].call(m.exports, m, m.exports); return m.exports; }\n")
	}
	both("log(\"main start\");\n")
	hasExportEquals := g.chance("exportequals", 35)

	// ---- import x = require(...)
	nreq := g.rng("nreq", 0, 4)
	for i := 0; i < nreq; i++ {
		alias := fmt.Sprintf("r%d", i+1)
		var spec, load string
		var use func(string) string
		exportable := true
		if len(mods) > 0 && g.chance("internal", 65) {
			m := mods[g.n("whichmod", len(mods))]
			spec, load, use = m.name, fmt.Sprintf("__load(%q)", m.name), m.use
			exportable = !m.esm // the shape of a namespace object (getters or data properties) is not part of the property
			g.feat("require-internal")
		} else {
			e := externals[g.n("whichext", 2)]
			spec, load, use = e, fmt.Sprintf("require(%q)", e), extUse(e)
			g.feat("require-external")
		}
		export := ""
		if !hasExportEquals && exportable && g.chance("exportimport", 15) {
			export = "export "
			g.feat("export-import-require")
		}
		if g.chance("marker", 40) {
			both(fmt.Sprintf("log(\"before %s\");\n", alias))
		}
		fmt.Fprintf(&ts, "%simport %s = require(%q);\n", export, alias, spec)
		fmt.Fprintf(&ref, "var %s = %s;\n", alias, load)
		if export != "" {
			fmt.Fprintf(&ref, "exports.%s = %s;\n", alias, alias)
		}
		// every require alias is used as a value (an unused one is elided by tsc but kept by esbuild)
		if g.chance("useinfn", 25) {
			both(fmt.Sprintf("function use_%s() { %s }\nuse_%s();\n", alias, use(alias), alias))
		} else {
			both(use(alias) + "\n")
		}
	}

	// ---- import x = A.B.C
	nalias := g.rng("nalias", 0, 6)
	if nreq == 0 && nalias < 2 {
		nalias = 2
	}
	if nalias > 0 {
		g.feat("namespace-alias")
		v := func() int { return g.rng("val", 1, 9) }
		idy, y, w, z, ea, cex := g.nextID(), v(), v(), v(), v(), v()
		fmt.Fprintf(&ts, "namespace N { export const y = p(%d, %d); export let w = %d; export namespace M { export let z = %d; export function f() { return z + w; } } export enum E { A = %d, B } export const enum CE { X = %d } export interface I { a: number } export type Ty = string; }\n", idy, y, w, z, ea, cex)
		fmt.Fprintf(&ref, "var N; (function (N) { N.y = p(%d, %d); N.w = %d; let M; (function (M) { M.z = %d; function f() { return M.z + N.w; } M.f = f; })(M = N.M || (N.M = {})); let E; (function (E) { E[E[\"A\"] = %d] = \"A\"; E[E[\"B\"] = %d] = \"B\"; })(E = N.E || (N.E = {})); let CE; (function (CE) { CE[CE[\"X\"] = %d] = \"X\"; })(CE = N.CE || (N.CE = {})); })(N || (N = {}));\n", idy, y, w, z, ea, ea+1, cex)
		ts.WriteString("namespace T { export interface I { b: string } export namespace T2 { export type Q = number; } }\n")
		ts.WriteString("declare namespace D { const x: number; namespace Inner { const y: string; } }\n")

		nsCount := 0
		if nalias >= 2 && g.chance("innamespace", 55) {
			nsCount = g.rng("nscount", 1, nalias)
		}
		var all []*ieAlias
		for i := 0; i < nalias; i++ {
			inNS := i >= nalias-nsCount
			typeRootPct := 35
			if inNS {
				typeRootPct = 9 // the shape of the known finding stays infrequent
			}
			a := g.alias(fmt.Sprintf("a%d", i+1), all, inNS, typeRootPct)
			rootIsValue := strings.HasPrefix(a.path, "N")
			isValue := rootIsValue && aliasTargets[a.path].kind != "type"
			switch u := g.n("usekind", 10); {
			case u < 5 && isValue:
				a.valueUse = true
			case u < 8:
				a.typeUse = true
			}
			switch {
			case isValue && !inNS && !hasExportEquals && g.chance("exportalias", 12):
				a.exported = true
			case isValue && inNS && g.chance("exportaliasns", 20):
				a.exported = true
			}
			all = append(all, a)
		}
		// an alias is emitted iff it denotes a value and is referenced as a value: directly, by being
		// exported, or as the base of an emitted alias
		for i := len(all) - 1; i >= 0; i-- {
			a := all[i]
			if strings.HasPrefix(a.path, "N") && aliasTargets[a.path].kind != "type" && (a.valueUse || a.exported) {
				a.emitted = true
			}
			if a.emitted && a.base != nil {
				a.base.emitted = true
			}
		}
		var top, inns []*ieAlias
		for _, a := range all {
			if a.inNS {
				inns = append(inns, a)
			} else {
				top = append(top, a)
			}
		}
		for _, a := range top {
			if a.exported {
				g.feat("export-import-alias")
			}
			g.emitAlias(&ts, &ref, &c, a)
		}
		if len(inns) > 0 {
			g.feat("alias-inside-namespace")
			onlyAliases := true
			for _, a := range inns {
				if a.exported || a.valueUse || a.typeUse {
					onlyAliases = false
				}
			}
			if onlyAliases && g.chance("nsempty", 60) {
				// a namespace consisting of unexported aliases only has no runtime value
				ts.WriteString("namespace X {\n")
				for _, a := range inns {
					fmt.Fprintf(&ts, "import %s = %s;\n", a.name, a.written)
				}
				ts.WriteString("}\n")
				both("log(\"typeof X\", typeof X);\n")
				g.feat("namespace-of-unexported-aliases-only")
			} else {
				ts.WriteString("namespace X {\n")
				ref.WriteString("var X; (function (X) {\n")
				for _, a := range inns {
					g.emitAlias(&ts, &ref, &c, a)
				}
				id := g.nextID()
				fmt.Fprintf(&ts, "export const q = p(%d, 1);\n}\n", id)
				fmt.Fprintf(&ref, "X.q = p(%d, 1);\n})(X || (X = {}));\n", id)
				both("log(\"X\", Object.keys(X).sort(), X.q);\n")
				for _, a := range inns {
					if a.exported {
						both(valueObs("X."+a.name, "X."+a.name, a.path) + "\n")
						g.feat("export-import-inside-namespace")
					}
				}
			}
		}
		// aliases are snapshots taken where the statement stands
		if g.chance("mutate", 40) {
			both("N.w = 100; N.M.z = 200;\n")
			for _, a := range top {
				if a.valueUse {
					both(valueObs(a.name+" after mutation", a.name, a.path) + "\n")
				}
			}
			g.feat("alias-is-a-snapshot")
		}
	}
	if hasExportEquals {
		id := g.nextID()
		switch g.n("eqkind", 3) {
		case 0:
			fmt.Fprintf(&ts, "export = { main: p(%d, 1) };\n", id)
			fmt.Fprintf(&ref, "module.exports = { main: p(%d, 1) };\n", id)
		case 1:
			both(fmt.Sprintf("function entry() { return p(%d, 2); }\n", id))
			// (a function exported directly would expose Function#name, which minification may change)
			ts.WriteString("export = { run: entry, value: entry() };\n")
			ref.WriteString("module.exports = { run: entry, value: entry() };\n")
		default:
			both(fmt.Sprintf("const result = [p(%d, 3)];\n", id))
			ts.WriteString("export = result;\n")
			ref.WriteString("module.exports = result;\n")
		}
		g.feat("export-equals-in-entry")
	}
	c.Files["main.ts"] = ts.String()
	c.Reference = ref.String()
	c.Features = uniq(g.feats)
	return c
}

func runImportEq(t *testing.T) {
	H.Rule("importeq", "rapid: a CommonJS-style TypeScript entry (optionally bundled with 1–3 internal modules that end in `export = object | class | function | namespace` or use ES exports, and that require each other and externals through import-equals) made of `import r = require(\"…\")` statements placed between log markers (every require alias is used as a value, directly or inside a function), `export import r = require(…)`, and `import a = N.x.y` aliases into an instantiated namespace (values, functions, nested namespaces, enums, const enums, types), a type-only namespace and a `declare namespace`: chains of aliases, aliases of aliases, aliases used as values / only as types / not at all, `export import` at top level and inside a namespace, aliases inside a namespace body, a namespace consisting only of unexported aliases, mutation of the namespace after the alias (aliases are snapshots), `export =` in the entry; × bundle (format cjs) or transform (format cjs) × minify. The JavaScript meaning is written by hand: require in statement position (a 10-line module cache for internal modules), `var a = N.x.y` iff the alias denotes a value and is referenced as a value (directly, exported, or as the base of such an alias), nothing otherwise, `X.a = …` for an exported alias inside namespace X, no object for a namespace without value members, `module.exports = v` for `export =`. Oracle: V8 trace (log events, require order of externals, module.exports) of esbuild's output == that of the meaning. Excluded: unused `import x = require()` (tsc elides it, esbuild documents that it keeps it), use before the alias statement, observing the key set of a namespace that contains a const enum. non-trivial = ≥3 events and ≥2 features")
	H.SetupRapid("importeq", H.N(2000, 40000))
	rapid.Check(t, func(rt *rapid.T) {
		c := genImportEqCase(rt)
		H.Report(rt, "importeq", filesText(c.Files)+fmt.Sprint(c.Bundle, c.Minify), c, judgeImportEq(c))
	})
}

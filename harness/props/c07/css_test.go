package c07

import (
	"encoding/json"
	"fmt"
	"path"
	"regexp"
	"sort"
	"strings"
	"testing"

	"github.com/evanw/esbuild/pkg/api"
	"github.com/evanw/esbuild/verif/jsref"
	"github.com/evanw/esbuild/verif/smref"
	"github.com/evanw/esbuild/verif/vdrv"
	"pgregory.net/rapid"
)

// ----------------------------------------------------------------------------- CSS source maps (sub-check "css")
//
// The same marker idea for style sheets: type selectors, class names, property names, value identifiers, dimensions and
// strings are unique markers. Only LF, CRLF and CR separate lines (CSS also counts FF, JavaScript also U+2028/9; the
// generator uses neither, so both conventions agree).

type cssTok struct {
	kind  byte // 'i' identifier, 'n' number/dimension, 's' string, 'p' punctuation
	start int
	text  string
}

func isCSSIdentByte(b byte) bool {
	return b >= 0x80 || b == '_' || b == '-' || b >= '0' && b <= '9' || b >= 'a' && b <= 'z' || b >= 'A' && b <= 'Z'
}

// scanCSS is a positional scanner for the CSS this check writes and esbuild prints: comments and white space are
// skipped, strings honour backslash escapes, a number swallows its unit.
func scanCSS(src string) []cssTok {
	var out []cssTok
	for i := 0; i < len(src); {
		c := src[i]
		switch {
		case c == ' ' || c == '\t' || c == '\n' || c == '\r' || c == '\f':
			i++
		case c == '/' && i+1 < len(src) && src[i+1] == '*':
			j := strings.Index(src[i+2:], "*/")
			if j < 0 {
				return out
			}
			i += j + 4
		case c == '"' || c == '\'':
			j := i + 1
			for j < len(src) && src[j] != c {
				if src[j] == '\\' {
					j++
				}
				j++
			}
			if j >= len(src) {
				return out
			}
			out = append(out, cssTok{'s', i, src[i : j+1]})
			i = j + 1
		case c >= '0' && c <= '9':
			j := i
			for j < len(src) && (isCSSIdentByte(src[j]) || src[j] == '.' && j+1 < len(src) && src[j+1] >= '0' && src[j+1] <= '9') {
				j++
			}
			out = append(out, cssTok{'n', i, src[i:j]})
			i = j
		case isCSSIdentByte(c) || c == '\\':
			j := i
			for j < len(src) && (isCSSIdentByte(src[j]) || src[j] == '\\') {
				if src[j] == '\\' {
					j++
				}
				j++
			}
			if j > len(src) {
				j = len(src)
			}
			out = append(out, cssTok{'i', i, src[i:j]})
			i = j
		default:
			out = append(out, cssTok{'p', i, src[i : i+1]})
			i++
		}
	}
	return out
}

var cssMarkerIdent = regexp.MustCompile(`^mk\d+_\d+$`)
var cssMarkerDim = regexp.MustCompile(`^9\d{4}\d+px$`)
var cssMarkerStr = regexp.MustCompile(`^["']s\d+_\d+`)

func cssMarkerKey(t cssTok) (string, bool) {
	switch t.kind {
	case 'i':
		if cssMarkerIdent.MatchString(t.text) {
			return "I:" + t.text, true
		}
	case 'n':
		if cssMarkerDim.MatchString(t.text) {
			return "N:" + t.text, true
		}
	case 's':
		if m := cssMarkerStr.FindString(t.text); m != "" {
			return "S:" + m[1:], true
		}
	}
	return "", false
}

type cssGen struct {
	t    *rapid.T
	next int
	file int
	sb   strings.Builder
}

var cssWS = []string{" ", "", " ", "\n", "\r\n", "\t", "  ", " /* é */ ", " /* 😀😀 */ ", "\n  ", "\r", " /* 𝒳\r\n𝒳 */ ", "\n\n", "/**/"}

func (g *cssGen) ws() string { return pick(g.t, "cssws", cssWS) }
func (g *cssGen) ws1() string {
	for {
		if s := g.ws(); s != "" && s != "/**/" {
			return s
		}
	}
}
func (g *cssGen) id() int       { g.next++; return g.next }
func (g *cssGen) ident() string { return fmt.Sprintf("mk%d_%d", g.id(), g.file) }
func (g *cssGen) dim() string   { return fmt.Sprintf("9%04d%dpx", g.id(), g.file) }
func (g *cssGen) str() string {
	q := pick(g.t, "cssq", []string{"\"", "'"})
	return fmt.Sprintf("%ss%d_%d%s%s", q, g.id(), g.file, pick(g.t, "cssstr", []string{"", "é", "😀", " x", "𝒳𝒳"}), q)
}

func (g *cssGen) value() string {
	n := 1 + uniform(g.t, "cssnvals", 3)
	var parts []string
	for i := 0; i < n; i++ {
		switch uniform(g.t, "cssval", 4) {
		case 0:
			parts = append(parts, g.ident())
		case 1:
			parts = append(parts, g.str())
		default:
			parts = append(parts, g.dim())
		}
	}
	return strings.Join(parts, g.ws1())
}

func (g *cssGen) rule(depth int, local bool) {
	w := func(s string) { g.sb.WriteString(s) }
	sel := g.ident()
	if local && boolGen.Draw(g.t, "cssclass") {
		sel = "." + g.ident()
		if boolGen.Draw(g.t, "csscompound") {
			sel = g.ident() + sel
		}
	}
	if boolGen.Draw(g.t, "csssel2") {
		sel += g.ws() + pick(g.t, "csscomb", []string{",", ">", "+", "~"}) + g.ws() + g.ident()
	}
	w(sel + g.ws() + "{" + g.ws())
	for i, n := 0, 1+uniform(g.t, "cssndecl", 3); i < n; i++ {
		w(g.ident() + g.ws() + ":" + g.ws() + g.value() + g.ws() + ";" + g.ws())
	}
	if depth > 0 && uniform(g.t, "cssnest", 3) == 0 {
		w("&" + g.ws1())
		g.rule(depth-1, local)
	}
	w("}" + g.ws())
}

func (g *cssGen) sheet(imports []string, local bool) string {
	for _, im := range imports {
		g.sb.WriteString(im + g.ws())
	}
	for i, n := 0, 1+uniform(g.t, "cssnrules", 4); i < n; i++ {
		switch uniform(g.t, "cssrule", 4) {
		case 0:
			g.sb.WriteString("@media" + g.ws1() + "(min-width:" + g.ws() + g.dim() + ")" + g.ws() + "{" + g.ws())
			g.rule(1, local)
			g.sb.WriteString("}" + g.ws())
		default:
			g.rule(1, local)
		}
	}
	return g.sb.String()
}

type CSSCase struct {
	Files      map[string]string `json:"files"` // c0.css is the entry
	Local      bool              `json:"local_css,omitempty"`
	Bundle     bool              `json:"bundle"`
	Minify     string            `json:"minify,omitempty"` // "", ws, all
	Charset    string            `json:"charset,omitempty"`
	SourceMap  string            `json:"sourcemap"`
	NoContent  bool              `json:"no_sources_content,omitempty"`
	Banner     string            `json:"banner,omitempty"`
	Footer     string            `json:"footer,omitempty"`
	SourceRoot string            `json:"source_root,omitempty"`
	Compose    bool              `json:"compose,omitempty"`
}

func genCSSCase(rt *rapid.T) CSSCase {
	c := CSSCase{Files: map[string]string{}}
	n := 1 + uniform(rt, "cssnfiles", 3)
	c.Bundle = n > 1 || boolGen.Draw(rt, "cssbundle")
	c.Local = uniform(rt, "csslocal", 3) == 0
	for i := n - 1; i >= 0; i-- {
		g := &cssGen{t: rt, file: i}
		var imports []string
		if i == 0 {
			for j := 1; j < n; j++ {
				imports = append(imports, fmt.Sprintf("@import \"./c%d.css\";", j))
			}
		}
		c.Files[fmt.Sprintf("c%d.css", i)] = g.sheet(imports, c.Local)
	}
	c.SourceMap = pick(rt, "mode", []string{"linked", "inline", "external", "both"})
	c.NoContent = uniform(rt, "nocontent", 4) == 0
	c.Minify = pick(rt, "minify", []string{"", "ws", "all"})
	c.Charset = pick(rt, "charset", []string{"", "utf8", "utf8", "ascii"})
	if uniform(rt, "banner", 3) == 0 {
		c.Banner = pick(rt, "cssbanner", []string{"/* banner */", "/* é😀\r\n 𝒳 */", "/* a */\n/* b */"})
	}
	if uniform(rt, "footer", 4) == 0 {
		c.Footer = pick(rt, "cssfooter", []string{"/* footer */", "/* é😀 */"})
	}
	c.SourceRoot = pick(rt, "sourceroot", []string{"", "", "https://example.com/src/"})
	c.Compose = uniform(rt, "compose", 4) == 0
	return c
}

func judgeCSS(c CSSCase) vdrv.Verdict {
	loader := api.LoaderCSS
	if c.Local {
		loader = api.LoaderLocalCSS
	}
	inputs := c.Files
	if c.Compose {
		inputs = map[string]string{}
		for name, src := range c.Files {
			r := api.Transform(src, api.TransformOptions{LogLevel: api.LogLevelSilent, Sourcemap: api.SourceMapInline, Sourcefile: "/in/" + name, MinifyWhitespace: true, Loader: api.LoaderCSS})
			if len(r.Errors) > 0 {
				return vdrv.Skip("first-pass-error:" + r.Errors[0].Text)
			}
			inputs[name] = string(r.Code)
		}
	}
	o := api.BuildOptions{LogLevel: api.LogLevelSilent, Write: false, Outdir: "/in/out", AbsWorkingDir: "/in", Bundle: c.Bundle, SourceRoot: c.SourceRoot,
		EntryPoints: []string{"/in/c0.css"}}
	switch c.SourceMap {
	case "inline":
		o.Sourcemap = api.SourceMapInline
	case "external":
		o.Sourcemap = api.SourceMapExternal
	case "both":
		o.Sourcemap = api.SourceMapInlineAndExternal
	default:
		o.Sourcemap = api.SourceMapLinked
	}
	if c.NoContent {
		o.SourcesContent = api.SourcesContentExclude
	}
	switch c.Minify {
	case "ws":
		o.MinifyWhitespace = true
	case "all":
		o.MinifyWhitespace, o.MinifySyntax, o.MinifyIdentifiers = true, true, true
	}
	switch c.Charset {
	case "utf8":
		o.Charset = api.CharsetUTF8
	case "ascii":
		o.Charset = api.CharsetASCII
	}
	if c.Banner != "" {
		o.Banner = map[string]string{"css": c.Banner}
	}
	if c.Footer != "" {
		o.Footer = map[string]string{"css": c.Footer}
	}
	o.Plugins = []api.Plugin{{Name: "mem", Setup: func(b api.PluginBuild) {
		b.OnResolve(api.OnResolveOptions{Filter: ".*"}, func(a api.OnResolveArgs) (api.OnResolveResult, error) {
			p := a.Path
			if strings.HasPrefix(p, "./") {
				p = "/in/" + p[2:]
			}
			return api.OnResolveResult{Path: p, Namespace: "file"}, nil
		})
		b.OnLoad(api.OnLoadOptions{Filter: ".*", Namespace: "file"}, func(a api.OnLoadArgs) (api.OnLoadResult, error) {
			s, ok := inputs[strings.TrimPrefix(a.Path, "/in/")]
			if !ok {
				return api.OnLoadResult{}, fmt.Errorf("no such file %s", a.Path)
			}
			return api.OnLoadResult{Contents: &s, Loader: loader, ResolveDir: "/in"}, nil
		})
	}}}
	r := api.Build(o)
	if len(r.Errors) > 0 {
		return vdrv.Skip("build-error:" + r.Errors[0].Text)
	}
	outs := map[string]string{}
	for _, f := range r.OutputFiles {
		outs[f.Path] = string(f.Contents)
	}
	cssPath := "/in/out/c0.css"
	code, ok := outs[cssPath]
	if !ok {
		return vdrv.Fail("no c0.css output", "c0.css", fmt.Sprint(len(outs)))
	}
	type origCSS struct {
		text   string
		starts []int
		at     map[pos]cssTok
	}
	origs := map[string]*origCSS{}
	for name, txt := range c.Files {
		oc := &origCSS{text: txt, starts: smref.Lines(txt), at: map[pos]cssTok{}}
		for _, t := range scanCSS(txt) {
			l, col := pos16(txt, oc.starts, t.start)
			oc.at[pos{l, col}] = t
		}
		origs[name] = oc
	}
	genStarts := smref.Lines(code)
	toks := scanCSS(code)
	tokAt := map[pos]cssTok{}
	for _, t := range toks {
		l, col := pos16(code, genStarts, t.start)
		tokAt[pos{l, col}] = t
	}
	// the source map comment
	urlRe := regexp.MustCompile(`/\*# sourceMappingURL=([^ *]+) \*/`)
	urls := urlRe.FindAllStringSubmatch(code, -1)
	var raws [][]byte
	mp, hasMapFile := outs[cssPath+".map"]
	switch c.SourceMap {
	case "inline", "both":
		b, ok := smref.InlineURL(code)
		if !ok || len(urls) != 1 {
			return vdrv.Fail("no inline source map comment in c0.css", "/*# sourceMappingURL=data:… */", tail(code, 200))
		}
		raws = append(raws, b)
		if c.SourceMap == "inline" && hasMapFile {
			return vdrv.Fail("sourcemap=inline also emitted c0.css.map", "no map file", "")
		}
	}
	if c.SourceMap != "inline" {
		if !hasMapFile {
			return vdrv.Fail("no c0.css.map emitted", "map file", "")
		}
		raws = append(raws, []byte(mp))
		if c.SourceMap == "linked" && (len(urls) != 1 || urls[0][1] != "c0.css.map") {
			return vdrv.Fail("linked source map comment missing or wrong in c0.css", "/*# sourceMappingURL=c0.css.map */", tail(code, 200))
		}
		if c.SourceMap == "external" && strings.Contains(code, "sourceMappingURL=") {
			return vdrv.Fail("external source map must not be linked from c0.css", "no comment", tail(code, 200))
		}
	}
	verified, named, nonASCII, genNonASCII, joined := 0, 0, 0, 0, 0
	kinds := map[string]int{}
	for _, raw := range raws {
		m, err := smref.Parse(raw)
		if err != nil {
			return vdrv.Fail("malformed source map for c0.css: "+err.Error(), "well-formed version 3 map", string(raw))
		}
		if c.SourceRoot != m.SourceRoot {
			return vdrv.Fail("sourceRoot not recorded", c.SourceRoot, m.SourceRoot)
		}
		if c.NoContent && m.SourcesContent != nil {
			return vdrv.Fail("sourcesContent present although excluded", "no sourcesContent", "")
		}
		if !c.NoContent && len(m.SourcesContent) != len(m.Sources) {
			return vdrv.Fail("sourcesContent does not have one entry per source", fmt.Sprint(len(m.Sources)), fmt.Sprint(len(m.SourcesContent)))
		}
		srcOrig := make([]*origCSS, len(m.Sources))
		for i, s := range m.Sources {
			key := path.Base(s)
			if !c.Compose {
				abs := path.Join("/in/out", s)
				if !strings.HasPrefix(abs, "/in/") {
					return vdrv.Fail(fmt.Sprintf("map source %q does not resolve to an input file", s), "a path below /in", abs)
				}
				key = strings.TrimPrefix(abs, "/in/")
			}
			oc, ok := origs[key]
			if !ok {
				return vdrv.Fail(fmt.Sprintf("map source %q is not one of the original input files", s), "an input file", strings.Join(m.Sources, ","))
			}
			srcOrig[i] = oc
			if !c.NoContent {
				if m.SourcesContent[i] == nil || *m.SourcesContent[i] != oc.text {
					return vdrv.Fail("sourcesContent differs from the original file "+s, oc.text, fmt.Sprint(m.SourcesContent[i]))
				}
			}
		}
		if n := strings.Count(m.Mappings, ";") + 1; n > len(genStarts) {
			return vdrv.Fail(fmt.Sprintf("mappings describe %d lines, the file has %d", n, len(genStarts)), "", tail(m.Mappings, 100))
		}
		for _, seg := range m.Segments {
			if seg.GenLine >= len(genStarts) || seg.GenCol > lineLen16(code, genStarts, seg.GenLine) {
				return vdrv.Fail(fmt.Sprintf("segment at generated %d:%d is beyond the end of the line", seg.GenLine, seg.GenCol), "a position inside the generated file", "")
			}
			if !seg.HasSource {
				continue
			}
			oc := srcOrig[seg.Source]
			if seg.OrigLine >= len(oc.starts) || seg.OrigCol > lineLen16(oc.text, oc.starts, seg.OrigLine) {
				return vdrv.Fail(fmt.Sprintf("segment at generated %d:%d maps to %s %d:%d, which is outside that file", seg.GenLine, seg.GenCol, m.Sources[seg.Source], seg.OrigLine, seg.OrigCol), "a position inside the source", "")
			}
			t, ok := tokAt[pos{seg.GenLine, seg.GenCol}]
			if !ok {
				continue
			}
			key, isMarker := cssMarkerKey(t)
			name := ""
			if seg.HasName {
				name = m.Names[seg.Name]
			}
			if !isMarker {
				// a local class name that was renamed: `names` holds the original
				if t.kind != 'i' || !seg.HasName || !cssMarkerIdent.MatchString(name) {
					continue
				}
				key = "I:" + name
			}
			ot, found := oc.at[pos{seg.OrigLine, seg.OrigCol}]
			okey, _ := cssMarkerKey(ot)
			if !found || okey != key {
				there := ""
				if off := smref.Offset(oc.text, oc.starts, seg.OrigLine, seg.OrigCol); off >= 0 {
					there = clip(oc.text[off:], 40)
				}
				return vdrv.Fail(fmt.Sprintf("the token %q at generated %d:%d (name %q) is mapped to %s %d:%d, where the source reads %q", t.text, seg.GenLine, seg.GenCol, name, m.Sources[seg.Source], seg.OrigLine, seg.OrigCol, clip(there, 20)), "the same marker ("+key+")", there)
			}
			if seg.HasName && isMarker && t.kind == 'i' && name != ot.text {
				return vdrv.Fail(fmt.Sprintf("the token %q at generated %d:%d carries the name %q", t.text, seg.GenLine, seg.GenCol, name), ot.text, name)
			}
			verified++
			if seg.HasName {
				named++
			}
			kinds[string(t.kind)]++
			if hasNonASCII(oc.text[oc.starts[seg.OrigLine]:ot.start]) {
				nonASCII++
			}
			if hasNonASCII(code[genStarts[seg.GenLine]:t.start]) {
				genNonASCII++
			}
			if seg.Source > 0 {
				joined++
			}
		}
		// no segment inside a marker token
		for _, t := range toks {
			if _, ok := cssMarkerKey(t); !ok || strings.ContainsAny(t.text, "\r\n") {
				continue
			}
			l, from := pos16(code, genStarts, t.start)
			to := from + len(jsref.UTF16(t.text))
			for _, seg := range m.Segments {
				if seg.HasSource && seg.GenLine == l && seg.GenCol > from && seg.GenCol < to {
					return vdrv.Fail(fmt.Sprintf("a segment starts at generated %d:%d, in the middle of the marker token that spans columns %d–%d", seg.GenLine, seg.GenCol, from, to), "segments start at token starts", tail(m.Mappings, 200))
				}
			}
		}
	}
	cls := []string{"map=" + c.SourceMap, "minify=" + c.Minify, "charset=" + c.Charset}
	flag := func(b bool, l string) {
		if b {
			cls = append(cls, l)
		}
	}
	flag(c.Local, "local-css")
	flag(c.Bundle, "bundle")
	flag(len(c.Files) > 1, "multi-file")
	flag(c.Banner != "", "banner")
	flag(c.Footer != "", "footer")
	flag(c.SourceRoot != "", "source-root")
	flag(c.NoContent, "no-sources-content")
	flag(c.Compose, "composed-esbuild-pass")
	flag(nonASCII > 0, "non-ascii-before-marker")
	flag(genNonASCII > 0, "gen:non-ascii-before-marker")
	flag(joined > 0, "multi-source")
	flag(named > 0, "names-verified")
	var ks []string
	for k := range kinds {
		ks = append(ks, k)
	}
	sort.Strings(ks)
	for _, k := range ks {
		cls = append(cls, "verified:"+map[string]string{"i": "identifier", "n": "dimension", "s": "string"}[k])
	}
	v := vdrv.Pass(verified >= 5 && (nonASCII > 0 || genNonASCII > 0 || joined > 0), cls...)
	v.Observed = fmt.Sprintf("%d marker segments verified (%d after non-ASCII text, %d after non-ASCII generated text, %d in joined sources, %d with names)", verified, nonASCII, genNonASCII, joined, named)
	return v
}

func replayCSS(raw json.RawMessage) vdrv.Verdict {
	var c CSSCase
	if json.Unmarshal(raw, &c) != nil {
		return vdrv.Skip("bad-replay")
	}
	return judgeCSS(c)
}

func runCSS(t *testing.T) {
	H.Rule("css", "rapid (unbiased draws): 1–3 style sheets (entry @imports the others) in which type selectors, class names, property names, value identifiers, dimensions and strings are unique markers, with tabs, LF / CRLF / CR, comments with astral text and non-ASCII strings before markers, nested rules and @media; loader css or local-css (class names renamed, originals in `names`) × bundle × map mode × sourcesContent × minify {none, whitespace, all} × charset × banner/footer (css) × sourceRoot × composition through a first esbuild pass. Oracle: smref + a positional CSS scanner: the same well-formedness, comment (/*# sourceMappingURL=… */), sourceRoot, sources and sourcesContent rules as for JavaScript; every segment that starts at a marker token maps to the same marker in the original sheet (UTF-16 columns), renamed class names through `names`; no segment starts inside a marker token. U+2028/9 and FF are not generated (CSS and JavaScript disagree about them). Non-trivial = ≥5 verified marker segments with ≥1 after non-ASCII text or from a second sheet")
	H.SetupRapid("css", H.N(1000, 40000))
	rapid.Check(t, func(rt *rapid.T) {
		c := genCSSCase(rt)
		b, _ := json.Marshal(c)
		H.Report(rt, "css", string(b), c, judgeCSS(c))
	})
}

// C07 — source maps point every generated token at its true origin. See DESIGN.md section 5 / C07.
package c07

import (
	"encoding/json"
	"fmt"
	"os"
	"path"
	"path/filepath"
	"regexp"
	"sort"
	"strconv"
	"strings"
	"testing"
	"unicode/utf8"

	"github.com/evanw/esbuild/pkg/api"
	"github.com/evanw/esbuild/verif/fsgen"
	"github.com/evanw/esbuild/verif/jsref"
	"github.com/evanw/esbuild/verif/smref"
	"github.com/evanw/esbuild/verif/vdrv"
	"pgregory.net/rapid"
)

var H *vdrv.H

var debug = os.Getenv("VERIF_C07_DEBUG") != ""

// ----------------------------------------------------------------------------- markers

var markerIdent = regexp.MustCompile(`^mk\d+_\d+(é|𝒳)?$`)

// renamedIdent is what the generator's own compilation step turns a marker identifier into when it plays a renaming
// compiler (mk5_0 -> r5_0): still the same marker, but the name `names` must record for it is the original one.
var renamedIdent = regexp.MustCompile(`^r(\d+_\d+(é|𝒳)?)$`)
var markerLit = regexp.MustCompile(`^[st]\d+_\d+`)
var markerNum = regexp.MustCompile(`^9\d{4}\d+$`)

// markerKey names the unique marker a token carries ("" = the token is not a marker). Two tokens with the same key
// are the same marker, whatever their spelling (quotes, escapes, number format, template vs. string).
func markerKey(t jsref.Token) (string, bool) {
	switch t.Kind {
	case jsref.TString, jsref.TTemplateHead, jsref.TTemplateNoSub:
		if t.Str == nil {
			return "", false
		}
		if m := markerLit.FindString(jsref.UTF16ToString(t.Str)); m != "" {
			return "L:" + m, true
		}
	case jsref.TNum:
		if t.Num >= 0 && t.Num < 1e15 && t.Num == float64(int64(t.Num)) {
			if s := strconv.FormatInt(int64(t.Num), 10); markerNum.MatchString(s) {
				return "N:" + s, true
			}
		}
	case jsref.TIdent:
		if markerIdent.MatchString(t.Ident) {
			return "I:" + t.Ident, true
		}
		if m := renamedIdent.FindStringSubmatch(t.Ident); m != nil {
			return "I:mk" + m[1], true
		}
	case jsref.TPrivateName:
		if markerIdent.MatchString(t.Ident) {
			return "I:#" + t.Ident, true
		}
		if m := renamedIdent.FindStringSubmatch(t.Ident); m != nil {
			return "I:#mk" + m[1], true
		}
	}
	return "", false
}

// nameKey is the marker key of an identifier as `names` spells it (mk5_0, #mk5_0, or the intermediate r5_0 / #r5_0).
func nameKey(name string) string {
	n := strings.TrimPrefix(name, "#")
	if m := renamedIdent.FindStringSubmatch(n); m != nil {
		n = "mk" + m[1]
	}
	return "I:" + name[:len(name)-len(strings.TrimPrefix(name, "#"))] + n
}

func isIdentLike(t jsref.Token) bool { return t.Kind == jsref.TIdent || t.Kind == jsref.TPrivateName }

// identName is the name as the `names` array spells it.
func identName(t jsref.Token) string {
	if t.Kind == jsref.TPrivateName {
		return "#" + t.Ident
	}
	return t.Ident
}

// ----------------------------------------------------------------------------- cases

type Case struct {
	Files      map[string]string `json:"files"`               // what esbuild reads; f0.js is the entry (imports the others)
	Originals  map[string]string `json:"originals,omitempty"` // pre-step cases: the files the input maps of Files point to (default: Files)
	MapFiles   map[string]string `json:"map_files,omitempty"` // pre-step cases: sibling map files
	Disk       bool              `json:"disk,omitempty"`      // build from a real scratch directory instead of the in-memory plugin
	Bundle     bool              `json:"bundle"`
	Splitting  bool              `json:"splitting,omitempty"`
	Minify     string            `json:"minify,omitempty"` // "", ws, ids, syntax, all
	Charset    string            `json:"charset,omitempty"`
	SourceMap  string            `json:"sourcemap"` // inline | linked | external | both
	NoContent  bool              `json:"no_sources_content,omitempty"`
	Banner     string            `json:"banner,omitempty"`
	Footer     string            `json:"footer,omitempty"`
	SourceRoot string            `json:"source_root,omitempty"`
	ChunkNames string            `json:"chunk_names,omitempty"`
	Compose    bool              `json:"compose,omitempty"` // first compile every file alone with esbuild (inline map), then build from those
	Format     string            `json:"format,omitempty"`
}

func (c Case) options(root string, files map[string]string) api.BuildOptions {
	o := api.BuildOptions{LogLevel: api.LogLevelSilent, Write: false, Outdir: root + "/out", AbsWorkingDir: root, Bundle: c.Bundle, Splitting: c.Splitting,
		SourceRoot: c.SourceRoot, ChunkNames: c.ChunkNames}
	switch c.SourceMap {
	case "inline":
		o.Sourcemap = api.SourceMapInline
	case "external":
		o.Sourcemap = api.SourceMapExternal
	case "both":
		o.Sourcemap = api.SourceMapInlineAndExternal
	default:
		o.Sourcemap = api.SourceMapLinked
	}
	if c.NoContent {
		o.SourcesContent = api.SourcesContentExclude
	}
	switch c.Minify {
	case "ws":
		o.MinifyWhitespace = true
	case "ids":
		o.MinifyIdentifiers = true
	case "syntax":
		o.MinifySyntax = true
	case "all":
		o.MinifyWhitespace, o.MinifyIdentifiers, o.MinifySyntax = true, true, true
	}
	switch c.Charset {
	case "utf8":
		o.Charset = api.CharsetUTF8
	case "ascii":
		o.Charset = api.CharsetASCII
	}
	if c.Banner != "" {
		o.Banner = map[string]string{"js": c.Banner}
	}
	if c.Footer != "" {
		o.Footer = map[string]string{"js": c.Footer}
	}
	switch c.Format {
	case "esm":
		o.Format = api.FormatESModule
	case "cjs":
		o.Format = api.FormatCommonJS
	case "iife":
		o.Format = api.FormatIIFE
	}
	if c.Splitting {
		o.Format = api.FormatESModule
	}
	o.EntryPoints = []string{root + "/f0.js"}
	if c.Splitting && len(files) > 2 && !strings.Contains(files["f0.js"], "import(\"./f1.js\")") {
		o.EntryPoints = append(o.EntryPoints, root+"/f1.js")
	}
	if c.Disk {
		if c.Bundle {
			o.External = []string{"sinkmod"}
		}
		return o
	}
	o.Plugins = []api.Plugin{{Name: "mem", Setup: func(b api.PluginBuild) {
		b.OnResolve(api.OnResolveOptions{Filter: ".*"}, func(a api.OnResolveArgs) (api.OnResolveResult, error) {
			p := a.Path
			if strings.HasPrefix(p, "./") {
				p = root + "/" + p[2:]
			}
			if p == "sinkmod" {
				return api.OnResolveResult{Path: p, External: true}, nil
			}
			return api.OnResolveResult{Path: p, Namespace: "file"}, nil
		})
		b.OnLoad(api.OnLoadOptions{Filter: ".*", Namespace: "file"}, func(a api.OnLoadArgs) (api.OnLoadResult, error) {
			s, ok := files[strings.TrimPrefix(a.Path, root+"/")]
			if !ok {
				return api.OnLoadResult{}, fmt.Errorf("no such file %s", a.Path)
			}
			return api.OnLoadResult{Contents: &s, Loader: api.LoaderJS, ResolveDir: root}, nil
		})
	}}}
	return o
}

type pos struct{ l, c int }

// origFile is an original source, indexed by the independent tokenizer.
type origFile struct {
	text   string
	starts []int
	tokAt  map[pos]jsref.Token
}

func indexOriginal(text string) (*origFile, bool) {
	toks, err := jsref.Tokenize(text, jsref.Options{Module: true})
	if err != nil {
		if toks, err = jsref.Tokenize(text, jsref.Options{}); err != nil {
			return nil, false
		}
	}
	o := &origFile{text: text, starts: smref.Lines(text), tokAt: map[pos]jsref.Token{}}
	for _, t := range toks {
		o.tokAt[pos{t.Line, t.Col16}] = t
	}
	return o, true
}

// lineLen16 is the length of line l in UTF-16 units, without its terminator.
func lineLen16(text string, starts []int, l int) int {
	end := len(text)
	if l+1 < len(starts) {
		end = starts[l+1]
	}
	s := text[starts[l]:end]
	for _, term := range []string{"\r\n", "\n", "\r", "\u2028", "\u2029"} {
		if strings.HasSuffix(s, term) {
			s = s[:len(s)-len(term)]
			break
		}
	}
	return len(jsref.UTF16(s))
}

// validateInputMaps checks (independently of esbuild) that a pre-step case is what it claims to be: every marker token of
// every generated file G has a segment of G's own map exactly at its start, and that segment names the start of the
// same marker in an original. Anything else is a defect of the case, not of esbuild.
func validateInputMaps(c Case, origs map[string]*origFile, origKeys map[string]bool) (string, string) {
	for name, code := range c.Files {
		var raw []byte
		mapDir := ""
		if b, ok := smref.InlineURL(code); ok {
			raw = b
		} else if i := strings.LastIndex(code, "//# sourceMappingURL="); i >= 0 {
			p := strings.TrimRight(code[i+len("//# sourceMappingURL="):], "\r\n")
			mf, ok := c.MapFiles[p]
			if !ok {
				return "map-file-missing", p
			}
			raw, mapDir = []byte(mf), path.Dir(p)
			if mapDir == "." {
				mapDir = ""
			}
		} else {
			return "no-map-comment", name
		}
		segs, err := flattenInputMap(raw, mapDir)
		if err != nil {
			return "input-map-unreadable", name + ": " + err.Error()
		}
		at := map[pos]flatSeg{}
		ofLine := map[int][]flatSeg{}
		for _, s := range segs {
			if s.hasSource {
				at[pos{s.genLine, s.genCol}] = s
			}
			ofLine[s.genLine] = append(ofLine[s.genLine], s)
		}
		toks, err := jsref.Tokenize(code, jsref.Options{Module: true})
		if err != nil {
			return "generated-file-unreadable", name + ": " + err.Error()
		}
		for _, t := range toks {
			k, ok := markerKey(t)
			if !ok {
				continue
			}
			if !origKeys[k] {
				// a marker without origin (code the earlier step added): the input map must leave it unmapped, i.e. the
				// segment that governs it on its line, if any, has no source
				var g *flatSeg
				for i, s := range ofLine[t.Line] {
					if s.genCol <= t.Col16 {
						g = &ofLine[t.Line][i]
					}
				}
				if g != nil && g.hasSource {
					return "unmapped-marker-is-mapped", name + " " + k
				}
				continue
			}
			s, ok := at[pos{t.Line, t.Col16}]
			if !ok {
				return "no-input-segment", name + " " + k
			}
			of := origs[s.key]
			if of == nil {
				return "unknown-original", name + " " + s.key
			}
			ot, ok := of.tokAt[pos{s.origLine, s.origCol}]
			if ok {
				k2, _ := markerKey(ot)
				ok = k2 == k
			}
			if !ok {
				return "inexact-input-segment", name + " " + k
			}
			if s.hasName && s.name != identName(ot) {
				return "wrong-input-name", name + " " + k
			}
		}
	}
	return "", ""
}

type stats struct {
	verified, nonASCIIBefore, astralBefore, joined, genNonASCIIBefore, genAstralBefore, afterOddTerminator int
	kinds                                                                                                  map[string]int
	known                                                                                                  *vdrv.Verdict // first failure that matches the signature of a listed finding
	namesChecked, inlinedConst, urlComments, segments, covered                                             int
}

// judge builds, decodes every emitted map with smref and checks marker segments.
func judge(c Case) vdrv.Verdict {
	originals := c.Files
	if c.Originals != nil {
		originals = c.Originals
	}
	origs := map[string]*origFile{}
	for k, txt := range originals {
		of, ok := indexOriginal(txt)
		if !ok {
			return vdrv.Skip("jsref-gap-original")
		}
		origs[k] = of
	}
	origKeys := map[string]bool{}
	for _, of := range origs {
		for _, t := range of.tokAt {
			if k, ok := markerKey(t); ok {
				origKeys[k] = true
			}
		}
	}
	inputs := c.Files
	if c.Originals != nil {
		if why, detail := validateInputMaps(c, origs, origKeys); why != "" {
			if os.Getenv("VERIF_C07_DEBUG") != "" {
				fmt.Println("C07-DEBUG bad-case", why, detail)
			}
			return vdrv.Skip("bad-case:" + why)
		}
	}
	if c.Compose {
		// first generation: each file compiled alone with an inline map (whitespace-minified so positions move)
		inputs = map[string]string{}
		for name, src := range c.Files {
			r := api.Transform(src, api.TransformOptions{LogLevel: api.LogLevelSilent, Sourcemap: api.SourceMapInline, Sourcefile: "/in/" + name, MinifyWhitespace: true, Format: api.FormatESModule})
			if len(r.Errors) > 0 {
				return vdrv.Skip("first-pass-error:" + r.Errors[0].Text)
			}
			inputs[name] = string(r.Code)
		}
	}
	root := "/in"
	if c.Disk {
		dir, err := fsgen.MkdirScratch("c07-")
		if err != nil {
			return vdrv.Skip("scratch-dir")
		}
		defer os.RemoveAll(dir)
		root = dir
		for _, set := range []map[string]string{c.Files, c.MapFiles, c.Originals} {
			for name, txt := range set {
				p := filepath.Join(dir, filepath.FromSlash(name))
				if os.MkdirAll(filepath.Dir(p), 0o755) != nil || os.WriteFile(p, []byte(txt), 0o644) != nil {
					return vdrv.Skip("scratch-write")
				}
			}
		}
	}
	r := api.Build(c.options(root, inputs))
	if len(r.Errors) > 0 {
		return vdrv.Skip("build-error:" + r.Errors[0].Text)
	}
	outs := map[string]string{}
	for _, f := range r.OutputFiles {
		outs[f.Path] = string(f.Contents)
	}
	st := &stats{kinds: map[string]int{}}
	var jsFiles []string
	for p := range outs {
		if strings.HasSuffix(p, ".js") {
			jsFiles = append(jsFiles, p)
		}
	}
	sort.Strings(jsFiles)
	if len(jsFiles) == 0 {
		return vdrv.Fail("no JavaScript output", "an output file", "")
	}
	for _, jsPath := range jsFiles {
		if v := judgeOutput(c, root, jsPath, outs, origKeys, origs, st); v != nil {
			return *v
		}
	}
	if st.known != nil {
		return *st.known // nothing else is wrong with the case
	}
	cls := []string{"map=" + c.SourceMap, "minify=" + c.Minify, "charset=" + c.Charset, "format=" + c.Format}
	flag := func(b bool, l string) {
		if b {
			cls = append(cls, l)
		}
	}
	flag(c.Bundle, "bundle")
	flag(len(c.Files) > 1, "multi-file")
	flag(c.Splitting, "splitting")
	flag(c.Splitting, "chunknames="+c.ChunkNames)
	flag(c.Banner != "", "banner")
	flag(strings.ContainsAny(c.Banner, "\r\n\u2028\u2029"), "banner-multiline")
	flag(c.Footer != "", "footer")
	flag(c.SourceRoot != "", "source-root")
	flag(c.NoContent, "no-sources-content")
	flag(!c.NoContent, "sources-content-compared")
	flag(c.Compose, "composed-esbuild-pass")
	flag(c.Originals != nil, "composed-own-step")
	if c.Originals != nil {
		inline, sibling, sections, unsorted, inNames, noContent, nullContent := false, false, false, false, false, false, false
		var maps []string
		for _, code := range c.Files {
			if b, ok := smref.InlineURL(code); ok {
				inline = true
				maps = append(maps, string(b))
			} else {
				sibling = true
			}
		}
		for _, m := range c.MapFiles {
			maps = append(maps, m)
		}
		for _, m := range maps {
			sections = sections || strings.Contains(m, "\"sections\"")
			inNames = inNames || strings.Contains(m, "\"names\":[\"")
			noContent = noContent || !strings.Contains(m, "\"sourcesContent\"")
			nullContent = nullContent || strings.Contains(m, "\"sourcesContent\":[null")
			unsorted = unsorted || inputMapUnsorted([]byte(m))
		}
		flag(unsorted, "own-step:unsorted-segments")
		flag(inNames, "own-step:input-names")
		flag(noContent, "own-step:content-from-disk")
		flag(nullContent, "own-step:content-null-from-disk")
		flag(inline, "own-step:inline-map")
		flag(sibling, "own-step:sibling-map")
		flag(sections, "own-step:index-map")
		flag(len(c.Originals) > len(c.Files), "own-step:two-originals-in-one-file")
		renamedAny, bom := false, false
		for _, code := range c.Files {
			renamedAny = renamedAny || regexp.MustCompile(`[^\w]r\d+_\d+`).MatchString(code)
			bom = bom || strings.HasPrefix(code, "\ufeff")
		}
		flag(renamedAny, "own-step:renaming")
		unmappedCode := false
		for _, code := range c.Files {
			unmappedCode = unmappedCode || regexp.MustCompile(`9\d{4}2\d\b`).MatchString(code)
		}
		flag(unmappedCode, "own-step:unmapped-code")
		flag(bom, "own-step:bom")
	}
	all := ""
	for _, t := range originals {
		all += t + "\x00"
	}
	flag(strings.Contains(all, "\r\n"), "orig:crlf")
	flag(regexp.MustCompile(`\r[^\n]`).MatchString(all), "orig:lone-cr")
	flag(strings.ContainsAny(all, "\u2028\u2029"), "orig:u2028/9")
	flag(strings.Contains(all, "\t"), "orig:tab")
	flag(st.nonASCIIBefore > 0, "non-ascii-before-marker")
	flag(st.astralBefore > 0, "astral-before-marker")
	flag(st.genNonASCIIBefore > 0, "gen:non-ascii-before-marker")
	flag(st.genAstralBefore > 0, "gen:astral-before-marker")
	flag(st.afterOddTerminator > 0, "marker-on-line-after-cr/u2028/u2029")
	flag(st.joined > 0, "multi-source")
	flag(st.namesChecked > 0, "names-verified")
	flag(st.inlinedConst > 0, "literal-at-identifier(not judged)")
	var kinds []string
	for k := range st.kinds {
		kinds = append(kinds, k)
	}
	sort.Strings(kinds)
	for _, k := range kinds {
		cls = append(cls, "verified:"+k)
	}
	v := vdrv.Pass(st.verified >= 5 && (st.nonASCIIBefore > 0 || st.joined > 0 || st.genNonASCIIBefore > 0), cls...)
	v.Observed = fmt.Sprintf("%d marker segments verified of %d segments (%d after non-ASCII text, %d after astral text, %d after non-ASCII generated text, %d in joined sources, %d names)",
		st.verified, st.segments, st.nonASCIIBefore, st.astralBefore, st.genNonASCIIBefore, st.joined, st.namesChecked)
	return v
}

func fail(detail, expected, observed string) *vdrv.Verdict {
	v := vdrv.Fail(detail, expected, observed)
	return &v
}

func skip(reason string) *vdrv.Verdict {
	v := vdrv.Skip(reason)
	return &v
}

// judgeOutput checks one emitted JavaScript file and its map(s). nil = nothing wrong.
func judgeOutput(c Case, root, jsPath string, outs map[string]string, origKeys map[string]bool, origs map[string]*origFile, st *stats) *vdrv.Verdict {
	code := outs[jsPath]
	base := path.Base(jsPath)
	isModule := c.Format == "esm" || c.Splitting || c.Format == "" && !c.Bundle
	prog, perr := jsref.Parse(code, jsref.Options{Module: isModule})
	if perr != nil {
		prog, perr = jsref.Parse(code, jsref.Options{Module: !isModule})
		if perr != nil {
			return skip("jsref-gap")
		}
	}
	// the source map comment, as a real comment of the output
	var urlComments []string
	for _, cm := range prog.Comments {
		if txt := code[cm.Start:cm.End]; cm.Kind == "line" && strings.HasPrefix(txt, "//# sourceMappingURL=") {
			urlComments = append(urlComments, strings.TrimPrefix(txt, "//# sourceMappingURL="))
		}
	}
	if len(urlComments) > 1 {
		return fail("more than one sourceMappingURL comment in "+base, "at most one", strings.Join(urlComments, "\n"))
	}
	var raws [][]byte
	mp, hasMapFile := outs[jsPath+".map"]
	switch c.SourceMap {
	case "inline", "both":
		b, ok := smref.InlineURL(code)
		if !ok || len(urlComments) != 1 || !strings.HasPrefix(urlComments[0], "data:application/json;base64,") {
			return fail("no inline source map comment in "+base, "//# sourceMappingURL=data:application/json;base64,…", tail(code, 200))
		}
		raws = append(raws, b)
		if c.SourceMap == "inline" && hasMapFile {
			return fail("sourcemap=inline also emitted "+base+".map", "no map file", "")
		}
	}
	if c.SourceMap != "inline" {
		if !hasMapFile {
			return fail("no "+base+".map emitted", "map file", "")
		}
		raws = append(raws, []byte(mp))
		if c.SourceMap == "linked" && (len(urlComments) != 1 || urlComments[0] != base+".map") {
			return fail("linked source map comment missing or wrong in "+base, "//# sourceMappingURL="+base+".map", tail(code, 200))
		}
		if c.SourceMap == "external" && (len(urlComments) != 0 || strings.Contains(code, "sourceMappingURL=")) {
			return fail("external source map must not be linked from "+base, "no comment", tail(code, 200))
		}
	}
	st.urlComments += len(urlComments)

	genStarts := smref.Lines(code)
	tokAt := map[pos]jsref.Token{}
	for _, t := range prog.Tokens {
		tokAt[pos{t.Line, t.Col16}] = t
	}
	for _, raw := range raws {
		m, err := smref.Parse(raw)
		if err != nil {
			return fail("malformed source map for "+base+": "+err.Error(), "well-formed version 3 map", string(raw))
		}
		if c.SourceRoot != m.SourceRoot {
			return fail("sourceRoot not recorded", c.SourceRoot, m.SourceRoot)
		}
		if c.NoContent && m.SourcesContent != nil {
			return fail("sourcesContent present although excluded", "no sourcesContent", "")
		}
		if !c.NoContent && len(m.SourcesContent) != len(m.Sources) {
			return fail("sourcesContent does not have one entry per source", fmt.Sprint(len(m.Sources)), fmt.Sprint(len(m.SourcesContent)))
		}
		// resolve sources to original texts
		srcOrig := make([]*origFile, len(m.Sources))
		for i, s := range m.Sources {
			key := path.Base(s)
			if !c.Compose {
				// sources are relative to the directory of the map
				abs := path.Join(path.Dir(jsPath), s)
				if !strings.HasPrefix(abs, root+"/") {
					return fail(fmt.Sprintf("map source %q of %s does not resolve to an input file", s, base), "a path below "+root, abs)
				}
				key = strings.TrimPrefix(abs, root+"/")
			}
			of, ok := origs[key]
			if !ok {
				return fail(fmt.Sprintf("map source %q is not one of the original input files", s), "an input file", strings.Join(m.Sources, ","))
			}
			srcOrig[i] = of
			if !c.NoContent {
				if m.SourcesContent[i] == nil {
					return fail("sourcesContent missing for "+s, "original text", "null")
				}
				if *m.SourcesContent[i] != of.text {
					return fail("sourcesContent differs from the original file "+s, of.text, *m.SourcesContent[i])
				}
			}
		}
		// positions in range on both sides
		if n := strings.Count(m.Mappings, ";") + 1; n > len(genStarts) {
			return fail(fmt.Sprintf("%s: mappings describe %d lines, the file has %d", base, n, len(genStarts)), "", tail(m.Mappings, 100))
		}
		for _, seg := range m.Segments {
			if seg.GenLine >= len(genStarts) || seg.GenCol > lineLen16(code, genStarts, seg.GenLine) {
				return fail(fmt.Sprintf("%s: segment at generated %d:%d is beyond the end of the line", base, seg.GenLine, seg.GenCol), "a position inside the generated file", "")
			}
			if seg.HasSource {
				of := srcOrig[seg.Source]
				if seg.OrigLine >= len(of.starts) || seg.OrigCol > lineLen16(of.text, of.starts, seg.OrigLine) {
					return fail(fmt.Sprintf("%s: segment at generated %d:%d maps to %s %d:%d, which is outside that file", base, seg.GenLine, seg.GenCol, m.Sources[seg.Source], seg.OrigLine, seg.OrigCol), "a position inside the source", "")
				}
			}
		}
		st.segments += len(m.Segments)
		if debug {
			debugMeasure(c, base, code, prog, m, srcOrig, tokAt)
		}
		for _, seg := range m.Segments {
			if !seg.HasSource {
				continue
			}
			t, ok := tokAt[pos{seg.GenLine, seg.GenCol}]
			if !ok {
				continue // synthetic segments (column 0 of a line that starts with white space) are not judged
			}
			key, isMarker := markerKey(t)
			name := ""
			if seg.HasName {
				name = m.Names[seg.Name]
			}
			renamed := false
			if !isMarker {
				// an identifier that lost its name: `names` holds the original. Anything else (punctuation, helpers,
				// invented identifiers) is not judged.
				if n := strings.TrimPrefix(name, "#"); !isIdentLike(t) || !seg.HasName || !(markerIdent.MatchString(n) || renamedIdent.MatchString(n)) {
					continue
				}
				renamed = true
			}
			of := srcOrig[seg.Source]
			ot, found := of.tokAt[pos{seg.OrigLine, seg.OrigCol}]
			where := fmt.Sprintf("%s: the token %q at generated %d:%d is mapped to %s %d:%d", base, t.Raw, seg.GenLine, seg.GenCol, m.Sources[seg.Source], seg.OrigLine, seg.OrigCol)
			there := ""
			if off := smref.Offset(of.text, of.starts, seg.OrigLine, seg.OrigCol); off >= 0 {
				there = clip(of.text[off:], 40)
			}
			// C07-unmapped-input-segment-ignored: the token is code that the input map of an own-step case explicitly leaves
			// unmapped (its marker exists in no original), yet it was given an origin
			noOrigin := c.Originals != nil && (isMarker && !origKeys[key] || renamed && !origKeys[nameKey(name)])
			if noOrigin {
				if st.known == nil {
					st.known = fail(where+", but the input source map of the file it comes from marks this code as unmapped (one-field segment)", "no original position", there)
					st.known.Known = "C07-unmapped-input-segment-ignored"
				}
				continue
			}
			if !found {
				return fail(where+", where no token starts", "the start of the original token", there)
			}
			okey, _ := markerKey(ot)
			switch {
			case renamed:
				if !isIdentLike(ot) || identName(ot) != name {
					return fail(where+" with the name "+strconv.Quote(name)+", but the source there reads "+strconv.Quote(ot.Raw), name, there)
				}
				st.namesChecked++
				st.kinds["renamed-identifier"]++
			case okey == key:
				if seg.HasName && isIdentLike(t) {
					if name != identName(ot) {
						return fail(where+" with the name "+strconv.Quote(name), identName(ot), name)
					}
					st.namesChecked++
				}
				st.kinds[map[jsref.TokenKind]string{jsref.TString: "string", jsref.TNum: "number", jsref.TIdent: "identifier", jsref.TPrivateName: "private-name", jsref.TTemplateHead: "template", jsref.TTemplateNoSub: "template"}[t.Kind]]++
			case !isIdentLike(t) && isIdentLike(ot) && okey != "":
				// a literal printed where the source has a marker identifier: a constant inlined at its use
				st.inlinedConst++
				continue
			default:
				return fail(where+", where the source reads "+strconv.Quote(clip(ot.Raw, 30)), "the same marker ("+key+")", there)
			}
			st.verified++
			before := of.text[of.starts[seg.OrigLine]:ot.Start]
			if hasNonASCII(before) {
				st.nonASCIIBefore++
			}
			if hasAstral(before) {
				st.astralBefore++
			}
			if ls := of.starts[seg.OrigLine]; ls > 0 && of.text[ls-1] != '\n' {
				st.afterOddTerminator++
			}
			gbefore := code[genStarts[seg.GenLine]:t.Start]
			if hasNonASCII(gbefore) {
				st.genNonASCIIBefore++
			}
			if hasAstral(gbefore) {
				st.genAstralBefore++
			}
			if seg.Source > 0 {
				st.joined++
			}
		}
		// coverage of marker strings: what a consumer sees when it looks a token up is the segment that governs its
		// start (the last one at or before it on its line). String and template markers are never folded, moved into
		// invented code or printed after a separating space, so that segment must name the marker's own origin.
		segsOfLine := map[int][]smref.Segment{}
		for _, seg := range m.Segments {
			segsOfLine[seg.GenLine] = append(segsOfLine[seg.GenLine], seg)
		}
		for _, t := range prog.Tokens {
			key, ok := markerKey(t)
			if !ok || key[0] != 'L' || !origKeys[key] {
				continue // (markers without origin come from code an input map leaves unmapped)
			}
			line := segsOfLine[t.Line]
			i := sort.Search(len(line), func(i int) bool { return line[i].GenCol > t.Col16 }) - 1
			if i < 0 || !line[i].HasSource {
				return fail(fmt.Sprintf("%s: the marker %s at generated %d:%d is not covered by any mapping", base, clip(t.Raw, 30), t.Line, t.Col16), "a segment at or before the token on its line", "")
			}
			g := line[i]
			ot, found := srcOrig[g.Source].tokAt[pos{g.OrigLine, g.OrigCol}]
			if okey, _ := markerKey(ot); !found || okey != key {
				return fail(fmt.Sprintf("%s: looking up the marker %s at generated %d:%d finds the segment at column %d, which maps to %s %d:%d (%q)", base, clip(t.Raw, 30), t.Line, t.Col16, g.GenCol, m.Sources[g.Source], g.OrigLine, g.OrigCol, clip(ot.Raw, 30)), "the origin of "+key, "")
			}
			st.covered++
		}
		// no segment may point INTO a marker token: a mapping names the token that starts at its generated position,
		// and nothing starts in the middle of a string, number or identifier (this is what an off-by-one or a
		// byte-vs-UTF-16 column mistake produces)
		type span struct{ line, from, to int }
		var lits []span
		for _, t := range prog.Tokens {
			if _, ok := markerKey(t); ok && !strings.ContainsAny(t.Raw, "\n\r\u2028\u2029") {
				lits = append(lits, span{t.Line, t.Col16, t.Col16 + len(jsref.UTF16(t.Raw))})
			}
		}
		byLine := map[int][]span{}
		for _, l := range lits {
			byLine[l.line] = append(byLine[l.line], l)
		}
		for _, seg := range m.Segments {
			if !seg.HasSource {
				continue
			}
			for _, l := range byLine[seg.GenLine] {
				if seg.GenCol > l.from && seg.GenCol < l.to {
					return fail(fmt.Sprintf("%s: a segment starts at generated %d:%d, in the middle of the marker token that spans columns %d–%d", base, seg.GenLine, seg.GenCol, l.from, l.to), "segments start at token starts", tail(m.Mappings, 200))
				}
			}
		}
	}
	return nil
}

func hasNonASCII(s string) bool {
	for i := 0; i < len(s); i++ {
		if s[i] >= 0x80 {
			return true
		}
	}
	return false
}

func hasAstral(s string) bool {
	for _, r := range s {
		if r >= 0x10000 && r != utf8.RuneError {
			return true
		}
	}
	return false
}

func clip(s string, n int) string {
	if len(s) > n {
		for n > 0 && !utf8.RuneStart(s[n]) {
			n--
		}
		return s[:n]
	}
	return s
}
func tail(s string, n int) string {
	if len(s) > n {
		return s[len(s)-n:]
	}
	return s
}

func replay(raw json.RawMessage) vdrv.Verdict {
	var c Case
	if json.Unmarshal(raw, &c) != nil {
		return vdrv.Skip("bad-replay")
	}
	return judge(c)
}

func runMaps(t *testing.T) {
	H.Rule("maps", "rapid (unbiased draws): 1–4 files in which every identifier (declarations, parameters, property keys, member names, class members, private names, labels, destructuring, catch bindings, arrow parameters; plain, with a non-ASCII / astral / escaped suffix), string, template head and number is a unique marker, printed with adversarial layout (tabs, LF / CRLF / lone CR / U+2028 / U+2029 between tokens, in comments and raw inside string and template literals, line continuations, NBSP / ZWNBSP / U+3000 / VT / FF, long comments, legal comments, a regular expression with astral text, astral and combining characters before markers on the same line, BOM or hashbang), no exports or import aliases, single-file and bundled × source map mode {inline, linked, external, both} × sourcesContent on/off × minify {none, whitespace, identifiers, syntax, all} × charset {default, utf8, ascii} × splitting with chunk name templates × banner / footer (multi-line, CR, U+2028, astral) × sourceRoot × format × composition (a) through a first esbuild pass with inline maps, (b) through a compilation step of the generator's own: the tokens of one or two originals are printed again with another layout (re-indent, join, split, header with or without BOM; optionally every marker identifier renamed mk5_0→r5_0 with the original in `names`; optionally a stretch of code of the step's own that a one-field segment leaves unmapped) and the exact map G→O is written by the generator (dense / markers only / mixed, with or without names, sourcesContent all / none / null, sourceRoot, plain or index map with sections, reversed sources, segments of a line in reverse order, ASCII-escaped JSON) and attached inline (data: URL) or as a sibling / sub-directory .map file on a real scratch tree. Oracle: an independent VLQ/source-map reader (smref) and tokenizer (jsref): map well-formed (version 3, sorted, indices in range, sources/sourcesContent arity, no segment beyond the end of its generated line or outside its source, not more lines than the file); sourceMappingURL comment present exactly as the mode says (a real line comment; inline: no .map file; external: none); sourceRoot recorded; every source resolves (relative to the map) to an original and sourcesContent[i] equals its text; every segment that starts at a marker token of the output maps to the start of the same marker in the named ORIGINAL file (UTF-16 columns, ECMAScript line terminators); an identifier token whose segment carries a marker name must map to that very identifier (an intermediate name r5_0 is wrong), and a name on a kept marker must be its own; every marker string / template is covered: the segment that governs its start (last one at or before it on the line) maps to its origin; code that an input map leaves unmapped must not be given an origin (known finding C07-unmapped-input-segment-ignored, excluded by that signature only); no segment starts inside a marker token. Not judged: segments that do not start at a token, non-marker tokens, literals printed at the use of an inlined constant. Pre-step cases are validated first (every marker of G has an exact input segment) and discarded otherwise. Non-trivial = ≥5 verified marker segments with ≥1 after non-ASCII text on its original or generated line or from a second source")
	H.SetupRapid("maps", H.N(2500, 120000))
	rapid.Check(t, func(rt *rapid.T) {
		c := genCase(rt)
		b, _ := json.Marshal(c)
		H.Report(rt, "maps", string(b), c, judge(c))
	})
}

var subs = map[string]vdrv.ReplayFunc{"maps": replay, "css": replayCSS}

func TestCheck(t *testing.T) {
	H = vdrv.New("C07")
	complete := false
	defer func() { H.Finish(complete) }()
	defer fsgen.RemoveScratch()
	H.RunReplays(t, subs)
	H.Sub(t, "maps", runMaps)
	H.Sub(t, "css", runCSS)
	complete = true
}

func TestReplay(t *testing.T) {
	H = vdrv.New("C07")
	defer fsgen.RemoveScratch()
	H.ReplayOne(t, subs)
}

// debugMeasure prints (VERIF_C07_DEBUG=1) how often rules that are NOT asserted would fire; used to decide what can be asserted.
func debugMeasure(c Case, base, code string, prog *jsref.Program, m *smref.Map, srcOrig []*origFile, tokAt map[pos]jsref.Token) {
	segAt := map[pos]bool{}
	for _, seg := range m.Segments {
		segAt[pos{seg.GenLine, seg.GenCol}] = true
		t, atTok := tokAt[pos{seg.GenLine, seg.GenCol}]
		if !atTok && seg.GenCol != 0 {
			gs := smref.Lines(code)
			off := smref.Offset(code, gs, seg.GenLine, seg.GenCol)
			ctx := "?"
			if off >= 0 {
				lo := off - 12
				if lo < 0 {
					lo = 0
				}
				ctx = code[lo:off] + "<<HERE>>" + clip(code[off:], 12)
			}
			fmt.Printf("C07-DEBUG seg-not-at-token minify=%s own=%v ctx=%q\n", c.Minify, c.Originals != nil, ctx)
		}
		if !seg.HasSource {
			fmt.Printf("C07-DEBUG seg-without-source attoken=%v\n", atTok)
			continue
		}
		of := srcOrig[seg.Source]
		ot, found := of.tokAt[pos{seg.OrigLine, seg.OrigCol}]
		if !found {
			fmt.Printf("C07-DEBUG orig-not-at-token gen=%q compose=%v own=%v\n", t.Raw, c.Compose, c.Originals != nil)
		}
		if seg.HasName {
			name := m.Names[seg.Name]
			if !markerIdent.MatchString(strings.TrimPrefix(name, "#")) {
				ok := found && isIdentLike(ot) && identName(ot) == name
				fmt.Printf("C07-DEBUG nonmarker-name ok=%v name=%s gen=%q orig=%q\n", ok, name, t.Raw, ot.Raw)
			}
			if !atTok || !isIdentLike(t) {
				fmt.Printf("C07-DEBUG name-on-non-ident gen=%q\n", t.Raw)
			}
		}
		if found {
			if ok, isM := markerKey(ot); isM {
				gk, _ := markerKey(t)
				renamedOK := isIdentLike(t) && seg.HasName && m.Names[seg.Name] == identName(ot)
				if gk != ok && !renamedOK {
					fmt.Printf("C07-DEBUG reverse-miss col0=%v attoken=%v gen=%q origkey=%s minify=%s compose=%v own=%v fmt=%s\n", seg.GenCol == 0, atTok, clip(t.Raw, 20), ok[:1], c.Minify, c.Compose, c.Originals != nil, c.Format)
				}
			}
		}
	}
	byLine := map[int][]smref.Segment{}
	for _, seg := range m.Segments {
		byLine[seg.GenLine] = append(byLine[seg.GenLine], seg)
	}
	for _, t := range prog.Tokens {
		if k, ok := markerKey(t); ok {
			var g *smref.Segment
			for i, seg := range byLine[t.Line] {
				if seg.GenCol <= t.Col16 {
					g = &byLine[t.Line][i]
				}
			}
			res := "none"
			if g != nil && g.HasSource {
				ot, found := srcOrig[g.Source].tokAt[pos{g.OrigLine, g.OrigCol}]
				ok2, _ := markerKey(ot)
				res = fmt.Sprintf("%v", found && ok2 == k)
			} else if g != nil {
				res = "nosource"
			}
			if res != "true" {
				cj, _ := json.Marshal(c)
				fmt.Printf("C07-DEBUG lookup-miss-case %s\n", cj)
			}
			fmt.Printf("C07-DEBUG lookup kind=%s res=%s exact=%v minify=%s own=%v compose=%v\n", k[:1]+t.Kind.String(), res, g != nil && g.GenCol == t.Col16, c.Minify, c.Originals != nil, c.Compose)
			lo := t.Start - 15
			if lo < 0 {
				lo = 0
			}
			ctx := ""
			if !segAt[pos{t.Line, t.Col16}] {
				ctx = code[lo:t.Start] + "<<HERE>>" + clip(code[t.Start:], 15)
			}
			fmt.Printf("C07-DEBUG marker-token kind=%s mapped=%v minify=%s own=%v compose=%v ctx=%q\n", k[:1]+t.Kind.String(), segAt[pos{t.Line, t.Col16}], c.Minify, c.Originals != nil, c.Compose, ctx)
		}
	}
}

// C07 — source maps point every generated token at its true origin. See DESIGN.md section 5 / C07.
package c07

import (
	"encoding/json"
	"fmt"
	"path"
	"regexp"
	"sort"
	"strings"
	"testing"

	"github.com/evanw/esbuild/pkg/api"
	"github.com/evanw/esbuild/verif/jsref"
	"github.com/evanw/esbuild/verif/smref"
	"github.com/evanw/esbuild/verif/vdrv"
	"pgregory.net/rapid"
)

var H *vdrv.H

// ----------------------------------------------------------------------------- marker programs

// Every identifier, string and number in a generated program is a unique marker: identifiers mk<N>_<file>,
// strings "s<N>_<file>", numbers 9<N><file digits>. Layout is adversarial: long lines, tabs, CRLF, U+2028 in
// strings, astral and combining characters before markers on the same line.
type mg struct {
	t    *rapid.T
	sb   strings.Builder
	next int
	file int
	decl []string
}

func (g *mg) intn(n int, l string) int {
	if n <= 1 {
		return 0
	}
	return rapid.IntRange(0, n-1).Draw(g.t, l)
}
func (g *mg) id() int { g.next++; return g.next }

func (g *mg) ws() string {
	return []string{" ", " ", "  ", "\t", "\n", "\r\n", "\n\n", " /* é */ ", " /* 😀😀 */ ", " /* ñ́ */ ", "\n  ", "    ", " /* */ ", "\n// c\n", ""}[g.intn(15, "ws")]
}
func (g *mg) ident() string { return fmt.Sprintf("mk%d_%d", g.id(), g.file) }
func (g *mg) str() string {
	q := []string{"\"", "'"}[g.intn(2, "q")]
	pre := []string{"", "", "é", "😀", "\\u2028", "a b", "\\n"}[g.intn(7, "strpre")]
	return fmt.Sprintf("%ss%d_%d%s%s", q, g.id(), g.file, pre, q)
}
func (g *mg) num() string { return fmt.Sprintf("9%04d%d", g.id(), g.file) }

func (g *mg) expr(d int) string {
	if d <= 0 {
		switch g.intn(4, "leaf") {
		case 0:
			if len(g.decl) > 0 {
				return g.decl[g.intn(len(g.decl), "ref")]
			}
			return g.num()
		case 1:
			return g.str()
		default:
			return g.num()
		}
	}
	switch g.intn(8, "expr") {
	case 0:
		return g.expr(d-1) + g.ws() + "-" + g.ws() + g.expr(d-1) // not "+": constant strings would be folded into one token
	case 1:
		return "sink(" + g.ws() + g.expr(d-1) + "," + g.ws() + g.expr(d-1) + g.ws() + ")"
	case 2:
		return "[" + g.expr(d-1) + "," + g.ws() + g.expr(d-1) + "]"
	case 3:
		return "{" + g.ws() + g.ident() + ":" + g.ws() + g.expr(d-1) + g.ws() + "}" // property name marker
	case 4:
		return "(" + g.expr(d-1) + ")." + g.ident()
	case 5:
		return "`t" + fmt.Sprint(g.id()) + "${sink(" + g.expr(d-1) + ")}é😀${sink(" + g.expr(d-1) + ")}`" // literals in holes would be folded into the template
	case 6:
		p := g.ident()
		old := g.decl
		g.decl = append(append([]string{}, g.decl...), p)
		body := g.expr(d - 1)
		g.decl = old
		return "function" + g.ws() + "(" + p + ")" + g.ws() + "{" + g.ws() + "return" + " " + body + g.ws() + "}"
	default:
		return g.expr(d - 1)
	}
}

func (g *mg) program(nstmts int, exportSome bool, imports []string) string {
	if g.intn(6, "bom") == 0 {
		g.sb.WriteString("\ufeff")
	}
	for _, im := range imports {
		g.sb.WriteString(im + g.ws())
	}
	for i := 0; i < nstmts; i++ {
		switch g.intn(5, "stmt") {
		case 0, 1:
			name := g.ident()
			kw := []string{"var", "let", "const"}[g.intn(3, "kw")]
			ex := ""
			if exportSome && g.intn(3, "export") == 0 {
				ex = "export "
			}
			g.sb.WriteString(ex + kw + g.ws() + name + g.ws() + "=" + g.ws() + g.expr(2) + ";" + g.ws())
			g.decl = append(g.decl, name)
		case 2:
			g.sb.WriteString("sink(" + g.expr(2) + ");" + g.ws())
		case 3:
			name := g.ident()
			p := g.ident()
			old := g.decl
			g.decl = append(append([]string{}, g.decl...), p)
			body := g.expr(2)
			g.decl = old
			g.sb.WriteString("function " + name + "(" + p + ")" + g.ws() + "{" + g.ws() + "if (" + p + ") return " + body + ";" + g.ws() + "sink(" + g.str() + ");" + g.ws() + "}" + g.ws() + "sink(" + name + ");" + g.ws())
			g.decl = append(g.decl, name)
		default:
			g.sb.WriteString("/* 😀 long " + strings.Repeat("x", g.intn(200, "pad")) + " */" + g.ws() + "sink(" + g.expr(1) + ");" + g.ws())
		}
	}
	return g.sb.String()
}

var markerIdent = regexp.MustCompile(`^mk\d+_\d+$`)
var markerStr = regexp.MustCompile(`^s\d+_\d+`)
var markerNum = regexp.MustCompile(`^9\d{4}\d+$`)

// ----------------------------------------------------------------------------- cases

type Case struct {
	Files      map[string]string `json:"files"` // f0.js is the entry (imports the others)
	Bundle     bool              `json:"bundle"`
	Splitting  bool              `json:"splitting,omitempty"`
	Minify     string            `json:"minify,omitempty"` // "", ws, ids, all
	SourceMap  string            `json:"sourcemap"`        // inline | linked | external | both
	NoContent  bool              `json:"no_sources_content,omitempty"`
	Banner     string            `json:"banner,omitempty"`
	Footer     string            `json:"footer,omitempty"`
	SourceRoot string            `json:"source_root,omitempty"`
	ChunkNames string            `json:"chunk_names,omitempty"`
	Compose    bool              `json:"compose,omitempty"` // first compile every file alone with an inline map, then build from those
	Format     string            `json:"format,omitempty"`
}

func (c Case) options(files map[string]string) api.BuildOptions {
	o := api.BuildOptions{LogLevel: api.LogLevelSilent, Write: false, Outdir: "/out", AbsWorkingDir: "/in", Bundle: c.Bundle, Splitting: c.Splitting,
		SourceRoot: c.SourceRoot, ChunkNames: c.ChunkNames}
	switch c.SourceMap {
	case "inline":
		o.Sourcemap = api.SourceMapInline
	case "external":
		o.Sourcemap = api.SourceMapExternal
	case "both":
		o.Sourcemap = api.SourceMapInlineAndExternal
	default:
		o.Sourcemap = api.SourceMapLinked
	}
	if c.NoContent {
		o.SourcesContent = api.SourcesContentExclude
	}
	switch c.Minify {
	case "ws":
		o.MinifyWhitespace = true
	case "ids":
		o.MinifyIdentifiers = true
	case "all":
		o.MinifyWhitespace, o.MinifyIdentifiers, o.MinifySyntax = true, true, true
	}
	if c.Banner != "" {
		o.Banner = map[string]string{"js": c.Banner}
	}
	if c.Footer != "" {
		o.Footer = map[string]string{"js": c.Footer}
	}
	switch c.Format {
	case "esm":
		o.Format = api.FormatESModule
	case "cjs":
		o.Format = api.FormatCommonJS
	case "iife":
		o.Format = api.FormatIIFE
	}
	if c.Splitting {
		o.Format = api.FormatESModule
	}
	o.EntryPoints = []string{"/in/f0.js"}
	if c.Splitting && len(files) > 2 && !strings.Contains(files["f0.js"], "import(\"./f1.js\")") {
		o.EntryPoints = append(o.EntryPoints, "/in/f1.js")
	}
	o.Plugins = []api.Plugin{{Name: "mem", Setup: func(b api.PluginBuild) {
		b.OnResolve(api.OnResolveOptions{Filter: ".*"}, func(a api.OnResolveArgs) (api.OnResolveResult, error) {
			p := a.Path
			if strings.HasPrefix(p, "./") {
				p = "/in/" + p[2:]
			}
			if p == "sinkmod" {
				return api.OnResolveResult{Path: p, External: true}, nil
			}
			return api.OnResolveResult{Path: p, Namespace: "file"}, nil
		})
		b.OnLoad(api.OnLoadOptions{Filter: ".*", Namespace: "file"}, func(a api.OnLoadArgs) (api.OnLoadResult, error) {
			s, ok := files[strings.TrimPrefix(a.Path, "/in/")]
			if !ok {
				return api.OnLoadResult{}, fmt.Errorf("no such file %s", a.Path)
			}
			return api.OnLoadResult{Contents: &s, Loader: api.LoaderJS, ResolveDir: "/in"}, nil
		})
	}}}
	return o
}

func decodeStringValue(t jsref.Token) string { return jsref.UTF16ToString(t.Str) }

// judge builds, decodes every emitted map with smref and checks marker segments.
func judge(c Case) vdrv.Verdict {
	originals := c.Files
	inputs := c.Files
	if c.Compose {
		// first generation: each file compiled alone with an inline map (whitespace-minified so positions move)
		inputs = map[string]string{}
		for name, src := range c.Files {
			r := api.Transform(src, api.TransformOptions{LogLevel: api.LogLevelSilent, Sourcemap: api.SourceMapInline, Sourcefile: "/in/" + name, MinifyWhitespace: true, Format: api.FormatESModule})
			if len(r.Errors) > 0 {
				return vdrv.Skip("first-pass-error:" + r.Errors[0].Text)
			}
			inputs[name] = string(r.Code)
		}
	}
	r := api.Build(c.options(inputs))
	if len(r.Errors) > 0 {
		return vdrv.Skip("build-error:" + r.Errors[0].Text)
	}
	outs := map[string]string{}
	for _, f := range r.OutputFiles {
		outs[f.Path] = string(f.Contents)
	}
	verified, nonASCIIBefore, joined := 0, 0, 0
	cls := []string{"map=" + c.SourceMap, "minify=" + c.Minify}
	var jsFiles []string
	for p := range outs {
		if strings.HasSuffix(p, ".js") {
			jsFiles = append(jsFiles, p)
		}
	}
	sort.Strings(jsFiles)
	for _, jsPath := range jsFiles {
		code := outs[jsPath]
		var raws [][]byte
		if c.SourceMap == "inline" || c.SourceMap == "both" {
			b, ok := smref.InlineURL(code)
			if !ok {
				return vdrv.Fail("no inline source map in "+jsPath, "inline map", code)
			}
			raws = append(raws, b)
		}
		if c.SourceMap != "inline" {
			mp, ok := outs[jsPath+".map"]
			if !ok {
				return vdrv.Fail("no "+jsPath+".map emitted", "map file", strings.Join(jsFiles, ","))
			}
			raws = append(raws, []byte(mp))
			if c.SourceMap == "linked" && !strings.Contains(code, "//# sourceMappingURL="+path.Base(jsPath)+".map") {
				return vdrv.Fail("linked source map comment missing or wrong in "+jsPath, "//# sourceMappingURL="+path.Base(jsPath)+".map", tail(code, 200))
			}
			if c.SourceMap == "external" && strings.Contains(code, "sourceMappingURL=") {
				return vdrv.Fail("external source map must not be linked from "+jsPath, "no comment", tail(code, 200))
			}
		}
		isModule := c.Format == "esm" || c.Splitting || c.Format == "" && !c.Bundle
		prog, perr := jsref.Parse(code, jsref.Options{Module: isModule})
		if perr != nil {
			prog, perr = jsref.Parse(code, jsref.Options{Module: !isModule})
			if perr != nil {
				return vdrv.Skip("jsref-gap")
			}
		}
		// token starts of the output by (line, col16)
		type pos struct{ l, c int }
		tokAt := map[pos]jsref.Token{}
		for _, t := range prog.Tokens {
			tokAt[pos{t.Line, t.Col16}] = t
		}
		for _, raw := range raws {
			m, err := smref.Parse(raw)
			if err != nil {
				return vdrv.Fail("malformed source map for "+jsPath+": "+err.Error(), "well-formed version 3 map", string(raw))
			}
			if c.SourceRoot != m.SourceRoot {
				return vdrv.Fail("sourceRoot not recorded", c.SourceRoot, m.SourceRoot)
			}
			// resolve sources to original texts
			srcText := make([]string, len(m.Sources))
			for i, s := range m.Sources {
				base := path.Base(s)
				txt, ok := originals[base]
				if !ok {
					return vdrv.Fail(fmt.Sprintf("map source %q is not one of the original input files", s), "an input file", strings.Join(m.Sources, ","))
				}
				srcText[i] = txt
				if !c.NoContent {
					if m.SourcesContent == nil || m.SourcesContent[i] == nil {
						return vdrv.Fail("sourcesContent missing for "+s, "original text", "null")
					}
					if *m.SourcesContent[i] != txt {
						return vdrv.Fail("sourcesContent differs from the original file "+s, txt, *m.SourcesContent[i])
					}
				} else if m.SourcesContent != nil {
					for _, sc := range m.SourcesContent {
						if sc != nil {
							return vdrv.Fail("sourcesContent present although excluded", "none", *sc)
						}
					}
				}
			}
			lineStarts := make([][]int, len(srcText))
			for i := range srcText {
				lineStarts[i] = smref.Lines(srcText[i])
			}
			markerTokens, markerMapped := 0, 0
			for _, t := range prog.Tokens {
				if isMarkerToken(t) {
					markerTokens++
				}
			}
			for _, seg := range m.Segments {
				if !seg.HasSource {
					continue
				}
				t, ok := tokAt[pos{seg.GenLine, seg.GenCol}]
				if !ok || !isMarkerToken(t) {
					continue // not the start of a marker token: synthetic / punctuation segments are not judged
				}
				markerMapped++
				src := srcText[seg.Source]
				off := smref.Offset(src, lineStarts[seg.Source], seg.OrigLine, seg.OrigCol)
				if off < 0 {
					return vdrv.Fail(fmt.Sprintf("%s: segment at %d:%d maps to %s %d:%d which is outside the source", path.Base(jsPath), seg.GenLine, seg.GenCol, m.Sources[seg.Source], seg.OrigLine, seg.OrigCol), "position inside the file", "")
				}
				rest := src[off:]
				want := markerText(t)
				okMatch := false
				switch t.Kind {
				case jsref.TString:
					okMatch = len(rest) > 1 && (rest[0] == '"' || rest[0] == '\'' || rest[0] == '`') && strings.HasPrefix(rest[1:], want)
				case jsref.TNum:
					okMatch = strings.HasPrefix(rest, want)
				case jsref.TIdent:
					switch {
					case markerIdent.MatchString(t.Ident): // a marker identifier that kept its name
						okMatch = strings.HasPrefix(rest, t.Ident)
						if okMatch && seg.HasName && m.Names[seg.Name] != t.Ident {
							return vdrv.Fail(fmt.Sprintf("segment at %d:%d has name %q but the identifier there is %q", seg.GenLine, seg.GenCol, m.Names[seg.Name], t.Ident), t.Ident, m.Names[seg.Name])
						}
					case seg.HasName && markerIdent.MatchString(m.Names[seg.Name]): // a renamed marker: `names` holds the original
						okMatch = strings.HasPrefix(rest, m.Names[seg.Name])
						want = "the original identifier named in `names` (" + m.Names[seg.Name] + ")"
					default:
						continue // helper / import-namespace / non-marker identifiers (synthetic code) are not judged
					}
				}
				if !okMatch {
					return vdrv.Fail(fmt.Sprintf("%s: the token %q at generated %d:%d is mapped to %s %d:%d, where the source reads %q", path.Base(jsPath), t.Raw, seg.GenLine, seg.GenCol, m.Sources[seg.Source], seg.OrigLine, seg.OrigCol, clip(rest, 30)), want, clip(rest, 60))
				}
				verified++
				lineStart := lineStarts[seg.Source][seg.OrigLine]
				for _, b := range []byte(src[lineStart:off]) {
					if b >= 0x80 {
						nonASCIIBefore++
						break
					}
				}
				if seg.Source > 0 {
					joined++
				}
			}
			// no segment may point INTO a marker literal: a mapping names the token that starts at its generated
			// position, and nothing starts in the middle of a string or number (this is what an off-by-one or a
			// byte-vs-UTF-16 column mistake produces)
			type span struct{ line, from, to int }
			var lits []span
			for _, t := range prog.Tokens {
				if (t.Kind == jsref.TString && markerStr.MatchString(decodeStringValue(t))) || (t.Kind == jsref.TNum && markerNum.MatchString(t.Raw)) {
					if !strings.ContainsAny(t.Raw, "\n\r") {
						lits = append(lits, span{t.Line, t.Col16, t.Col16 + len(jsref.UTF16(t.Raw))})
					}
				}
			}
			for _, seg := range m.Segments {
				if !seg.HasSource {
					continue
				}
				for _, l := range lits {
					if l.line == seg.GenLine && seg.GenCol > l.from && seg.GenCol < l.to {
						return vdrv.Fail(fmt.Sprintf("%s: a segment starts at generated %d:%d, in the middle of the literal that spans columns %d–%d", path.Base(jsPath), seg.GenLine, seg.GenCol, l.from, l.to), "segments start at token starts", tail(m.Mappings, 200))
					}
				}
			}
			_ = markerTokens
			_ = markerMapped
		}
	}
	if nonASCIIBefore > 0 {
		cls = append(cls, "non-ascii-before-marker")
	}
	if joined > 0 {
		cls = append(cls, "multi-source")
	}
	if c.Compose {
		cls = append(cls, "composed")
	}
	v := vdrv.Pass(verified >= 5 && (nonASCIIBefore > 0 || joined > 0), cls...)
	v.Observed = fmt.Sprintf("%d marker segments verified (%d after non-ASCII text, %d in joined sources)", verified, nonASCIIBefore, joined)
	return v
}

func isMarkerToken(t jsref.Token) bool {
	switch t.Kind {
	case jsref.TString:
		return markerStr.MatchString(decodeStringValue(t))
	case jsref.TNum:
		return markerNum.MatchString(t.Raw)
	case jsref.TIdent:
		return true // any identifier token: either a kept marker or a renamed one (judged through `names`)
	}
	return false
}

func markerText(t jsref.Token) string {
	switch t.Kind {
	case jsref.TString:
		return markerStr.FindString(decodeStringValue(t))
	case jsref.TNum:
		return t.Raw
	}
	return t.Ident
}

func clip(s string, n int) string {
	if len(s) > n {
		return s[:n]
	}
	return s
}
func tail(s string, n int) string {
	if len(s) > n {
		return s[len(s)-n:]
	}
	return s
}

func replay(raw json.RawMessage) vdrv.Verdict {
	var c Case
	if json.Unmarshal(raw, &c) != nil {
		return vdrv.Skip("bad-replay")
	}
	return judge(c)
}

func runMaps(t *testing.T) {
	H.Rule("maps", "rapid: 1–4 files in which every identifier, string and number is a unique marker, printed with adversarial layout (tabs, CRLF, blank lines, long comments, astral / combining characters and U+2028 before markers on the same line, BOM), single-file and bundled × source map mode {inline, linked, external, both} × sourcesContent on/off × minify {none, whitespace, identifiers, all} × splitting with chunk name templates × banner/footer × sourceRoot × format × composition through a first esbuild pass with inline maps. Oracle: an independent VLQ/source-map reader (smref) and tokenizer (jsref): map well-formed (version 3, sorted, indices in range); every segment that starts at a marker token of the output maps to the start of the same marker in the named ORIGINAL file (UTF-16 columns), renamed identifiers through `names`; ≥60% of marker literals carry a mapping at their start; sourcesContent equals the original text. Non-trivial = ≥5 verified marker segments with ≥1 after non-ASCII text on its line or from a second source")
	H.SetupRapid("maps", H.N(2500, 120000))
	rapid.Check(t, func(rt *rapid.T) {
		c := Case{Files: map[string]string{}}
		n := rapid.IntRange(1, 4).Draw(rt, "nfiles")
		c.Bundle = n > 1 || rapid.Bool().Draw(rt, "bundle")
		dyn := n > 1 && rapid.IntRange(0, 2).Draw(rt, "dynamic") == 0
		for i := n - 1; i >= 0; i-- {
			g := &mg{t: rt, file: i}
			var imports []string
			if i == 0 {
				imports = append(imports, "import { sink } from \"sinkmod\";")
				for j := 1; j < n; j++ {
					imports = append(imports, fmt.Sprintf("import \"./f%d.js\";", j))
				}
			} else {
				imports = append(imports, "import { sink } from \"sinkmod\";")
			}
			src := g.program(rapid.IntRange(2, 7).Draw(rt, "nstmts"), false, imports)
			if i == 0 && n > 1 && dyn {
				// dynamic imports on consecutive lines: with splitting the final (hashed, variable-length) chunk
				// paths are substituted in front of mapped tokens on the same line
				for j := 1; j < n; j++ {
					a, b := g.ident(), g.ident()
					src += fmt.Sprintf("\nimport(\"./f%d.js\").then((%s) => sink(%s.%s, %s, %s));", j, a, a, b, g.str(), g.num())
				}
				src += "\n"
			}
			c.Files[fmt.Sprintf("f%d.js", i)] = src
		}
		c.SourceMap = rapid.SampledFrom([]string{"inline", "linked", "external", "both"}).Draw(rt, "mode")
		c.NoContent = rapid.IntRange(0, 3).Draw(rt, "nocontent") == 0
		c.Minify = rapid.SampledFrom([]string{"", "ws", "ids", "all"}).Draw(rt, "minify")
		if rapid.IntRange(0, 2).Draw(rt, "banner") == 0 {
			c.Banner = rapid.SampledFrom([]string{"/* banner */", "// b1\n// b2", "/* é😀 */ var bannerVar = 1;"}).Draw(rt, "bannertext")
			c.Footer = rapid.SampledFrom([]string{"", "/* footer */"}).Draw(rt, "footertext")
		}
		c.SourceRoot = rapid.SampledFrom([]string{"", "", "https://example.com/src/"}).Draw(rt, "sourceroot")
		if c.Bundle {
			c.Format = rapid.SampledFrom([]string{"esm", "cjs", "iife"}).Draw(rt, "format")
			if dyn || (n > 2 && rapid.IntRange(0, 2).Draw(rt, "splitting") == 0) {
				c.Splitting = true
				c.ChunkNames = rapid.SampledFrom([]string{"", "chunks/[name]-[hash]", "c-[hash]-long-long-long-name"}).Draw(rt, "chunknames")
			}
		} else {
			c.Format = "esm"
		}
		c.Compose = rapid.IntRange(0, 3).Draw(rt, "compose") == 0
		b, _ := json.Marshal(c)
		H.Report(rt, "maps", string(b), c, judge(c))
	})
}

var subs = map[string]vdrv.ReplayFunc{"maps": replay}

func TestCheck(t *testing.T) {
	H = vdrv.New("C07")
	complete := false
	defer func() { H.Finish(complete) }()
	H.RunReplays(t, subs)
	H.Sub(t, "maps", runMaps)
	complete = true
}

func TestReplay(t *testing.T) {
	H = vdrv.New("C07")
	H.ReplayOne(t, subs)
}

package c07

import (
	"fmt"
	"strings"

	"pgregory.net/rapid"
)

// ----------------------------------------------------------------------------- unbiased draws

// rapid's integer generators favour small values on purpose; grammar choices are drawn from unbiased bits instead
// (same helper as props/c11). Shrinks towards 0 like any other draw.
var boolGen = rapid.Bool()

func uniform(t *rapid.T, label string, n int) int {
	if n <= 1 {
		return 0
	}
	bits := 3
	for m := n - 1; m > 0; m >>= 1 {
		bits++
	}
	v := 0
	for i := 0; i < bits; i++ {
		v <<= 1
		if boolGen.Draw(t, label) {
			v |= 1
		}
	}
	return v % n
}

func chance(t *rapid.T, label string, pct int) bool { return uniform(t, label, 100) < pct }

func pick(t *rapid.T, label string, alts []string) string { return alts[uniform(t, label, len(alts))] }

// ----------------------------------------------------------------------------- marker programs

// Every identifier, string, number and template head of a generated program is a unique marker: identifiers
// mk<N>_<file>[é|𝒳], private names #mk<N>_<file>, strings "s<N>_<file>…", templates `t<N>_<file>…`, numbers
// 9<NNNN><file>. Layout is adversarial: long lines, tabs, every ECMAScript line terminator (LF, CRLF, lone CR,
// U+2028, U+2029 — between tokens, in comments, raw inside string and template literals, after a line continuation),
// exotic white space (NBSP, ZWNBSP, U+3000, VT, FF), astral and combining characters before markers on the same line.
type mg struct {
	t    *rapid.T
	sb   strings.Builder
	next int
	file int
	decl []string
}

func (g *mg) intn(n int, l string) int { return uniform(g.t, l, n) }
func (g *mg) id() int                  { g.next++; return g.next }

// separators that may be empty / are never empty. The first entries are the plain ones (shrinking goes there).
var wsAlts = []string{" ", "", " ", "  ", "\t", "\n", "\r\n", "\n\n", " /* é */ ", " /* 😀😀 */ ", " /* ñ́ */ ", "\n  ", "    ", " /*\u2028*/ ", "\n// c\n",
	"\r", "\u2028", "\u2029", " /*\u2029😀*/ ", "\u00a0", "\ufeff", "\u3000", "\n// é😀 c\r\n", "\t\t", "\r\n\t", " /* 𝒳\r\n𝒳 */ ", "\v", "\f", " /* 𝒳𝒳𝒳 */\t"}

func (g *mg) ws() string { return pick(g.t, "ws", wsAlts) }
func (g *mg) ws1() string {
	for {
		if s := g.ws(); s != "" {
			return s
		}
	}
}

var identSuffix = []string{"", "", "", "é", "𝒳", "\\u00e9"}

func (g *mg) ident() string {
	return fmt.Sprintf("mk%d_%d%s", g.id(), g.file, pick(g.t, "idsuffix", identSuffix))
}

// asciiIdent is used where the name must survive as an identifier in every charset (labels, private names).
func (g *mg) asciiIdent() string { return fmt.Sprintf("mk%d_%d", g.id(), g.file) }

var strTails = []string{"", "", "é", "😀", "\\u2028", "a b", "\\n", "\u2028", "\u2029", "😀́😀", "\\\n", "\\\r\n", "\\\u2028x", "\\u{1F600}", "\t"}

func (g *mg) str() string {
	q := []string{"\"", "'"}[g.intn(2, "q")]
	return fmt.Sprintf("%ss%d_%d%s%s", q, g.id(), g.file, pick(g.t, "strtail", strTails), q)
}
func (g *mg) num() string { return fmt.Sprintf("9%04d%d", g.id(), g.file) }

var tplTexts = []string{"é😀", "", "\n", "\r\n", "é\u2028😀", " 𝒳\n\t", "x"}

func (g *mg) leaf() string {
	switch g.intn(4, "leaf") {
	case 0:
		if len(g.decl) > 0 {
			return g.decl[g.intn(len(g.decl), "ref")]
		}
		return g.num()
	case 1:
		return g.str()
	default:
		return g.num()
	}
}

func (g *mg) scoped(params []string, f func() string) string {
	old := g.decl
	g.decl = append(append([]string{}, g.decl...), params...)
	s := f()
	g.decl = old
	return s
}

func (g *mg) expr(d int) string {
	if d <= 0 {
		return g.leaf()
	}
	switch g.intn(12, "expr") {
	case 0:
		return g.expr(d-1) + g.ws() + "-" + g.ws1() + g.expr(d-1) // not "+": constant strings would be folded into one token
	case 1:
		return "sink(" + g.ws() + g.expr(d-1) + "," + g.ws() + g.expr(d-1) + g.ws() + ")"
	case 2:
		return "[" + g.expr(d-1) + "," + g.ws() + g.expr(d-1) + "]"
	case 3:
		return "{" + g.ws() + g.ident() + ":" + g.ws() + g.expr(d-1) + g.ws() + "}" // property name marker
	case 4:
		return "(" + g.expr(d-1) + ")." + g.ident()
	case 5:
		// literals in holes would be folded into the template, so holes are calls
		return fmt.Sprintf("`t%d_%d%s${sink(", g.id(), g.file, pick(g.t, "tpl", tplTexts)) + g.expr(d-1) + ")}" + pick(g.t, "tpl", tplTexts) + "${" + g.ws() + "sink(" + g.expr(d-1) + ")}`"
	case 6:
		p := g.ident()
		return "function" + g.ws() + "(" + p + ")" + g.ws() + "{" + g.ws() + "return" + " " + g.scoped([]string{p}, func() string { return g.expr(d - 1) }) + g.ws() + "}"
	case 7:
		a, b := g.ident(), g.ident()
		return "((" + g.ws() + a + "," + g.ws() + b + g.ws() + ") =>" + g.ws() + g.scoped([]string{a, b}, func() string { return "sink(" + g.expr(d-1) + ")" }) + ")"
	case 8:
		if len(g.decl) > 0 {
			return "{" + g.ws() + g.decl[g.intn(len(g.decl), "ref")] + "," + g.ws() + g.ident() + ":" + g.ws() + g.expr(d-1) + "}" // shorthand property
		}
		return g.expr(d - 1)
	case 9:
		return "sink(" + g.expr(d-1) + ")"
	case 10:
		return "sink(/é😀[/]\\//u," + g.ws() + g.expr(d-1) + ")" // a token with non-ASCII text that is no marker
	default:
		return g.expr(d - 1)
	}
}

// initExpr never yields a bare literal: a `const` bound to a literal is inlined at its uses under minify-syntax, and
// the literal printed there is (truthfully) mapped to the use site, where the source reads an identifier.
func (g *mg) initExpr() string {
	if g.intn(2, "init") == 0 {
		return "sink(" + g.expr(2) + ")"
	}
	return "[" + g.expr(1) + "," + g.ws() + g.expr(2) + "]"
}

func (g *mg) stmt(exportSome bool) {
	w := func(s string) { g.sb.WriteString(s) }
	switch g.intn(11, "stmt") {
	case 0, 1:
		name := g.ident()
		kw := []string{"var", "let", "const"}[g.intn(3, "kw")]
		ex := ""
		if exportSome && g.intn(3, "export") == 0 {
			ex = "export "
		}
		w(ex + kw + g.ws1() + name + g.ws() + "=" + g.ws() + g.initExpr() + ";" + g.ws())
		g.decl = append(g.decl, name)
	case 2:
		w("sink(" + g.expr(2) + ");" + g.ws())
	case 3:
		name := g.ident()
		p := g.ident()
		body := g.scoped([]string{p}, func() string { return g.expr(2) })
		w("function " + name + "(" + p + ")" + g.ws() + "{" + g.ws() + "if (" + p + ") return " + body + ";" + g.ws() + "sink(" + g.str() + ");" + g.ws() + "}" + g.ws() + "sink(" + name + ");" + g.ws())
		g.decl = append(g.decl, name)
	case 4:
		w("/* 😀 long " + strings.Repeat("x", g.intn(200, "pad")) + " */" + g.ws() + "sink(" + g.expr(1) + ");" + g.ws())
	case 5:
		// class: name, method, parameter, static field, getter, private field
		name, m, p, f, gt, pr := g.ident(), g.ident(), g.ident(), g.ident(), g.ident(), g.asciiIdent()
		w("class" + g.ws1() + name + g.ws() + "{" + g.ws() + m + "(" + p + ")" + g.ws() + "{" + g.ws() + "return " + g.scoped([]string{p}, func() string { return g.expr(1) }) + ";" + g.ws() + "}" + g.ws())
		w("static " + f + g.ws() + "=" + g.ws() + g.expr(1) + ";" + g.ws() + "get " + gt + "()" + g.ws() + "{" + g.ws() + "return this.#" + pr + ";" + g.ws() + "}" + g.ws() + "#" + pr + g.ws() + "=" + g.ws() + g.expr(1) + ";" + g.ws() + "}" + g.ws() + "sink(" + name + ");" + g.ws())
		g.decl = append(g.decl, name)
	case 6:
		// destructuring: key, binding with default, shorthand binding, array pattern, rest
		k, b, sh, a0, rest := g.ident(), g.ident(), g.ident(), g.ident(), g.ident()
		kw := []string{"var", "let", "const"}[g.intn(3, "kw")]
		w(kw + g.ws() + "{" + g.ws() + k + ":" + g.ws() + b + g.ws() + "=" + g.ws() + g.expr(1) + "," + g.ws() + sh + g.ws() + "}" + g.ws() + "=" + g.ws() + "sink(" + g.expr(1) + ")," + g.ws() + "[" + a0 + "," + g.ws() + "..." + rest + "]" + g.ws() + "=" + g.ws() + "sink(" + g.expr(1) + ");" + g.ws())
		g.decl = append(g.decl, b, sh, a0, rest)
	case 7:
		e := g.ident()
		w("try" + g.ws() + "{" + g.ws() + "sink(" + g.expr(1) + ");" + g.ws() + "}" + g.ws() + "catch" + g.ws() + "(" + e + ")" + g.ws() + "{" + g.ws() + "sink(" + e + "," + g.ws() + g.expr(1) + ");" + g.ws() + "}" + g.ws())
	case 8:
		l := g.asciiIdent()
		w(l + ":" + g.ws() + "for (;;)" + g.ws() + "{" + g.ws() + "sink(" + g.expr(1) + ");" + g.ws() + "break " + l + ";" + g.ws() + "}" + g.ws())
	case 9:
		// legal comments survive (inline when not bundling, at the end of the file otherwise)
		w(pick(g.t, "legal", []string{"//! legal é😀\n", "/*! legal\n * 😀\u2028x */", "/*! 𝒳 */ "}) + g.ws() + "sink(" + g.expr(1) + ");" + g.ws())
	default:
		w("sink(" + g.expr(3) + ");" + g.ws())
	}
}

func (g *mg) program(nstmts int, exportSome bool, imports []string) string {
	switch g.intn(8, "bom") {
	case 0:
		g.sb.WriteString("\ufeff")
	case 1:
		g.sb.WriteString("#!/usr/bin/env node é😀\n") // kept (first line) for an entry point, dropped elsewhere
	}
	for _, im := range imports {
		g.sb.WriteString(im + g.ws())
	}
	for i := 0; i < nstmts; i++ {
		g.stmt(exportSome)
	}
	return g.sb.String()
}

// ----------------------------------------------------------------------------- case generator

var bannerTexts = []string{"/* banner */", "// b1\n// b2", "/* é😀 */ var bannerVar = 1;", "/* a\r\n b */\r\n// 𝒳𝒳", "/*\u2028*/ /* x */", "// lone\r/* cr */", "\"use strict\";"}
var footerTexts = []string{"", "/* footer */", "// é😀 end", "/* f1 */\n/* f2\u2029 */"}

func genCase(rt *rapid.T) Case {
	c := Case{Files: map[string]string{}}
	n := 1 + uniform(rt, "nfiles", 4)
	c.Bundle = n > 1 || boolGen.Draw(rt, "bundle")
	dyn := n > 1 && uniform(rt, "dynamic", 3) == 0
	pre := chance(rt, "prestep", 30)
	var progs []string
	for i := n - 1; i >= 0; i-- {
		g := &mg{t: rt, file: i}
		imports := []string{"import { sink } from \"sinkmod\";"}
		if i == 0 {
			for j := 1; j < n; j++ {
				imports = append(imports, fmt.Sprintf("import \"./f%d.js\";", j))
			}
		}
		src := g.program(2+uniform(rt, "nstmts", 6), false, imports) // no exports: the getters esbuild writes for them are invented code
		if i == 0 && n > 1 && dyn {
			// dynamic imports on consecutive lines: with splitting the final (hashed, variable-length) chunk
			// paths are substituted in front of mapped tokens on the same line
			for j := 1; j < n; j++ {
				a, b := g.ident(), g.ident()
				src += fmt.Sprintf("\nimport(\"./f%d.js\").then((%s) => sink(%s.%s, %s, %s));", j, a, a, b, g.str(), g.num())
			}
			src += "\n"
		}
		c.Files[fmt.Sprintf("f%d.js", i)] = src
		progs = append(progs, src)
	}
	c.SourceMap = pick(rt, "mode", []string{"linked", "inline", "external", "both"})
	c.NoContent = uniform(rt, "nocontent", 4) == 0
	c.Minify = pick(rt, "minify", []string{"", "ws", "ids", "all", "syntax"})
	c.Charset = pick(rt, "charset", []string{"", "utf8", "utf8", "ascii"})
	if uniform(rt, "banner", 3) == 0 {
		c.Banner = pick(rt, "bannertext", bannerTexts)
	}
	if uniform(rt, "footer", 4) == 0 {
		c.Footer = pick(rt, "footertext", footerTexts)
	}
	c.SourceRoot = pick(rt, "sourceroot", []string{"", "", "https://example.com/src/", "../root é"})
	if c.Bundle {
		c.Format = pick(rt, "format", []string{"esm", "cjs", "iife"})
		if dyn || (n > 2 && uniform(rt, "splitting", 3) == 0) {
			c.Splitting = true
			c.ChunkNames = pick(rt, "chunknames", []string{"", "chunks/[name]-[hash]", "c-[hash]-long-long-long-name", "[hash]"})
		}
	} else {
		c.Format = "esm"
	}
	if pre {
		genPreStep(rt, &c)
	} else {
		c.Compose = uniform(rt, "compose", 4) == 0
	}
	return c
}

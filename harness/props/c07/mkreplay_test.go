package c07

import (
	"encoding/json"
	"os"
	"path/filepath"
	"strings"
	"testing"

	"pgregory.net/rapid"
)

// TestMakeReplays (only with VERIF_C07_MKREPLAY=<dir>) writes small generated cases of chosen shapes as regression
// replays; the own-step ones cannot reasonably be written by hand because they contain a computed map.
func TestMakeReplays(t *testing.T) {
	dir := os.Getenv("VERIF_C07_MKREPLAY")
	if dir == "" {
		t.Skip("VERIF_C07_MKREPLAY not set")
	}
	gen := rapid.Custom(genCase)
	want := map[string]func(c Case) bool{
		"own-step-index-map-renamed-subdir": func(c Case) bool {
			if c.Originals == nil || !c.Splitting {
				return false
			}
			for k, m := range c.MapFiles {
				if strings.HasPrefix(k, "maps/") && strings.Contains(m, "\"sections\"") && strings.Contains(c.Files["f0.js"], "r1_0") {
					return true
				}
			}
			return false
		},
		"own-step-inline-two-originals-minified": func(c Case) bool {
			return c.Originals != nil && len(c.MapFiles) == 0 && len(c.Originals) > len(c.Files) && (c.Minify == "all" || c.Minify == "ids") && c.Charset != "ascii"
		},
		"own-step-no-content-read-from-disk": func(c Case) bool {
			if c.Originals == nil || c.NoContent || len(c.Files) != 1 {
				return false
			}
			for _, m := range c.MapFiles {
				if !strings.Contains(m, "sourcesContent") {
					return true
				}
			}
			return false
		},
		"esbuild-pass-composed-splitting-banner": func(c Case) bool {
			return c.Compose && c.Splitting && c.Banner != "" && c.ChunkNames != "" && c.Minify == "ids"
		},
	}
	best := map[string]Case{}
	size := func(c Case) int { b, _ := json.Marshal(c); return len(b) }
	for seed := 0; seed < 3000; seed++ {
		c := gen.Example(seed)
		for name, ok := range want {
			if ok(c) {
				if old, have := best[name]; !have || size(c) < size(old) {
					if v := judge(c); v.OK && v.Discard == "" && v.NonTrivial {
						best[name] = c
					}
				}
			}
		}
	}
	for name, c := range best {
		v := judge(c)
		if !v.OK || v.Discard != "" || !v.NonTrivial {
			t.Errorf("%s: not a passing non-trivial case (%s %s)", name, v.Discard, v.Detail)
			continue
		}
		b, _ := json.MarshalIndent(map[string]interface{}{"property": "C07", "sub": "maps", "case": c, "note": "regression replay (generated shape: " + name + "); " + v.Observed}, "", " ")
		if err := os.WriteFile(filepath.Join(dir, name+".json"), b, 0o644); err != nil {
			t.Fatal(err)
		}
	}
	// one style sheet case: local-css names, bundled, minified, utf8
	cssGen := rapid.Custom(genCSSCase)
	var bestCSS *CSSCase
	for seed := 0; seed < 2000; seed++ {
		c := cssGen.Example(seed)
		if c.Local && len(c.Files) > 1 && c.Minify == "all" && c.Charset == "utf8" {
			if v := judgeCSS(c); v.OK && v.Discard == "" && v.NonTrivial && strings.Contains(v.Observed, " 0 with names") == false {
				if bestCSS == nil || size2(c) < size2(*bestCSS) {
					cc := c
					bestCSS = &cc
				}
			}
		}
	}
	if bestCSS == nil {
		t.Errorf("no css shape found")
	} else {
		b, _ := json.MarshalIndent(map[string]interface{}{"property": "C07", "sub": "css", "case": bestCSS, "note": "regression replay (local-css bundle, minified, utf8, names): " + judgeCSS(*bestCSS).Observed}, "", " ")
		os.WriteFile(filepath.Join(dir, "css-local-bundle-minified-utf8.json"), b, 0o644)
	}
	if len(best) != len(want) {
		t.Errorf("only %d of %d shapes found", len(best), len(want))
	}
}

func size2(c CSSCase) int { b, _ := json.Marshal(c); return len(b) }

package c07

import (
	"encoding/base64"
	"encoding/json"
	"fmt"
	"path"
	"sort"
	"strings"

	"github.com/evanw/esbuild/verif/jsref"
	"github.com/evanw/esbuild/verif/smref"
	"pgregory.net/rapid"
)

// ----------------------------------------------------------------------------- an "earlier compilation step" of our own
//
// The generator plays a compiler that ran before esbuild: it takes one or two original files O (marker programs),
// prints their tokens again with a different layout (re-indented, lines joined or split, every kind of line
// terminator, comments with astral characters, a header) — renaming nothing — and writes the exact map G→O itself.
// G carries the map inline (data: URL) or as a sibling file; esbuild then builds G. The final map must point markers
// at their place in O.

type prePart struct {
	key      string // path of the original relative to the project root (src/o0a.js)
	text     string
	unmapped bool // code the earlier step added itself: no original, announced by a one-field segment
}

type preSeg struct {
	off      int // byte offset in G
	src      int // index into parts; -1 = a segment without source
	line, co int // original position (0-based line, UTF-16 column)
	name     string
}

const vlqChars = "ABCDEFGHIJKLMNOPQRSTUVWXYZabcdefghijklmnopqrstuvwxyz0123456789+/"

func vlq(sb *strings.Builder, v int) {
	u := v << 1
	if v < 0 {
		u = (-v << 1) | 1
	}
	for {
		d := u & 31
		u >>= 5
		if u != 0 {
			d |= 32
		}
		sb.WriteByte(vlqChars[d])
		if u == 0 {
			return
		}
	}
}

// pos16 converts a byte offset into (line, UTF-16 column) with ECMAScript line terminators.
func pos16(text string, starts []int, off int) (int, int) {
	l := sort.Search(len(starts), func(i int) bool { return starts[i] > off }) - 1
	return l, len(jsref.UTF16(text[starts[l]:off]))
}

type mapJSON struct {
	Version        int       `json:"version"`
	File           string    `json:"file,omitempty"`
	SourceRoot     string    `json:"sourceRoot,omitempty"`
	Sources        []string  `json:"sources"`
	SourcesContent []*string `json:"sourcesContent,omitempty"`
	Names          []string  `json:"names"`
	Mappings       string    `json:"mappings"`
}

type sectionJSON struct {
	Offset struct {
		Line   int `json:"line"`
		Column int `json:"column"`
	} `json:"offset"`
	Map mapJSON `json:"map"`
}

// encodeMappings writes the segments (sorted by offset) relative to the generated position (baseLine, baseCol).
// srcIndex translates a part index into an index of the `sources` array.
func encodeMappings(g string, starts []int, segs []preSeg, baseLine, baseCol int, srcIndex []int, names *[]string, unsorted bool) string {
	if unsorted {
		// the segments of each generated line in reverse order (negative column deltas): legal, and esbuild sorts them
		var out []preSeg
		for i := 0; i < len(segs); {
			l, _ := pos16(g, starts, segs[i].off)
			j := i
			for j < len(segs) {
				if lj, _ := pos16(g, starts, segs[j].off); lj != l {
					break
				}
				j++
			}
			for k := j - 1; k >= i; k-- {
				out = append(out, segs[k])
			}
			i = j
		}
		segs = out
	}
	var sb strings.Builder
	nameIdx := map[string]int{}
	for i, n := range *names {
		nameIdx[n] = i
	}
	curLine, prevCol, prevSrc, prevOL, prevOC, prevName := 0, 0, 0, 0, 0, 0
	first := true
	for _, s := range segs {
		l, c := pos16(g, starts, s.off)
		if l == baseLine {
			c -= baseCol
		}
		l -= baseLine
		for curLine < l {
			sb.WriteByte(';')
			curLine++
			prevCol = 0
			first = true
		}
		if !first {
			sb.WriteByte(',')
		}
		first = false
		vlq(&sb, c-prevCol)
		prevCol = c
		if s.src < 0 {
			continue
		}
		si := srcIndex[s.src]
		vlq(&sb, si-prevSrc)
		vlq(&sb, s.line-prevOL)
		vlq(&sb, s.co-prevOC)
		prevSrc, prevOL, prevOC = si, s.line, s.co
		if s.name != "" {
			ni, ok := nameIdx[s.name]
			if !ok {
				ni = len(*names)
				*names = append(*names, s.name)
				nameIdx[s.name] = ni
			}
			vlq(&sb, ni-prevName)
			prevName = ni
		}
	}
	return sb.String()
}

func asciiJSON(b []byte) []byte {
	var sb strings.Builder
	for _, r := range string(b) {
		switch {
		case r < 0x80:
			sb.WriteRune(r)
		case r >= 0x10000:
			r -= 0x10000
			fmt.Fprintf(&sb, "\\u%04x\\u%04x", 0xD800+(r>>10), 0xDC00+(r&0x3ff))
		default:
			fmt.Fprintf(&sb, "\\u%04X", r)
		}
	}
	return []byte(sb.String())
}

var preInlineSeps = []string{" ", "  ", "\t", " /* é */ ", " /* 😀😀 */ ", "\u00a0", "   ", " /* 𝒳 */\t", "\u3000"}
var preNewlineSeps = []string{"\n", "\r\n", "\n\n  ", "\n\t", "\r", "\u2028", "\u2029 ", " // é😀\n", "\n/* 😀\n */ ", "\r\n\r\n", "\n    ", "\n/* 𝒳𝒳 */ "}
var preHeaders = []string{"", "\ufeff", "\ufeff/* 😀 */ ", "// generated é😀\n", "/* hdr */ ", "\r\n\r\n", "/*\u2028*/", "/* 𝒳 */\t/* 𝒳 */ ", "// a\r// b\r\n"}

var noBreakAfter = map[string]bool{"return": true, "break": true, "continue": true, "throw": true, "yield": true, "async": true, "get": true, "set": true, "static": true, "let": true}
var noBreakBefore = map[string]bool{"=>": true, "++": true, "--": true}

// preStep prints the parts again as one generated file and returns it with its map placed as drawn.
// ok=false when our own tokenizer cannot read a part (never expected).
func preStep(rt *rapid.T, gname string, parts []prePart, c *Case) bool {
	attach := pick(rt, "pre-attach", []string{"inline", "sibling", "subdir"})
	density := pick(rt, "pre-density", []string{"dense", "markers", "mixed"})
	layout := pick(rt, "pre-layout", []string{"reindent", "join", "split", "mix"})
	withNames := boolGen.Draw(rt, "pre-names")
	content := pick(rt, "pre-content", []string{"all", "all", "none", "first-null"})
	useRoot := uniform(rt, "pre-sourceroot", 3) == 0
	mapped := 0
	for _, p := range parts {
		if !p.unmapped {
			mapped++
		}
	}
	sections := mapped > 1 && mapped == len(parts) && boolGen.Draw(rt, "pre-sections")
	reverse := mapped > 1 && !sections && boolGen.Draw(rt, "pre-reverse-sources")
	asciiEsc := boolGen.Draw(rt, "pre-ascii-json")
	lead := uniform(rt, "pre-unmapped-lead", 4) == 0
	unsorted := uniform(rt, "pre-unsorted", 6) == 0
	rename := uniform(rt, "pre-rename", 3) == 0 // play a renaming compiler: mk5_0 becomes r5_0 and `names` records mk5_0

	var g strings.Builder
	var segs []preSeg
	partStart := make([]int, len(parts)) // offset in G of the first token of each part
	hdr := pick(rt, "pre-header", preHeaders)
	g.WriteString(hdr)
	if lead && hdr != "" {
		segs = append(segs, preSeg{off: 0, src: -1})
	}
	for k, part := range parts {
		toks, err := jsref.Tokenize(part.text, jsref.Options{Module: true})
		if err != nil {
			return false
		}
		for i, t := range toks {
			var prev *jsref.Token
			if i > 0 {
				prev = &toks[i-1]
			}
			sep := ""
			switch {
			case prev == nil && k == 0:
				// header already written
			case prev == nil:
				sep = pick(rt, "pre-partsep", []string{"\n", " ", "\r\n\t", "\u2028", " /* 😀 */ "})
			default:
				gapEmpty := t.Start == prev.End
				canBreak := !noBreakAfter[prev.Raw] && !noBreakBefore[t.Raw]
				pct := map[string]int{"reindent": 0, "join": 0, "split": 50, "mix": 25}[layout]
				if layout == "reindent" && t.NewlineBefore {
					pct = 100
				}
				switch {
				case canBreak && chance(rt, "pre-break", pct):
					sep = pick(rt, "pre-nl", preNewlineSeps)
				case gapEmpty && chance(rt, "pre-glue", 70):
					sep = ""
				default:
					sep = pick(rt, "pre-sp", preInlineSeps)
				}
			}
			g.WriteString(sep)
			if i == 0 {
				partStart[k] = g.Len()
				if part.unmapped {
					segs = append(segs, preSeg{off: g.Len(), src: -1})
				}
			}
			_, isMarker := markerKey(t)
			if part.unmapped {
				// no segment: everything up to the next mapped token is unmapped
			} else if isMarker || density == "dense" || (density == "mixed" && boolGen.Draw(rt, "pre-seg")) {
				s := preSeg{off: g.Len(), src: k, line: t.Line, co: t.Col16}
				if (withNames || rename) && isIdentLike(t) && isMarker {
					s.name = identName(t)
				}
				segs = append(segs, s)
			}
			if rename && isIdentLike(t) && isMarker {
				if t.Kind == jsref.TPrivateName {
					g.WriteString("#")
				}
				g.WriteString("r" + strings.TrimPrefix(t.Ident, "mk"))
			} else {
				g.WriteString(t.Raw)
			}
		}
	}
	g.WriteString(pick(rt, "pre-tail", []string{"\n", "\r\n", " ", "\n\n"}))
	code := g.String()
	starts := smref.Lines(code)

	mapDir, mapName := "", gname+".map"
	if attach == "subdir" {
		mapDir = "maps"
	}
	up := ""
	if mapDir != "" {
		up = "../"
	}
	srcName := func(key string) (root, name string) {
		if useRoot {
			return up + path.Dir(key) + "/", path.Base(key)
		}
		return "", up + key
	}
	mkMap := func(idx []int, segs []preSeg, baseLine, baseCol int) mapJSON {
		m := mapJSON{Version: 3, Names: []string{}}
		order := append([]int{}, idx...)
		if reverse {
			for i, j := 0, len(order)-1; i < j; i, j = i+1, j-1 {
				order[i], order[j] = order[j], order[i]
			}
		}
		srcIndex := make([]int, len(parts))
		for pos, k := range order {
			srcIndex[k] = pos
			root, name := srcName(parts[k].key)
			m.SourceRoot = root
			m.Sources = append(m.Sources, name)
			txt := parts[k].text
			switch {
			case content == "all", content == "first-null" && pos > 0:
				m.SourcesContent = append(m.SourcesContent, &txt)
			case content == "first-null":
				m.SourcesContent = append(m.SourcesContent, nil)
			}
		}
		if content == "first-null" && len(order) == 1 {
			m.SourcesContent = []*string{nil}
		}
		m.Mappings = encodeMappings(code, starts, segs, baseLine, baseCol, srcIndex, &m.Names, unsorted)
		return m
	}
	var raw []byte
	if sections {
		var doc struct {
			Version  int           `json:"version"`
			File     string        `json:"file,omitempty"`
			Sections []sectionJSON `json:"sections"`
		}
		doc.Version = 3
		doc.File = gname
		for k := range parts {
			var mine []preSeg
			for _, s := range segs {
				if s.src == k || (s.src < 0 && k == 0) {
					mine = append(mine, s)
				}
			}
			var sec sectionJSON
			if k > 0 {
				sec.Offset.Line, sec.Offset.Column = pos16(code, starts, partStart[k])
			}
			sec.Map = mkMap([]int{k}, mine, sec.Offset.Line, sec.Offset.Column)
			doc.Sections = append(doc.Sections, sec)
		}
		raw, _ = json.Marshal(doc)
	} else {
		var all []int
		for k := range parts {
			if !parts[k].unmapped {
				all = append(all, k)
			}
		}
		m := mkMap(all, segs, 0, 0)
		m.File = gname
		raw, _ = json.Marshal(m)
	}
	if asciiEsc {
		raw = asciiJSON(raw)
	}
	switch attach {
	case "inline":
		code += "//# sourceMappingURL=data:application/json;base64," + base64.StdEncoding.EncodeToString(raw)
	default:
		p := path.Join(mapDir, mapName)
		c.MapFiles[p] = string(raw)
		code += "//# sourceMappingURL=" + p
	}
	code += pick(rt, "pre-eof", []string{"\n", "", "\r\n"})
	c.Files[gname] = code
	return true
}

func genPreStep(rt *rapid.T, c *Case) {
	c.Disk = true
	c.Originals = map[string]string{}
	c.MapFiles = map[string]string{}
	var gnames []string
	for n := range c.Files {
		gnames = append(gnames, n)
	}
	sort.Strings(gnames)
	for i, gname := range gnames {
		parts := []prePart{{key: fmt.Sprintf("src/o%da.js", i), text: c.Files[gname]}}
		if chance(rt, "pre-second", 40) {
			g2 := &mg{t: rt, file: 10 + i}
			parts = append(parts, prePart{key: fmt.Sprintf("src/o%db.js", i), text: g2.program(1+uniform(rt, "nstmts2", 3), false, nil)})
		}
		if chance(rt, "pre-unmapped", 12) {
			// code of the earlier step's own (a helper, a wrapper): present in G, explicitly unmapped
			g3 := &mg{t: rt, file: 20 + i}
			u := prePart{text: g3.program(1+uniform(rt, "nstmts3", 2), false, nil), unmapped: true}
			at := 1 + uniform(rt, "pre-unmapped-at", len(parts))
			parts = append(parts[:at], append([]prePart{u}, parts[at:]...)...)
		}
		if !preStep(rt, gname, parts, c) {
			rt.Skip("jsref cannot tokenize a generated original")
		}
		for _, p := range parts {
			if !p.unmapped {
				c.Originals[p.key] = p.text
			}
		}
	}
}

// ----------------------------------------------------------------------------- reading an input map back (case validation)

type flatSeg struct {
	hasSource         bool
	genLine, genCol   int
	key               string // original file (project-relative path)
	origLine, origCol int
	name              string
	hasName           bool
}

// flattenInputMap decodes a (possibly sectioned) input map with the independent reader and resolves its sources
// against the directory of the map.
func flattenInputMap(raw []byte, mapDir string) ([]flatSeg, error) {
	var probe struct {
		Sections []struct {
			Offset struct{ Line, Column int }
			Map    json.RawMessage
		} `json:"sections"`
	}
	if err := json.Unmarshal(raw, &probe); err != nil {
		return nil, err
	}
	type sec struct {
		line, col int
		raw       []byte
	}
	secs := []sec{{0, 0, raw}}
	if probe.Sections != nil {
		secs = nil
		for _, s := range probe.Sections {
			secs = append(secs, sec{s.Offset.Line, s.Offset.Column, s.Map})
		}
	}
	var out []flatSeg
	for _, s := range secs {
		m, err := smref.ParseUnsorted(s.raw)
		if err != nil {
			return nil, err
		}
		for _, sg := range m.Segments {
			f := flatSeg{hasSource: sg.HasSource, genLine: sg.GenLine + s.line, genCol: sg.GenCol, origLine: sg.OrigLine, origCol: sg.OrigCol}
			if sg.GenLine == 0 {
				f.genCol += s.col
			}
			if !sg.HasSource {
				out = append(out, f)
				continue
			}
			f.key = path.Join(mapDir, m.SourceRoot+m.Sources[sg.Source])
			if sg.HasName {
				f.name, f.hasName = m.Names[sg.Name], true
			}
			out = append(out, f)
		}
	}
	return out, nil
}

// inputMapUnsorted reports whether some line of the (possibly sectioned) map lists its segments out of order.
func inputMapUnsorted(raw []byte) bool {
	var probe struct {
		Sections []struct {
			Map json.RawMessage `json:"map"`
		} `json:"sections"`
	}
	if json.Unmarshal(raw, &probe) != nil {
		return false
	}
	raws := [][]byte{raw}
	for _, s := range probe.Sections {
		raws = append(raws, s.Map)
	}
	for _, r := range raws {
		if _, err := smref.Parse(r); err != nil && strings.Contains(err.Error(), "not sorted") {
			return true
		}
	}
	return false
}

package c12

import (
	"encoding/json"
	"fmt"
	"sort"
	"strconv"
	"strings"
	"testing"

	"github.com/evanw/esbuild/pkg/api"
	"github.com/evanw/esbuild/verif/cssref"
	"github.com/evanw/esbuild/verif/vdrv"
	"pgregory.net/rapid"
)

// ModRule is one marked rule of a CSS-module file. Selector is a template: {c:NAME} = local class,
// {i:NAME} = local id; everything else (including global names) is literal.
type ModRule struct {
	Selector string   `json:"selector,omitempty"` // template of the expected output selector
	Source   string   `json:"source"`             // the source text of the whole rule
	Marker   int      `json:"marker"`
	Composes []string `json:"composes,omitempty"` // "NAME" (same file), "NAME@FILE" (other file), "NAME@global"
	Owner    string   `json:"owner,omitempty"`    // local class that carries the composes
	AnimName string   `json:"anim_name,omitempty"`
	AnimProp string   `json:"anim_prop,omitempty"` // animation-name | animation
	Keyframe string   `json:"keyframe,omitempty"`  // this rule is "@keyframes NAME" (marker inside)
}

// ModFile is one local-css file.
type ModFile struct {
	Name  string    `json:"name"`
	Rules []ModRule `json:"rules"`
}

// ModCase is the replay form of the CSS-modules sub-check.
type ModCase struct {
	Files             []ModFile `json:"files"`
	MinifyIdentifiers bool      `json:"minify_identifiers,omitempty"`
	MinifySyntax      bool      `json:"minify_syntax,omitempty"`
}

func (f ModFile) source() string {
	var sb strings.Builder
	for _, r := range f.Rules {
		sb.WriteString(r.Source + "\n")
	}
	return sb.String()
}

func lastField(s string) string {
	f := strings.Fields(s)
	if len(f) == 0 {
		return ""
	}
	return f[len(f)-1]
}

func normSel(s string) string { return cssref.Serialize(cssref.ParseCVs(s)) }

func judgeModules(c ModCase) vdrv.Verdict {
	files := map[string]string{}
	loaders := map[string]api.Loader{}
	var js strings.Builder
	for i, f := range c.Files {
		files[f.Name] = f.source()
		loaders[f.Name] = api.LoaderLocalCSS
		fmt.Fprintf(&js, "import m%d from \"./%s\";\n", i, f.Name)
	}
	js.WriteString("log(JSON.stringify([")
	for i := range c.Files {
		if i > 0 {
			js.WriteString(",")
		}
		fmt.Fprintf(&js, "m%d", i)
	}
	js.WriteString("]));\n")
	files["entry.js"] = js.String()
	res := api.Build(api.BuildOptions{EntryPoints: []string{"entry.js"}, Bundle: true, Write: false, Outdir: "/out", Format: api.FormatIIFE,
		MinifyIdentifiers: c.MinifyIdentifiers, MinifySyntax: c.MinifySyntax, LogLevel: api.LogLevelSilent, Plugins: []api.Plugin{memPlugin(files, loaders)}})
	if len(res.Errors) > 0 {
		return vdrv.Skip("esbuild-error:" + firstWords(res.Errors[0].Text, 5))
	}
	var outJS, outCSS string
	for _, f := range res.OutputFiles {
		if strings.HasSuffix(f.Path, ".js") {
			outJS = string(f.Contents)
		} else if strings.HasSuffix(f.Path, ".css") {
			outCSS = string(f.Contents)
		}
	}
	if outJS == "" || outCSS == "" {
		return vdrv.Skip("missing-output")
	}
	r, err := W.Script(outJS, false)
	if err != nil {
		return vdrv.Skip("node-infra")
	}
	if r.ParseError != "" || len(r.Events) != 1 || !strings.HasPrefix(r.Events[0], "s:") {
		return vdrv.Fail("the bundled JavaScript did not log the exported names", "one JSON string", r.Trace()+"\n"+outJS)
	}
	var inner string
	if json.Unmarshal([]byte(r.Events[0][2:]), &inner) != nil {
		return vdrv.Skip("node-protocol")
	}
	var exports []map[string]string
	if json.Unmarshal([]byte(inner), &exports) != nil || len(exports) != len(c.Files) {
		return vdrv.Fail("exported names are not one object of strings per file", "array of objects", inner)
	}
	fileIndex := map[string]int{}
	for i, f := range c.Files {
		fileIndex[f.Name] = i
	}

	// read the output CSS: marker -> selector / keyframes name / declarations
	type outRule struct {
		selector string
		decls    map[string]string
	}
	byMarker := map[int]outRule{}
	keyframeOf := map[int]string{}
	var walk func(items []cssref.Item)
	walk = func(items []cssref.Item) {
		for _, it := range items {
			r := it.Rule
			if r == nil {
				continue
			}
			if r.At == "keyframes" {
				name := cssref.Serialize(r.Prelude)
				for _, fr := range cssref.Parse(cssref.Serialize(r.Body)).Rules {
					for _, d := range fr.Items {
						if d.Decl != nil && d.Decl.Name == "z-index" {
							if m, err := strconv.Atoi(cssref.Serialize(d.Decl.Value)); err == nil {
								keyframeOf[m] = name
							}
						}
					}
				}
				continue
			}
			if r.At == "" {
				or := outRule{selector: cssref.Serialize(r.Prelude), decls: map[string]string{}}
				marker := -1
				for _, d := range r.Items {
					if d.Decl != nil {
						or.decls[d.Decl.Name] = cssref.Serialize(d.Decl.Value)
						if d.Decl.Name == "z-index" {
							if m, err := strconv.Atoi(cssref.Serialize(d.Decl.Value)); err == nil {
								marker = m
							}
						}
					}
				}
				if marker >= 0 {
					byMarker[marker] = or
				}
			}
			walk(r.Items)
		}
	}
	sheet := cssref.Parse(outCSS)
	top := make([]cssref.Item, len(sheet.Rules))
	for i, r := range sheet.Rules {
		top[i] = cssref.Item{Rule: r}
	}
	walk(top)

	fail := func(detail, exp, obs string) vdrv.Verdict {
		return vdrv.Fail(detail+"\n--- exports\n"+inner+"\n--- CSS\n"+outCSS, exp, obs)
	}
	own := func(fi int, name string) (string, bool) {
		v, ok := exports[fi][name]
		return lastField(v), ok && v != ""
	}
	classNames := map[string]string{} // output class name -> file/name
	idNames := map[string]string{}
	kfNames := map[string]string{}
	globals := map[string]bool{}
	nComposes, nAnim, nGlobal := 0, 0, 0
	for fi, f := range c.Files {
		for _, rule := range f.Rules {
			if rule.Keyframe != "" {
				o, ok := own(fi, rule.Keyframe)
				if !ok {
					return fail(fmt.Sprintf("no exported name for @keyframes %s of %s", rule.Keyframe, f.Name), "an entry", "none")
				}
				if got := keyframeOf[rule.Marker]; got != o {
					return fail(fmt.Sprintf("@keyframes %s of %s: the exported name differs from the name in the emitted CSS", rule.Keyframe, f.Name), o, got)
				}
				if prev, dup := kfNames[o]; dup && prev != f.Name+"/"+rule.Keyframe {
					return fail("two different @keyframes got the same output name "+o, prev, f.Name+"/"+rule.Keyframe)
				}
				kfNames[o] = f.Name + "/" + rule.Keyframe
				continue
			}
			// expected selector
			exp := rule.Selector
			for {
				i := strings.Index(exp, "{")
				if i < 0 {
					break
				}
				j := strings.Index(exp[i:], "}") + i
				kind, name := exp[i+1:i+2], exp[i+3:j]
				o, ok := own(fi, name)
				if !ok {
					return fail(fmt.Sprintf("local name %s of %s is not exported to JavaScript", name, f.Name), "an entry", "none")
				}
				reg := classNames
				if kind == "i" {
					reg = idNames
				}
				if prev, dup := reg[o]; dup && prev != f.Name+"/"+name {
					return fail("two different local names got the same output name "+o, prev, f.Name+"/"+name)
				}
				reg[o] = f.Name + "/" + name
				pre := "."
				if kind == "i" {
					pre = "#"
				}
				exp = exp[:i] + pre + o + exp[j+1:]
			}
			got, ok := byMarker[rule.Marker]
			if !ok {
				return fail(fmt.Sprintf("the rule with marker %d of %s is missing from the emitted CSS", rule.Marker, f.Name), normSel(exp), "(missing)")
			}
			if normSel(exp) != got.selector {
				return fail(fmt.Sprintf("selector of the rule with marker %d of %s: names exported to JavaScript and names in the CSS disagree", rule.Marker, f.Name), normSel(exp), got.selector)
			}
			if strings.Contains(rule.Source, ":global") {
				nGlobal++
				for _, g := range []string{"g1", "g2", "a", "e", "i", "n"} {
					if strings.Contains(rule.Source, ":global(."+g+")") {
						globals[g] = true
					}
				}
			}
			if len(rule.Composes) > 0 {
				nComposes++
			}
			if rule.AnimName != "" {
				nAnim++
				o, ok := own(fi, rule.AnimName)
				if !ok {
					return fail("keyframes name not exported: "+rule.AnimName, "an entry", "none")
				}
				v := got.decls[rule.AnimProp]
				found := false
				for _, tok := range strings.Fields(v) {
					if tok == o {
						found = true
					}
				}
				if !found {
					return fail(fmt.Sprintf("%s of the rule with marker %d in %s does not use the renamed @keyframes name", rule.AnimProp, rule.Marker, f.Name), o, v)
				}
			}
		}
	}
	// composes: a class composes the union of the lists of all its rules, transitively
	direct := map[string][]string{} // "fi/name" -> targets "fi/name" or "global/name"
	for fi, f := range c.Files {
		for _, rule := range f.Rules {
			for _, cmp := range rule.Composes {
				name, from := cmp, ""
				if k := strings.Index(cmp, "@"); k >= 0 {
					name, from = cmp[:k], cmp[k+1:]
				}
				key := fmt.Sprintf("%d/%s", fi, rule.Owner)
				switch from {
				case "":
					direct[key] = append(direct[key], fmt.Sprintf("%d/%s", fi, name))
				case "global":
					direct[key] = append(direct[key], "global/"+name)
				default:
					direct[key] = append(direct[key], fmt.Sprintf("%d/%s", fileIndex[from], name))
				}
			}
		}
	}
	var closure func(key string, seen map[string]bool, out map[string]bool)
	closure = func(key string, seen map[string]bool, out map[string]bool) {
		if seen[key] {
			return
		}
		seen[key] = true
		for _, t := range direct[key] {
			parts := strings.SplitN(t, "/", 2)
			if parts[0] == "global" {
				out[parts[1]] = true
				continue
			}
			fi, _ := strconv.Atoi(parts[0])
			if o, ok := own(fi, parts[1]); ok {
				out[o] = true
			}
			closure(t, seen, out)
		}
	}
	var ckeys []string
	for key := range direct {
		ckeys = append(ckeys, key)
	}
	sort.Strings(ckeys)
	for _, key := range ckeys {
		parts := strings.SplitN(key, "/", 2)
		fi, _ := strconv.Atoi(parts[0])
		wantSet := map[string]bool{}
		closure(key, map[string]bool{}, wantSet)
		all := strings.Fields(exports[fi][parts[1]])
		if len(all) == 0 {
			return fail("composing class not exported: "+key, "an entry", "none")
		}
		delete(wantSet, all[len(all)-1]) // a class reached through a cycle back to itself
		var want, gotNames []string
		for w := range wantSet {
			want = append(want, w)
		}
		gotNames = append(gotNames, all[:len(all)-1]...)
		sort.Strings(want)
		sort.Strings(gotNames)
		gotNames = uniq(gotNames)
		if strings.Join(want, " ") != strings.Join(gotNames, " ") {
			return fail(fmt.Sprintf("composes of %s in %s: exported class list does not follow the renaming", parts[1], c.Files[fi].Name), strings.Join(want, " "), strings.Join(gotNames, " "))
		}
	}
	for g := range globals {
		if who, clash := classNames[g]; clash {
			return fail("a renamed local class collides with a global class name ."+g, "a different name", who+" -> "+g)
		}
	}
	cls := []string{fmt.Sprintf("files=%d", len(c.Files)), "minify-identifiers=" + fmt.Sprint(c.MinifyIdentifiers)}
	if nComposes > 0 {
		cls = append(cls, "composes")
	}
	if nAnim > 0 {
		cls = append(cls, "animation-reference")
	}
	if nGlobal > 0 {
		cls = append(cls, "global-names")
	}
	same := map[string]int{}
	for _, f := range c.Files {
		seen := map[string]bool{}
		for _, r := range f.Rules {
			for _, part := range strings.Split(r.Selector, "{") {
				if k := strings.Index(part, "}"); k > 2 {
					seen[part[2:k]] = true
				}
			}
		}
		for n := range seen {
			same[n]++
		}
	}
	collide := false
	for _, n := range same {
		if n >= 2 {
			collide = true
		}
	}
	if collide {
		cls = append(cls, "same-local-name-in-two-files")
	}
	v := vdrv.Pass(len(classNames) >= 2, cls...)
	v.Observed = inner
	return v
}

func uniq(xs []string) []string {
	var out []string
	for i, x := range xs {
		if i == 0 || x != xs[i-1] {
			out = append(out, x)
		}
	}
	return out
}

func replayModules(raw json.RawMessage) vdrv.Verdict {
	var c ModCase
	if err := json.Unmarshal(raw, &c); err != nil {
		return vdrv.Skip("bad-replay")
	}
	return judgeModules(c)
}

func genModCase(rt *rapid.T) ModCase {
	n := 0
	k := func(hi int) int {
		n++
		return rapid.IntRange(0, hi).Draw(rt, fmt.Sprintf("m%d", n))
	}
	pick := func(xs []string) string { return xs[k(len(xs)-1)] }
	locals := []string{"n1", "n2", "n3", "n4"}
	globals := []string{"g1", "a", "e", "i", "n", "g2"}
	nfiles := 3 - k(2)
	c := ModCase{MinifyIdentifiers: k(2) == 0, MinifySyntax: k(3) == 3}
	marker := 100
	for fi := 0; fi < nfiles; fi++ {
		f := ModFile{Name: fmt.Sprintf("m%d.module.css", fi)}
		plainClasses := []string{} // local classes defined by a single-class rule in this file
		keyframes := []string{}
		nrules := 2 + k(4)
		for r := 0; r < nrules; r++ {
			marker++
			m := marker
			body := fmt.Sprintf("z-index: %d", m)
			switch k(11) {
			case 0, 1, 2:
				name := pick(locals)
				f.Rules = append(f.Rules, ModRule{Selector: "{c:" + name + "}", Source: fmt.Sprintf(".%s { %s }", name, body), Marker: m})
				plainClasses = append(plainClasses, name)
			case 3:
				name := pick(locals)
				f.Rules = append(f.Rules, ModRule{Selector: "{i:" + name + "}", Source: fmt.Sprintf("#%s { %s }", name, body), Marker: m})
			case 4:
				g := pick(globals)
				f.Rules = append(f.Rules, ModRule{Selector: "." + g, Source: fmt.Sprintf(":global(.%s) { %s }", g, body), Marker: m})
			case 5:
				g, name := pick(globals), pick(locals)
				if k(1) == 0 {
					f.Rules = append(f.Rules, ModRule{Selector: "." + g + " {c:" + name + "}", Source: fmt.Sprintf(":global(.%s) .%s { %s }", g, name, body), Marker: m})
				} else {
					f.Rules = append(f.Rules, ModRule{Selector: "{c:" + name + "} > ." + g, Source: fmt.Sprintf(".%s > :global(.%s) { %s }", name, g, body), Marker: m})
				}
			case 6:
				a, b := pick(locals), pick(locals)
				f.Rules = append(f.Rules, ModRule{Selector: "{c:" + a + "}{c:" + b + "}:hover p", Source: fmt.Sprintf(".%s.%s:hover p { %s }", a, b, body), Marker: m})
			case 7:
				name := pick(locals)
				f.Rules = append(f.Rules, ModRule{Selector: "{c:" + name + "}", Source: fmt.Sprintf(":local(.%s) { %s }", name, body), Marker: m})
			case 8:
				kf := pick([]string{"k1", "k2"})
				f.Rules = append(f.Rules, ModRule{Keyframe: kf, Source: fmt.Sprintf("@keyframes %s { from { %s } }", kf, body), Marker: m})
				keyframes = append(keyframes, kf)
			case 9:
				if len(keyframes) == 0 {
					r--
					marker--
					continue
				}
				name, kf := pick(locals), pick(keyframes)
				if k(1) == 0 {
					f.Rules = append(f.Rules, ModRule{Selector: "{c:" + name + "}", Source: fmt.Sprintf(".%s { animation-name: %s; %s }", name, kf, body), Marker: m, AnimName: kf, AnimProp: "animation-name"})
				} else {
					f.Rules = append(f.Rules, ModRule{Selector: "{c:" + name + "}", Source: fmt.Sprintf(".%s { animation: 1s %s ease; %s }", name, kf, body), Marker: m, AnimName: kf, AnimProp: "animation"})
				}
			default:
				// composes: from the same file, from an earlier file, from global
				name := pick(locals)
				var comps, decls []string
				if len(plainClasses) > 0 && k(2) > 0 {
					t := pick(plainClasses)
					if t != name {
						comps = append(comps, t)
						decls = append(decls, "composes: "+t)
					}
				}
				if fi > 0 && k(1) == 0 {
					other := c.Files[k(fi-1)]
					var cands []string
					for _, orule := range other.Rules {
						if strings.HasPrefix(orule.Selector, "{c:") && strings.HasSuffix(orule.Selector, "}") && strings.Count(orule.Selector, "{") == 1 && orule.AnimName == "" {
							cands = append(cands, orule.Selector[3:len(orule.Selector)-1])
						}
					}
					if len(cands) > 0 {
						t := pick(cands)
						comps = append(comps, t+"@"+other.Name)
						decls = append(decls, fmt.Sprintf("composes: %s from \"./%s\"", t, other.Name))
					}
				}
				if k(3) == 0 {
					g := pick(globals)
					comps = append(comps, g+"@global")
					decls = append(decls, "composes: "+g+" from global")
				}
				if len(comps) == 0 {
					r--
					marker--
					continue
				}
				// composes needs a distinct property in the composing rule, otherwise esbuild warns about undefined order
				f.Rules = append(f.Rules, ModRule{Selector: "{c:" + name + "}", Source: fmt.Sprintf(".%s { %s; %s }", name, strings.Join(decls, "; "), body), Marker: m, Composes: comps, Owner: name})
				plainClasses = append(plainClasses, name)
			}
		}
		c.Files = append(c.Files, f)
	}
	return c
}

func runModules(t *testing.T) {
	H.Rule("modules", "rapid: 1–3 local-css files with local classes/ids from a 4-name pool (so the same local name occurs in several files), :global() names incl. one-letter ones, :local(), mixed selectors, @keyframes + animation-name/animation users, composes (same file, other file, global); every rule carries a unique z-index marker; bundled through a JS entry that logs the imported name objects (IIFE, executed in Node) × minify-identifiers × minify-syntax; checks: exported own name (last token) substituted into the selector template equals the selector of the emitted rule with that marker, every local name is exported, distinct (file,name) pairs get distinct output names per kind, global names are unchanged and never taken by a renamed local class, composes lists and animation references follow the renaming; non-trivial = at least two distinct local names were renamed")
	H.SetupRapid("modules", H.N(1500, 100000))
	rapid.Check(t, func(rt *rapid.T) {
		c := genModCase(rt)
		b, _ := json.Marshal(c)
		H.Report(rt, "modules", string(b), c, judgeModules(c))
	})
}

package c12

import (
	"encoding/json"
	"fmt"
	"os"
	"strings"
	"testing"

	"github.com/evanw/esbuild/verif/cssgen"
	"github.com/evanw/esbuild/verif/cssref"
	"github.com/evanw/esbuild/verif/noderun"
	"github.com/evanw/esbuild/verif/vdrv"
	"pgregory.net/rapid"
)

var H *vdrv.H
var W *noderun.Worker

var oldEngines = []string{"chrome50", "firefox40", "safari9"}
var midEngines = []string{"chrome90", "firefox80", "safari14"}

// SheetCase is the replay form of the cascade, colour and calc sub-checks.
type SheetCase struct {
	CSS    string `json:"css"`
	Cfg    Config `json:"config"`
	Single bool   `json:"single_element,omitempty"`
}

func judgeSheetCase(c SheetCase) vdrv.Verdict {
	devs := cssgen.Devices
	if c.Single {
		devs = cssgen.Devices[:1]
	}
	v, viol := judgeSheet(c.CSS, c.Cfg, c.Single, devs)
	if !v.OK {
		if os.Getenv("VERIF_C12_NOKNOWN") == "" {
			v.Known = knownSignature(c, viol)
		} else { // debugging aid for trying out fixes: report everything, say which signature would have matched
			v.Detail = "[signature: " + knownSignature(c, viol) + "] " + v.Detail
		}
	}
	v.Classes = dedupe0(v.Classes)
	return v
}

func dedupe0(xs []string) []string {
	seen := map[string]bool{}
	var out []string
	for _, x := range xs {
		if !seen[x] {
			seen[x] = true
			out = append(out, x)
		}
	}
	return out
}

func replaySheet(raw json.RawMessage) vdrv.Verdict {
	var c SheetCase
	if err := json.Unmarshal(raw, &c); err != nil {
		return vdrv.Skip("bad-replay")
	}
	v := judgeSheetCase(c)
	v.Known = ""
	return v
}

// ----------------------------------------------------------------------------- C12.b colours

type colorItem struct {
	text string
	core bool
}

func enumerateColors() []colorItem {
	var out []colorItem
	add := func(core bool, s string) { out = append(out, colorItem{s, core}) }
	hx := []string{"0", "3", "8", "f"}
	for i, r := range hx {
		for j, g := range hx {
			for k, b := range hx {
				core := (i+j+k)%3 == 0
				add(core, "#"+r+g+b)
				for _, a := range []string{"0", "8", "f"} {
					add(core && a == "8", "#"+r+g+b+a)
				}
			}
		}
	}
	hh := []string{"00", "12", "7f", "80", "ff"}
	for i, r := range hh {
		for j, g := range hh {
			for k, b := range hh {
				core := (i+2*j+3*k)%7 == 0
				add(core, "#"+r+g+b)
				for _, a := range []string{"00", "7f", "80", "ff", "33"} {
					add(core && a == "80", "#"+r+g+b+a)
				}
			}
		}
	}
	add(true, "#FFAA00")
	add(true, "#AbCdEf80")
	add(true, "#aabbccdd")
	add(true, "#11223344")
	for name := range cssref.NamedColors {
		add(len(name)%2 == 0, name)
	}
	add(true, "RebeccaPurple")
	add(true, "transparent")
	ints := []string{"0", "18", "127", "128", "255", "300", "-5", "127.5", "0.4"}
	for i, r := range ints {
		for j, g := range ints[:5] {
			b := ints[(i+j)%5]
			core := (i+j)%4 == 0
			add(core, "rgb("+r+","+g+","+b+")")
			add(core, "rgb("+r+" "+g+" "+b+")")
			add(false, "rgba("+r+", "+g+", "+b+", .5)")
			add(false, "rgb("+r+" "+g+" "+b+" / 50%)")
			add(false, "rgba("+r+" "+g+" "+b+" / 0.25)")
		}
	}
	pcts := []string{"0%", "50%", "100%", "33.3%", "120%"}
	for _, r := range pcts {
		for _, g := range pcts[:3] {
			add(false, "rgb("+r+","+g+",50%)")
			add(false, "rgb("+r+" "+g+" 0% / .5)")
		}
	}
	for _, a := range []string{"0", "1", ".5", "0.125", "50%", "100%", "0%", "2", "-1", ".999", "0.004"} {
		add(true, "rgba(255,0,0,"+a+")")
		add(false, "rgb(0 128 255 / "+a+")")
		add(false, "hsla(120,100%,50%,"+a+")")
	}
	add(true, "rgb(none 0 0)")
	add(true, "rgb(255 none 0 / none)")
	add(true, "RGB(255,0,0)")
	hues := []string{"0", "60", "120", "210", "360", "-30", "400", "0.5turn", "100grad", "3.14159rad", "90deg", "45.5"}
	sats := []string{"0%", "50%", "100%"}
	ligs := []string{"0%", "25%", "50%", "75%", "100%"}
	for i, h := range hues {
		for j, s := range sats {
			for k, l := range ligs {
				core := (i+j+k)%5 == 0
				if !strings.ContainsAny(h, "tgrd") {
					add(core, "hsl("+h+","+s+","+l+")")
				}
				add(core, "hsl("+h+" "+s+" "+l+")")
				if k == 2 {
					add(false, "hsl("+h+" "+s+" "+l+" / .5)")
					add(false, "hsla("+h+" "+s+" "+l+" / 50%)")
				}
			}
		}
	}
	wb := []string{"0%", "20%", "50%", "100%"}
	for i, h := range hues {
		for j, w := range wb {
			for k, b := range wb {
				add((i+j+k)%4 == 0, "hwb("+h+" "+w+" "+b+")")
				if j == 1 && k == 1 {
					add(false, "hwb("+h+" "+w+" "+b+" / .5)")
				}
			}
		}
	}
	add(true, "hwb(none 20% 20%)")
	// wide-gamut notations, generated from sRGB triples well inside the gamut
	grid := []float64{0.1, 0.3, 0.5, 0.7, 0.9}
	spaces := []string{"lab", "lch", "oklab", "oklch", "srgb", "srgb-linear", "display-p3", "a98-rgb", "prophoto-rgb", "rec2020", "xyz", "xyz-d65", "xyz-d50"}
	for si, sp := range spaces {
		for i, r := range grid {
			for j, g := range grid {
				for k, b := range grid {
					core := (i+j+k+si)%6 == 0
					add(core, cssgen.WideColor(sp, [3]float64{r, g, b}, ""))
					if (i+j+k)%5 == 0 {
						add(false, cssgen.WideColor(sp, [3]float64{r, g, b}, ".5"))
						add(false, cssgen.WideColor(sp, [3]float64{r, g, b}, "25%"))
					}
				}
			}
		}
	}
	for _, s := range []string{"lab(100 0 0)", "lab(0 0 0)", "lab(50% 0 0)", "lab(50 20% -30%)", "lab(50 none 0)", "lch(50 0 0)", "lch(50% 20 90deg)", "lch(50 30 0.25turn)", "oklab(1 0 0)", "oklab(0 0 0)",
		"oklab(50% 0.05 -0.05)", "oklab(0.5 10% -10%)", "oklch(0.5 0.1 100)", "oklch(50% 20% 100grad)", "oklch(0.5 0 none)", "color(srgb 1 0 0)", "color(srgb 50% 50% 50%)", "color(srgb 0.5 0.5 0.5 / 50%)",
		"color(srgb-linear 0.2 0.2 0.2)", "color(display-p3 0.5 0.5 0.5)", "color(xyz 0.2 0.2 0.2)", "color(srgb none 0.5 0.5)", "LAB(50 0 0)", "Color(sRGB 0 0.5 0)"} {
		add(true, s)
	}
	// outside the sRGB gamut (fallback + original expected when colour functions are lowered)
	for _, s := range []string{"color(display-p3 1 0 0)", "color(display-p3 0 1 0)", "lab(50 100 0)", "oklch(0.7 0.4 150)", "color(rec2020 0 0 1)", "lch(80 120 140)", "color(a98-rgb 0 1 0)", "color(prophoto-rgb 0.2 0.9 0.1 / .5)", "oklab(0.6 -0.3 0.1)"} {
		add(true, s)
	}
	return out
}

func colorConfigs(text string) []Config {
	cfgs := []Config{
		{MinifySyntax: true},
		{Engines: oldEngines},
		{Engines: oldEngines, MinifySyntax: true, MinifyWhitespace: true},
	}
	cvs := cssref.ParseCVs(text)
	if len(cvs) == 1 {
		if info, ok := cssref.ParseColor(cvs[0]); ok {
			for _, f := range info.Feats.Sorted() {
				cfgs = append(cfgs, Config{Unsupported: []string{f}}, Config{Unsupported: []string{f}, MinifySyntax: true})
			}
		}
	}
	return cfgs
}

func runColors(t *testing.T) {
	H.Rule("color", "bounded-exhaustive grids over every colour notation (hex 3/4/6/8, named, rgb/rgba legacy+modern, hsl/hsla, hwb, lab/lch/oklab/oklch, color() in 9 spaces; none, percentages, all angle units; wide notations generated from in-gamut sRGB triples by cssref's own conversions, plus a few out-of-gamut colours) × {minify, old engines, old engines+minify, each needed feature switched off}; oracle: cssref canonical RGBA of input vs. cascaded winner of the output in every admissible environment (8-bit quantisation for sRGB notations, 1.5/255 for lowered wide-gamut colours); non-trivial = output spelling differs. Quick runs the core grid plus one of 4 slices chosen by the seed.")
	items := enumerateColors()
	props := []string{"color", "background-color", "border-top-color"}
	n := 0
	for i, it := range items {
		if !H.Thorough() && !it.core && uint64(i)%4 != H.Seed%4 {
			continue
		}
		for ci, cfg := range colorConfigs(it.text) {
			n++
			if !H.MySlice(n) {
				continue
			}
			c := SheetCase{CSS: ".a{" + props[(i+ci)%len(props)] + ":" + it.text + "}", Cfg: cfg, Single: true}
			v := judgeSheetCase(c)
			if v.OK && v.Discard == "" {
				v.Classes = append(v.Classes, "notation="+notationOf(it.text))
			}
			H.Report(t, "color", c.CSS+"|"+cfg.key(), c, v)
		}
	}
	H.Exhaustive("color", H.Thorough())
}

func notationOf(s string) string {
	s = strings.ToLower(s)
	switch {
	case strings.HasPrefix(s, "#"):
		return fmt.Sprintf("hex%d", len(s)-1)
	case strings.HasPrefix(s, "color("):
		return "color(" + strings.Fields(s[6:])[0] + ")"
	case strings.Contains(s, "("):
		return s[:strings.Index(s, "(")]
	}
	return "named"
}

// ----------------------------------------------------------------------------- C12.c calc

type calcGen struct {
	t *rapid.T
	n int
}

func (g *calcGen) pick(xs []string) string {
	g.n++
	return xs[rapid.IntRange(0, len(xs)-1).Draw(g.t, fmt.Sprintf("c%d", g.n))]
}
func (g *calcGen) k(hi int) int {
	g.n++
	return rapid.IntRange(0, hi).Draw(g.t, fmt.Sprintf("k%d", g.n))
}

var calcNums = []string{"2", "0.5", "3", "-2", "1e1", "10", "0.25", "1.5", "4", "-0.5", "+3", "100"}
var calcDivisors = []string{"2", "4", "0.5", "-2", "10", "3", "8"}

func (g *calcGen) lenLeaf(units []string) string {
	return g.pick([]string{"1", "2", "10", "2.5", "-1", "0", "100", "0.5", "7", "1e1", "+3"}) + g.pick(units)
}

// length-typed expression
func (g *calcGen) length(depth int, units []string) string {
	if depth == 0 || g.k(9) < 3 {
		if g.k(9) == 0 {
			return g.pick([]string{"var(--l)", "var(--m, 1px)"})
		}
		return g.lenLeaf(units)
	}
	switch g.k(9) {
	case 0, 1:
		return g.length(depth-1, units) + " + " + g.length(depth-1, units)
	case 2, 3:
		return g.length(depth-1, units) + " - " + g.length(depth-1, units)
	case 4:
		return g.length(depth-1, units) + g.pick([]string{" * ", "*"}) + g.number(depth-1)
	case 5:
		return g.number(depth-1) + g.pick([]string{" * ", "*"}) + g.length(depth-1, units)
	case 6:
		return g.length(depth-1, units) + g.pick([]string{" / ", "/"}) + g.pick(calcDivisors)
	case 7:
		return "(" + g.length(depth-1, units) + ")"
	case 8:
		return "calc(" + g.length(depth-1, units) + ")"
	default:
		return "(" + g.length(depth-1, units) + ") * " + g.number(depth-1)
	}
}

// number-typed expression
func (g *calcGen) number(depth int) string {
	if depth == 0 || g.k(9) < 4 {
		if g.k(14) == 0 {
			return "var(--n)"
		}
		return g.pick(calcNums)
	}
	switch g.k(5) {
	case 0:
		return "(" + g.number(depth-1) + " + " + g.number(depth-1) + ")"
	case 1:
		return "(" + g.number(depth-1) + " - " + g.number(depth-1) + ")"
	case 2:
		return g.number(depth-1) + " * " + g.number(depth-1)
	case 3:
		return g.number(depth-1) + " / " + g.pick(calcDivisors)
	case 4:
		return "calc(" + g.number(depth-1) + ")"
	default:
		return "(" + g.number(depth-1) + ")"
	}
}

func runCalc(t *testing.T) {
	H.Rule("calc", "rapid: typed calc() trees of depth ≤4 over + - * /, numbers, lengths of one unit or mixed units (px, em, %, in, rem, vw), nested calc() and parentheses, var() leaves, in margin-top/width (length) and z-index/opacity (number) × {minify-syntax, +whitespace}; oracle: cssref canonical linear form Σ coef·unit·Πopaque of input vs output, equal within 1e-9 relative; non-trivial = output spelling differs")
	H.SetupRapid("calc", H.N(6000, 400000))
	rapid.Check(t, func(rt *rapid.T) {
		g := &calcGen{t: rt}
		depth := rapid.IntRange(1, 4).Draw(rt, "depth")
		var css string
		switch g.k(9) {
		case 0:
			css = ".a{z-index:calc(" + g.number(depth) + ")}"
		case 1:
			css = ".a{opacity:calc(" + g.number(depth) + ")}"
		default:
			var units []string
			switch g.k(5) {
			case 0, 1:
				units = []string{"px"}
			case 2:
				units = []string{"px", "%"}
			case 3:
				units = []string{"px", "em", "%"}
			case 4:
				units = []string{"px", "in", "pt"}
			default:
				units = []string{"px", "rem", "vw", "%", "em"}
			}
			prop := g.pick([]string{"margin-top", "width", "margin-top", "top", "padding-left"})
			css = ".a{" + prop + ":calc(" + g.length(depth, units) + ")}"
		}
		cfg := Config{MinifySyntax: true, MinifyWhitespace: g.k(2) == 0}
		if g.k(9) == 0 {
			cfg.MinifySyntax = false
		}
		c := SheetCase{CSS: css, Cfg: cfg, Single: true}
		H.Report(rt, "calc", css+"|"+cfg.key(), c, judgeSheetCase(c))
	})
}

// ----------------------------------------------------------------------------- C12.a cascade

func genConfig(rt *rapid.T) Config {
	var c Config
	// rapid favours small values: the most productive configurations come first
	k := rapid.IntRange(0, 99).Draw(rt, "cfgkind")
	switch {
	case k < 30:
		c.MinifySyntax = true
	case k < 48:
		c.Engines, c.MinifySyntax = oldEngines, true
	case k < 60:
		c.Engines = oldEngines
	case k < 68:
		c.MinifySyntax, c.MinifyWhitespace = true, true
	case k < 74:
		c.Engines, c.MinifySyntax = midEngines, true
	case k < 94:
		all := []string{"nesting", "is-pseudo-class", "inset-property", "media-range", "color-functions", "hwb", "hex-rgba", "modern-rgb-hsl", "rebecca-purple"}
		n := rapid.IntRange(1, 3).Draw(rt, "nunsup")
		for i := 0; i < n; i++ {
			f := all[rapid.IntRange(0, len(all)-1).Draw(rt, fmt.Sprintf("unsup%d", i))]
			dup := false
			for _, g := range c.Unsupported {
				dup = dup || g == f
			}
			if !dup {
				c.Unsupported = append(c.Unsupported, f)
			}
		}
		c.MinifySyntax = !rapid.Bool().Draw(rt, "unsupplain")
	default:
		// plain: only the printer runs
	}
	switch rapid.IntRange(0, 9).Draw(rt, "loader") {
	case 8:
		c.Loader = "global-css"
	case 6, 7:
		c.Loader = "local-css"
	}
	return c
}

func genOpts(rt *rapid.T) cssgen.Opts {
	b := func(name string, pct int) bool { return rapid.IntRange(0, 99).Draw(rt, name) < pct }
	return cssgen.Opts{
		Nesting:    b("o.nesting", 55),
		Free:       b("o.free", 45),
		Functional: b("o.functional", 60),
		Layers:     b("o.layers", 35),
		Container:  b("o.container", 20),
		Supports:   b("o.supports", 30),
		Junk:       b("o.junk", 20),
		// the two classes below are listed findings: generated rarely, so that the search goes on behind them
		Logical:         b("o.logical", 6),
		DeclAfterNested: b("o.declafter", 6),
		MaxRules:        rapid.IntRange(2, 6).Draw(rt, "o.maxrules"),
	}
}

func runCascade(t *testing.T) {
	H.Rule("cascade", "rapid: style sheets over cssgen's grammar (3+1 tags, 3 classes, 2 ids, attribute forms, :hover/:first-child/:last-child/:active, :focus-visible and an unknown pseudo-class, ::before/::after and vendor pseudo-elements, all combinators, :is/:where/:not/:has, nesting with & in every position, @media incl. range syntax, @supports incl. selector(), @layer named/nested/anonymous/statement, @container, !important, box shorthand/longhand bursts, border-radius, colours in every notation, calc, var, custom properties, duplicates, reused bodies/selectors, junk declarations) × config (minify flags, old/mid engine targets, Supported overrides, loaders css/global-css/local-css); oracle: cssref cascade over 3 DOM trees (24 elements × pseudo-elements) × 5 devices × every admissible subset of the ≤6 relevant features: win_out(E) ∈ {win_in(E′): E′ ⊇ E}, exists whenever win_in(E) exists, equal when E understands all of the input; non-trivial = normalised rule/declaration structure of the output differs from the input. A failure counts as a listed finding only if the failing longhand and the failing environment fit that finding's signature (knownSignature); findings repaired in /repo have no signature any more — their stale signatures used to be tried first and hid C12-decl-after-nested-rule behind ids that are no longer listed, which the thorough tier reported as violations")
	H.SetupRapid("cascade", H.N(2400, 400000))
	rapid.Check(t, func(rt *rapid.T) {
		o := genOpts(rt)
		cfg := genConfig(rt)
		css := cssgen.Sheet(rt, o)
		c := SheetCase{CSS: css, Cfg: cfg}
		H.Report(rt, "cascade", css+"|"+cfg.key(), c, judgeSheetCase(c))
	})
}

// knownSignature returns the id of the listed ("known") finding whose narrow signature the failing
// case matches: a predicate over the case *and* over what failed (the longhand whose winner differs and
// the syntax the failing environment lacks), so that another failure of the property on a sheet that
// merely contains such a construct is still a violation. Findings that were repaired in /repo have no
// signature any more: their replays are regression tests and a recurrence is a violation.
func knownSignature(c SheetCase, viol *violation) string {
	if viol == nil || viol.prop == "" {
		return ""
	}
	un := c.Cfg.unsupportedSet()
	lacks := map[string]bool{}
	for _, f := range viol.lacking {
		lacks[f] = true
	}
	// C12-nesting-expansion-specificity: nesting is lowered without :is() (both unsupported) and a parent list with
	// selectors of different specificity has nested style rules
	if un["nesting"] && un["is-pseudo-class"] && hasMixedParentWithNested(c.CSS) {
		return "C12-nesting-expansion-specificity"
	}
	// C12-nesting-is-forgiving-parent: nesting is lowered with :is(); the failing environment understands some but
	// not all selectors of a parent list that has nested style rules (the list is all-or-nothing in the input and
	// on the parent's own output rule, but forgiving inside the :is() the nested rules get)
	if un["nesting"] && !un["is-pseudo-class"] && hasPartlyUnderstoodParent(c.CSS, lacks) {
		return "C12-nesting-is-forgiving-parent"
	}
	// C12-decl-after-nested-rule: the failing longhand is set by a declaration that follows a nested rule in the same
	// block (esbuild hoists it in front of the nested rules)
	if propsDeclaredAfterNestedRule(c.CSS)[viol.prop] {
		return "C12-decl-after-nested-rule"
	}
	// C12-box-merge-stale-side: minify-syntax; the failing longhand belongs to a box family of which one block declares
	// the same side twice with a declaration of another side in a unit outside esbuild's safe list in between
	if c.Cfg.MinifySyntax && hasStaleBoxSide(c.CSS, viol.prop) {
		return "C12-box-merge-stale-side"
	}
	// C12-border-color-list-not-lowered: the failing longhand is a border side colour, the sheet has a 'border-color'
	// with two or more components one of which needs a colour syntax that the configuration declares unsupported
	// and the failing environment lacks
	if strings.HasPrefix(viol.prop, "border-") && strings.HasSuffix(viol.prop, "-color") && hasUnloweredBorderColorList(c.CSS, un, lacks) {
		return "C12-border-color-list-not-lowered"
	}
	// C12-media-unwrap-merge: minify-syntax; a style rule, one or more '@media' blocks that repeat the condition of an
	// enclosing '@media' (they are unwrapped), and a style rule with the same declarations as the first one, which set
	// the failing longhand
	if c.Cfg.MinifySyntax && hasMergeAcrossUnwrappedMedia(c.CSS, viol.prop) {
		return "C12-media-unwrap-merge"
	}
	return ""
}

// bodyKey describes the declarations of a style rule (canonical longhand values where the model knows the property,
// token text otherwise) and reports whether they set prop. ok == false: the block has nested rules.
func bodyKey(items []cssref.Item, prop string) (key string, setsProp bool, ok bool) {
	var sb strings.Builder
	for _, it := range items {
		if it.Decl == nil {
			return "", false, false
		}
		d := it.Decl
		if longs, good := cssref.Expand(d.Name, d.Value); good {
			for _, l := range longs {
				sb.WriteString(l.Prop + ":" + l.Val.String())
				setsProp = setsProp || l.Prop == prop
			}
		} else {
			sb.WriteString(d.Name + ":" + cssref.Serialize(d.Value))
		}
		if d.Important {
			sb.WriteString("!")
		}
		sb.WriteString(";")
	}
	return sb.String(), setsProp, true
}

// hasMergeAcrossUnwrappedMedia: some rule list has a style rule, then only '@media' rules whose condition repeats
// that of an enclosing '@media', then a style rule with the same declarations, which set prop.
func hasMergeAcrossUnwrappedMedia(css string, prop string) bool {
	found := false
	var walk func(items []cssref.Item, media []string)
	walk = func(items []cssref.Item, media []string) {
		isDup := func(r *cssref.Rule) bool {
			if r.At != "media" {
				return false
			}
			key := strings.ToLower(cssref.Serialize(r.Prelude))
			for _, m := range media {
				if m == key {
					return true
				}
			}
			return false
		}
		var rules []*cssref.Rule
		for _, it := range items {
			if it.Rule != nil {
				rules = append(rules, it.Rule)
			}
		}
		for i, a := range rules {
			if a.At != "" {
				continue
			}
			ka, sets, ok := bodyKey(a.Items, prop)
			if !ok || !sets {
				continue
			}
			j := i + 1
			for j < len(rules) && isDup(rules[j]) {
				j++
			}
			if j == i+1 || j >= len(rules) || rules[j].At != "" {
				continue
			}
			if kb, _, ok := bodyKey(rules[j].Items, prop); ok && kb == ka {
				found = true
			}
		}
		for _, r := range rules {
			m := media
			if r.At == "media" {
				m = append(append([]string{}, media...), strings.ToLower(cssref.Serialize(r.Prelude)))
			}
			walk(r.Items, m)
		}
	}
	walk(sheetItems(css), nil)
	return found
}

func sheetItems(css string) []cssref.Item {
	sh := cssref.Parse(css)
	items := make([]cssref.Item, len(sh.Rules))
	for i, r := range sh.Rules {
		items[i] = cssref.Item{Rule: r}
	}
	return items
}

// containsStyleRule: the items contain a style rule, directly or through nested group rules.
func containsStyleRule(items []cssref.Item) bool {
	for _, it := range items {
		if it.Rule != nil && (it.Rule.At == "" || containsStyleRule(it.Rule.Items)) {
			return true
		}
	}
	return false
}

// hasMixedParentWithNested: some style rule whose selector list has ≥2 selectors of different
// specificity contains a nested style rule (directly or through nested group rules).
func hasMixedParentWithNested(css string) bool {
	env := &cssref.Env{MediaType: "screen", Not: map[string]bool{}}
	found := false
	var walk func(items []cssref.Item, parent *cssref.ParentSel)
	walk = func(items []cssref.Item, parent *cssref.ParentSel) {
		for _, it := range items {
			r := it.Rule
			if r == nil {
				continue
			}
			if r.At != "" {
				walk(r.Items, parent)
				continue
			}
			l := cssref.ParseSelectorList(r.Prelude, r.Nested)
			if l.Invalid {
				continue
			}
			if len(l.Sels) >= 2 && containsStyleRule(r.Items) {
				specs := cssref.Specificities(l, env, parent)
				for _, s := range specs[1:] {
					if s != specs[0] {
						found = true
					}
				}
			}
			walk(r.Items, &cssref.ParentSel{List: l, Up: parent})
		}
	}
	walk(sheetItems(css), nil)
	return found
}

// hasPartlyUnderstoodParent: some style rule that contains a nested style rule has a selector list of which an
// environment lacking the given features understands at least one selector but not all ("&" itself is not
// counted: it is gone from the lowered output).
func hasPartlyUnderstoodParent(css string, lacks map[string]bool) bool {
	not := map[string]bool{}
	for f := range lacks {
		if f != cssref.FNesting {
			not[f] = true
		}
	}
	env := &cssref.Env{MediaType: "screen", Not: not}
	found := false
	var walk func(items []cssref.Item)
	walk = func(items []cssref.Item) {
		for _, it := range items {
			r := it.Rule
			if r == nil {
				continue
			}
			if r.At == "" && containsStyleRule(r.Items) {
				l := cssref.ParseSelectorList(r.Prelude, r.Nested)
				if !l.Invalid && len(l.Sels) >= 2 {
					good, bad := 0, 0
					for _, cx := range l.Sels {
						if (&cssref.SelectorList{Sels: []*cssref.Complex{cx}}).ValidIn(env) {
							good++
						} else {
							bad++
						}
					}
					if good > 0 && bad > 0 {
						found = true
					}
				}
			}
			walk(r.Items)
		}
	}
	walk(sheetItems(css))
	return found
}

// propsDeclaredAfterNestedRule: the longhands set by declarations that follow a nested rule in the block of a style
// rule (or of a group rule nested in one).
func propsDeclaredAfterNestedRule(css string) map[string]bool {
	found := map[string]bool{}
	var walk func(items []cssref.Item, inStyle bool, media []string)
	walk = func(items []cssref.Item, inStyle bool, media []string) {
		seenRule := false
		var visit func(items []cssref.Item)
		visit = func(items []cssref.Item) {
			for _, it := range items {
				if it.Decl != nil {
					if seenRule && inStyle {
						if longs, ok := cssref.Expand(it.Decl.Name, it.Decl.Value); ok {
							for _, l := range longs {
								found[l.Prop] = true
							}
						}
					}
					continue
				}
				r := it.Rule
				if r.At == "media" && inStyle {
					// minify-syntax unwraps an @media that repeats an enclosing @media: its declarations join the enclosing block
					key := strings.ToLower(cssref.Serialize(r.Prelude))
					dup := false
					for _, m := range media {
						dup = dup || m == key
					}
					if dup {
						visit(r.Items)
						continue
					}
					seenRule = true
					walk(r.Items, inStyle, append(append([]string{}, media...), key))
					continue
				}
				seenRule = true
				walk(r.Items, inStyle || r.At == "", media)
			}
		}
		visit(items)
	}
	walk(sheetItems(css), false, nil)
	return found
}

var boxSideFamilies = map[string][]string{
	"margin":        {"margin-top", "margin-right", "margin-bottom", "margin-left"},
	"padding":       {"padding-top", "padding-right", "padding-bottom", "padding-left"},
	"inset":         {"top", "right", "bottom", "left"},
	"border-radius": {"border-top-left-radius", "border-top-right-radius", "border-bottom-right-radius", "border-bottom-left-radius"},
}

// esbuild's list of length units that every browser is expected to understand (css_ast.DimensionUnitIsSafeLength)
var safeLengthUnits = map[string]bool{"cm": true, "em": true, "in": true, "mm": true, "pc": true, "pt": true, "px": true}

func hasUnsafeUnit(cvs []cssref.CV) bool {
	for _, c := range cvs {
		if c.Kind == cssref.Dimension && !safeLengthUnits[strings.ToLower(c.Unit)] {
			return true
		}
	}
	return false
}

// hasStaleBoxSide: prop is a side of a box family (margin, padding, inset, border-radius) and some block declares
// one side of that family twice (same importance, no unsafe unit) with, in between, a declaration of another side
// of the family (or its shorthand) of the same importance whose value uses a unit outside the safe list.
func hasStaleBoxSide(css string, prop string) bool {
	found := false
	for fam, sides := range boxSideFamilies {
		isSide := map[string]bool{}
		for _, s := range sides {
			isSide[s] = true
		}
		if !isSide[prop] {
			continue
		}
		var walk func(items []cssref.Item)
		walk = func(items []cssref.Item) {
			var decls []*cssref.Decl
			for _, it := range items {
				if it.Decl != nil {
					decls = append(decls, it.Decl)
				} else if it.Rule != nil {
					walk(it.Rule.Items)
				}
			}
			for i, a := range decls {
				if !isSide[a.Name] || hasUnsafeUnit(a.Value) {
					continue
				}
				unsafeBetween := false
				for _, b := range decls[i+1:] {
					if b.Important != a.Important {
						continue
					}
					if b.Name == a.Name && unsafeBetween && !hasUnsafeUnit(b.Value) {
						found = true
					}
					if (isSide[b.Name] || b.Name == fam) && b.Name != a.Name && hasUnsafeUnit(b.Value) {
						unsafeBetween = true
					}
				}
			}
		}
		walk(sheetItems(css))
	}
	return found
}

// hasUnloweredBorderColorList: a 'border-color' declaration with ≥2 components needs a colour syntax feature that
// the configuration declares unsupported and the failing environment lacks.
func hasUnloweredBorderColorList(css string, un, lacks map[string]bool) bool {
	found := false
	var walk func(items []cssref.Item)
	walk = func(items []cssref.Item) {
		for _, it := range items {
			if it.Rule != nil {
				walk(it.Rule.Items)
				continue
			}
			d := it.Decl
			if d == nil || d.Name != "border-color" {
				continue
			}
			n := 0
			for _, c := range d.Value {
				if c.Kind != cssref.Whitespace {
					n++
				}
			}
			if n < 2 {
				continue
			}
			for f := range cssref.ValueFeatures(d.Name, d.Value) {
				if cssref.IsTableFeature(f) && un[f] && lacks[f] {
					found = true
				}
			}
		}
	}
	walk(sheetItems(css))
	return found
}

var subs = map[string]vdrv.ReplayFunc{"color": replaySheet, "calc": replaySheet, "cascade": replaySheet, "import": replayImport, "modules": replayModules}

func setup(t *testing.T) {
	H = vdrv.New("C12")
	var err error
	W, err = noderun.Start("")
	if err != nil {
		t.Fatalf("INFRA: %v", err)
	}
}

func TestCheck(t *testing.T) {
	setup(t)
	defer W.Close()
	complete := false
	defer func() { H.Finish(complete) }()
	H.RunReplays(t, subs)
	H.Sub(t, "color", runColors)
	H.Sub(t, "calc", runCalc)
	H.Sub(t, "cascade", runCascade)
	H.Sub(t, "import", runImports)
	H.Sub(t, "modules", runModules)
	complete = true
}

func TestReplay(t *testing.T) {
	setup(t)
	defer W.Close()
	H.ReplayOne(t, subs)
}

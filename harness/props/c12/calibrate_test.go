package c12

import (
	"encoding/base64"
	"encoding/json"
	"fmt"
	"html"
	"os"
	"os/exec"
	"path/filepath"
	"regexp"
	"strings"
	"testing"
	"time"

	"github.com/evanw/esbuild/verif/cssgen"
	"github.com/evanw/esbuild/verif/cssref"
	"pgregory.net/rapid"
)

// TestCalibrateChrome is not part of the check: it compares cssref itself with headless Chrome's
// getComputedStyle on generated *input* sheets (z-index only, no interaction states), when the binary
// happens to exist. Run with VERIF_C12_CHROME=<number of sheets>. A disagreement is a bug in the
// model (or a place where Chrome deviates from the specifications), never a verdict about esbuild.
func TestCalibrateChrome(t *testing.T) {
	n := 0
	fmt.Sscanf(os.Getenv("VERIF_C12_CHROME"), "%d", &n)
	if n <= 0 {
		t.Skip("VERIF_C12_CHROME not set")
	}
	bins, _ := filepath.Glob(filepath.Join(os.Getenv("HOME"), ".cache/puppeteer/chrome-headless-shell/*/chrome-headless-shell-linux64/chrome-headless-shell"))
	if len(bins) == 0 {
		t.Skip("no headless Chrome")
	}
	var sheets []string
	seed := uint64(time.Now().UnixNano()) // a development tool, not a property
	if s := os.Getenv("VERIF_SEED"); s != "" {
		fmt.Sscanf(s, "%d", &seed)
	}
	for i := 0; len(sheets) < n; i++ {
		g := rapid.Custom(func(rt *rapid.T) string {
			return cssgen.Sheet(rt, cssgen.Opts{Nesting: true, Free: true, Functional: true, Layers: true, ZOnly: true, NoStates: true, DeclAfterNested: true, MixedParents: true, MaxRules: 6})
		})
		sheets = append(sheets, g.Example(int(seed)+i))
	}
	trees := cssgen.Trees()
	var dom strings.Builder
	var ser func(e *cssref.Element)
	id := 0
	ser = func(e *cssref.Element) {
		for k := range e.States {
			delete(e.States, k)
		}
		fmt.Fprintf(&dom, "<%s data-n=\"%d\"", e.Tag, id)
		id++
		if e.ID != "" {
			fmt.Fprintf(&dom, " id=\"%s\"", e.ID)
		}
		if len(e.Classes) > 0 {
			fmt.Fprintf(&dom, " class=\"%s\"", strings.Join(e.Classes, " "))
		}
		for k, v := range e.Attrs {
			fmt.Fprintf(&dom, " %s=\"%s\"", k, html.EscapeString(v))
		}
		dom.WriteString(">")
		for _, c := range e.Children {
			ser(c)
		}
		fmt.Fprintf(&dom, "</%s>", e.Tag)
	}
	// each tree becomes the only child of <body>; :root/html/body are never generated as selectors,
	// but :first-child etc. see the tree root as the first and last child of body
	var page strings.Builder
	page.WriteString("<!doctype html><html><body>\n")
	nframes := 0
	for si, css := range sheets {
		for ti, tr := range trees {
			dom.Reset()
			id = 0
			ser(tr)
			doc := "<!doctype html><html><head><style>" + css + "</style></head><body>" + dom.String() + "</body></html>"
			fmt.Fprintf(&page, "<iframe data-s=\"%d\" data-t=\"%d\" style=\"width:800px;height:600px;border:0\" srcdoc=\"%s\"></iframe>\n", si, ti, html.EscapeString(doc))
			nframes++
		}
	}
	page.WriteString(`<script>
window.onload = function () {
  const out = [];
  for (const f of document.querySelectorAll('iframe')) {
    const d = f.contentDocument, w = f.contentWindow;
    const els = d.querySelectorAll('[data-n]');
    const r = [];
    for (const e of els) {
      r.push([w.getComputedStyle(e).zIndex, w.getComputedStyle(e, '::before').zIndex, w.getComputedStyle(e, '::after').zIndex]);
    }
    out.push({s: +f.dataset.s, t: +f.dataset.t, r: r});
  }
  document.body.setAttribute('data-result', btoa(JSON.stringify(out)));
};
</script></body></html>`)
	dir := t.TempDir()
	file := filepath.Join(dir, "page.html")
	if err := os.WriteFile(file, []byte(page.String()), 0o644); err != nil {
		t.Skip("temp dir")
	}
	cmd := exec.Command(bins[0], "--no-sandbox", "--disable-gpu", "--disable-dev-shm-usage", "--virtual-time-budget=20000", "--dump-dom", "file://"+file)
	outb, err := cmd.Output()
	if err != nil {
		t.Skipf("chrome failed: %v", err)
	}
	m := regexp.MustCompile(`data-result="([^"]+)"`).FindSubmatch(outb)
	if m == nil {
		t.Skip("no result from chrome")
	}
	raw, _ := base64.StdEncoding.DecodeString(string(m[1]))
	var results []struct {
		S, T int
		R    [][3]string
	}
	if json.Unmarshal(raw, &results) != nil {
		t.Skip("bad result")
	}
	// Chrome's environment: everything modern, nothing from other vendors
	env := &cssref.Env{Width: 800, MediaType: "screen", ContainerWidth: 0, Seed: 1, Not: map[string]bool{
		"pc:-moz-ui-invalid": true, "pe:-moz-placeholder": true, "fn:foo": true, "kw:-ms-flexbox": true}}
	// the opaque media features must have the truth they have in this browser: (hover) false, landscape true
	probe := cssref.Parse("@media (hover){p{z-index:1}} @media (orientation: landscape){p{z-index:2}}")
	pEl := &cssref.Element{Tag: "p", States: map[string]bool{}}
	for seed := uint64(1); seed < 1000; seed++ {
		env.Seed = seed
		w := cssref.Evaluate(probe, env, []cssref.Target{{El: pEl}}, nil).Winners[0]["z-index"]
		if w.Val.String() == "2" {
			if only := cssref.Evaluate(cssref.Parse("@media (hover){p{z-index:1}}"), env, []cssref.Target{{El: pEl}}, nil).Winners[0]; len(only) == 0 {
				break
			}
		}
	}
	disagreements, compared := 0, 0
	for _, res := range results {
		sheet := cssref.Parse(sheets[res.S])
		els := trees[res.T].All()
		var targets []cssref.Target
		for _, e := range els {
			targets = append(targets, cssref.Target{El: e}, cssref.Target{El: e, PE: "before"}, cssref.Target{El: e, PE: "after"})
		}
		// in the browser the tree root is a child of <body>
		wrapper := &cssref.Element{Tag: "body", States: map[string]bool{}, Children: []*cssref.Element{trees[res.T]}}
		html_ := &cssref.Element{Tag: "html", States: map[string]bool{}, Children: []*cssref.Element{{Tag: "head", States: map[string]bool{}}, wrapper}}
		html_.Link()
		r := cssref.Evaluate(sheet, env, targets, nil)
		trees[res.T].Parent = nil
		if r.Unmodelled != "" {
			continue
		}
		for i := range els {
			for k := 0; k < 3; k++ {
				want := "auto"
				if w, ok := r.Winners[i*3+k]["z-index"]; ok {
					want = w.Val.String()
				}
				compared++
				if i < len(res.R) && res.R[i][k] != want {
					disagreements++
					if disagreements <= 5 {
						t.Errorf("cssref and Chrome disagree (sheet %d, tree %d, element %d, pseudo %d): cssref %s, Chrome %s\n%s", res.S, res.T, i, k, want, res.R[i][k], sheets[res.S])
					}
				}
			}
		}
	}
	t.Logf("compared %d computed values over %d sheets × %d trees: %d disagreements", compared, len(sheets), len(trees), disagreements)
}

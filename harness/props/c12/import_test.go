package c12

import (
	"encoding/json"
	"fmt"
	"sort"
	"strings"
	"testing"

	"github.com/evanw/esbuild/pkg/api"
	"github.com/evanw/esbuild/verif/cssgen"
	"github.com/evanw/esbuild/verif/cssref"
	"github.com/evanw/esbuild/verif/vdrv"
	"pgregory.net/rapid"
)

// ImportCase is a graph of CSS files bundled from Entry.
type ImportCase struct {
	Files  map[string]string `json:"files"` // name (e.g. "f0.css") -> content
	Entry  string            `json:"entry"`
	Minify bool              `json:"minify,omitempty"`
}

// memPlugin serves files from memory so that no file system is involved.
func memPlugin(files map[string]string, loaders map[string]api.Loader) api.Plugin {
	return api.Plugin{Name: "mem", Setup: func(b api.PluginBuild) {
		b.OnResolve(api.OnResolveOptions{Filter: ".*"}, func(a api.OnResolveArgs) (api.OnResolveResult, error) {
			p := strings.TrimPrefix(a.Path, "./")
			if _, ok := files[p]; !ok {
				return api.OnResolveResult{}, fmt.Errorf("no such file %q", a.Path)
			}
			return api.OnResolveResult{Path: "/" + p, Namespace: "mem"}, nil
		})
		b.OnLoad(api.OnLoadOptions{Filter: ".*", Namespace: "mem"}, func(a api.OnLoadArgs) (api.OnLoadResult, error) {
			name := strings.TrimPrefix(a.Path, "/")
			c := files[name]
			l := api.LoaderCSS
			if x, ok := loaders[name]; ok {
				l = x
			} else if strings.HasSuffix(name, ".js") {
				l = api.LoaderJS
			}
			return api.OnLoadResult{Contents: &c, Loader: l}, nil
		})
	}}
}

// importTarget parses the prelude of an @import rule: url, layer, supports, media.
type importTarget struct {
	file     string
	hasLayer bool
	layer    []cssref.CV // name tokens ("" = anonymous)
	supports []cssref.CV // nil = none; contents of supports(...)
	media    []cssref.CV
	ok       bool
}

func parseImport(prelude []cssref.CV) importTarget {
	var t importTarget
	i := 0
	skip := func() {
		for i < len(prelude) && prelude[i].Kind == cssref.Whitespace {
			i++
		}
	}
	skip()
	if i >= len(prelude) {
		return t
	}
	switch {
	case prelude[i].Kind == cssref.String, prelude[i].Kind == cssref.URL:
		t.file = prelude[i].Value
	case prelude[i].IsFunc("url"):
		for _, c := range prelude[i].Children {
			if c.Kind == cssref.String {
				t.file = c.Value
			}
		}
	default:
		return t
	}
	t.file = strings.TrimPrefix(t.file, "./")
	i++
	skip()
	if i < len(prelude) && prelude[i].IsIdent("layer") {
		t.hasLayer = true
		i++
		skip()
	} else if i < len(prelude) && prelude[i].IsFunc("layer") {
		t.hasLayer = true
		t.layer = prelude[i].Children
		i++
		skip()
	}
	if i < len(prelude) && prelude[i].IsFunc("supports") {
		t.supports = prelude[i].Children
		if t.supports == nil {
			t.supports = []cssref.CV{}
		}
		i++
		skip()
	}
	t.media = prelude[i:]
	t.ok = true
	return t
}

func parenBlock(children []cssref.CV) cssref.CV {
	return cssref.CV{Token: cssref.Token{Kind: cssref.LParen}, Block: true, Children: children}
}

// inlineImports is the reference: every @import is replaced by the imported sheet wrapped in its
// conditions; a file already in the parent chain is not imported again.
func inlineImports(parsed map[string]*cssref.Sheet, file string, chain []string) ([]*cssref.Rule, string) {
	for _, c := range chain {
		if c == file {
			return nil, ""
		}
	}
	chain = append(append([]string{}, chain...), file)
	sheet := parsed[file]
	var out []*cssref.Rule
	importsAllowed := true
	for _, r := range sheet.Rules {
		if r.At == "import" {
			if !importsAllowed {
				continue // an @import after other rules is invalid and ignored
			}
			t := parseImport(r.Prelude)
			if !t.ok {
				return nil, "import-prelude"
			}
			if _, ok := parsed[t.file]; !ok {
				return nil, "import-missing-file"
			}
			if t.hasLayer {
				for _, c := range chain {
					if c == t.file {
						// CSS does not say what a cyclic import is; whether its layer() is still declared is anybody's guess
						return nil, "unspecified:layer-on-cyclic-import"
					}
				}
			}
			inner, why := inlineImports(parsed, t.file, chain)
			if why != "" {
				return nil, why
			}
			items := func(rs []*cssref.Rule) []cssref.Item {
				its := make([]cssref.Item, len(rs))
				for i, x := range rs {
					its[i] = cssref.Item{Rule: x}
				}
				return its
			}
			rules := inner
			if t.hasLayer {
				rules = []*cssref.Rule{{At: "layer", Prelude: t.layer, HasBlock: true, Items: items(rules)}}
			}
			if t.supports != nil {
				cond := t.supports
				// supports(display: grid) is shorthand for supports((display: grid))
				nw := []cssref.CV{}
				for _, c := range cond {
					if c.Kind != cssref.Whitespace {
						nw = append(nw, c)
					}
				}
				if len(nw) >= 2 && nw[0].Kind == cssref.Ident && nw[1].Kind == cssref.Colon {
					cond = []cssref.CV{parenBlock(cond)}
				}
				rules = []*cssref.Rule{{At: "supports", Prelude: cond, HasBlock: true, Items: items(rules)}}
			}
			hasMedia := false
			for _, c := range t.media {
				if c.Kind != cssref.Whitespace {
					hasMedia = true
				}
			}
			if hasMedia {
				rules = []*cssref.Rule{{At: "media", Prelude: t.media, HasBlock: true, Items: items(rules)}}
			}
			out = append(out, rules...)
			continue
		}
		if r.At == "charset" {
			continue
		}
		if !(r.At == "layer" && !r.HasBlock) {
			importsAllowed = false
		}
		out = append(out, r)
	}
	return out, ""
}

// graphFacts: how often each file is reached by the naive expansion and whether a cycle is cut.
func graphFacts(parsed map[string]*cssref.Sheet, entry string) (maxVisits int, cycle bool, conditional bool, layered bool) {
	visits := map[string]int{}
	var walk func(file string, chain []string)
	walk = func(file string, chain []string) {
		for _, c := range chain {
			if c == file {
				cycle = true
				return
			}
		}
		visits[file]++
		if visits[file] > 64 {
			return
		}
		chain = append(append([]string{}, chain...), file)
		for _, r := range parsed[file].Rules {
			if r.At == "import" {
				t := parseImport(r.Prelude)
				if t.ok && parsed[t.file] != nil {
					if t.hasLayer {
						layered = true
					}
					if t.supports != nil || len(strings.TrimSpace(cssref.Serialize(t.media))) > 0 {
						conditional = true
					}
					walk(t.file, chain)
				}
			}
		}
	}
	walk(entry, nil)
	for _, n := range visits {
		if n > maxVisits {
			maxVisits = n
		}
	}
	return
}

func judgeImport(c ImportCase) vdrv.Verdict {
	parsed := map[string]*cssref.Sheet{}
	var names []string
	for name, src := range c.Files {
		parsed[name] = cssref.Parse(src)
		names = append(names, name)
	}
	sort.Strings(names)
	if parsed[c.Entry] == nil {
		return vdrv.Skip("bad-case")
	}
	refRules, why := inlineImports(parsed, c.Entry, nil)
	if why != "" {
		return vdrv.Skip("reference:" + why)
	}
	res := api.Build(api.BuildOptions{
		EntryPoints: []string{c.Entry}, Bundle: true, Write: false, Outfile: "out.css", LogLevel: api.LogLevelSilent,
		MinifySyntax: c.Minify, Plugins: []api.Plugin{memPlugin(c.Files, nil)},
	})
	if len(res.Errors) > 0 {
		return vdrv.Skip("esbuild-error:" + firstWords(res.Errors[0].Text, 6))
	}
	if len(res.OutputFiles) != 1 {
		return vdrv.Skip("unexpected-outputs")
	}
	out := string(res.OutputFiles[0].Contents)
	p := &preservation{in: &cssref.Sheet{Rules: refRules}, out: cssref.Parse(out), unsupported: map[string]bool{}, devices: cssgen.Devices,
		tol: cssref.DefaultTolerance, withPseudo: false, layerOrderCheck: true}
	p.uniIn, p.uniOut = makeUniverse(""), makeUniverse("")
	skip, viol := p.run()
	if skip != "" {
		return vdrv.Skip(skip)
	}
	if viol != nil {
		return vdrv.Fail(viol.detail+"\n--- esbuild output\n"+out, viol.expected, viol.observed)
	}
	maxVisits, cycle, conditional, layered := graphFacts(parsed, c.Entry)
	cls := []string{fmt.Sprintf("files=%d", len(c.Files)), "minify=" + fmt.Sprint(c.Minify)}
	if maxVisits >= 2 {
		cls = append(cls, "file-imported-repeatedly")
	}
	if maxVisits >= 3 {
		cls = append(cls, "file-imported-3+-times")
	}
	if cycle {
		cls = append(cls, "cycle")
	}
	if conditional {
		cls = append(cls, "conditional-import")
	}
	if layered {
		cls = append(cls, "layer-import")
	}
	v := vdrv.Pass(maxVisits >= 2 || cycle, cls...)
	v.Observed = strings.TrimSpace(out)
	return v
}

func replayImport(raw json.RawMessage) vdrv.Verdict {
	var c ImportCase
	if err := json.Unmarshal(raw, &c); err != nil {
		return vdrv.Skip("bad-replay")
	}
	return judgeImport(c)
}

// importKnown: narrow signatures of the listed findings of the import sub-check.
func importKnown(c ImportCase) string {
	for _, src := range c.Files {
		for _, r := range cssref.Parse(src).Rules {
			if r.At == "import" {
				if t := parseImport(r.Prelude); t.ok && t.hasLayer && len(strings.TrimSpace(cssref.Serialize(t.layer))) == 0 {
					return "C12-import-anonymous-layer"
				}
			}
		}
	}
	// C12-import-anonymous-block-placeholder: a bundled file contains an anonymous "@layer {" block
	for _, src := range c.Files {
		for _, r := range cssref.Parse(src).Rules {
			if r.At == "layer" && r.HasBlock && len(strings.TrimSpace(cssref.Serialize(r.Prelude))) == 0 {
				return "C12-import-anonymous-block-placeholder"
			}
		}
	}
	// C12-import-prelayer-under-layer: a file with an @layer statement before its imports is reached through a layer(...) import
	{
		parsed := map[string]*cssref.Sheet{}
		for name, src := range c.Files {
			parsed[name] = cssref.Parse(src)
		}
		pre := map[string]bool{}
		for name, sh := range parsed {
			seenStmt := false
			for _, r := range sh.Rules {
				if r.At == "layer" && !r.HasBlock {
					seenStmt = true
				} else if r.At == "import" && seenStmt {
					pre[name] = true
				} else if r.At != "import" && r.At != "charset" {
					break
				}
			}
		}
		type st struct {
			f     string
			under bool
		}
		seen := map[st]bool{}
		var walk func(f string, under bool, depth int)
		hit := false
		walk = func(f string, under bool, depth int) {
			if parsed[f] == nil || seen[st{f, under}] || depth > 8 {
				return
			}
			seen[st{f, under}] = true
			if under && pre[f] {
				hit = true
			}
			for _, r := range parsed[f].Rules {
				if r.At == "import" {
					if t := parseImport(r.Prelude); t.ok {
						walk(t.file, under || t.hasLayer, depth+1)
					}
				}
			}
		}
		walk(c.Entry, false, 0)
		if hit {
			return "C12-import-prelayer-under-layer"
		}
	}
	// C12-import-dedupe-across-layers: a file is reached more than once, at least once below a layer(...) import
	{
		parsed := map[string]*cssref.Sheet{}
		for name, src := range c.Files {
			parsed[name] = cssref.Parse(src)
		}
		visits := map[string]int{}
		layered := map[string]int{}
		var walk func(file string, chain []string, under bool)
		walk = func(file string, chain []string, under bool) {
			for _, x := range chain {
				if x == file {
					return
				}
			}
			if parsed[file] == nil {
				return
			}
			visits[file]++
			if under {
				layered[file]++
			}
			if visits[file] > 64 {
				return
			}
			chain = append(append([]string{}, chain...), file)
			for _, r := range parsed[file].Rules {
				if r.At == "import" {
					if t := parseImport(r.Prelude); t.ok {
						walk(t.file, chain, under || t.hasLayer)
					}
				}
			}
		}
		walk(c.Entry, nil, false)
		var names []string
		for f := range visits {
			names = append(names, f)
		}
		sort.Strings(names)
		for _, f := range names {
			if visits[f] < 2 {
				continue
			}
			if layered[f] >= 1 {
				return "C12-import-dedupe-across-layers"
			}
		}
	}
	return ""
}

// ----------------------------------------------------------------------------- generator

// the first entries are drawn most often (rapid favours small indices): equal-specificity selectors that overlap on
// multi-class elements, so that the order of files decides the winner
var importSelectors = []string{".a", ".b", ".c", ".a", "p", "div", ".a.b", "p.a", "#x", "span"}
var importMedia = []string{"screen", "print", "(min-width: 600px)", "(max-width: 599px)", "screen and (min-width: 400px)", "(width >= 800px)"}
var importSupports = []string{"(display: grid)", "display: grid", "not (display: grid)", "(display: flex) and (gap: 1px)", "display: flex"}
var importLayers = []string{"l1", "l2", "l1.s", "l3"}

func genImportCase(rt *rapid.T) ImportCase {
	n := 0
	k := func(hi int) int {
		n++
		return rapid.IntRange(0, hi).Draw(rt, fmt.Sprintf("i%d", n))
	}
	pick := func(xs []string) string { return xs[k(len(xs)-1)] }
	nfiles := 5 - k(3) // rapid favours small draws: mostly 4–5 files
	family := 1 + k(6) // 1 diamond; 2 repeated import; 3 cycle; 4 deep conditional chain with conditional siblings; otherwise random edges
	if family > 4 {
		family = 0
	}
	chainDepth := 0
	if family == 4 {
		chainDepth = 2 + k(5) // 2..7 nested conditional imports above the file with the sibling imports
		nfiles = chainDepth + 3
	}
	files := map[string]string{}
	marker := 100
	shared := []string{".a { opacity: .5 }", "p { opacity: .25 }", "@layer l1 { .a { opacity: .75 } }"}
	for f := 0; f < nfiles; f++ {
		var sb strings.Builder
		if k(9) >= 8 {
			sb.WriteString("@layer " + pick(importLayers))
			if k(2) == 0 {
				sb.WriteString(", " + pick(importLayers))
			}
			sb.WriteString(";\n")
		}
		// import targets: a named graph family or random edges
		var targets []int
		switch {
		case family == 1: // diamond: 0 -> 1, 2; 1 -> 3; 2 -> 3 (node 3 = last file)
			switch f {
			case 0:
				targets = []int{1, 2 % nfiles}
			case 1, 2:
				targets = []int{nfiles - 1}
			}
		case family == 2: // the same file imported around another one: 0 -> 1, 2, 1
			if f == 0 {
				targets = []int{1, 2 % nfiles, 1}
			} else if f == 1 && nfiles > 3 {
				targets = []int{3}
			}
		case family == 3: // cycle through the entry: 0 -> 1 -> 2 -> 0 plus a shared leaf
			switch f {
			case 0:
				targets = []int{1, nfiles - 1}
			case 1:
				targets = []int{2 % nfiles, nfiles - 1}
			case 2:
				targets = []int{0}
			}
		case family == 4: // f0 -> f1 -> … -> f<depth> (each import conditional); f<depth> imports two leaves under different conditions
			if f < chainDepth {
				targets = []int{f + 1}
			} else if f == chainDepth {
				targets = []int{chainDepth + 1, chainDepth + 2}
			}
		default:
			nimp := k(3)
			if f == 0 && nimp == 0 {
				nimp = 2
			}
			for i := 0; i < nimp; i++ {
				// mostly forward edges (diamonds, repeated imports); one import in eight may point anywhere (cycles, self-imports)
				target := f + 1 + k(nfiles-1)%(nfiles-f)
				if k(7) == 7 {
					target = k(nfiles - 1)
				} else if target >= nfiles {
					continue
				}
				targets = append(targets, target)
			}
		}
		for _, target := range targets {
			if target == f && family != 0 {
				continue
			}
			form := pick([]string{`"./f%d.css"`, `url(f%d.css)`, `url("./f%d.css")`, `"f%d.css"`})
			sb.WriteString("@import " + fmt.Sprintf(form, target))
			switch lk := k(19); {
			case lk <= 4 && target > f: // layered imports point forward (a layer on an import that closes a cycle is unspecified)
				sb.WriteString(" layer(" + pick(importLayers) + ")")
			case lk <= 4:
			case lk == 19 && target > f:
				sb.WriteString(" layer") // anonymous: known finding C12-import-anonymous-layer
			}
			if k(9) >= 8 {
				sb.WriteString(" supports(" + pick(importSupports) + ")")
			}
			if family == 4 {
				// every import on the chain carries a condition that some devices satisfy together; the two
				// siblings carry complementary conditions, so a leaf wrapped in its sibling's condition is visible
				switch {
				case f < chainDepth:
					sb.WriteString(" " + []string{"screen", "screen and (min-width: 400px)", "(min-width: 400px)"}[f%3])
				case target == chainDepth+1:
					sb.WriteString(" (max-width: 599px)")
				default:
					sb.WriteString(" (min-width: 600px)")
				}
			} else if k(9) >= 7 {
				sb.WriteString(" " + pick(importMedia))
			}
			sb.WriteString(";\n")
		}
		nrules := 1 + k(2)
		for i := 0; i < nrules; i++ {
			marker++
			imp := ""
			if k(11) == 11 {
				imp = " !important"
			}
			rule := fmt.Sprintf("%s { z-index: %d%s }", pick(importSelectors), marker, imp)
			switch k(11) {
			case 0, 1:
				rule = "@layer " + pick(importLayers) + " { " + rule + " }"
			case 2:
				rule = "@media " + pick(importMedia) + " { " + rule + " }"
			case 3:
				rule = "@layer { " + rule + " }"
			case 4:
				rule = pick(shared)
			case 5:
				rule = "@layer " + pick(importLayers) + ";"
			}
			sb.WriteString(rule + "\n")
		}
		files[fmt.Sprintf("f%d.css", f)] = sb.String()
	}
	return ImportCase{Files: files, Entry: "f0.css", Minify: k(2) == 0}
}

func importKey(c ImportCase) string {
	var names []string
	for n := range c.Files {
		names = append(names, n)
	}
	sort.Strings(names)
	var sb strings.Builder
	for _, n := range names {
		sb.WriteString(n + "\x00" + c.Files[n] + "\x00")
	}
	return sb.String() + fmt.Sprint(c.Minify)
}

func runImports(t *testing.T) {
	H.Rule("import", "rapid: 2–5 CSS files, each with optional leading @layer statements, 0–3 @import rules to random files (self-imports, cycles, diamonds, repeated imports) with optional layer / layer(name) / supports() / media conditions, and 1–3 rules carrying unique z-index markers (plain, in @layer, in @media, anonymous layers, rules shared verbatim between files, !important); api.Build bundle (in-memory plugin) × minify; reference = naive inliner (each @import replaced by the imported sheet wrapped in @media{@supports{@layer{}}}, a file already in the parent chain is skipped) evaluated by cssref: same winners for every element × device × environment and same layer order; non-trivial = a file is reached ≥2 times or a cycle is cut")
	H.SetupRapid("import", H.N(2000, 200000))
	rapid.Check(t, func(rt *rapid.T) {
		c := genImportCase(rt)
		v := judgeImport(c)
		if !v.OK {
			v.Known = importKnown(c)
		}
		H.Report(rt, "import", importKey(c), c, v)
	})
}

// C12 — CSS. See DESIGN.md section 5 / C12 and Appendix F.
package c12

import (
	"fmt"
	"sort"
	"strconv"
	"strings"

	"github.com/evanw/esbuild/internal/compat"
	"github.com/evanw/esbuild/pkg/api"
	"github.com/evanw/esbuild/verif/cssgen"
	"github.com/evanw/esbuild/verif/cssref"
	"github.com/evanw/esbuild/verif/vdrv"
)

// Config is the esbuild configuration of one case.
type Config struct {
	MinifySyntax     bool     `json:"minify_syntax,omitempty"`
	MinifyWhitespace bool     `json:"minify_whitespace,omitempty"`
	Loader           string   `json:"loader,omitempty"`      // css (default) | global-css | local-css
	Engines          []string `json:"engines,omitempty"`     // e.g. chrome50
	Unsupported      []string `json:"unsupported,omitempty"` // Supported: {feature: false}
}

func (c Config) key() string {
	return fmt.Sprintf("s%v,w%v,%s,%v,%v", c.MinifySyntax, c.MinifyWhitespace, c.Loader, c.Engines, c.Unsupported)
}

func (c Config) labels() []string {
	l := []string{"minify=" + map[bool]string{true: "syntax", false: "off"}[c.MinifySyntax]}
	switch {
	case len(c.Engines) > 0 && c.Engines[0] == "chrome50":
		l = append(l, "target=old-engines")
	case len(c.Engines) > 0:
		l = append(l, "target=mid-engines")
	case len(c.Unsupported) > 0:
		l = append(l, "target=supported-overrides")
		for _, f := range c.Unsupported {
			l = append(l, "override-off:"+f)
		}
	default:
		l = append(l, "target=none")
	}
	if c.Loader != "" {
		l = append(l, "loader="+c.Loader)
	} else {
		l = append(l, "loader=css")
	}
	return l
}

var engineNames = map[string]api.EngineName{"chrome": api.EngineChrome, "firefox": api.EngineFirefox, "safari": api.EngineSafari, "edge": api.EngineEdge, "ios": api.EngineIOS, "opera": api.EngineOpera}
var compatEngines = map[string]compat.Engine{"chrome": compat.Chrome, "firefox": compat.Firefox, "safari": compat.Safari, "edge": compat.Edge, "ios": compat.IOS, "opera": compat.Opera}

func splitEngine(s string) (string, string) {
	i := strings.IndexAny(s, "0123456789")
	if i < 0 {
		return s, ""
	}
	return s[:i], s[i:]
}

func (c Config) loader() api.Loader {
	switch c.Loader {
	case "global-css":
		return api.LoaderGlobalCSS
	case "local-css":
		return api.LoaderLocalCSS
	}
	return api.LoaderCSS
}

func (c Config) engines() []api.Engine {
	var out []api.Engine
	for _, e := range c.Engines {
		n, v := splitEngine(e)
		out = append(out, api.Engine{Name: engineNames[n], Version: v})
	}
	return out
}

func (c Config) supported() map[string]bool {
	if len(c.Unsupported) == 0 {
		return nil
	}
	m := map[string]bool{}
	for _, f := range c.Unsupported {
		m[f] = false
	}
	return m
}

// unsupportedSet: the compat-table features the configuration declares unsupported. The meaning of an
// engine target is esbuild's own compat table (that is what the option is documented to mean).
func (c Config) unsupportedSet() map[string]bool {
	out := map[string]bool{}
	if len(c.Engines) > 0 {
		cons := map[compat.Engine]compat.Semver{}
		for _, e := range c.Engines {
			n, v := splitEngine(e)
			var parts []int
			for _, p := range strings.Split(v, ".") {
				k, _ := strconv.Atoi(p)
				parts = append(parts, k)
			}
			cons[compatEngines[n]] = compat.Semver{Parts: parts}
		}
		un := compat.UnsupportedCSSFeatures(cons)
		for name, f := range compat.StringToCSSFeature {
			if un.Has(f) {
				out[name] = true
			}
		}
	}
	for _, f := range c.Unsupported {
		out[f] = true
	}
	return out
}

// transform runs esbuild on one style sheet.
func transform(css string, c Config) (out string, warnings []string, errs []string) {
	r := api.Transform(css, api.TransformOptions{Loader: c.loader(), MinifySyntax: c.MinifySyntax, MinifyWhitespace: c.MinifyWhitespace,
		Engines: c.engines(), Supported: c.supported(), LogLevel: api.LogLevelSilent, Sourcefile: "stdin.css"})
	for _, w := range r.Warnings {
		warnings = append(warnings, w.Text)
	}
	for _, e := range r.Errors {
		errs = append(errs, e.Text)
	}
	return string(r.Code), warnings, errs
}

// universe is the element universe for one evaluation side. rename is applied to class names and ids
// (local-css output).
type universe struct {
	trees []*cssref.Element
}

func makeUniverse(prefix string) universe {
	trees := cssgen.Trees()
	if prefix != "" {
		for _, t := range trees {
			for _, e := range t.All() {
				if e.ID != "" {
					e.ID = prefix + e.ID
				}
				for i := range e.Classes {
					e.Classes[i] = prefix + e.Classes[i]
				}
			}
		}
	}
	return universe{trees: trees}
}

func singleElementUniverse() universe {
	e := &cssref.Element{Tag: "div", Classes: []string{"a"}, States: map[string]bool{}, Attrs: map[string]string{}}
	return universe{trees: []*cssref.Element{e}}
}

func pseudoElsOf(fs cssref.FeatureSet) []string {
	out := []string{"before", "after"}
	for _, f := range fs.Sorted() {
		if strings.HasPrefix(f, "pe:") {
			out = append(out, f[3:])
		}
	}
	return out
}

const maxRelevant = 6

// preservation checks the cascade-preservation property between an input and an output sheet.
//
//	uniIn/uniOut: element universes with identical shape (names may be renamed on the output side)
//	unsupported: table features the configuration declares unsupported
type preservation struct {
	in, out         *cssref.Sheet
	uniIn, uniOut   universe
	unsupported     map[string]bool
	devices         []cssgen.Device
	tol             cssref.Tolerance
	withPseudo      bool
	relevantOut     []string
	fIn, fOut       cssref.FeatureSet
	evaluations     int
	layerOrderCheck bool
}

type violation struct {
	detail, expected, observed string
	prop                       string   // the longhand whose winner differs ("" for a layer-order difference)
	lacking                    []string // the syntax features the failing environment does not understand
}

func describeTarget(t cssref.Target) string {
	s := "<" + t.El.Tag
	if t.El.ID != "" {
		s += "#" + t.El.ID
	}
	for _, c := range t.El.Classes {
		s += "." + c
	}
	var st []string
	for k, v := range t.El.States {
		if v {
			st = append(st, k)
		}
	}
	sort.Strings(st)
	for _, k := range st {
		s += ":" + k
	}
	s += ">"
	if t.PE != "" {
		s += "::" + t.PE
	}
	// path
	depth := 0
	for p := t.El.Parent; p != nil; p = p.Parent {
		depth++
	}
	return s + fmt.Sprintf(" (depth %d)", depth)
}

func (p *preservation) run() (skip string, v *violation) {
	p.fIn, p.fOut = cssref.SheetFeatures(p.in), cssref.SheetFeatures(p.out)
	all := cssref.FeatureSet{}
	all.AddAll(p.fIn)
	all.AddAll(p.fOut)
	var relevant []string
	for _, f := range all.Sorted() {
		if cssref.IsTableFeature(f) && !p.unsupported[f] {
			continue // esbuild may assume the browser understands it
		}
		relevant = append(relevant, f)
	}
	p.relevantOut = relevant
	if len(relevant) > maxRelevant {
		return fmt.Sprintf("too-many-features:%d", len(relevant)), nil
	}
	k := len(relevant)
	var pes []string
	if p.withPseudo {
		pes = pseudoElsOf(all)
	}
	tIn := cssgen.Targets(p.uniIn.trees, pes)
	tOut := cssgen.Targets(p.uniOut.trees, pes)
	admissible := func(mask int) bool { return true }
	inMask := 0 // relevant features that occur in the input
	for i, f := range relevant {
		if _, ok := p.fIn[f]; ok {
			inMask |= 1 << i
		}
	}
	cacheIn, cacheOut := cssref.SelectorCache{}, cssref.SelectorCache{}
	for _, dev := range p.devices {
		resIn := make([]*cssref.Result, 1<<k)
		resOut := make([]*cssref.Result, 1<<k)
		for mask := 0; mask < 1<<k; mask++ {
			if !admissible(mask) {
				continue
			}
			var lacking []string
			for i, f := range relevant {
				if mask&(1<<i) != 0 {
					lacking = append(lacking, f)
				}
			}
			env := dev.Env(lacking)
			resIn[mask] = cssref.Evaluate(p.in, env, tIn, cacheIn)
			resOut[mask] = cssref.Evaluate(p.out, env, tOut, cacheOut)
			p.evaluations += 2
			if resIn[mask].Unmodelled != "" {
				return "unmodelled-input:" + resIn[mask].Unmodelled, nil
			}
			if resOut[mask].Unmodelled != "" {
				return "unmodelled-output:" + resOut[mask].Unmodelled, nil
			}
		}
		for mask := 0; mask < 1<<k; mask++ {
			if resIn[mask] == nil {
				continue
			}
			lack := func() []string {
				var lacking []string
				for i, f := range relevant {
					if mask&(1<<i) != 0 {
						lacking = append(lacking, f)
					}
				}
				return lacking
			}
			env := func() string { return dev.Env(lack()).String() }
			understandsAllOfInput := mask&inMask == 0
			for ti := range tIn {
				win, wout := resIn[mask].Winners[ti], resOut[mask].Winners[ti]
				for prop, wi := range win {
					wo, ok := wout[prop]
					if !ok {
						return "", &violation{
							detail:   fmt.Sprintf("%s of %s has a winning declaration in the input but none in the output, environment %s", prop, describeTarget(tIn[ti]), env()),
							expected: prop + ": " + wi.Val.String() + "  ⟵ " + wi.Where,
							observed: "(no declaration)",
							prop:     prop, lacking: lack(),
						}
					}
					if understandsAllOfInput && !cssref.EqualValues(wi.Val, wo.Val, p.tol) {
						return "", &violation{
							detail:   fmt.Sprintf("%s of %s differs in an environment that understands all of the input: %s", prop, describeTarget(tIn[ti]), env()),
							expected: prop + ": " + wi.Val.String() + "  ⟵ " + wi.Where,
							observed: prop + ": " + wo.Val.String() + "  ⟵ " + wo.Where,
							prop:     prop, lacking: lack(),
						}
					}
				}
				for prop, wo := range wout {
					if understandsAllOfInput {
						if _, ok := win[prop]; !ok {
							return "", &violation{
								detail:   fmt.Sprintf("%s of %s has a winning declaration only in the output, in an environment that understands all of the input: %s", prop, describeTarget(tIn[ti]), env()),
								expected: "(no declaration)",
								observed: prop + ": " + wo.Val.String() + "  ⟵ " + wo.Where,
								prop:     prop, lacking: lack(),
							}
						}
						continue
					}
					// some environment that understands at least as much must give this value for the input
					found := false
					var tried []string
					for sup := mask; ; sup = (sup - 1) & mask {
						if resIn[sup] != nil {
							if wi, ok := resIn[sup].Winners[ti][prop]; ok {
								if cssref.EqualValues(wi.Val, wo.Val, p.tol) {
									found = true
									break
								}
								tried = append(tried, wi.Val.String())
							}
						}
						if sup == 0 {
							break
						}
					}
					if !found {
						return "", &violation{
							detail:   fmt.Sprintf("%s of %s in environment %s: the output's winner is not the input's winner in this or any more capable environment", prop, describeTarget(tIn[ti]), env()),
							expected: "one of: " + strings.Join(dedupe(tried), " | "),
							observed: prop + ": " + wo.Val.String() + "  ⟵ " + wo.Where,
							prop:     prop, lacking: lack(),
						}
					}
				}
			}
			if p.layerOrderCheck && understandsAllOfInput {
				// relative order of the layers that carry rules on both sides (dropping a redundant copy may empty a layer)
				common := func(xs, ys []string) []string {
					in := map[string]bool{}
					for _, y := range ys {
						in[y] = true
					}
					var out []string
					for _, x := range xs {
						if in[x] {
							out = append(out, x)
						}
					}
					return out
				}
				a := strings.Join(common(resIn[mask].LayerOrder, resOut[mask].LayerOrder), " < ")
				b := strings.Join(common(resOut[mask].LayerOrder, resIn[mask].LayerOrder), " < ")
				if a != b {
					return "", &violation{detail: "layer order differs in environment " + env(), expected: a, observed: b}
				}
			}
		}
	}
	return "", nil
}

func dedupe(xs []string) []string {
	seen := map[string]bool{}
	var out []string
	for _, x := range xs {
		if !seen[x] {
			seen[x] = true
			out = append(out, x)
		}
	}
	if len(out) == 0 {
		out = []string{"(no declaration in any such environment)"}
	}
	return out
}

// shape summarises a sheet for the non-triviality rule and the class labels.
type shape struct {
	styleRules, decls, nested, atRules int
	text                               string
}

func shapeOf(s *cssref.Sheet) shape {
	var sh shape
	var sb strings.Builder
	var walk func(items []cssref.Item)
	walk = func(items []cssref.Item) {
		for _, it := range items {
			if it.Decl != nil {
				sh.decls++
				sb.WriteString(it.Decl.Name + ":" + cssref.Serialize(it.Decl.Value))
				if it.Decl.Important {
					sb.WriteString("!")
				}
				sb.WriteString(";")
				continue
			}
			r := it.Rule
			if r.At == "" {
				sh.styleRules++
				if r.Nested {
					sh.nested++
				}
			} else {
				sh.atRules++
				sb.WriteString("@" + r.At + " ")
			}
			sb.WriteString(cssref.Serialize(r.Prelude) + "{")
			if r.Items != nil {
				walk(r.Items)
			} else {
				sb.WriteString(cssref.Serialize(r.Body))
			}
			sb.WriteString("}")
		}
	}
	items := make([]cssref.Item, len(s.Rules))
	for i, r := range s.Rules {
		items[i] = cssref.Item{Rule: r}
	}
	walk(items)
	sh.text = sb.String()
	return sh
}

// judgeSheet runs esbuild on css and checks cascade preservation.
// The second result describes the failure (nil unless the verdict is a failure); the known-finding
// signatures are predicates over the case and that description.
func judgeSheet(css string, cfg Config, single bool, devices []cssgen.Device) (vdrv.Verdict, *violation) {
	out, warnings, errs := transform(css, cfg)
	if len(errs) > 0 {
		return vdrv.Skip("esbuild-error:" + firstWords(errs[0], 6)), nil
	}
	for _, w := range warnings {
		if strings.Contains(w, "nesting syntax is not supported in the configured target") {
			return vdrv.Skip("documented:nesting-needs-is-warning"), nil
		}
	}
	in := cssref.Parse(css)
	os := cssref.Parse(out)
	p := &preservation{in: in, out: os, unsupported: cfg.unsupportedSet(), devices: devices, tol: cssref.DefaultTolerance, withPseudo: !single}
	if single {
		p.uniIn, p.uniOut = singleElementUniverse(), singleElementUniverse()
		if cfg.Loader == "local-css" {
			p.uniOut.trees[0].Classes = []string{"stdin_a"}
		}
	} else {
		p.uniIn = makeUniverse("")
		if cfg.Loader == "local-css" {
			p.uniOut = makeUniverse("stdin_")
		} else {
			p.uniOut = makeUniverse("")
		}
	}
	skip, viol := p.run()
	if skip != "" {
		return vdrv.Skip(skip), nil
	}
	if viol != nil {
		return vdrv.Fail(viol.detail+"\n--- esbuild output\n"+out, viol.expected, viol.observed), viol
	}
	si, so := shapeOf(in), shapeOf(os)
	changed := si.text != so.text
	cls := cfg.labels()
	if so.styleRules < si.styleRules {
		cls = append(cls, "rules-merged-or-removed")
	}
	if so.decls < si.decls {
		cls = append(cls, "decls-collapsed")
	}
	if so.decls > si.decls {
		cls = append(cls, "decls-added(lowering)")
	}
	if si.nested > 0 && so.nested == 0 {
		cls = append(cls, "nesting-lowered")
	}
	if si.nested > 0 && so.nested > 0 {
		cls = append(cls, "nesting-kept")
	}
	if changed {
		cls = append(cls, "changed")
	}
	for _, f := range p.relevantOut {
		if cssref.IsTableFeature(f) {
			cls = append(cls, "env-lacks:"+f)
		} else {
			cls = append(cls, "free:"+strings.SplitN(f, ":", 2)[0])
		}
	}
	v := vdrv.Pass(changed, cls...)
	v.Observed = strings.TrimSpace(out)
	return v, nil
}

func firstWords(s string, n int) string {
	f := strings.Fields(s)
	if len(f) > n {
		f = f[:n]
	}
	return strings.Join(f, " ")
}

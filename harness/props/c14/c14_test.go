// C14 — output only uses syntax available in the configured target. See DESIGN.md section 5 / C14.
package c14

import (
	"encoding/json"
	"fmt"
	"sort"
	"strings"
	"testing"

	"github.com/evanw/esbuild/pkg/api"
	"github.com/evanw/esbuild/verif/jsgen"
	"github.com/evanw/esbuild/verif/jslib"
	"github.com/evanw/esbuild/verif/jsref"
	"github.com/evanw/esbuild/verif/noderun"
	"github.com/evanw/esbuild/verif/vdrv"
	"pgregory.net/rapid"
)

var H *vdrv.H
var W *noderun.Worker             // default node (reference for "is the input valid")
var NodeW = map[int]*noderun.Worker{} // real engines by major version
var NodeV = map[int]string{}          // major -> full version string

type Case struct {
	Code        string   `json:"code"`
	Target      string   `json:"target,omitempty"` // es2015 … es2024
	NodeMajor   int      `json:"node_major,omitempty"`
	Unsupported []string `json:"unsupported,omitempty"`
	Supported   []string `json:"supported,omitempty"`
	Bundle      bool     `json:"bundle,omitempty"`
	Format      string   `json:"format,omitempty"`
	Minify      bool     `json:"minify,omitempty"`
	Source      string   `json:"source"`
}

var esTargets = map[string]api.Target{"es2015": api.ES2015, "es2016": api.ES2016, "es2017": api.ES2017, "es2018": api.ES2018, "es2019": api.ES2019, "es2020": api.ES2020, "es2021": api.ES2021, "es2022": api.ES2022, "es2023": api.ES2023, "es2024": api.ES2024}
var esNames = []string{"es2015", "es2016", "es2017", "es2018", "es2019", "es2020", "es2021", "es2022", "es2023", "es2024"}

// esbuild feature name -> jsref census features that count as "f is present"
var featureMap = map[string][]jsref.Feature{
	"exponent-operator": {jsref.FeatExponent}, "async-await": {jsref.FeatAsyncFunction}, "async-generator": {jsref.FeatAsyncGenerator},
	"for-await": {jsref.FeatForAwait}, "object-rest-spread": {jsref.FeatObjectRestSpread}, "optional-catch-binding": {jsref.FeatOptionalCatchBinding},
	"optional-chain": {jsref.FeatOptionalChain}, "nullish-coalescing": {jsref.FeatNullishCoalescing}, "bigint": {jsref.FeatBigInt},
	"logical-assignment": {jsref.FeatLogicalAssignment}, "class-field": {jsref.FeatClassField}, "class-static-field": {jsref.FeatClassStaticField},
	"class-private-field": {jsref.FeatClassPrivateField}, "class-private-method": {jsref.FeatClassPrivateMethod}, "class-private-accessor": {jsref.FeatClassPrivateAccessor},
	"class-private-static-field": {jsref.FeatClassPrivateStaticField}, "class-private-static-method": {jsref.FeatClassPrivateStaticMethod},
	"class-private-static-accessor": {jsref.FeatClassPrivateStaticAccessor}, "class-static-blocks": {jsref.FeatClassStaticBlock},
	"class-private-brand-check": {jsref.FeatClassPrivateBrandCheck}, "template-literal": {jsref.FeatTemplateLiteral},
	"regexp-dot-all-flag": {jsref.FeatRegexpDotAllFlag}, "regexp-lookbehind-assertions": {jsref.FeatRegexpLookbehind}, "regexp-named-capture-groups": {jsref.FeatRegexpNamedGroups},
	"regexp-unicode-property-escapes": {jsref.FeatRegexpUnicodeProperty}, "arrow": {jsref.FeatArrow}, "const-and-let": {jsref.FeatLetConst},
	"for-of": {jsref.FeatForOf}, "generator": {jsref.FeatGenerator}, "new-target": {jsref.FeatNewTarget}, "default-argument": {jsref.FeatDefaultParams}, "rest-argument": {jsref.FeatRestParams},
	"class": {jsref.FeatClass}, "destructuring": {jsref.FeatDestructuring}, "dynamic-import": {jsref.FeatDynamicImport}, "import-meta": {jsref.FeatImportMeta}, "export-star-as": {jsref.FeatExportStarAs},
	"top-level-await": {jsref.FeatTopLevelAwait},
	// "hashbang" is deliberately not an override the generator draws: esbuild documents that it preserves a
	// hashbang line ("hashbang comment preservation", it also marks the file executable); the line is consumed
	// by the OS / Node's loader and is never transformed, for any target or override. Same policy as oracle (1)
	// and the real-engine oracle, which both disregard a hashbang at offset 0.
}

func featNames() []string {
	var out []string
	for k := range featureMap {
		out = append(out, k)
	}
	sort.Strings(out)
	return out
}

type built struct {
	files    map[string]string
	errors   []api.Message
	warnings []api.Message
}

const helperCJS = "exports.v = 1; exports.f = function () { return typeof module; };\n"
const helperESM = "export let live = 1; export function bump() { live++; }\nexport default class Dflt {}\n"

func build(c Case) built {
	var o api.BuildOptions
	o.LogLevel = api.LogLevelSilent
	o.Write = false
	if t, ok := esTargets[c.Target]; ok {
		o.Target = t
	}
	if c.NodeMajor != 0 {
		o.Engines = []api.Engine{{Name: api.EngineNode, Version: NodeV[c.NodeMajor]}}
	}
	if len(c.Unsupported)+len(c.Supported) > 0 {
		o.Supported = map[string]bool{}
		for _, f := range c.Unsupported {
			o.Supported[f] = false
		}
		for _, f := range c.Supported {
			o.Supported[f] = true
		}
	}
	switch c.Format {
	case "esm":
		o.Format = api.FormatESModule
	case "cjs":
		o.Format = api.FormatCommonJS
	case "iife":
		o.Format = api.FormatIIFE
	}
	if c.Minify {
		o.MinifySyntax, o.MinifyWhitespace, o.MinifyIdentifiers = true, true, true
	}
	entry := c.Code
	if c.Bundle {
		o.Bundle = true
		// pull in the module kinds that make esbuild emit its runtime helpers and wrappers
		entry = "import * as ns from \"./dep-esm.js\"; import cj, { v } from \"./dep-cjs.cjs\"; import data from \"./data.json\";\n" +
			"var lazy = () => import(\"./dep-lazy.js\"); var req = typeof require !== \"undefined\" && require(\"./dep-esm.js\");\n" +
			"log(ns.live, cj, v, data, lazy, req);\n" + c.Code
		o.Outdir = "/out"
	} else {
		o.Outdir = "/out"
	}
	files := map[string]string{"/in/entry.js": entry, "/in/dep-esm.js": helperESM, "/in/dep-cjs.cjs": helperCJS, "/in/data.json": "{\"a\": [1, 2]}", "/in/dep-lazy.js": "export var lazy = 1; export * from \"./dep-esm.js\";"}
	o.EntryPoints = []string{"/in/entry.js"}
	o.AbsWorkingDir = "/in"
	o.Plugins = []api.Plugin{{Name: "mem", Setup: func(b api.PluginBuild) {
		b.OnResolve(api.OnResolveOptions{Filter: ".*"}, func(a api.OnResolveArgs) (api.OnResolveResult, error) {
			p := a.Path
			if strings.HasPrefix(p, "./") {
				p = "/in/" + p[2:]
			}
			if _, ok := files[p]; ok {
				return api.OnResolveResult{Path: p, Namespace: "mem"}, nil
			}
			return api.OnResolveResult{Path: p, External: true}, nil
		})
		b.OnLoad(api.OnLoadOptions{Filter: ".*", Namespace: "mem"}, func(a api.OnLoadArgs) (api.OnLoadResult, error) {
			s := files[a.Path]
			l := api.LoaderJS
			if strings.HasSuffix(a.Path, ".json") {
				l = api.LoaderJSON
			}
			return api.OnLoadResult{Contents: &s, Loader: l, ResolveDir: "/in"}, nil
		})
	}}}
	r := api.Build(o)
	b := built{files: map[string]string{}, errors: r.Errors, warnings: r.Warnings}
	for _, f := range r.OutputFiles {
		if strings.HasSuffix(f.Path, ".js") {
			b.files[f.Path] = string(f.Contents)
		}
	}
	return b
}

// probes: one minimal use of each lowerable feature. Whether the configured target "has" a feature is
// taken from esbuild's own decision on the probe (compiled with the same target/engines/overrides and
// nothing else): if esbuild lowers the probe, no output for that configuration may contain the feature.
var probes = map[jsref.Feature]string{
	jsref.FeatOptionalChain: "x = a?.b", jsref.FeatNullishCoalescing: "x = a ?? b", jsref.FeatLogicalAssignment: "a ||= b",
	jsref.FeatExponent: "x = a ** b", jsref.FeatObjectRestSpread: "x = { ...a }", jsref.FeatOptionalCatchBinding: "try { a() } catch { b() }",
	jsref.FeatClassField: "class A { x = 1 }", jsref.FeatClassStaticField: "class A { static x = 1 }", jsref.FeatClassPrivateField: "class A { #x = 1; m() { return this.#x } }",
	jsref.FeatClassPrivateMethod: "class A { #m() {} n() { this.#m() } }", jsref.FeatClassStaticBlock: "class A { static { a() } }",
	jsref.FeatClassPrivateBrandCheck: "class A { #x; static has(o) { return #x in o } }", jsref.FeatAsyncFunction: "async function f() { await a }",
	jsref.FeatAsyncGenerator: "async function* f() { yield a }", jsref.FeatForAwait: "async function f() { for await (x of y) a() }",
	jsref.FeatTemplateLiteral: "x = `a${b}`", jsref.FeatArrow: "x = () => a",
}

type probeKey struct {
	target string
	node   int
	over   string
}

var probeCache = map[probeKey]map[jsref.Feature]bool{}

// loweredFeatures returns the features that esbuild itself lowers (or refuses) for this configuration.
func loweredFeatures(c Case) map[jsref.Feature]bool {
	key := probeKey{c.Target, c.NodeMajor, fmt.Sprint(c.Unsupported, c.Supported)}
	if m, ok := probeCache[key]; ok {
		return m
	}
	m := map[jsref.Feature]bool{}
	for f, code := range probes {
		pc := Case{Code: code, Target: c.Target, NodeMajor: c.NodeMajor, Unsupported: c.Unsupported, Supported: c.Supported}
		b := build(pc)
		if len(b.errors) > 0 {
			m[f] = true
			continue
		}
		for _, out := range b.files {
			if p, err := jsref.Parse(out, jsref.Options{Module: true}); err == nil {
				if _, still := p.Features[f]; !still {
					m[f] = true
				}
			}
		}
	}
	probeCache[key] = m
	return m
}

// overEdition lists, sorted, the census features of an emitted file that are newer than the case's language
// target and not covered by a `true` override ("feature(ESyyyy)@offset"). A hashbang is not counted: the
// line is consumed by the OS / Node's loader, not by the language; esbuild documents that it preserves it.
func overEdition(c Case, prog *jsref.Program) []string {
	ed := editionOf(c.Target)
	var over []string
	for f, off := range prog.Features {
		fe := jsref.FeatureEdition(f)
		if f == jsref.FeatHashbang {
			continue
		}
		if f == jsref.FeatAsyncFunction && onlyTopLevelAwaits(prog) {
			continue // the census notes every `await` as async-function; these are all top-level awaits, judged as top-level-await
		}
		if fe > ed && fe < 9999 {
			allowed := false
			for _, s := range c.Supported {
				for _, jf := range featureMap[s] {
					if jf == f {
						allowed = true
					}
				}
			}
			if !allowed {
				over = append(over, fmt.Sprintf("%s(ES%d)@%d", f, fe, off))
			}
		}
	}
	sort.Strings(over)
	return over
}

// overEditionNames returns, sorted, the esbuild feature names of the program's features that are newer
// than edition ed, and whether every such feature has an esbuild name at all.
func overEditionNames(p *jsref.Program, ed int) (names []string, allNamed bool) {
	allNamed = true
	seen := map[string]bool{}
	for f := range p.Features {
		fe := jsref.FeatureEdition(f)
		if fe <= ed || f == jsref.FeatHashbang {
			continue
		}
		found := false
		for _, n := range featNames() {
			for _, jf := range featureMap[n] {
				if jf == f {
					found = true
					if !seen[n] {
						seen[n] = true
						names = append(names, n)
					}
				}
			}
		}
		if !found {
			allNamed = false
		}
	}
	sort.Strings(names)
	return
}

// inTrueDomain: the domain of the "supported:{f:true} ⇒ the input's use of f is kept" rule. A pure
// language target (its feature set is the edition table; with an engine in the list esbuild intersects
// with a per-engine table this harness has no independent copy of), no `false` overrides, and every
// feature of the input that is newer than the target is among the `true` overrides — so nothing else
// can force the lowering of f.
func inTrueDomain(c Case, in *jsref.Program) bool {
	if c.Target == "" || c.NodeMajor != 0 || len(c.Unsupported) > 0 || len(c.Supported) == 0 || in == nil {
		return false
	}
	names, allNamed := overEditionNames(in, editionOf(c.Target))
	if !allNamed {
		return false
	}
	for _, n := range names {
		if !hasString(c.Supported, n) {
			return false
		}
	}
	return true
}

func editionOf(target string) int {
	var y int
	fmt.Sscanf(target, "es%d", &y)
	return y
}

func mentionsTarget(ms []api.Message) bool {
	for _, m := range ms {
		if strings.Contains(m.Text, "target environment") || strings.Contains(m.Text, "configured target") {
			return true
		}
	}
	return false
}

func judge(c Case) vdrv.Verdict {
	// domain: inputs that are valid programs (V8 as a module — entry files are ESM here)
	res, err := W.ParseAll([]string{c.Code}, "module")
	if err != nil {
		return vdrv.Skip("node-infra")
	}
	if res[0] != "ok" {
		return vdrv.Skip("input-invalid-as-module")
	}
	b := build(c)
	if len(b.errors) > 0 {
		v := vdrv.Pass(false, "build-refused")
		v.Observed = b.errors[0].Text
		return v
	}
	inProg, ierr := jsref.Parse(c.Code, jsref.Options{Module: true})
	cls := []string{"source=" + c.Source}
	if c.Bundle {
		cls = append(cls, "bundle")
	}
	warned := mentionsTarget(b.warnings)
	checked := 0
	var names []string
	for n := range b.files {
		names = append(names, n)
	}
	sort.Strings(names)
	for _, name := range names {
		out := b.files[name]
		isModule := c.Format == "esm" || (c.Format == "" && !c.Bundle) || (c.Bundle && c.Format == "")
		if c.Bundle && c.Format == "" {
			isModule = false // bundling without a format on the default platform produces iife
		}
		goal := "script"
		if isModule {
			goal = "module"
		}
		prog, perr := jsref.Parse(out, jsref.Options{Module: isModule})
		if perr != nil {
			// let V8 say whether the output is valid at all; if V8 accepts, this is our parser's gap
			ok, _ := W.ParseAll([]string{out}, goal)
			if ok != nil && ok[0] == "ok" {
				return vdrv.Skip("jsref-gap")
			}
			v := vdrv.Fail("esbuild output does not parse (jsref and V8 both reject) for "+name, "valid "+goal, out)
			if ierr == nil && topLevelAwaitLoweredToYield(c, inProg, out, isModule, func(repaired string) bool {
				rr, e := W.ParseAll([]string{repaired}, goal)
				return e == nil && len(rr) == 1 && rr[0] == "ok"
			}) {
				v.Known = "C14-top-level-await-lowered-to-yield"
			}
			return v
		}
		// (1) language target: census ⊆ edition
		if c.Target != "" {
			over := overEdition(c, prog)
			if len(over) > 0 {
				if warned {
					cls = append(cls, "newer-syntax-with-warning")
				} else {
					onlyDyn := true
					for _, o := range over {
						if !strings.HasPrefix(o, "dynamic-import(") && !strings.HasPrefix(o, "import-attributes(") {
							onlyDyn = false
						}
					}
					if onlyDyn && ierr == nil {
						if _, in := inProg.Features[jsref.FeatDynamicImport]; in {
							v := vdrv.Fail(fmt.Sprintf("output %s for target %s keeps the input's import() without a diagnostic", name, c.Target), "diagnostic or transformation", out)
							v.Known = "C14-dynamic-import-passthrough"
							return v
						}
					}
					v := vdrv.Fail(fmt.Sprintf("output %s for target %s contains newer syntax without a diagnostic: %s", name, c.Target, strings.Join(over, ", ")), "only syntax up to "+c.Target, out)
					if ierr == nil && forAwaitLeftInLoweredAsync(c, inProg, prog, isModule) {
						v.Known = "C14-for-await-kept-in-lowered-async-function"
					}
					return v
				}
			}
			checked++
		}
		// (2) real engine
		if c.NodeMajor != 0 && len(c.Supported) == 0 { // a `supported:{f:true}` override deliberately keeps syntax the engine may lack
			w := NodeW[c.NodeMajor]
			if w == nil {
				return vdrv.Skip("engine-missing")
			}
			g := goal
			// A leading hashbang line is consumed by Node's loader, not by the parser: Node < 12 strips it in
			// lib/internal/modules (stripShebang) before V8 sees the file (`node10 file.js` runs it; the raw
			// `vm.Script` used here does not). Model the loader: blank the line, only when it is at offset 0.
			src := stripLeadingHashbang(out)
			if c.Format == "cjs" || (c.Format == "" && c.Bundle) {
				g = "script"
			}
			if g == "module" && c.NodeMajor < 12 {
				cls = append(cls, "module-goal-not-checkable-on-node10")
			} else {
				r, err := w.ParseAll([]string{src}, g)
				if err != nil {
					return vdrv.Skip("node-infra")
				}
				if r[0] == "unsupported" {
					cls = append(cls, "module-goal-unsupported")
				} else if r[0] != "ok" {
					if warned {
						cls = append(cls, "engine-rejects-with-warning")
					} else {
						if strings.Contains(r[0], "must be declared in an enclosing class") && ierr == nil &&
							privateStaticAssignedOutsideClass(inProg, prog, func(repaired string) bool {
								rr, e := w.ParseAll([]string{stripLeadingHashbang(repaired)}, g)
								return e == nil && len(rr) == 1 && rr[0] == "ok"
							}) {
							v := vdrv.Fail("node "+NodeV[c.NodeMajor]+" rejects `X.#field = value` that esbuild placed after the class body: "+r[0], "parses", out)
							v.Known = "C14-private-static-field-assigned-outside-class"
							return v
						}
						if strings.Contains(r[0], "'super' keyword unexpected here") && ierr == nil &&
							superInLoweredArrow(c, inProg, prog, func(repaired string) bool {
								rr, e := w.ParseAll([]string{stripLeadingHashbang(repaired)}, g)
								return e == nil && len(rr) == 1 && rr[0] == "ok"
							}) {
							v := vdrv.Fail("node "+NodeV[c.NodeMajor]+" rejects `super` inside the function expression that replaced an arrow function: "+r[0], "parses", out)
							v.Known = "C14-super-in-lowered-arrow"
							return v
						}
						if c.NodeMajor < 14 && hasBigIntPropertyKey(c.Code) {
							v := vdrv.Fail("node "+NodeV[c.NodeMajor]+" rejects a BigInt literal used as a property key", "parses", out)
							v.Known = "C14-bigint-property-key-old-node"
							return v
						}
						if ierr == nil {
							if _, in := inProg.Features[jsref.FeatDynamicImport]; in && c.NodeMajor < 14 && strings.Contains(r[0], "import") {
								v := vdrv.Fail("node "+NodeV[c.NodeMajor]+" rejects the passed-through import()", "parses", out)
								v.Known = "C14-dynamic-import-passthrough"
								return v
							}
						}
						return vdrv.Fail(fmt.Sprintf("node %s rejects esbuild's output for engines=[node%s] (%s): %s", NodeV[c.NodeMajor], NodeV[c.NodeMajor], name, r[0]), "parses in node "+NodeV[c.NodeMajor], out)
					}
				}
				checked++
			}
		}
		// (4) esbuild's own notion of the target: a feature it lowers in a one-line probe must not be emitted
		for f := range loweredFeatures(c) {
			if off, ok := prog.Features[f]; ok {
				if warned {
					cls = append(cls, "lowered-feature-kept-with-warning")
					continue
				}
				v := vdrv.Fail(fmt.Sprintf("esbuild lowers %s for this configuration (target=%q node=%d unsupported=%v) in a one-line probe, but output %s uses it at offset %d", f, c.Target, c.NodeMajor, c.Unsupported, name, off), "feature absent", out)
				if f == jsref.FeatArrow && ierr == nil {
					v.Known = knownSynthesizedArrow(c, inProg, prog)
				}
				return v
			}
		}
		checked++
		// (3) supported overrides
		for _, f := range c.Unsupported {
			for _, jf := range featureMap[f] {
				if off, ok := prog.Features[jf]; ok {
					if warned {
						cls = append(cls, "unsupported-feature-kept-with-warning")
						continue
					}
					v := vdrv.Fail(fmt.Sprintf("supported:{%q:false} but output %s still uses %s at offset %d", f, name, jf, off), "feature absent", out)
					if jf == jsref.FeatArrow && ierr == nil {
						v.Known = knownSynthesizedArrow(c, inProg, prog)
					}
					return v
				}
			}
		}
		// `supported:{f:true}` lets esbuild assume f; it does not oblige esbuild to keep a use of f whose
		// lowering is forced by ANOTHER feature the target lacks (a public field next to a lowered private
		// field, a static block next to lowered static fields, `async *` when async-generator is missing, …:
		// esbuild lowers those together to keep evaluation order, and says so in computeClassLoweringInfo).
		// "Not lowered" is therefore asserted only on inputs every newer-than-target feature of which is
		// declared supported (inTrueDomain); the generator constructs such cases on purpose.
		if ierr == nil && !c.Bundle && !c.Minify && inTrueDomain(c, inProg) {
			cls = append(cls, "supported-true-domain")
			for _, f := range c.Supported {
				for _, jf := range featureMap[f] {
					if _, in := inProg.Features[jf]; in {
						if _, still := prog.Features[jf]; !still && jf != jsref.FeatTemplateLiteral {
							// the statement that used it may have been legitimately simplified away; only flag when the
							// same input keeps the feature under esnext (so it was removed because of the low target)
							keep := build(Case{Code: c.Code, Target: "", Format: c.Format})
							kept := false
							for _, s := range keep.files {
								if kp, e := jsref.Parse(s, jsref.Options{Module: isModule}); e == nil {
									if _, ok := kp.Features[jf]; ok {
										kept = true
									}
								}
							}
							if kept {
								return vdrv.Fail(fmt.Sprintf("supported:{%q:true} with target %s: the input's use of %s was lowered anyway", f, c.Target, jf), "feature kept", out)
							}
						}
					}
				}
			}
		}
	}
	if len(b.files) == 0 {
		return vdrv.Skip("no-js-output")
	}
	v := vdrv.Pass(checked > 0 && (ierr != nil || len(inProg.Features) >= 2), cls...)
	v.Observed = fmt.Sprintf("%d files checked", len(b.files))
	return v
}

// stripLeadingHashbang replaces a `#!` line at offset 0 by a line comment of the same length.
func stripLeadingHashbang(src string) string {
	if strings.HasPrefix(src, "#!") {
		return "//" + src[2:]
	}
	return src
}

// hasBigIntPropertyKey: signature of C14-bigint-property-key-old-node: a BigInt literal token directly
// followed by `:` or `(` and preceded by `{` or `,` (an object-literal / class member key).
func hasBigIntPropertyKey(code string) bool {
	toks, err := jsref.Tokenize(code, jsref.Options{Module: true})
	if err != nil {
		return false
	}
	for i, t := range toks {
		if t.Kind == jsref.TBigInt && i > 0 && i+1 < len(toks) && (toks[i+1].Raw == ":" || toks[i+1].Raw == "(") && (toks[i-1].Raw == "{" || toks[i-1].Raw == ",") {
			return true
		}
	}
	return false
}

func replay(raw json.RawMessage) vdrv.Verdict {
	var c Case
	if json.Unmarshal(raw, &c) != nil {
		return vdrv.Skip("bad-replay")
	}
	return judge(c)
}

func nodeMajors() []int {
	var out []int
	for k := range NodeW {
		out = append(out, k)
	}
	sort.Ints(out)
	return out
}

func drawConfig(rt *rapid.T, c *Case) {
	majors := nodeMajors()
	switch rapid.IntRange(0, 2).Draw(rt, "targetkind") {
	case 0:
		c.Target = rapid.SampledFrom(esNames).Draw(rt, "target")
	case 1:
		if len(majors) > 0 {
			c.NodeMajor = rapid.SampledFrom(majors).Draw(rt, "node")
		} else {
			c.Target = rapid.SampledFrom(esNames).Draw(rt, "target")
		}
	default:
		c.Target = rapid.SampledFrom(esNames).Draw(rt, "target")
		if len(majors) > 0 && rapid.Bool().Draw(rt, "both") {
			c.NodeMajor = rapid.SampledFrom(majors).Draw(rt, "node")
		}
	}
	names := featNames()
	switch rapid.IntRange(0, 3).Draw(rt, "overrides") {
	case 0:
		n := rapid.IntRange(1, 3).Draw(rt, "nunsupported")
		for i := 0; i < n; i++ {
			c.Unsupported = append(c.Unsupported, rapid.SampledFrom(names).Draw(rt, "unsupported"))
		}
	case 1:
		// true overrides: half of the time (language target, input parses) declare EVERY newer-than-target
		// feature of the input supported, which puts the case in the domain of the "kept" rule; otherwise one
		// feature — of the input if possible — which exercises partial overrides against oracles (1), (2), (4).
		var over []string
		if c.Target != "" {
			if p, err := jsref.Parse(c.Code, jsref.Options{Module: true}); err == nil {
				if ns, allNamed := overEditionNames(p, editionOf(c.Target)); allNamed || len(ns) > 0 {
					over = ns
				}
			}
		}
		mode := rapid.IntRange(0, 3).Draw(rt, "supportedmode")
		switch {
		case len(over) > 0 && mode <= 1:
			c.Supported = append(c.Supported, over...)
		case len(over) > 0 && mode == 2:
			c.Supported = append(c.Supported, rapid.SampledFrom(over).Draw(rt, "supported"))
		default:
			c.Supported = append(c.Supported, rapid.SampledFrom(names).Draw(rt, "supported"))
		}
	}
	c.Bundle = rapid.IntRange(0, 2).Draw(rt, "bundle") == 0
	c.Format = rapid.SampledFrom([]string{"", "esm", "cjs", "iife"}).Draw(rt, "format")
	c.Minify = rapid.IntRange(0, 2).Draw(rt, "minify") == 0
}

func runFamilies(t *testing.T) {
	H.Rule("families", fmt.Sprintf("bounded-exhaustive: %d construct families + %d rare-production snippets × every language target ES2015…ES2024 × every real Node engine found (%v) × {plain, bundle with ESM/CJS/JSON/dynamic-import dependencies (runtime helpers and wrappers)} × {no minify, minify}; oracle: independent feature census (jsref) of every emitted file ⊆ the target's edition, and the real Node X parser accepts output built for engines=[nodeX]; a newer feature may remain only with a diagnostic naming the target environment; non-trivial = ≥2 features in the input and at least one oracle applied", len(jslib.Families), len(jslib.RareSnippets), nodeMajors()))
	var inputs []string
	inputs = append(inputs, jslib.Families...)
	inputs = append(inputs, jslib.RareSnippets...)
	i := 0
	for si, code := range inputs {
		src := "family"
		if si >= len(jslib.Families) {
			src = "rare"
		}
		var variants []Case
		for _, tn := range esNames {
			variants = append(variants, Case{Code: code, Target: tn, Source: src})
		}
		for _, m := range nodeMajors() {
			variants = append(variants, Case{Code: code, NodeMajor: m, Source: src})
		}
		for _, v := range variants {
			for k := 0; k < 4; k++ {
				i++
				if !H.MySlice(i) {
					continue
				}
				v.Bundle, v.Minify = k&1 != 0, k&2 != 0
				if v.Bundle {
					v.Format = []string{"esm", "cjs", "iife"}[i%3]
				}
				if !H.Thorough() && uint64(i/H.NShards)%5 != H.Seed%5 {
					continue
				}
				H.Report(t, "families", fmt.Sprint(v), v, judge(v))
			}
		}
	}
	H.Exhaustive("families", H.Thorough())
}

func runOverrides(t *testing.T) {
	H.Rule("overrides", "rapid: a family/rare snippet or jsgen program × random language target and/or Node engine × `supported` overrides in both directions (false ⇒ feature absent from every emitted file incl. helpers; true on a low language target ⇒ the input's use is not lowered, asserted only when EVERY newer-than-target feature of the input is declared supported — otherwise esbuild may lower the feature together with an unsupported neighbour (class fields next to lowered private fields, static blocks next to lowered static fields, `async *` without async-generator) to keep evaluation order, which the property allows; the generator declares the input's whole newer feature set supported in half of the `true` cases, class supported-true-domain) × bundle × format × minify. A hashbang line is outside the check in all three oracles (esbuild documents preserving it; `hashbang` is not drawn as an override). For the real-engine oracle a hashbang at offset 0 is blanked first: Node's loader, not its parser, consumes it (Node 10 runs such a file but its vm.Script rejects `#!`)")
	H.SetupRapid("overrides", H.N(2500, 150000))
	rapid.Check(t, func(rt *rapid.T) {
		c := Case{}
		switch rapid.IntRange(0, 2).Draw(rt, "src") {
		case 0:
			c.Code, c.Source = rapid.SampledFrom(jslib.Families).Draw(rt, "family"), "family"
		case 1:
			c.Code, c.Source = rapid.SampledFrom(jslib.RareSnippets).Draw(rt, "rare"), "rare"
		default:
			c.Code = jsgen.Program(rt, jsgen.Config{Features: jsgen.FAll, WrapAsync: rapid.Bool().Draw(rt, "async"), Strict: true, MaxDepth: 3, MaxStmts: 6})
			c.Source = "jsgen"
		}
		drawConfig(rt, &c)
		H.Report(rt, "overrides", fmt.Sprint(c), c, judge(c))
	})
}

var subs = map[string]vdrv.ReplayFunc{"families": replay, "overrides": replay}

func setup(t *testing.T) {
	H = vdrv.New("C14")
	var err error
	W, err = noderun.Start("")
	if err != nil {
		t.Fatalf("INFRA: %v", err)
	}
	for maj, path := range noderun.NodeVersions() {
		w, err := noderun.Start(path)
		if err != nil {
			continue
		}
		if r, err := w.Call(noderun.Req{Kind: "ping"}); err != nil || r.Pong == "" {
			w.Close()
			continue
		}
		NodeW[maj] = w
		NodeV[maj] = noderun.NodeVersionString(path)
	}
	if len(NodeW) == 0 {
		H.Note("no extra Node versions found: real-engine oracle disabled (tools_missing)")
	}
}

func teardown() {
	W.Close()
	for _, w := range NodeW {
		w.Close()
	}
}

func TestCheck(t *testing.T) {
	setup(t)
	defer teardown()
	complete := false
	defer func() { H.Finish(complete) }()
	H.RunReplays(t, subs)
	H.Sub(t, "families", runFamilies)
	H.Sub(t, "overrides", runOverrides)
	complete = true
}

func TestReplay(t *testing.T) {
	setup(t)
	defer teardown()
	H.ReplayOne(t, subs)
}

package c14

import (
	"fmt"
	"os"
	"testing"

	"github.com/evanw/esbuild/verif/jslib"
	"github.com/evanw/esbuild/verif/jsref"
)

// temporary: sweep the supported:true domain over every family/rare snippet × language target
func TestSweepTmp(t *testing.T) {
	if os.Getenv("C14_SWEEP") == "" {
		t.Skip()
	}
	setup(t)
	defer teardown()
	var inputs []string
	inputs = append(inputs, jslib.Families...)
	inputs = append(inputs, jslib.RareSnippets...)
	n, dom, bad := 0, 0, 0
	for _, code := range inputs {
		p, err := jsref.Parse(code, jsref.Options{Module: true})
		if err != nil {
			continue
		}
		for _, tn := range esNames {
			names, _ := overEditionNames(p, editionOf(tn))
			if len(names) == 0 {
				continue
			}
			for _, fm := range []string{"", "esm", "cjs", "iife"} {
				c := Case{Code: code, Target: tn, Supported: names, Format: fm, Source: "sweep"}
				v := judge(c)
				n++
				if inTrueDomain(c, p) {
					dom++
				}
				if !v.OK && v.Discard == "" {
					bad++
					fmt.Printf("SWEEP-FAIL known=%q %s\n  case=%+v\n", v.Known, v.Detail, c)
				}
			}
		}
	}
	fmt.Printf("SWEEP cases=%d indomain=%d bad=%d\n", n, dom, bad)
}

// temporary: every single false override × every snippet × a few configurations
func TestSweepFalseTmp(t *testing.T) {
	if os.Getenv("C14_SWEEP") == "" {
		t.Skip()
	}
	setup(t)
	defer teardown()
	var inputs []string
	inputs = append(inputs, jslib.Families...)
	inputs = append(inputs, jslib.RareSnippets...)
	n, bad := 0, 0
	seen := map[string]bool{}
	for i, code := range inputs {
		for j, f := range featNames() {
			for k := 0; k < 4; k++ {
				c := Case{Code: code, Unsupported: []string{f}, Source: "sweep", Bundle: k&1 != 0, Minify: k&2 != 0}
				switch (i + j + k) % 4 {
				case 0:
					c.Target = "es2015"
				case 1:
					c.Target = "es2022"
				case 2:
					c.Target = "es2019"
				default:
					c.NodeMajor = []int{10, 12, 14, 16}[(i+j)%4]
				}
				if c.Bundle {
					c.Format = []string{"esm", "cjs", "iife"}[(i+j)%3]
				}
				v := judge(c)
				n++
				if !v.OK && v.Discard == "" {
					bad++
					key := v.Known + "|" + f
					if v.Known == "" || !seen[key] {
						fmt.Printf("SWEEP-FAIL known=%q %s\n  case=%+v\n", v.Known, v.Detail, c)
					}
					seen[key] = true
				}
			}
		}
	}
	fmt.Printf("SWEEPF cases=%d bad=%d\n", n, bad)
}

// temporary: every single true override (a newer-than-target feature of the input) × snippet × target
func TestSweepTrueSingleTmp(t *testing.T) {
	if os.Getenv("C14_SWEEP") == "" {
		t.Skip()
	}
	setup(t)
	defer teardown()
	var inputs []string
	inputs = append(inputs, jslib.Families...)
	inputs = append(inputs, jslib.RareSnippets...)
	n, bad := 0, 0
	seen := map[string]bool{}
	for i, code := range inputs {
		p, err := jsref.Parse(code, jsref.Options{Module: true})
		if err != nil {
			continue
		}
		for ti, tn := range esNames {
			names, _ := overEditionNames(p, editionOf(tn))
			for j, f := range names {
				k := (i + j + ti) % 4
				c := Case{Code: code, Target: tn, Supported: []string{f}, Source: "sweep", Bundle: k&1 != 0, Minify: k&2 != 0}
				c.Format = []string{"", "esm", "cjs", "iife"}[(i+j+ti)%4]
				v := judge(c)
				n++
				if !v.OK && v.Discard == "" {
					bad++
					key := v.Known + "|" + f
					if v.Known == "" || !seen[key] {
						fmt.Printf("SWEEP-FAIL known=%q %s\n  case=%+v\n", v.Known, v.Detail, c)
					}
					seen[key] = true
				}
			}
		}
	}
	fmt.Printf("SWEEPT cases=%d bad=%d\n", n, bad)
}

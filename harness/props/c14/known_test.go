// Known findings of C14 that are recognised mechanically (see known-findings.d/C14.json). Each has a
// narrow signature over the case (configuration + input) AND a confirmation over esbuild's output, so
// that any other failure of the property on a matching input is still a violation.
package c14

import (
	"sort"
	"strings"

	"github.com/evanw/esbuild/verif/jsref"
	"github.com/evanw/esbuild/verif/jsutil"
)

func hasString(list []string, s string) bool {
	for _, x := range list {
		if x == s {
			return true
		}
	}
	return false
}

// staticBlocksWithStatements counts the class static blocks of the program that contain a statement
// other than an expression statement / empty statement (esbuild lowers exactly those to an IIFE; blocks
// made of expression statements only are inlined as a comma list).
func staticBlocksWithStatements(p *jsref.Program) int {
	n := 0
	jsutil.Walk(p.Body, func(nd *jsref.Node) {
		if nd.Type != jsref.NStaticBlock {
			return
		}
		for _, s := range nd.List {
			if s != nil && s.Type != jsref.NExprStmt && s.Type != jsref.NEmpty {
				n++
				return
			}
		}
	})
	return n
}

func unparen(n *jsref.Node) *jsref.Node {
	for n != nil && n.Type == jsref.NParen {
		n = n.A
	}
	return n
}

// Signatures + confirmations of the three findings "a closure that esbuild synthesises itself is an arrow
// function although `supported:{arrow:false}`". esbuild gates every other closure it generates (module
// wrappers, export getters, runtime helpers, import() shims) on compat.Arrow; three sites are not gated:
//
//	A  C14-static-block-iife-arrow     lowerStaticBlock: `(() => { stmts })()` for a lowered static block
//	                                   with a non-expression statement
//	B  C14-param-scope-temp-arrow      captureValueWithPossibleSideEffects in a parameter-list scope:
//	                                   `((_a) => (_a = x) != null ? _a : y)()` inside a default value
//	C  C14-super-shim-arrow            the `var __super = (...args) => { super(...args); …; return this }`
//	                                   shim of a derived constructor whose fields are lowered
//
// knownSynthesizedArrow returns the finding id when `arrow` is among the false overrides, EVERY arrow left
// in the output has exactly one of these three shapes, and the input contains at least as many constructs
// that give rise to each shape (kA, kB, kC) as the output has arrows of that shape. An arrow of any other
// shape or position, or one more than the input can explain, is not forgiven.
func knownSynthesizedArrow(c Case, in *jsref.Program, out *jsref.Program) string {
	if !hasString(c.Unsupported, "arrow") || in == nil || out == nil {
		return ""
	}
	kA := staticBlocksWithStatements(in)
	kB := tempNeedingOpsInParams(in)
	kC := derivedClassesWithCtor(in)
	if kA+kB+kC == 0 {
		return ""
	}
	iife := map[*jsref.Node]bool{}    // arrows that are the callee of a zero-argument call
	inParams := map[*jsref.Node]bool{} // arrows located inside a parameter list
	var walk func(n *jsref.Node, params bool)
	walk = func(n *jsref.Node, params bool) {
		if n == nil {
			return
		}
		switch n.Type {
		case jsref.NCall:
			if len(n.List) == 0 && !n.Has(jsref.FlagOptional) {
				if a := unparen(n.A); a != nil && a.Type == jsref.NArrow {
					iife[a] = true
				}
			}
		case jsref.NArrow:
			if params {
				inParams[n] = true
			}
		}
		switch n.Type {
		case jsref.NFunctionDecl, jsref.NFunctionExpr, jsref.NArrow:
			walk(n.A, params)
			for _, x := range n.List {
				walk(x, true)
			}
			// the body of an arrow that itself stands in a parameter list is still part of that list
			// (`a?.b?.c` in a default value gives shape-B arrows nested in each other)
			walk(n.B, params && n.Type == jsref.NArrow)
			return
		}
		walk(n.A, params)
		walk(n.B, params)
		walk(n.C, params)
		walk(n.D, params)
		for _, x := range n.List {
			walk(x, params)
		}
	}
	walk(out.Body, false)
	nA, nB, nC, ok := 0, 0, 0, true
	jsutil.Walk(out.Body, func(nd *jsref.Node) {
		if nd.Type != jsref.NArrow {
			return
		}
		switch {
		case nd.Has(jsref.FlagAsync):
			ok = false
		case iife[nd] && len(nd.List) == 0 && !nd.Has(jsref.FlagExprBody) && !inParams[nd]:
			nA++
		case iife[nd] && len(nd.List) == 1 && nd.List[0] != nil && nd.List[0].Type == jsref.NIdent && nd.Has(jsref.FlagExprBody) && inParams[nd]:
			nB++
		case !iife[nd] && isSuperShim(nd):
			nC++
		default:
			ok = false
		}
	})
	if !ok || nA+nB+nC == 0 || nA > kA || nB > kB || nC > kC {
		return ""
	}
	switch {
	case nA > 0:
		return "C14-static-block-iife-arrow"
	case nB > 0:
		return "C14-param-scope-temp-arrow"
	}
	return "C14-super-shim-arrow"
}

// isSuperShim: `(...args) => { super(...args); …; return this }`.
func isSuperShim(a *jsref.Node) bool {
	if len(a.List) != 1 || a.List[0] == nil || a.List[0].Type != jsref.NSpread || a.Has(jsref.FlagExprBody) || a.B == nil || len(a.B.List) < 2 {
		return false
	}
	first, last := a.B.List[0], a.B.List[len(a.B.List)-1]
	isSuperCall := func(e *jsref.Node) bool {
		for e != nil && e.Type == jsref.NSeq && len(e.List) > 0 { // minified: `super(...t), helper(this, …), this`
			e = e.List[0]
		}
		return e != nil && e.Type == jsref.NCall && e.A != nil && e.A.Type == jsref.NSuper
	}
	if first == nil || last == nil || last.Type != jsref.NReturn {
		return false
	}
	return first.Type == jsref.NExprStmt && isSuperCall(first.A)
}

// tempNeedingOpsInParams counts, inside the parameter lists of the program's functions, the operators
// whose lowering needs a temporary: `??`, optional chains, logical assignments and `**=`.
func tempNeedingOpsInParams(p *jsref.Program) int {
	n := 0
	var walk func(nd *jsref.Node, params bool)
	walk = func(nd *jsref.Node, params bool) {
		if nd == nil {
			return
		}
		if params {
			switch nd.Type {
			case jsref.NBinary:
				if nd.Name == "??" {
					n++
				}
			case jsref.NAssign:
				if nd.Name == "??=" || nd.Name == "||=" || nd.Name == "&&=" || nd.Name == "**=" {
					n++
				}
			case jsref.NMember, jsref.NIndex, jsref.NCall:
				if nd.Has(jsref.FlagOptional) {
					n++
				}
			}
		}
		switch nd.Type {
		case jsref.NFunctionDecl, jsref.NFunctionExpr, jsref.NArrow:
			walk(nd.A, params)
			for _, x := range nd.List {
				walk(x, true)
			}
			walk(nd.B, false)
			return
		}
		walk(nd.A, params)
		walk(nd.B, params)
		walk(nd.C, params)
		walk(nd.D, params)
		for _, x := range nd.List {
			walk(x, params)
		}
	}
	walk(p.Body, false)
	return n
}

// derivedClassesWithCtor counts the classes with an `extends` clause and an explicit constructor.
func derivedClassesWithCtor(p *jsref.Program) int {
	n := 0
	jsutil.Walk(p.Body, func(nd *jsref.Node) {
		if (nd.Type != jsref.NClassDecl && nd.Type != jsref.NClassExpr) || nd.B == nil {
			return
		}
		for _, m := range nd.List {
			if m != nil && m.Type == jsref.NMethod && m.Name == "constructor" {
				n++
				return
			}
		}
	})
	return n
}

type span struct{ start, end int }

// undeclaredPrivateAssignments returns the statement-level assignments `X.#n = v` of the program (an
// expression statement, or an element of a statement-level comma list) whose private name #n is not
// declared by any enclosing class body, and reports whether every use of an undeclared private name in
// the program is the target of such an assignment.
func undeclaredPrivateAssignments(p *jsref.Program) (stmts []span, onlyThose bool) {
	forgiven := map[*jsref.Node]bool{} // NPrivateName nodes that are targets of a statement-level assignment
	var declared []map[string]bool
	isDeclared := func(name string) bool {
		for _, d := range declared {
			if d[name] {
				return true
			}
		}
		return false
	}
	onlyThose = true
	var walk func(n *jsref.Node)
	walk = func(n *jsref.Node) {
		if n == nil {
			return
		}
		switch n.Type {
		case jsref.NClassDecl, jsref.NClassExpr:
			walk(n.A)
			walk(n.B) // the heritage is outside the class's private scope
			names := map[string]bool{}
			for _, m := range n.List {
				if m != nil && (m.Type == jsref.NMethod || m.Type == jsref.NField) && !m.Has(jsref.FlagComputed) && m.A != nil && m.A.Type == jsref.NPrivateName {
					names[m.A.Name] = true
				}
			}
			declared = append(declared, names)
			for _, m := range n.List {
				walk(m)
			}
			declared = declared[:len(declared)-1]
			return
		case jsref.NExprStmt:
			// `X.#n = v;` or, minified, an element of a statement-level comma list `a = b, X.#n = v;`
			elems := []*jsref.Node{n.A}
			if n.A != nil && n.A.Type == jsref.NSeq {
				elems = n.A.List
			}
			for _, a := range elems {
				if a != nil && a.Type == jsref.NAssign && a.Name == "=" && a.A != nil && a.A.Type == jsref.NMember &&
					a.A.B != nil && a.A.B.Type == jsref.NPrivateName && !isDeclared(a.A.B.Name) {
					stmts = append(stmts, span{a.Start, a.End})
					forgiven[a.A.B] = true
				}
			}
		case jsref.NPrivateName:
			if !isDeclared(n.Name) && !forgiven[n] {
				onlyThose = false
			}
		}
		walk(n.A)
		walk(n.B)
		walk(n.C)
		walk(n.D)
		for _, c := range n.List {
			walk(c)
		}
	}
	walk(p.Body)
	return
}

// privateStaticAssignedOutsideClass is the signature + confirmation of
// C14-private-static-field-assigned-outside-class: the input uses a private brand check (`#x in o`) and
// declares a static private field; the engine rejects the output with "must be declared in an enclosing
// class"; the output's only uses of undeclared private names are statements `X.#n = v;`; and with exactly
// those assignments replaced by `0` the same engine accepts the output. Any other syntax the engine
// rejects therefore remains a violation.
func privateStaticAssignedOutsideClass(in *jsref.Program, out *jsref.Program, accepts func(src string) bool) bool {
	if in == nil || out == nil {
		return false
	}
	if _, ok := in.Features[jsref.FeatClassPrivateBrandCheck]; !ok {
		return false
	}
	if _, ok := in.Features[jsref.FeatClassPrivateStaticField]; !ok {
		return false
	}
	stmts, only := undeclaredPrivateAssignments(out)
	if len(stmts) == 0 || !only {
		return false
	}
	sort.Slice(stmts, func(i, j int) bool { return stmts[i].start > stmts[j].start })
	src := out.Source
	for _, s := range stmts {
		if s.start < 0 || s.end > len(src) || s.start >= s.end {
			return false
		}
		src = src[:s.start] + "0" + src[s.end:]
	}
	return accepts(src)
}

// enclosingFunctionWalk calls fn for every node with the nearest enclosing function-like node (nil at the
// top level; arrows count as functions here).
func enclosingFunctionWalk(root *jsref.Node, fn func(n, encl *jsref.Node)) {
	var walk func(n, encl *jsref.Node)
	walk = func(n, encl *jsref.Node) {
		if n == nil {
			return
		}
		fn(n, encl)
		inner := encl
		switch n.Type {
		case jsref.NFunctionDecl, jsref.NFunctionExpr, jsref.NArrow:
			inner = n
		}
		walk(n.A, inner)
		walk(n.B, inner)
		walk(n.C, inner)
		walk(n.D, inner)
		for _, x := range n.List {
			walk(x, inner)
		}
	}
	walk(root, nil)
}

// forAwaitLeftInLoweredAsync is the signature + confirmation of C14-for-await-kept-in-lowered-async-function:
// `for-await` is among the true overrides, the configuration lowers async functions (one-line probe), the
// input uses `for await`; the output contains `for await` loops whose nearest enclosing function is NOT
// async (the generator that replaced the async function); and after deleting the `await` keyword of exactly
// those loops the output's census is within the target — i.e. the misplaced `for await` is the only newer
// syntax. jsref is lenient about where `for await` may stand; it reports the stray await as async-function.
func forAwaitLeftInLoweredAsync(c Case, in *jsref.Program, out *jsref.Program, isModule bool) bool {
	if !hasString(c.Supported, "for-await") || in == nil || out == nil || !loweredFeatures(c)[jsref.FeatAsyncFunction] {
		return false
	}
	if _, ok := in.Features[jsref.FeatForAwait]; !ok {
		return false
	}
	var cuts []span
	enclosingFunctionWalk(out.Body, func(n, encl *jsref.Node) {
		if n.Type != jsref.NForOf || !n.Has(jsref.FlagAwait) || encl == nil || encl.Has(jsref.FlagAsync) {
			return
		}
		if n.Tok+1 < len(out.Tokens) && out.Tokens[n.Tok].Raw == "for" && out.Tokens[n.Tok+1].Raw == "await" {
			cuts = append(cuts, span{out.Tokens[n.Tok+1].Start, out.Tokens[n.Tok+1].End})
		}
	})
	if len(cuts) == 0 {
		return false
	}
	sort.Slice(cuts, func(i, j int) bool { return cuts[i].start > cuts[j].start })
	src := out.Source
	for _, s := range cuts {
		src = src[:s.start] + strings.Repeat(" ", s.end-s.start) + src[s.end:]
	}
	rep, err := jsref.Parse(src, jsref.Options{Module: isModule})
	if err != nil {
		return false
	}
	return len(overEdition(c, rep)) == 0
}

// misplacedSupers returns the `super` nodes of the program that stand in a plain function (declaration or
// expression that is not the value of a class member or object method/accessor), possibly inside arrows
// nested in it — where `super` is a SyntaxError.
func misplacedSupers(p *jsref.Program) (out []*jsref.Node) {
	var walk func(n *jsref.Node, allowed bool)
	walk = func(n *jsref.Node, allowed bool) {
		if n == nil {
			return
		}
		switch n.Type {
		case jsref.NSuper:
			if !allowed {
				out = append(out, n)
			}
			return
		case jsref.NMethod:
			walk(n.A, allowed)
			if n.B != nil { // the method's own function: super allowed in parameters and body
				for _, x := range n.B.List {
					walk(x, true)
				}
				walk(n.B.B, true)
			}
			return
		case jsref.NProperty:
			if (n.Name == "method" || n.Name == "get" || n.Name == "set") && n.B != nil && n.B.Type == jsref.NFunctionExpr {
				walk(n.A, allowed)
				for _, x := range n.B.List {
					walk(x, true)
				}
				walk(n.B.B, true)
				return
			}
		case jsref.NField:
			walk(n.A, allowed)
			walk(n.B, true)
			return
		case jsref.NStaticBlock:
			for _, x := range n.List {
				walk(x, true)
			}
			return
		case jsref.NFunctionDecl, jsref.NFunctionExpr:
			walk(n.A, false)
			for _, x := range n.List {
				walk(x, false)
			}
			walk(n.B, false)
			return
		}
		walk(n.A, allowed)
		walk(n.B, allowed)
		walk(n.C, allowed)
		walk(n.D, allowed)
		for _, x := range n.List {
			walk(x, allowed)
		}
	}
	walk(p.Body, false)
	return
}

// superInLoweredArrow is the signature + confirmation of C14-super-in-lowered-arrow: `arrow` is among the
// false overrides, the input has `super` inside an arrow function, the engine's message is "'super' keyword
// unexpected here", the output has `super` in plain function expressions, and with exactly those `super`
// tokens replaced by `this` the same engine accepts the output.
func superInLoweredArrow(c Case, in *jsref.Program, out *jsref.Program, accepts func(src string) bool) bool {
	if !hasString(c.Unsupported, "arrow") || in == nil || out == nil {
		return false
	}
	inArrow := false
	enclosingFunctionWalk(in.Body, func(n, encl *jsref.Node) {
		if n.Type == jsref.NSuper && encl != nil && encl.Type == jsref.NArrow {
			inArrow = true
		}
	})
	if !inArrow {
		return false
	}
	bad := misplacedSupers(out)
	if len(bad) == 0 {
		return false
	}
	sort.Slice(bad, func(i, j int) bool { return bad[i].Start > bad[j].Start })
	src := out.Source
	for _, n := range bad {
		if n.Start < 0 || n.Start+5 > len(src) || src[n.Start:n.Start+5] != "super" {
			return false
		}
		src = src[:n.Start] + "this " + src[n.Start+5:]
	}
	return accepts(src)
}

// onlyTopLevelAwaits: the program has top-level await(s) and no async function, async arrow, async method,
// or await / for-await inside any function — so the census feature async-function stems from top-level
// awaits alone (jsref notes async-function at every await).
func onlyTopLevelAwaits(p *jsref.Program) bool {
	if _, ok := p.Features[jsref.FeatTopLevelAwait]; !ok {
		return false
	}
	only := true
	enclosingFunctionWalk(p.Body, func(n, encl *jsref.Node) {
		switch n.Type {
		case jsref.NFunctionDecl, jsref.NFunctionExpr, jsref.NArrow:
			if n.Has(jsref.FlagAsync) {
				only = false
			}
		case jsref.NAwait:
			if encl != nil {
				only = false
			}
		case jsref.NForOf:
			if n.Has(jsref.FlagAwait) && encl != nil {
				only = false
			}
		}
	})
	return only
}

// topLevelAwaitLoweredToYield is the signature + confirmation of C14-top-level-await-lowered-to-yield:
// `top-level-await` is among the true overrides, the configuration lowers async functions (one-line probe),
// the input has a top-level await; the output does not parse; and a mechanical repair that turns `yield`
// tokens back into `await` — only the token at which jsref's parse stops (or the one right before it), one
// at a time — yields a program that jsref and V8 accept, in which every repaired token is an await outside
// any function, and whose census is within the target. Anything else that does not parse stays a violation.
func topLevelAwaitLoweredToYield(c Case, in *jsref.Program, out string, isModule bool, accepts func(src string) bool) bool {
	if !hasString(c.Supported, "top-level-await") || in == nil || !isModule || !loweredFeatures(c)[jsref.FeatAsyncFunction] {
		return false
	}
	if _, ok := in.Features[jsref.FeatTopLevelAwait]; !ok {
		return false
	}
	src := out
	repaired := map[int]bool{}
	for i := 0; i < 200; i++ {
		rep, err := jsref.Parse(src, jsref.Options{Module: true})
		if err == nil {
			if len(repaired) == 0 {
				return false
			}
			top := 0
			enclosingFunctionWalk(rep.Body, func(n, encl *jsref.Node) {
				if n.Type == jsref.NAwait && repaired[n.Start] {
					if encl == nil {
						top++
					}
				}
			})
			return top == len(repaired) && len(overEdition(c, rep)) == 0 && accepts(src)
		}
		se, ok := err.(*jsref.SyntaxError)
		if !ok {
			return false
		}
		// the `yield` at or immediately before the offending offset
		at := -1
		for j := se.Offset; j >= 0 && j >= se.Offset-8; j-- {
			if j+5 <= len(src) && src[j:j+5] == "yield" && !repaired[j] {
				at = j
				break
			}
		}
		if at < 0 {
			return false
		}
		src = src[:at] + "await" + src[at+5:]
		repaired[at] = true
	}
	return false
}

package c01

import (
	"encoding/json"
	"syscall"
	"time"

	"github.com/evanw/esbuild/verif/vdrv"
)

func timeNow() time.Time                  { return time.Now() }
func timeSince(t time.Time) time.Duration { return time.Since(t) }

func vdrvLoad(path string) (JSXCase, error) {
	var c JSXCase
	r, err := vdrv.LoadReplay(path)
	if err != nil {
		return c, err
	}
	err = json.Unmarshal(r.Case, &c)
	return c, err
}

func cpuTimes() (self, children time.Duration) {
	var a, b syscall.Rusage
	syscall.Getrusage(syscall.RUSAGE_SELF, &a)
	syscall.Getrusage(syscall.RUSAGE_CHILDREN, &b)
	d := func(r syscall.Rusage) time.Duration {
		return time.Duration(r.Utime.Nano() + r.Stime.Nano())
	}
	return d(a), d(b)
}

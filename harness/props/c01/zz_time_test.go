package c01

import "time"

func timeNow() time.Time                  { return time.Now() }
func timeSince(t time.Time) time.Duration { return time.Since(t) }

package c01

import (
	"fmt"
	"strings"
	"testing"

	"pgregory.net/rapid"
)

// ----------------------------------------------------------------------------- operators applied to literals
//
// esbuild folds some operators over literal operands even when no minification is requested (equality of
// primitives, typeof, !, unary minus, string concatenation, …). The value of `literal op literal` must
// therefore survive a plain transform exactly like the value of a single literal.

var opGrid = []string{
	"0", "-0", "NaN", "Infinity", "-Infinity", "1", "-1", "0.5", "2", "3", "10", "32", "255", "2147483647", "2147483648", "-2147483648", "4294967295", "4294967296", "9007199254740992", "1e21", "1e-7", "5e-324", "0.1", "0.2", "1000",
	`""`, `" "`, `" 12 "`, `"0"`, `"1"`, `"10"`, `"0x10"`, `"1e3"`, `"-0"`, `"Infinity"`, `"NaN"`, `"abc"`, `"abd"`, `"a"`, `"true"`, `"false"`, `"null"`, `"undefined"`, `"\ud800"`, `"😀"`, `"\n"`, `"1n"`,
	"null", "undefined", "void 0", "true", "false", "0n", "1n", "-1n", "10n", "18446744073709551616n", "[]", "{}", "/a/", "`t`", "`1`", "``",
}

var opBin = []string{"==", "!=", "===", "!==", "+", "-", "*", "/", "%", "**", "<", "<=", ">", ">=", "<<", ">>", ">>>", "&", "|", "^", "&&", "||", "??", ",", "in", "instanceof"}
var opUn = []string{"-", "+", "!", "~", "typeof ", "void ", "!!", "-+", "- -"}

func operandText(s string) string {
	if s == "{}" {
		return "({})"
	}
	if strings.HasPrefix(s, "-") {
		return "(" + s + ")"
	}
	return s
}

func runLitOps(t *testing.T) {
	H.Rule("litops", "rapid: `A op B` (26 binary operators incl. loose/strict equality, arithmetic, shifts, relational, logical, in/instanceof) and `op A` (9 unary forms) with A, B drawn from a grid of 63 boundary literals (numbers, numeric-looking and other strings, null/undefined/booleans, bigints, [] {} regexp, templates), placed in 6 contexts (value, condition of ?: and if, operand of a further operator, template hole) × charset × minify-whitespace × line-limit, WITHOUT syntax minification: esbuild folds several of these anyway. Oracle: V8 value (or thrown error) of the input statement vs the output statement. Non-trivial = the output no longer contains the operator applied to both literals (something was folded).")
	H.SetupRapid("litops", H.N(16000, 240000)/8)
	ctxs := []string{"x = @;", "x = (@) ? 1 : 2;", "if (@) x = 1; else x = 2;", "x = [(@), typeof (@)];", "x = `${@}`;", "x = !(@);"}
	rapid.Check(t, func(rt *rapid.T) {
		var cases []LitCase
		for k := 0; k < 8; k++ {
			a := operandText(rapid.SampledFrom(opGrid).Draw(rt, "a"))
			var lit string
			if rapid.IntRange(0, 4).Draw(rt, "unary") == 0 {
				lit = rapid.SampledFrom(opUn).Draw(rt, "unop") + a
			} else {
				b := operandText(rapid.SampledFrom(opGrid).Draw(rt, "b"))
				lit = a + " " + rapid.SampledFrom(opBin).Draw(rt, "binop") + " " + b
			}
			cases = append(cases, LitCase{Kind: "operator", Lit: lit, Ctx: rapid.SampledFrom(ctxs).Draw(rt, "ctx"), Opts: drawOpts(rt, false)})
		}
		for i, v := range judgeLits(cases) {
			H.Report(rt, "litops", fmt.Sprint(cases[i]), cases[i], v)
		}
	})
}

// C01 — JSX sub-checks (jsxrt, jsxlit). Node cannot parse JSX, so the reference semantics of a JSX
// program is obtained in two independent ways:
//
//	A. round trip: Q = esbuild(P, jsx=preserve, drawn printing options); esbuild(Q, mode) and
//	   esbuild(P, mode) must behave identically in V8 under logging factories. Needs no model of JSX.
//	B. reference desugaring: the generator emits, from one IR, the JSX text P and the plain-JS program
//	   that the JSX/React conventions assign to it (classic createElement calls or the automatic
//	   runtime's jsx/jsxs/jsxDEV/createElement calls, text cleaning, entity decoding). V8 runs both.
//	   Only the "core" of JSX on which Babel, TypeScript and esbuild's own tests agree is in B; anything
//	   else (tabs inside text lines, exotic white space next to line breaks, line breaks in string
//	   attributes, out-of-range numeric references, spread children, `__proto__`/`children`
//	   attributes, comments inside tags, …) is generated only in non-core cases, judged by A alone.
//	C. (jsxlit) B restricted to a few hostile string attributes / text children per program.
//
// With charset=ascii the non-preserve output must be pure ASCII outside regexp literals and comments.
package c01

import (
	"encoding/json"
	"fmt"
	"regexp"
	"sort"
	"strconv"
	"strings"
	"testing"
	"unicode/utf8"

	"github.com/evanw/esbuild/pkg/api"
	"github.com/evanw/esbuild/verif/jsref"
	"github.com/evanw/esbuild/verif/jsutil"
	"github.com/evanw/esbuild/verif/noderun"
	"github.com/evanw/esbuild/verif/vdrv"
	"pgregory.net/rapid"
)

// ----------------------------------------------------------------------------- case + options

type JSXOpts struct {
	Mode         string `json:"mode"` // transform | automatic
	Dev          bool   `json:"dev,omitempty"`
	Factory      string `json:"factory,omitempty"`  // "" (React.createElement) | h | R.el
	Fragment     string `json:"fragment,omitempty"` // "" (React.Fragment) | Frag | R.F
	ImportSource string `json:"import_source,omitempty"`
	Out          Opts   `json:"out"` // printing options of the two non-preserve transforms
	Pre          Opts   `json:"pre"` // printing options of the preserve step
}

type JSXCase struct {
	Src    string   `json:"src"`           // the JSX program P
	Ref    string   `json:"ref,omitempty"` // reference desugaring (core cases only)
	Opts   JSXOpts  `json:"opts"`
	Labels []string `json:"labels,omitempty"` // what the generator put into P

	ignorePos bool // (known-finding attribution only) compare the reference without line/column values
}

func (o JSXOpts) outAPI() api.TransformOptions {
	t := o.Out.api()
	t.Loader = api.LoaderJSX
	t.Sourcefile = "src/case.jsx"
	if o.Mode == "automatic" {
		t.JSX = api.JSXAutomatic
		t.JSXDev = o.Dev
		t.JSXImportSource = o.ImportSource
	} else {
		t.JSX = api.JSXTransform
		t.JSXFactory = o.Factory
		t.JSXFragment = o.Fragment
	}
	return t
}

func (o JSXOpts) preAPI() api.TransformOptions {
	t := o.Pre.api()
	t.Loader = api.LoaderJSX
	t.Sourcefile = "src/case.jsx"
	t.JSX = api.JSXPreserve
	t.Format = api.FormatDefault
	return t
}

func (o JSXOpts) needsModule() bool {
	return o.Mode == "automatic" && (o.Out.Format == "" || o.Out.Format == "esm")
}

var jsxImportSources = []string{"", "preact", "@scope/lib"}

// jsxPrelude defines the logging factories, the fake runtimes and the components/values the generated
// programs refer to. `log` and `p` come from the worker.
const jsxPrelude = `var __n = 0;
function __mk() { return { el: ++__n }; }
var __Frag = Symbol("Frag"), __Fragment = Symbol("Fragment");
function __rest(a, k) { var r = []; for (var i = k; i < a.length; i++) r.push(a[i]); return r; }
function __h(tag, props) { log("h", tag, props, __rest(arguments, 2)); return __mk(); }
function __ce(tag, props) { log("ce", tag, props, __rest(arguments, 2)); return __mk(); }
function __jsx(tag, props, key) { log("jsx", tag, props, key); return __mk(); }
function __jsxs(tag, props, key) { log("jsxs", tag, props, key); return __mk(); }
function __jsxDEV(tag, props, key, st, src) { log("jsxDEV", tag, props, key, st, src !== null && typeof src === "object" ? "@" + src.lineNumber + ":" + src.columnNumber + ":" + typeof src.fileName : "@none"); return __mk(); }
var React = { createElement: __h, Fragment: __Frag }, h = __h, Frag = __Frag, R = { el: __h, F: __Frag };
var __rt = { jsx: __jsx, jsxs: __jsxs, Fragment: __Fragment }, __rtdev = { jsxDEV: __jsxDEV, Fragment: __Fragment }, __react = { createElement: __ce };
var __mods = { "react/jsx-runtime": __rt, "react/jsx-dev-runtime": __rtdev, "react": __react, "preact/jsx-runtime": __rt, "preact/jsx-dev-runtime": __rtdev, "preact": __react, "@scope/lib/jsx-runtime": __rt, "@scope/lib/jsx-dev-runtime": __rtdev, "@scope/lib": __react };
function __req(n) { if (!Object.prototype.hasOwnProperty.call(__mods, n)) throw new Error("Cannot find module " + n); return __mods[n]; }
function __c(id) { var f = function () {}; f.__id = id; return f; }
var Foo = __c("Foo"), Bar = __c("Bar"), _under = __c("_under"), $dollar = __c("$dollar"), π = __c("pi"), Ünï = __c("Uni"), 𝒳 = __c("X"), 日本 = __c("nihon");
Foo.Sub = __c("Foo.Sub");
var NS = { Comp: __c("NS.Comp"), a: { b: __c("NS.a.b") }, C: { D: { E: __c("NS.C.D.E") } } }, ns = { lower: __c("ns.lower") };
var c0 = 0, c1 = 1, o1 = { x: 1, y: "two" }, ok = { key: "sk", z: 3 }, og = { get g() { log("get g"); return 7; }, w: 0 }, arr = [1, 2];
`

func jsxExternals() map[string]string {
	m := map[string]string{}
	for _, s := range jsxImportSources {
		if s == "" {
			s = "react"
		}
		m[s+"/jsx-runtime"] = "__rt"
		m[s+"/jsx-dev-runtime"] = "__rtdev"
		m[s] = "__react"
	}
	return m
}

// jsxWrap runs a (script or CommonJS/IIFE) program in its own function scope with a fake `require`.
func jsxWrap(code string) string {
	return "(function (require, module, exports) {__n = 0;\n" + code + "\n}).call(void 0, __req, { exports: {} }, {});0"
}

// jsxRunAll executes script/CommonJS/IIFE programs and returns one trace per program. All programs of a
// call are first put into ONE script (a vm timeout watchdog per script is the dominant cost of the
// worker on a busy machine); if that script does not compile, times out or loses events, every program
// is run as a script of its own.
func jsxRunAll(codes []string) ([]string, bool) {
	var sb strings.Builder
	for k, c := range codes {
		fmt.Fprintf(&sb, "__run(%d, function (require, module, exports) {\n%s\n});\n", k, c)
	}
	// (one script of many programs: give it a generous limit, the machine may be busy)
	resp, err := W.Call(noderun.Req{Kind: "batch", Codes: []string{sb.String()}, Prelude: jsxPrelude + jsxRunHelper, TimeoutMs: 15000})
	if err != nil || len(resp.Results) != 1 {
		return nil, false
	}
	out := resp.Results
	if traces, ok := splitRunTrace(out[0], len(codes)); ok {
		return traces, true
	}
	if H != nil {
		H.Note("jsx: combined script not usable (%s); programs run one by one", clipStr(out[0], 80))
	}
	wrapped := make([]string, len(codes))
	for k, c := range codes {
		wrapped[k] = jsxWrap(c)
	}
	out, err = W.Batch(wrapped, jsxPrelude)
	if err != nil {
		return nil, false
	}
	for k, r := range out {
		if !strings.HasPrefix(r, "parse-error") && !strings.HasPrefix(r, "timeout") {
			out[k] = r + " end:batch" // a throw is part of the batch result itself
		}
	}
	return out, true
}

func clipStr(s string, n int) string {
	if len(s) > n {
		return s[:n]
	}
	return s
}

const jsxRunHelper = `function __run(k, f) { __n = 0; log("##", k); try { f.call(void 0, __req, { exports: {} }, {}); log("#end", "normal"); } catch (e) { log("#end", "throw", e); } }
`

// splitRunTrace cuts the event list of a combined script at the `log("##", k)` markers. The marker
// text `s:"##" ` cannot occur inside a canonical value (strings and keys are JSON-quoted there).
func splitRunTrace(res string, n int) ([]string, bool) {
	const pre = "v:u events:"
	if !strings.HasPrefix(res, pre) {
		return nil, false
	}
	segs := strings.Split("|"+res[len(pre):], `|s:"##" `)
	if len(segs) != n+1 || segs[0] != "" {
		return nil, false
	}
	out := make([]string, n)
	for k, seg := range segs[1:] {
		bar := strings.IndexByte(seg, '|')
		end := strings.LastIndex(seg, `|s:"#end" `)
		if bar < 0 || end < 0 || strings.Contains(seg[end+1:], "|") {
			return nil, false // events were dropped (overflow): run the programs one by one
		}
		if !strings.HasPrefix(seg, "n:") || !strings.HasSuffix(seg[:bar], fmt.Sprintf("(%d)", k)) {
			return nil, false
		}
		out[k] = "events:" + seg[bar+1:end] + " end:" + seg[end+1:]
		if bar+1 > end {
			out[k] = "events: end:" + seg[end+1:]
		}
	}
	return out, true
}

// factoryEventRe finds the factory-call and probe events of a trace (an event starts the list or
// follows "|"; inside canonical values quotes are escaped, so `|s:"h" ` cannot occur in a string).
var factoryEventRe = regexp.MustCompile(`(?:events:|\|)(?:s:"(?:h|ce|jsx|jsxs|jsxDEV)" |p:)`)

var posRe = regexp.MustCompile(`s:"@\d+:\d+:string"`)

// stripPos removes the line/column that the dev runtime received: they legitimately differ between
// P and its re-printed form Q.
func stripPos(tr string) string { return posRe.ReplaceAllString(tr, `s:"@"`) }

var signedEntityRe = regexp.MustCompile(`&#x?[+-][0-9a-fA-F]+;`)

// ----------------------------------------------------------------------------- judge

type jsxRun struct {
	e1, e2 string // esbuild(P), esbuild(preserve(P))
	q      string
	early  *vdrv.Verdict
}

func jsxTransform(c JSXCase) jsxRun {
	var r jsxRun
	early := func(v vdrv.Verdict) jsxRun { r.early = &v; return r }
	o := c.Opts.outAPI()
	r1 := api.Transform(c.Src, o)
	if len(r1.Errors) > 0 {
		// the generator builds valid JSX by construction; ask the independent parser before blaming esbuild
		if _, err := jsref.Parse(c.Src, jsref.Options{Module: true, JSX: true}); err != nil {
			return early(vdrv.Skip("generator-invalid"))
		}
		return early(vdrv.Fail("esbuild rejects a JSX program: "+r1.Errors[0].Text, "accepted", r1.Errors[0].Text))
	}
	r.e1 = string(r1.Code)
	rq := api.Transform(c.Src, c.Opts.preAPI())
	if len(rq.Errors) > 0 {
		return early(vdrv.Fail("jsx=preserve rejects a program that jsx="+c.Opts.Mode+" accepts: "+rq.Errors[0].Text, "accepted", rq.Errors[0].Text))
	}
	r.q = string(rq.Code)
	r2 := api.Transform(r.q, o)
	if len(r2.Errors) > 0 {
		return early(vdrv.Fail("esbuild rejects its own jsx=preserve output: "+r2.Errors[0].Text, "accepted", r2.Errors[0].Text+"\n--- preserve output\n"+r.q))
	}
	r.e2 = string(r2.Code)
	return r
}

func moduleTrace(code string) (string, bool) {
	resp, err := W.Call(noderun.Req{Kind: "module", Code: code, Externals: jsxExternals(), Prelude: jsxPrelude})
	if err != nil {
		return "", false
	}
	if resp.Timeout {
		return "timeout", true
	}
	if resp.ParseError != "" {
		return "parse-error:" + resp.ParseError, true
	}
	var ev []string
	for _, e := range resp.Events {
		if !strings.HasPrefix(e, "eval-external:") {
			ev = append(ev, e)
		}
	}
	if resp.LinkError != "" {
		return "link-error:" + resp.ParseMessage, true
	}
	s := "v:n " // same shape as a batch result
	if len(ev) > 0 {
		s += "events:" + strings.Join(ev, "|")
	}
	return s + " end:" + resp.End, true
}

// dashGlueRe: a JSX name that ends in "-", a gap, and the start of another name (finding
// C01-jsx-preserve-minify-dash-glue).
const jsxWS = `[\s\x0B\x{A0}\x{1680}\x{2000}-\x{200A}\x{2028}\x{2029}\x{202F}\x{205F}\x{3000}\x{FEFF}]`

var dashGlueRe = regexp.MustCompile(`-(?:` + jsxWS + `|/\*[^*]*\*/|//[^\n]*\n)+[A-Za-z_$\x{80}-\x{10FFFF}]`)

// braceCommentElemRe: an expression container that holds comments and then a JSX element (finding
// C01-jsx-preserve-comment-before-element-child). Group 1 is the comment run.
var braceCommentElemRe = regexp.MustCompile(`\{((?:` + jsxWS + `|/\*[^*]*\*/|//[^\n]*\n)*(?:/\*[^*]*\*/|//[^\n]*)(?:` + jsxWS + `|/\*[^*]*\*/|//[^\n]*\n)*)<`)

// blankComments overwrites the comments of a comment run with spaces, keeping every line break and the
// UTF-16 length (the development-mode columns in the reference must stay valid).
func blankComments(run string) string {
	var sb strings.Builder
	for i := 0; i < len(run); {
		switch {
		case strings.HasPrefix(run[i:], "/*"):
			end := i + 2 + strings.Index(run[i+2:], "*/") + 2
			for _, r := range run[i:end] {
				if r == '\n' || r == '\r' || r == 0x2028 || r == 0x2029 {
					sb.WriteRune(r)
				} else if r > 0xFFFF {
					sb.WriteString("  ")
				} else {
					sb.WriteByte(' ')
				}
			}
			i = end
		case strings.HasPrefix(run[i:], "//"):
			end := i
			for end < len(run) && run[end] != '\n' {
				end++
			}
			for _, r := range run[i:end] {
				if r > 0xFFFF {
					sb.WriteString("  ")
				} else {
					sb.WriteByte(' ')
				}
			}
			i = end
		default:
			sb.WriteByte(run[i])
			i++
		}
	}
	return sb.String()
}

// A knownShape recognises the input shape of a listed finding and rewrites the case so that the shape
// is gone while everything else stays the same. A failing case is attributed to the finding only if
// the rewritten case passes.
type knownShape struct {
	id      string
	applies func(c JSXCase) bool
	without func(c JSXCase) JSXCase
}

var jsxKnownShapes = []knownShape{
	{"C01-jsx-signed-numeric-entity",
		func(c JSXCase) bool { return c.Ref != "" && signedEntityRe.MatchString(c.Src) },
		func(c JSXCase) JSXCase {
			// `&#_65;` is literal text for everybody; the reference quotes the text verbatim
			fix := func(m string) string { return strings.NewReplacer("+", "_", "-", "_").Replace(m) }
			c.Src = signedEntityRe.ReplaceAllStringFunc(c.Src, fix)
			c.Ref = signedEntityRe.ReplaceAllStringFunc(c.Ref, fix)
			return c
		}},
	{"C01-jsx-dev-column-uffff",
		func(c JSXCase) bool { return c.Ref != "" && c.Opts.Dev && strings.Contains(c.Src, "\uffff") },
		func(c JSXCase) JSXCase { c.ignorePos = true; return c }}, // passes once line/column values are not compared
	{"C01-jsx-preserve-minify-dash-glue",
		func(c JSXCase) bool { return c.Opts.Pre.MinifyWS && dashGlueRe.MatchString(c.Src) },
		func(c JSXCase) JSXCase { c.Opts.Pre.MinifyWS = false; return c }},
	{"C01-jsx-preserve-comment-before-element-child",
		func(c JSXCase) bool { return !c.Opts.Pre.MinifyWS && braceCommentElemRe.MatchString(c.Src) },
		func(c JSXCase) JSXCase {
			c.Src = braceCommentElemRe.ReplaceAllStringFunc(c.Src, func(m string) string {
				return "{" + blankComments(m[1:len(m)-1]) + "<"
			})
			return c
		}},
}

// jsxKnownID returns the id of the first listed finding whose shape c has and whose removal (possibly
// followed by the removal of another listed shape that this uncovers) makes the case pass.
func jsxKnownID(c JSXCase, depth int) string {
	for _, k := range jsxKnownShapes {
		if !k.applies(c) {
			continue
		}
		c2 := k.without(c)
		if v2 := judgeJSXRaw([]JSXCase{c2})[0]; v2.Discard != "" {
			continue
		} else if v2.OK || (depth < 3 && jsxKnownID(c2, depth+1) != "") {
			// (what remains is nothing, or other listed findings)
			return k.id
		}
	}
	return ""
}

// judgeJSX judges a batch and classifies failures that match the signature of a listed finding.
func judgeJSX(cases []JSXCase) []vdrv.Verdict {
	vs := judgeJSXRaw(cases)
	for i, c := range cases {
		v := &vs[i]
		if v.OK || v.Discard != "" {
			continue
		}
		v.Known = jsxKnownID(c, 0)
	}
	return vs
}

func judgeJSXRaw(cases []JSXCase) []vdrv.Verdict {
	vs := make([]vdrv.Verdict, len(cases))
	runs := make([]jsxRun, len(cases))
	res := make([][3]string, len(cases)) // traces of e1, e2, ref
	var codes []string
	var owner []int
	infra := false
	for i, c := range cases {
		runs[i] = jsxTransform(c)
		if runs[i].early != nil {
			continue
		}
		if c.Opts.needsModule() {
			for k, code := range []string{runs[i].e1, runs[i].e2, c.Ref} {
				if k == 2 && c.Ref == "" {
					continue
				}
				tr, ok := moduleTrace(code)
				if !ok {
					infra = true
				}
				res[i][k] = tr
			}
			continue
		}
		codes = append(codes, runs[i].e1, runs[i].e2)
		owner = append(owner, i*3, i*3+1)
		if c.Ref != "" {
			codes = append(codes, c.Ref)
			owner = append(owner, i*3+2)
		}
	}
	if len(codes) > 0 && !infra {
		out, ok := jsxRunAll(codes)
		if !ok {
			infra = true
		} else {
			for k, o := range owner {
				res[o/3][o%3] = out[k]
			}
		}
	}
	for i, c := range cases {
		switch {
		case runs[i].early != nil:
			vs[i] = *runs[i].early
		case infra:
			vs[i] = vdrv.Skip("node-infra")
		default:
			vs[i] = jsxVerdict(c, runs[i], res[i])
		}
	}
	return vs
}

func jsxVerdict(c JSXCase, r jsxRun, tr [3]string) vdrv.Verdict {
	t1, t2, tref := tr[0], tr[1], tr[2]
	for _, t := range tr {
		if strings.HasPrefix(t, "timeout") {
			return vdrv.Skip("reference-timeout")
		}
	}
	if strings.HasPrefix(tref, "parse-error") {
		return vdrv.Skip("reference-invalid") // a harness bug, never a verdict
	}
	if strings.HasPrefix(t1, "parse-error") || strings.HasPrefix(t1, "link-error") {
		return vdrv.Fail("V8 rejects esbuild's output for a JSX program", "a valid program", t1+"\n--- output\n"+r.e1)
	}
	if strings.HasPrefix(t2, "parse-error") || strings.HasPrefix(t2, "link-error") {
		return vdrv.Fail("V8 rejects esbuild's output for its own jsx=preserve output", "a valid program", t2+"\n--- preserve output\n"+r.q+"\n--- output\n"+r.e2)
	}
	if stripPos(t1) != stripPos(t2) {
		return vdrv.Fail("round trip through jsx=preserve changes behaviour (mode "+c.Opts.Mode+")", stripPos(t1), stripPos(t2)+"\n--- preserve output\n"+r.q)
	}
	if c.ignorePos {
		t1, tref = stripPos(t1), stripPos(tref)
	}
	if c.Ref != "" && t1 != tref {
		return vdrv.Fail("esbuild's "+c.Opts.Mode+" output differs from the reference desugaring", tref, t1+"\n--- output\n"+r.e1)
	}
	if c.Opts.Out.ASCII {
		off, perr := jsutil.NonASCIIOutsideExempt(r.e1, c.Opts.needsModule(), false)
		if perr != nil {
			return vdrv.Skip("jsref-gap")
		}
		if off >= 0 {
			return vdrv.Fail(fmt.Sprintf("charset=ascii output has a non-ASCII byte at %d outside regexp literals/comments", off), "ASCII", r.e1)
		}
	}
	cls := append([]string{}, c.Labels...)
	mode := c.Opts.Mode
	if c.Opts.Dev {
		mode += "-dev"
	}
	cls = append(cls, "mode="+mode, "format="+c.Opts.Out.Format)
	if c.Ref != "" {
		cls = append(cls, "oracle=preserve+reference")
	} else {
		cls = append(cls, "oracle=preserve-only")
	}
	if c.Opts.Out.ASCII {
		cls = append(cls, "ascii")
	}
	if c.Opts.Pre.MinifyWS {
		cls = append(cls, "preserve-minified")
	}
	if c.Opts.Out.LineLimit > 0 || c.Opts.Pre.LineLimit > 0 {
		cls = append(cls, "linelimit")
	}
	// non-trivial: at least two factory calls / probes were observed (a nested element, or an element with
	// an evaluated attribute or child: there is an order and a structure that could be wrong), or one
	// factory call whose literal had to be decoded (a character reference or multi-line text)
	calls := len(factoryEventRe.FindAllString(t1, -1))
	decoded := false
	for _, l := range c.Labels {
		if strings.HasPrefix(l, "entity-") || l == "text-multiline" {
			decoded = true
		}
	}
	v := vdrv.Pass(calls >= 2 || (calls == 1 && decoded), cls...)
	v.Observed = fmt.Sprintf("%d factory calls and probes", calls)
	return v
}

func replayJSX(raw json.RawMessage) vdrv.Verdict {
	var c JSXCase
	if json.Unmarshal(raw, &c) != nil {
		return vdrv.Skip("bad-replay")
	}
	return judgeJSX([]JSXCase{c})[0]
}

// ----------------------------------------------------------------------------- reference model of JSX text

// jsxEntities is the HTML 4.01 entity list plus `apos`, i.e. the 253 names JSX implementations share
// (generated from Python's html.entities.name2codepoint, not from esbuild's table).
var jsxEntities = map[string]rune{
	"AElig": 0x00C6, "Aacute": 0x00C1, "Acirc": 0x00C2, "Agrave": 0x00C0, "Alpha": 0x0391, "Aring": 0x00C5, "Atilde": 0x00C3, "Auml": 0x00C4,
	"Beta": 0x0392, "Ccedil": 0x00C7, "Chi": 0x03A7, "Dagger": 0x2021, "Delta": 0x0394, "ETH": 0x00D0, "Eacute": 0x00C9, "Ecirc": 0x00CA,
	"Egrave": 0x00C8, "Epsilon": 0x0395, "Eta": 0x0397, "Euml": 0x00CB, "Gamma": 0x0393, "Iacute": 0x00CD, "Icirc": 0x00CE, "Igrave": 0x00CC,
	"Iota": 0x0399, "Iuml": 0x00CF, "Kappa": 0x039A, "Lambda": 0x039B, "Mu": 0x039C, "Ntilde": 0x00D1, "Nu": 0x039D, "OElig": 0x0152, "Oacute": 0x00D3,
	"Ocirc": 0x00D4, "Ograve": 0x00D2, "Omega": 0x03A9, "Omicron": 0x039F, "Oslash": 0x00D8, "Otilde": 0x00D5, "Ouml": 0x00D6, "Phi": 0x03A6,
	"Pi": 0x03A0, "Prime": 0x2033, "Psi": 0x03A8, "Rho": 0x03A1, "Scaron": 0x0160, "Sigma": 0x03A3, "THORN": 0x00DE, "Tau": 0x03A4, "Theta": 0x0398,
	"Uacute": 0x00DA, "Ucirc": 0x00DB, "Ugrave": 0x00D9, "Upsilon": 0x03A5, "Uuml": 0x00DC, "Xi": 0x039E, "Yacute": 0x00DD, "Yuml": 0x0178,
	"Zeta": 0x0396, "aacute": 0x00E1, "acirc": 0x00E2, "acute": 0x00B4, "aelig": 0x00E6, "agrave": 0x00E0, "alefsym": 0x2135, "alpha": 0x03B1,
	"amp": 0x0026, "and": 0x2227, "ang": 0x2220, "apos": 0x0027, "aring": 0x00E5, "asymp": 0x2248, "atilde": 0x00E3, "auml": 0x00E4, "bdquo": 0x201E,
	"beta": 0x03B2, "brvbar": 0x00A6, "bull": 0x2022, "cap": 0x2229, "ccedil": 0x00E7, "cedil": 0x00B8, "cent": 0x00A2, "chi": 0x03C7, "circ": 0x02C6,
	"clubs": 0x2663, "cong": 0x2245, "copy": 0x00A9, "crarr": 0x21B5, "cup": 0x222A, "curren": 0x00A4, "dArr": 0x21D3, "dagger": 0x2020, "darr": 0x2193,
	"deg": 0x00B0, "delta": 0x03B4, "diams": 0x2666, "divide": 0x00F7, "eacute": 0x00E9, "ecirc": 0x00EA, "egrave": 0x00E8, "empty": 0x2205,
	"emsp": 0x2003, "ensp": 0x2002, "epsilon": 0x03B5, "equiv": 0x2261, "eta": 0x03B7, "eth": 0x00F0, "euml": 0x00EB, "euro": 0x20AC, "exist": 0x2203,
	"fnof": 0x0192, "forall": 0x2200, "frac12": 0x00BD, "frac14": 0x00BC, "frac34": 0x00BE, "frasl": 0x2044, "gamma": 0x03B3, "ge": 0x2265, "gt": 0x003E,
	"hArr": 0x21D4, "harr": 0x2194, "hearts": 0x2665, "hellip": 0x2026, "iacute": 0x00ED, "icirc": 0x00EE, "iexcl": 0x00A1, "igrave": 0x00EC,
	"image": 0x2111, "infin": 0x221E, "int": 0x222B, "iota": 0x03B9, "iquest": 0x00BF, "isin": 0x2208, "iuml": 0x00EF, "kappa": 0x03BA, "lArr": 0x21D0,
	"lambda": 0x03BB, "lang": 0x2329, "laquo": 0x00AB, "larr": 0x2190, "lceil": 0x2308, "ldquo": 0x201C, "le": 0x2264, "lfloor": 0x230A, "lowast": 0x2217,
	"loz": 0x25CA, "lrm": 0x200E, "lsaquo": 0x2039, "lsquo": 0x2018, "lt": 0x003C, "macr": 0x00AF, "mdash": 0x2014, "micro": 0x00B5, "middot": 0x00B7,
	"minus": 0x2212, "mu": 0x03BC, "nabla": 0x2207, "nbsp": 0x00A0, "ndash": 0x2013, "ne": 0x2260, "ni": 0x220B, "not": 0x00AC, "notin": 0x2209,
	"nsub": 0x2284, "ntilde": 0x00F1, "nu": 0x03BD, "oacute": 0x00F3, "ocirc": 0x00F4, "oelig": 0x0153, "ograve": 0x00F2, "oline": 0x203E, "omega": 0x03C9,
	"omicron": 0x03BF, "oplus": 0x2295, "or": 0x2228, "ordf": 0x00AA, "ordm": 0x00BA, "oslash": 0x00F8, "otilde": 0x00F5, "otimes": 0x2297, "ouml": 0x00F6,
	"para": 0x00B6, "part": 0x2202, "permil": 0x2030, "perp": 0x22A5, "phi": 0x03C6, "pi": 0x03C0, "piv": 0x03D6, "plusmn": 0x00B1, "pound": 0x00A3,
	"prime": 0x2032, "prod": 0x220F, "prop": 0x221D, "psi": 0x03C8, "quot": 0x0022, "rArr": 0x21D2, "radic": 0x221A, "rang": 0x232A, "raquo": 0x00BB,
	"rarr": 0x2192, "rceil": 0x2309, "rdquo": 0x201D, "real": 0x211C, "reg": 0x00AE, "rfloor": 0x230B, "rho": 0x03C1, "rlm": 0x200F, "rsaquo": 0x203A,
	"rsquo": 0x2019, "sbquo": 0x201A, "scaron": 0x0161, "sdot": 0x22C5, "sect": 0x00A7, "shy": 0x00AD, "sigma": 0x03C3, "sigmaf": 0x03C2, "sim": 0x223C,
	"spades": 0x2660, "sub": 0x2282, "sube": 0x2286, "sum": 0x2211, "sup": 0x2283, "sup1": 0x00B9, "sup2": 0x00B2, "sup3": 0x00B3, "supe": 0x2287,
	"szlig": 0x00DF, "tau": 0x03C4, "there4": 0x2234, "theta": 0x03B8, "thetasym": 0x03D1, "thinsp": 0x2009, "thorn": 0x00FE, "tilde": 0x02DC,
	"times": 0x00D7, "trade": 0x2122, "uArr": 0x21D1, "uacute": 0x00FA, "uarr": 0x2191, "ucirc": 0x00FB, "ugrave": 0x00F9, "uml": 0x00A8, "upsih": 0x03D2,
	"upsilon": 0x03C5, "uuml": 0x00FC, "weierp": 0x2118, "xi": 0x03BE, "yacute": 0x00FD, "yen": 0x00A5, "yuml": 0x00FF, "zeta": 0x03B6, "zwj": 0x200D,
	"zwnj": 0x200C,
}

var jsxEntityNames = func() []string {
	var out []string
	for k := range jsxEntities {
		out = append(out, k)
	}
	sort.Strings(out)
	return out
}()

func appendRune16(out []uint16, r rune) []uint16 {
	if r <= 0xFFFF {
		return append(out, uint16(r))
	}
	r -= 0x10000
	return append(out, uint16(0xD800+(r>>10)), uint16(0xDC00+(r&0x3FF)))
}

// refDecodeEntities decodes HTML character references the way the JSX grammar defines them:
// `&` Name `;` for a known name, `&#` DecimalDigits `;`, `&#x` HexDigits `;`; anything else is literal
// text. (References above U+10FFFF are unspecified and never generated in core cases.)
func refDecodeEntities(s string) []uint16 {
	var out []uint16
	for i := 0; i < len(s); {
		if s[i] == '&' {
			if semi := strings.IndexByte(s[i:], ';'); semi > 1 {
				body := s[i+1 : i+semi]
				if r, ok := refEntityValue(body); ok {
					out = appendRune16(out, r)
					i += semi + 1
					continue
				}
			}
		}
		r, w := utf8.DecodeRuneInString(s[i:])
		out = appendRune16(out, r)
		i += w
	}
	return out
}

func refEntityValue(body string) (rune, bool) {
	if body[0] != '#' {
		r, ok := jsxEntities[body]
		return r, ok
	}
	digits, base := body[1:], 10
	if strings.HasPrefix(digits, "x") {
		digits, base = digits[1:], 16
	}
	if digits == "" || len(digits) > 12 {
		return 0, false
	}
	for i := 0; i < len(digits); i++ {
		c := digits[i]
		isDec := c >= '0' && c <= '9'
		isHex := isDec || (c >= 'a' && c <= 'f') || (c >= 'A' && c <= 'F')
		if (base == 10 && !isDec) || (base == 16 && !isHex) {
			return 0, false
		}
	}
	v, err := strconv.ParseUint(digits, base, 64)
	if err != nil || v > 0x10FFFF {
		return 0, false
	}
	return rune(v), true
}

// refCleanText is the JSX text rule shared by React's Babel transform and TypeScript on the core
// domain: split into lines; strip spaces/tabs that touch a line break; drop lines that become empty;
// join with one space; then decode entities. A text without a line break is kept verbatim.
func refCleanText(raw string) []uint16 {
	norm := strings.ReplaceAll(raw, "\r\n", "\n")
	norm = strings.ReplaceAll(norm, "\r", "\n")
	lines := strings.Split(norm, "\n")
	var kept []string
	for i, l := range lines {
		if i > 0 {
			l = strings.TrimLeft(l, " \t")
		}
		if i < len(lines)-1 {
			l = strings.TrimRight(l, " \t")
		}
		if l != "" {
			kept = append(kept, l)
		}
	}
	return refDecodeEntities(strings.Join(kept, " "))
}

// jsQuote16 writes UTF-16 code units as an ASCII-only JavaScript string literal.
func jsQuote16(u []uint16) string {
	var sb strings.Builder
	sb.WriteByte('"')
	for _, c := range u {
		switch {
		case c == '"' || c == '\\':
			sb.WriteByte('\\')
			sb.WriteByte(byte(c))
		case c >= 0x20 && c < 0x7F:
			sb.WriteByte(byte(c))
		default:
			fmt.Fprintf(&sb, "\\u%04X", c)
		}
	}
	sb.WriteByte('"')
	return sb.String()
}

func jsQuoteStr(s string) string {
	var u []uint16
	for _, r := range s {
		u = appendRune16(u, r)
	}
	return jsQuote16(u)
}

// ----------------------------------------------------------------------------- IR

const (
	aStr = iota
	aExpr
	aBool
	aSpread
	aElem
)

const (
	kText = iota
	kExpr
	kElem
	kEmpty
	kSpread
)

// jx is an expression: JavaScript text with JSX elements in some places.
type jx struct{ parts []interface{} } // string | *jel

type jattr struct {
	kind  int
	name  string
	quote byte
	raw   string
	x     *jx
	el    *jel
	gap   string // text between the previous token and this attribute
}

type jkid struct {
	kind      int
	raw       string
	x         *jx
	el        *jel
	pre, post string // inside the braces
}

type jel struct {
	frag      bool
	tag       string
	attrs     []jattr
	kids      []jkid
	selfClose bool
	endGap    string
	off       int // byte offset of "<" in the JSX text
	line, col int
}

func (x *jx) jsx(b *strings.Builder) {
	for _, p := range x.parts {
		switch v := p.(type) {
		case string:
			b.WriteString(v)
		case *jel:
			v.jsx(b)
		}
	}
}

func (e *jel) jsx(b *strings.Builder) {
	e.off = b.Len()
	b.WriteByte('<')
	if !e.frag {
		b.WriteString(e.tag)
		for _, a := range e.attrs {
			b.WriteString(a.gap)
			switch a.kind {
			case aSpread:
				b.WriteString("{...")
				a.x.jsx(b)
				b.WriteString("}")
			case aBool:
				b.WriteString(a.name)
			case aStr:
				b.WriteString(a.name + "=" + string(a.quote) + a.raw + string(a.quote))
			case aExpr:
				b.WriteString(a.name + "={")
				a.x.jsx(b)
				b.WriteString("}")
			case aElem:
				b.WriteString(a.name + "=")
				a.el.jsx(b)
			}
		}
		b.WriteString(e.endGap)
		if e.selfClose && len(e.kids) == 0 {
			b.WriteString("/>")
			return
		}
	}
	b.WriteByte('>')
	for _, k := range e.kids {
		switch k.kind {
		case kText:
			b.WriteString(k.raw)
		case kExpr:
			b.WriteString("{" + k.pre)
			k.x.jsx(b)
			b.WriteString(k.post + "}")
		case kSpread:
			b.WriteString("{..." + k.pre)
			k.x.jsx(b)
			b.WriteString(k.post + "}")
		case kEmpty:
			b.WriteString("{" + k.pre + "}")
		case kElem:
			k.el.jsx(b)
		}
	}
	b.WriteString("</")
	if !e.frag {
		b.WriteString(e.tag)
	}
	b.WriteByte('>')
}

func (x *jx) walk(fn func(*jel)) {
	for _, p := range x.parts {
		if el, ok := p.(*jel); ok {
			el.walk(fn)
		}
	}
}

func (e *jel) walk(fn func(*jel)) {
	fn(e)
	for _, a := range e.attrs {
		if a.x != nil {
			a.x.walk(fn)
		}
		if a.el != nil {
			a.el.walk(fn)
		}
	}
	for _, k := range e.kids {
		if k.x != nil {
			k.x.walk(fn)
		}
		if k.el != nil {
			k.el.walk(fn)
		}
	}
}

// setPositions computes the 1-based line and (UTF-16) column of every element's "<" in src.
func setPositions(src string, els []*jel) {
	sort.Slice(els, func(i, j int) bool { return els[i].off < els[j].off })
	line, col, k := 1, 1, 0
	for i := 0; i <= len(src) && k < len(els); {
		for k < len(els) && els[k].off == i {
			els[k].line, els[k].col = line, col
			k++
		}
		if i == len(src) {
			break
		}
		r, w := utf8.DecodeRuneInString(src[i:])
		switch {
		case r == '\r' && i+1 < len(src) && src[i+1] == '\n':
			w = 2
			line, col = line+1, 1
		case r == '\n' || r == '\r' || r == 0x2028 || r == 0x2029:
			line, col = line+1, 1
		case r > 0xFFFF:
			col += 2
		default:
			col++
		}
		i += w
	}
}

// --- reference desugaring

type refMode struct {
	auto, dev bool
}

// tagRef: lower-case first letter without a dot, or any dash/colon ⇒ string; otherwise the expression.
func tagRef(tag string) string {
	if strings.ContainsAny(tag, "-:") {
		return jsQuoteStr(tag)
	}
	if !strings.Contains(tag, ".") && tag[0] >= 'a' && tag[0] <= 'z' {
		return jsQuoteStr(tag)
	}
	return tag
}

func (x *jx) ref(b *strings.Builder, m refMode) {
	for _, p := range x.parts {
		switch v := p.(type) {
		case string:
			b.WriteString(v)
		case *jel:
			v.ref(b, m)
		}
	}
}

func (a *jattr) ref(b *strings.Builder, m refMode) {
	switch a.kind {
	case aSpread:
		b.WriteString("...(")
		a.x.ref(b, m)
		b.WriteString(")")
	case aBool:
		b.WriteString(jsQuoteStr(a.name) + ": true")
	case aStr:
		b.WriteString(jsQuoteStr(a.name) + ": " + jsQuote16(refDecodeEntities(a.raw)))
	case aExpr:
		b.WriteString(jsQuoteStr(a.name) + ": (")
		a.x.ref(b, m)
		b.WriteString(")")
	case aElem:
		b.WriteString(jsQuoteStr(a.name) + ": ")
		a.el.ref(b, m)
	}
}

func (a *jattr) refValue(b *strings.Builder, m refMode) {
	switch a.kind {
	case aBool:
		b.WriteString("true")
	case aStr:
		b.WriteString(jsQuote16(refDecodeEntities(a.raw)))
	case aExpr:
		b.WriteString("(")
		a.x.ref(b, m)
		b.WriteString(")")
	case aElem:
		a.el.ref(b, m)
	}
}

// refKids renders the children that exist after text cleaning.
func (e *jel) refKids(m refMode) []string {
	var out []string
	for _, k := range e.kids {
		var b strings.Builder
		switch k.kind {
		case kText:
			u := refCleanText(k.raw)
			if len(u) == 0 {
				continue
			}
			b.WriteString(jsQuote16(u))
		case kExpr:
			b.WriteString("(")
			k.x.ref(&b, m)
			b.WriteString(")")
		case kSpread:
			b.WriteString("...(")
			k.x.ref(&b, m)
			b.WriteString(")")
		case kElem:
			k.el.ref(&b, m)
		case kEmpty:
			continue
		}
		out = append(out, b.String())
	}
	return out
}

func (e *jel) ref(b *strings.Builder, m refMode) {
	kids := e.refKids(m)
	if !m.auto {
		b.WriteString("__h(")
		if e.frag {
			b.WriteString("__Frag")
		} else {
			b.WriteString(tagRef(e.tag))
		}
		if len(e.attrs) == 0 {
			b.WriteString(", null")
		} else {
			b.WriteString(", {")
			for i := range e.attrs {
				if i > 0 {
					b.WriteString(", ")
				}
				e.attrs[i].ref(b, m)
			}
			b.WriteString("}")
		}
		for _, k := range kids {
			b.WriteString(", " + k)
		}
		b.WriteString(")")
		return
	}
	tag := "__Fragment"
	if !e.frag {
		tag = tagRef(e.tag)
	}
	keyIdx, spreadBeforeKey, seenSpread := -1, false, false
	for i, a := range e.attrs {
		if a.kind == aSpread {
			seenSpread = true
		} else if a.name == "key" {
			keyIdx = i
			spreadBeforeKey = seenSpread
		}
	}
	if keyIdx >= 0 && spreadBeforeKey {
		// `key` after a spread: React's transform falls back to createElement (props keep `key`)
		b.WriteString("__ce(" + tag + ", {")
		for i := range e.attrs {
			if i > 0 {
				b.WriteString(", ")
			}
			e.attrs[i].ref(b, m)
		}
		b.WriteString("}")
		for _, k := range kids {
			b.WriteString(", " + k)
		}
		b.WriteString(")")
		return
	}
	fn := "__jsx"
	if len(kids) > 1 {
		fn = "__jsxs"
	}
	if m.dev {
		fn = "__jsxDEV"
	}
	b.WriteString(fn + "(" + tag + ", {")
	n := 0
	for i := range e.attrs {
		if i == keyIdx {
			continue
		}
		if n > 0 {
			b.WriteString(", ")
		}
		e.attrs[i].ref(b, m)
		n++
	}
	if len(kids) > 0 {
		if n > 0 {
			b.WriteString(", ")
		}
		if len(kids) == 1 {
			b.WriteString(`"children": ` + kids[0])
		} else {
			b.WriteString(`"children": [` + strings.Join(kids, ", ") + "]")
		}
	}
	b.WriteString("}")
	switch {
	case keyIdx >= 0:
		b.WriteString(", ")
		e.attrs[keyIdx].refValue(b, m)
	case m.dev:
		b.WriteString(", void 0")
	}
	if m.dev {
		fmt.Fprintf(b, ", %v, {fileName: \"f\", lineNumber: %d, columnNumber: %d}", len(kids) > 1, e.line, e.col)
	}
	b.WriteString(")")
}

// ----------------------------------------------------------------------------- generator

var jbool = rapid.Bool()

// uni draws uniformly from [0,n) (rapid's IntRange is biased towards small values).
func uni(rt *rapid.T, label string, n int) int {
	if n <= 1 {
		return 0
	}
	bits := 3
	for m := n - 1; m > 0; m >>= 1 {
		bits++
	}
	v := 0
	for i := 0; i < bits; i++ {
		v <<= 1
		if jbool.Draw(rt, label) {
			v |= 1
		}
	}
	return v % n
}

func pick(rt *rapid.T, label string, xs []string) string { return xs[uni(rt, label, len(xs))] }
func pct(rt *rapid.T, label string, p int) bool          { return uni(rt, label, 100) < p }

type jgen struct {
	rt     *rapid.T
	core   bool
	auto   bool
	nextID int
	budget int // elements left
	inMap  int
	signed bool // allow the signed numeric references of finding C01-jsx-signed-numeric-entity
	dashOK bool // allow names that end in "-" (finding C01-jsx-preserve-minify-dash-glue when preserve is minified)
	noFFFF bool // no raw U+FFFF (finding C01-jsx-dev-column-uffff in development mode)
	labels map[string]bool
}

func (g *jgen) label(s string) { g.labels[s] = true }

var jsxTagsString = []string{"div", "a", "span", "my-element", "x-", "a0", "svg:rect", "a:b", "x-y:z-w", "Te:st"}
var jsxTagsExpr = []string{"Foo", "Bar", "_under", "$dollar", "π", "Ünï", "𝒳", "日本", "NS.Comp", "NS.a.b", "NS.C.D.E", "ns.lower", "Foo.Sub"}
var jsxAttrNames = []string{"id", "className", "data-x", "aria-label", "xlink:href", "a:b", "x-y:z-w", "ref", "class", "for", "default", "if", "constructor", "toString", "ñ", "日本", "𝒳", "a1", "$x", "_y", "A", "on-click-", "key", "key", "key"}
var jsxAttrNamesNonCore = []string{"__proto__", "children", "__self", "__source"}

func (g *jgen) tag() string {
	if jbool.Draw(g.rt, "tagkind") {
		t := pick(g.rt, "tag", jsxTagsString)
		if strings.HasSuffix(t, "-") && !g.dashOK {
			t = "x-y"
		}
		if strings.HasSuffix(t, "-") {
			g.label("name-trailing-dash")
		}
		if strings.ContainsAny(t, ":") {
			g.label("tag-namespaced")
		} else if strings.Contains(t, "-") {
			g.label("tag-dashed")
		}
		return t
	}
	t := pick(g.rt, "tag", jsxTagsExpr)
	if strings.Contains(t, ".") {
		g.label("tag-member")
	} else if !isASCII(t) {
		g.label("tag-non-ascii")
	} else {
		g.label("tag-component")
	}
	return t
}

var jsxLits = []string{"1", "0", "-1.5", "1e21", `"s"`, `'q"q'`, `"é"`, "\"😀\u2028\"", `"</script>"`, "null", "undefined", "true", "false", "[1, 2]", `{ a: 1, "b-c": 2 }`, "o1",
	"`t${1}é`", "/é+/gu", "10n", "() => 1", "NaN", `"a" + "ü"`, "typeof c0", `c1 ? "y" : "n"`, "(1, 2)", `"\u{1F600}"`, `"ab".length`, `"日本"`, `'\\'`, `"<!--"`, `{ π: "π" }`}

func (g *jgen) lit() string {
	if g.inMap > 0 && pct(g.rt, "usei", 40) {
		return pick(g.rt, "ilit", []string{"i", `"k" + i`, "i * 2"})
	}
	return pick(g.rt, "lit", jsxLits)
}

func (g *jgen) probe() string {
	g.nextID++
	return fmt.Sprintf("p(%d, %s)", g.nextID, g.lit())
}

func (g *jgen) expr(depth int) *jx {
	n := 12
	if depth >= 4 || g.budget <= 0 {
		n = 2
	}
	switch uni(g.rt, "exprform", n) {
	case 0:
		return &jx{parts: []interface{}{g.probe()}}
	case 1:
		return &jx{parts: []interface{}{g.lit()}}
	case 2:
		g.label("expr-element")
		return &jx{parts: []interface{}{g.elem(depth + 1)}}
	case 3:
		g.label("expr-conditional")
		el := g.elem(depth + 1)
		switch uni(g.rt, "cond", 5) {
		case 0:
			return &jx{parts: []interface{}{"c1 ? ", el, " : null"}}
		case 1:
			return &jx{parts: []interface{}{"c0 ? null : ", el}}
		case 2:
			return &jx{parts: []interface{}{"c0 && ", el}}
		case 3:
			return &jx{parts: []interface{}{"c1 && ", el}}
		default:
			return &jx{parts: []interface{}{"c0 || ", el}}
		}
	case 4:
		g.label("expr-array")
		if jbool.Draw(g.rt, "arr2") {
			return &jx{parts: []interface{}{"[", g.elem(depth + 1), ", ", g.elem(depth + 1), "]"}}
		}
		return &jx{parts: []interface{}{"[" + g.probe() + ", ", g.elem(depth + 1), "]"}}
	case 5:
		g.label("expr-map")
		g.inMap++
		el := g.elem(depth + 1)
		g.inMap--
		return &jx{parts: []interface{}{"arr.map((i) => ", el, ")"}}
	case 6:
		g.label("expr-arrow-call")
		return &jx{parts: []interface{}{"(() => ", g.elem(depth + 1), ")()"}}
	case 7:
		g.label("expr-comma")
		return &jx{parts: []interface{}{"(" + g.probe() + ", ", g.elem(depth + 1), ")"}}
	case 8:
		g.label("expr-object")
		return &jx{parts: []interface{}{"{ k: ", g.elem(depth + 1), ", j: " + g.probe() + " }"}}
	case 9:
		g.label("expr-template")
		return &jx{parts: []interface{}{"`a${", g.elem(depth + 1), "}é`"}}
	case 10:
		return &jx{parts: []interface{}{g.probe() + " + (" + g.lit() + ")"}}
	default:
		return &jx{parts: []interface{}{g.probe()}}
	}
}

// --- text

var jsxWordPieces = []string{"a", "b", "Hello", "x1", "\u00e9", "\u00f1", "\u65e5\u672c", "\U0001F600", "\U0001D4B3", "\u00df", "\u200b", ".", ",", "!", "?", "-", "--", "=", "+", "*", "/", "//", "/*", "*/", "\\", "\\n", "\\u0041", "'", "\"", "`", "$", "#", ";", "&", "&&", "&;", ":", "(", ")", "[", "]", "@", "%", "^", "~", "|", "\u0085", "\ufffd", "\uffff", "e\u0301", "\x7f"}

// entity draws an HTML character reference or a near miss. In core cases only references whose
// meaning all JSX implementations share are produced.
func (g *jgen) entity(inText bool) string {
	rt := g.rt
	n := 12
	if !g.core {
		n = 16
	}
	if g.signed && pct(rt, "signed", 25) {
		n = 16
	}
	switch k := uni(rt, "entity", n); {
	case n == 16 && g.core:
		g.label("entity-signed")
		return pick(rt, "signed", []string{"&#+65;", "&#-65;", "&#x+41;", "&#x-41;"})
	default:
		return g.entityKind(k, inText)
	}
}

func (g *jgen) entityKind(k int, inText bool) string {
	rt := g.rt
	switch k {
	case 0, 1, 2:
		g.label("entity-named")
		return "&" + pick(rt, "name", jsxEntityNames) + ";"
	case 3:
		g.label("entity-named")
		return pick(rt, "name2", []string{"&amp;", "&lt;", "&gt;", "&quot;", "&apos;", "&nbsp;", "&lt;/script&gt;", "&amp;amp;", "&lt;!--", "&copy;", "&hearts;"})
	case 4, 5:
		g.label("entity-numeric")
		v := g.codePoint(inText)
		if jbool.Draw(rt, "hex") {
			return "&#x" + pick(rt, "pad", []string{"", "", "0", "0000"}) + strconv.FormatInt(int64(v), 16) + ";"
		}
		return "&#" + pick(rt, "pad", []string{"", "", "0", "000"}) + strconv.FormatInt(int64(v), 10) + ";"
	case 6:
		g.label("entity-numeric")
		v := g.codePoint(inText)
		return "&#x" + strings.ToUpper(strconv.FormatInt(int64(v), 16)) + ";"
	case 7:
		g.label("entity-surrogates")
		return pick(rt, "surr", []string{"&#xD83D;&#xDE00;", "&#xD800;", "&#xDFFF;", "&#55357;&#56832;", "&#xDE00;&#xD83D;"})
	case 8, 9:
		g.label("entity-unknown")
		return pick(rt, "unknown", []string{"&foo;", "&Amp;", "&AMP;", "&lbrace;", "&NotANumber;", "&amp ;", "& amp;", "&;", "&#;", "&#x;", "&#X41;", "&#xg;", "&#65a;", "&#6 5;", "&#x4 1;", "&ampamp;", "&nbsp2;", "&#x41.5;", "&#1e2;", "&#0x41;", "&#x0x41;", "&#_65;", "&#6_5;", "&#x4_1;"})
	case 10, 11:
		g.label("entity-no-semicolon")
		return pick(rt, "nosemi", []string{"&amp", "&lt", "&#65", "&#x41", "&nbsp", "&quot", "&", "&#", "&#x"})
	case 12, 13:
		g.label("entity-out-of-range")
		return pick(rt, "range", []string{"&#x110000;", "&#1114112;", "&#99999999999;", "&#xFFFFFFFF;", "&#x7FFFFFFF;", "&#2147483648;", "&#xFFFFFFFFFFFFFFFFF;"})
	case 14:
		g.label("entity-whitespace")
		return pick(rt, "ws", []string{"&#32;", "&#10;", "&#13;", "&#9;", "&#x20;", "&#xA;", "&#x2028;"})
	default:
		g.label("entity-signed")
		return pick(rt, "signed", []string{"&#+65;", "&#-65;", "&#x+41;", "&#x-41;"})
	}
}

func (g *jgen) codePoint(inText bool) rune {
	rt := g.rt
	for {
		var v rune
		switch uni(rt, "cpclass", 6) {
		case 0:
			v = rune(uni(rt, "cp", 0x80))
		case 1:
			v = rune(0x80 + uni(rt, "cp", 0x780))
		case 2:
			v = rune(uni(rt, "cp", 0x10000))
		case 3:
			v = rune(0x10000 + uni(rt, "cp", 0x100000))
		case 4:
			v = []rune{0, 0x22, 0x27, 0x26, 0x3C, 0x3E, 0x7B, 0x7D, 0x5C, 0x60, 0x24, 0x2F, 0x2028, 0x2029, 0xFEFF, 0xFFFF, 0x10000, 0x10FFFF, 0xA0, 0x7F}[uni(rt, "cpspecial", 20)]
		default:
			v = rune(0x20 + uni(rt, "cp", 0x5F))
		}
		if g.core && (v == '\n' || v == '\r' || (inText && (v == ' ' || v == '\t'))) {
			continue // white-space valued references interact with trimming differently across implementations
		}
		return v
	}
}

func (g *jgen) word() string {
	var sb strings.Builder
	n := 1 + uni(g.rt, "wordlen", 3)
	for i := 0; i < n; i++ {
		if pct(g.rt, "isentity", 35) {
			sb.WriteString(g.entity(true))
		} else {
			sb.WriteString(g.piece())
		}
	}
	return sb.String()
}

func (g *jgen) piece() string {
	s := pick(g.rt, "piece", jsxWordPieces)
	if s == "\uffff" && g.noFFFF {
		s = "\ufffe"
	}
	return s
}

func (g *jgen) body() string {
	var sb strings.Builder
	n := 1 + uni(g.rt, "words", 3)
	for i := 0; i < n; i++ {
		if i > 0 {
			sb.WriteString(pick(g.rt, "sep", []string{" ", " ", "  ", "\u00a0", "   "}))
		}
		sb.WriteString(g.word())
	}
	return sb.String()
}

// coreText: lines whose edges that touch a line break carry only spaces/tabs, no tab elsewhere.
func (g *jgen) coreText() string {
	rt := g.rt
	nlines := 1 + uni(rt, "nlines", 3)
	var sb strings.Builder
	for i := 0; i < nlines; i++ {
		first, last := i == 0, i == nlines-1
		if !first {
			sb.WriteString(pick(rt, "nl", []string{"\n", "\n", "\r\n", "\r"}))
		}
		if first {
			sb.WriteString(pick(rt, "lead0", []string{"", "", " ", "  "}))
		} else {
			sb.WriteString(pick(rt, "lead", []string{"", "  ", "\t", " \t ", "    "}))
		}
		if nlines == 1 || !pct(rt, "blank", 30) {
			sb.WriteString(g.body())
		}
		if last {
			sb.WriteString(pick(rt, "trailN", []string{"", "", " ", "   "}))
		} else {
			sb.WriteString(pick(rt, "trail", []string{"", " ", "\t", "  \t"}))
		}
	}
	if nlines > 1 {
		g.label("text-multiline")
	}
	return sb.String()
}

var jsxHostilePieces = []string{" ", " ", "\t", "\n", "\n", "\r\n", "\r", "\u2028", "\u2029", "\u00a0", "\ufeff", "\u3000", "\v", "\f", "\u2003", "\x01", "  \n  ", "\n\n", " \t\n\t ", "\u00a0\n", "\n\u00a0"}

func (g *jgen) hostileText() string {
	var sb strings.Builder
	n := 1 + uni(g.rt, "hlen", 7)
	for i := 0; i < n; i++ {
		switch uni(g.rt, "hkind", 3) {
		case 0:
			sb.WriteString(pick(g.rt, "hws", jsxHostilePieces))
		case 1:
			sb.WriteString(g.word())
		default:
			sb.WriteString(g.entity(true))
		}
	}
	g.label("text-hostile")
	return sb.String()
}

func (g *jgen) text() string {
	if g.core {
		return g.coreText()
	}
	if pct(g.rt, "coretext", 40) {
		return g.coreText()
	}
	return g.hostileText()
}

var jsxAttrPieces = []string{" ", "  ", "\t", "</script>", "</SCRIPT", "<", ">", "{", "}", "<!--", "-->", "\u2028", "\u2029", "\u00a0", "${x}", "{...x}", "\\", "\\\\", "\ufeff"}

// attrString returns the raw text and the quote of a string attribute.
func (g *jgen) attrString() (string, byte) {
	rt := g.rt
	var sb strings.Builder
	n := uni(rt, "alen", 6)
	for i := 0; i < n; i++ {
		switch uni(rt, "akind", 4) {
		case 0:
			sb.WriteString(pick(rt, "apiece", jsxAttrPieces))
		case 1:
			sb.WriteString(g.entity(false))
		case 2:
			if !g.core && pct(rt, "anl", 50) {
				g.label("attr-string-newline")
				sb.WriteString(pick(rt, "anlkind", []string{"\n", "\r\n", "\n   ", "\r", "  \n"}))
				break
			}
			fallthrough
		default:
			sb.WriteString(g.piece())
		}
	}
	s := sb.String()
	quote := byte('"')
	if jbool.Draw(rt, "squote") {
		quote = '\''
	}
	if strings.IndexByte(s, quote) >= 0 {
		other := byte('"' + '\'' - quote)
		if strings.IndexByte(s, other) < 0 {
			quote = other
		} else if quote == '"' {
			s = strings.ReplaceAll(s, `"`, "&quot;")
		} else {
			s = strings.ReplaceAll(s, `'`, "&apos;")
		}
		g.label("attr-string-has-quote")
	}
	return s, quote
}

func (g *jgen) gap(beforeSpread bool) string {
	rt := g.rt
	if g.core {
		return pick(rt, "gap", []string{" ", " ", " ", "  ", "\n", "\n  ", "\r\n\t", "\t"})
	}
	s := pick(rt, "gap", []string{" ", " ", "\n  ", " /* c */ ", " // é c\n ", "/* é */ ", " /**/", "\u00a0", "\u2028", ""})
	if s == "" && !beforeSpread {
		s = " "
	}
	if strings.Contains(s, "/") {
		g.label("tag-comment")
	}
	return s
}

func (g *jgen) attrs() []jattr {
	rt := g.rt
	n := []int{0, 0, 1, 1, 2, 3, 4, 5}[uni(rt, "nattrs", 8)]
	var out []jattr
	hasKey, hasProto := false, false
	for i := 0; i < n; i++ {
		var a jattr
		k := uni(rt, "attrkind", 10)
		switch {
		case k <= 2:
			a.kind = aStr
		case k <= 5:
			a.kind = aExpr
		case k == 6:
			a.kind = aBool
		case k <= 8:
			a.kind = aSpread
		default:
			a.kind = aElem
		}
		a.gap = g.gap(a.kind == aSpread)
		if a.kind == aSpread {
			g.label("attr-spread")
			switch uni(rt, "spreadkind", 5) {
			case 0:
				a.x = &jx{parts: []interface{}{"o1"}}
			case 1:
				a.x = &jx{parts: []interface{}{"ok"}}
				g.label("attr-spread-with-key-inside")
			case 2:
				a.x = &jx{parts: []interface{}{"og"}}
			case 3:
				a.x = &jx{parts: []interface{}{g.probe()}}
			default:
				g.nextID++
				a.x = &jx{parts: []interface{}{fmt.Sprintf("p(%d, { s%d: %s })", g.nextID, g.nextID, g.lit())}}
			}
			out = append(out, a)
			continue
		}
		a.name = pick(rt, "attrname", jsxAttrNames)
		if strings.HasSuffix(a.name, "-") && !g.dashOK {
			a.name = "on-click"
		}
		if strings.HasSuffix(a.name, "-") {
			g.label("name-trailing-dash")
		}
		if !g.core && pct(rt, "noncorename", 12) {
			a.name = pick(rt, "attrname2", jsxAttrNamesNonCore)
			if g.auto && strings.HasPrefix(a.name, "__s") {
				a.name = "children" // the automatic runtime documents __self/__source as errors
			}
			g.label("attr-" + a.name)
		}
		if a.name == "key" {
			if hasKey {
				a.name = "id"
			} else {
				hasKey = true
				if g.auto && a.kind == aBool {
					a.kind = aExpr // `<a key/>` is a documented error of the automatic runtime
				}
				g.label("attr-key")
				for _, prev := range out {
					if prev.kind == aSpread {
						g.label("attr-key-after-spread")
					}
				}
			}
		}
		if a.name == "__proto__" {
			if hasProto {
				a.name = "id" // two __proto__ initialisers are a syntax error in an object literal
			}
			hasProto = true
		}
		if strings.Contains(a.name, ":") {
			g.label("attr-namespaced")
		} else if strings.Contains(a.name, "-") {
			g.label("attr-dashed")
		} else if !isASCII(a.name) {
			g.label("attr-non-ascii-name")
		}
		switch a.kind {
		case aStr:
			a.raw, a.quote = g.attrString()
			g.label("attr-string")
		case aExpr:
			a.x = g.expr(3) // attribute expressions stay shallow
			g.label("attr-expr")
		case aBool:
			g.label("attr-shorthand")
		case aElem:
			a.el = g.elem(3)
			g.label("attr-element-value")
		}
		out = append(out, a)
	}
	return out
}

func (g *jgen) braceWS() string {
	if g.core {
		return pick(g.rt, "bws", []string{"", "", "", " ", "\n  "})
	}
	s := pick(g.rt, "bws", []string{"", "", " ", "\n", "/* c */", " /* é */ ", "// c\n", "/**/"})
	if strings.Contains(s, "/") {
		g.label("brace-comment")
	}
	return s
}

func (g *jgen) kids(depth int) []jkid {
	rt := g.rt
	n := []int{0, 1, 1, 2, 3, 4, 5}[uni(rt, "nkids", 7)]
	var out []jkid
	for i := 0; i < n; i++ {
		var k jkid
		c := uni(rt, "kidkind", 10)
		prevText := len(out) > 0 && out[len(out)-1].kind == kText
		switch {
		case c <= 2 && !prevText:
			k.kind = kText
			k.raw = g.text()
			if k.raw == "" {
				continue
			}
			g.label("child-text")
		case c <= 5 && depth < 4 && g.budget > 0:
			k.kind = kElem
			k.el = g.elem(depth + 1)
			g.label("child-element")
		case c == 6:
			k.kind = kEmpty
			k.pre = g.braceWS()
			g.label("child-empty-braces")
		case c == 7 && !g.core:
			k.kind = kSpread
			k.x = &jx{parts: []interface{}{pick(rt, "spreadchild", []string{"arr", "[]", "[1]", `"ab"`, "[o1, null]"})}}
			g.label("child-spread")
		default:
			k.kind = kExpr
			k.pre, k.post = g.braceWS(), g.braceWS()
			k.x = g.expr(depth)
			g.label("child-expr")
		}
		out = append(out, k)
	}
	return out
}

func (g *jgen) elem(depth int) *jel {
	rt := g.rt
	g.budget--
	e := &jel{}
	if pct(rt, "frag", 12) {
		e.frag = true
		g.label("fragment")
	} else {
		e.tag = g.tag()
		e.attrs = g.attrs()
		e.endGap = pick(rt, "endgap", []string{"", "", " ", "\n"})
	}
	e.kids = g.kids(depth)
	if len(e.kids) == 0 && !e.frag {
		e.selfClose = jbool.Draw(rt, "selfclose")
	}
	return e
}

// program renders a whole case: a few statements, each feeding a root element to log().
func (g *jgen) program(nroots int, mode refMode) (src, ref string) {
	rt := g.rt
	type stmt struct {
		pre, post string
		x         *jx
	}
	var stmts []stmt
	for i := 0; i < nroots; i++ {
		g.budget = 7
		var s stmt
		switch uni(rt, "stmtform", 6) {
		case 0, 1:
			s = stmt{pre: fmt.Sprintf("log(\"r%d\", ", i), post: ");\n", x: &jx{parts: []interface{}{g.elem(1)}}}
		case 2:
			s = stmt{pre: fmt.Sprintf("var v%d = ", i), post: fmt.Sprintf(";\nlog(\"v%d\", v%d);\n", i, i), x: &jx{parts: []interface{}{g.elem(1)}}}
		case 3:
			s = stmt{pre: fmt.Sprintf("function f%d() {\n  return (\n    ", i), post: fmt.Sprintf("\n  );\n}\nlog(\"f%d\", f%d());\n", i, i), x: &jx{parts: []interface{}{g.elem(1)}}}
		case 4:
			s = stmt{pre: fmt.Sprintf("log(\"e%d\", ", i), post: ");\n", x: g.expr(1)}
		default:
			s = stmt{pre: fmt.Sprintf("const g%d = () => ", i), post: fmt.Sprintf(";\nlog(\"g%d\", g%d());\n", i, i), x: &jx{parts: []interface{}{g.elem(1)}}}
		}
		stmts = append(stmts, s)
	}
	var b strings.Builder
	if pct(rt, "leading", 20) {
		b.WriteString(pick(rt, "leadtext", []string{"// é 😀\n", "\r\n", "/* 𝒳 */ ", "\n\n  ", "\u2028"}))
	}
	for _, s := range stmts {
		b.WriteString(s.pre)
		s.x.jsx(&b)
		b.WriteString(s.post)
	}
	src = b.String()
	if !g.core {
		return src, ""
	}
	var els []*jel
	for _, s := range stmts {
		s.x.walk(func(e *jel) { els = append(els, e) })
	}
	setPositions(src, els)
	var rb strings.Builder
	for _, s := range stmts {
		rb.WriteString(s.pre)
		s.x.ref(&rb, mode)
		rb.WriteString(s.post)
	}
	return src, rb.String()
}

func drawJSXOpts(rt *rapid.T) JSXOpts {
	var o JSXOpts
	switch uni(rt, "mode", 5) {
	case 0, 1:
		o.Mode = "transform"
		o.Factory = pick(rt, "factory", []string{"", "h", "R.el"})
		o.Fragment = pick(rt, "fragment", []string{"", "Frag", "R.F"})
		o.Out.Format = pick(rt, "format", []string{"", "", "esm", "cjs", "iife"})
	case 2, 3:
		o.Mode = "automatic"
		o.Out.Format = pick(rt, "format", []string{"cjs", "cjs", "cjs", "cjs", "cjs", "iife", "iife", "iife", "iife", "iife", "iife", "esm", "", "cjs", "cjs", "iife"})
	default:
		o.Mode = "automatic"
		o.Dev = true
		o.Out.Format = pick(rt, "format", []string{"cjs", "cjs", "cjs", "cjs", "cjs", "iife", "iife", "iife", "iife", "iife", "iife", "esm", "", "cjs", "cjs", "iife"})
	}
	if o.Mode == "automatic" {
		o.ImportSource = pick(rt, "importsource", []string{"", "", "preact", "@scope/lib"})
	}
	o.Out.ASCII = jbool.Draw(rt, "ascii")
	o.Out.MinifyWS = jbool.Draw(rt, "minws")
	if pct(rt, "ll", 25) {
		o.Out.LineLimit = []int{1, 10, 40, 80}[uni(rt, "linelimit", 4)]
	}
	o.Out.Platform = pick(rt, "platform", []string{"", "", "node", "neutral"})
	o.Pre.ASCII = jbool.Draw(rt, "pascii")
	o.Pre.MinifyWS = jbool.Draw(rt, "pminws")
	if pct(rt, "pll", 30) {
		o.Pre.LineLimit = []int{1, 10, 40, 80}[uni(rt, "plinelimit", 4)]
	}
	return o
}

func sortedLabels(m map[string]bool) []string {
	var out []string
	for k := range m {
		out = append(out, k)
	}
	sort.Strings(out)
	return out
}

// genJSXCase draws one case. lit selects the literal-focused generator of jsxlit.
func genJSXCase(rt *rapid.T, lit bool) JSXCase {
	o := drawJSXOpts(rt)
	g := &jgen{rt: rt, auto: o.Mode == "automatic", labels: map[string]bool{}}
	g.dashOK = !o.Pre.MinifyWS || pct(rt, "dashok", 10)
	g.noFFFF = o.Dev && !pct(rt, "ffffok", 5)
	mode := refMode{auto: g.auto, dev: o.Dev}
	var c JSXCase
	if lit {
		g.core = true
		g.signed = pct(rt, "signedcase", 2)
		c.Src, c.Ref = g.litProgram(mode)
	} else {
		g.core = pct(rt, "core", 60)
		c.Src, c.Ref = g.program(1+uni(rt, "nroots", 2), mode)
	}
	c.Opts = o
	c.Labels = sortedLabels(g.labels)
	return c
}

// litProgram: a few elements that carry only hostile string attributes and text children.
func (g *jgen) litProgram(mode refMode) (string, string) {
	rt := g.rt
	n := 1 + uni(rt, "nlits", 3)
	var els []*jel
	for i := 0; i < n; i++ {
		e := &jel{tag: pick(rt, "littag", []string{"a", "Foo", "x-y"})}
		na := uni(rt, "nlitattrs", 3)
		for j := 0; j < na; j++ {
			a := jattr{kind: aStr, name: pick(rt, "litattr", []string{"b", "data-c", "d:e", "\u00f1"}), gap: pick(rt, "litgap", []string{" ", "\n  "})}
			a.raw, a.quote = g.attrString()
			g.label("attr-string")
			e.attrs = append(e.attrs, a)
		}
		nk := uni(rt, "nlitkids", 4)
		for j := 0; j < nk; j++ {
			if j > 0 {
				e.kids = append(e.kids, jkid{kind: kEmpty})
			}
			raw := g.coreText()
			if raw == "" {
				continue
			}
			g.label("child-text")
			e.kids = append(e.kids, jkid{kind: kText, raw: raw})
		}
		if len(e.kids) == 0 {
			e.selfClose = jbool.Draw(rt, "selfclose")
		}
		els = append(els, e)
	}
	var b strings.Builder
	for i, e := range els {
		fmt.Fprintf(&b, "log(\"l%d\", ", i)
		e.jsx(&b)
		b.WriteString(");\n")
	}
	src := b.String()
	setPositions(src, append([]*jel{}, els...))
	var rb strings.Builder
	for i, e := range els {
		fmt.Fprintf(&rb, "log(\"l%d\", ", i)
		e.ref(&rb, mode)
		rb.WriteString(");\n")
	}
	return src, rb.String()
}

const jsxBatch = 10

func runJSXSub(t *testing.T, sub string, lit bool, quick, thorough int) {
	H.SetupRapid(sub, (H.N(quick, thorough)+jsxBatch-1)/jsxBatch)
	rapid.Check(t, func(rt *rapid.T) {
		var cases []JSXCase
		for k := 0; k < jsxBatch; k++ {
			cases = append(cases, genJSXCase(rt, lit))
		}
		for i, v := range judgeJSX(cases) {
			b, _ := json.Marshal(cases[i].Opts)
			H.Report(rt, sub, cases[i].Src+string(b), cases[i], v)
		}
	})
}

func runJSXRT(t *testing.T) {
	H.Rule("jsxrt", "rapid (uniform draws): JSX programs of 1-2 root expressions, element trees to depth 4 over string/dashed/namespaced/component/member/non-ASCII tags and fragments; attributes: string (either quote, entities, </script>, braces, U+2028, non-ASCII), {expr}, shorthand, spread (plain, with key inside, with a logging getter, probed), element-valued, dashed/namespaced/reserved-word/non-ASCII names, key before/after spread; children: text (multi-line, entities of every kind incl. near misses), {expr} (probes p(id,v), conditionals, arrays, map callbacks, arrow calls, comma, objects, templates), nested elements, {} and comment-only braces; 40% non-core cases add tabs/exotic white space/U+2028 in text, newlines in string attributes, out-of-range and white-space references, spread children, __proto__/children attributes, comments inside tags and braces. Modes classic (3 factories) / automatic / automatic+development × import source × format × platform × charset × minify-whitespace × line-limit. Oracles: (A) esbuild(preserve(P)) ≡ esbuild(P) under V8 with logging factories, preserve step with its own drawn charset/minify/line-limit; (B, core cases) the reference desugaring written from the React/JSX conventions, incl. jsx vs jsxs, key as third argument, createElement fallback for key after spread, children in props, development line/column; charset=ascii ⇒ ASCII-only output. Non-trivial = at least two factory calls/probes observed, or one factory call that received a literal containing a character reference or multi-line text")
	runJSXSub(t, "jsxrt", false, 8000, 120000)
}

func runJSXLit(t *testing.T) {
	H.Rule("jsxlit", "rapid (uniform draws): 1-3 elements whose string attributes (either quote) and text children consist of hostile pieces: named (all 253)/decimal/hex/zero-padded/upper-case references, surrogate halves, unknown names, near misses (&amp ;, &#x;, &#65a;, &#X41; …), missing semicolons, astral and non-ASCII characters, U+2028/9, quotes, backslashes, </script>, <!--, braces in attributes, multi-line text with indentation; the value received by the factory is compared with an independent decoder (HTML 4.01 table + JSX white-space rule); charset=ascii ⇒ ASCII-only output; round trip through preserve as in jsxrt. Signed references (&#+65;, 2% of the cases) are a listed finding. Non-trivial = at least two factory calls, or one that received a literal containing a character reference or multi-line text")
	runJSXSub(t, "jsxlit", true, 6000, 80000)
}

// C01 — transform preserves behaviour and literal values. See DESIGN.md section 5 / C01.
package c01

import (
	"encoding/json"
	"fmt"
	"math"
	"strconv"
	"strings"
	"testing"
	"unicode/utf8"

	"github.com/evanw/esbuild/pkg/api"
	"github.com/evanw/esbuild/verif/jsgen"
	"github.com/evanw/esbuild/verif/jsutil"
	"github.com/evanw/esbuild/verif/noderun"
	"github.com/evanw/esbuild/verif/vdrv"
	"pgregory.net/rapid"
)

var H *vdrv.H
var W *noderun.Worker

// Opts is the option tuple in scope for C01 (no syntax/identifier minification, no lowering).
type Opts struct {
	ASCII     bool   `json:"ascii,omitempty"`
	MinifyWS  bool   `json:"minify_whitespace,omitempty"`
	LineLimit int    `json:"line_limit,omitempty"`
	Format    string `json:"format,omitempty"` // "", esm, cjs, iife
	Platform  string `json:"platform,omitempty"`
	JSX       string `json:"jsx,omitempty"`
	Loader    string `json:"loader,omitempty"`
}

func (o Opts) api() api.TransformOptions {
	t := api.TransformOptions{LogLevel: api.LogLevelSilent, MinifyWhitespace: o.MinifyWS, LineLimit: o.LineLimit}
	if o.ASCII {
		t.Charset = api.CharsetASCII
	} else {
		t.Charset = api.CharsetUTF8
	}
	switch o.Format {
	case "esm":
		t.Format = api.FormatESModule
	case "cjs":
		t.Format = api.FormatCommonJS
	case "iife":
		t.Format = api.FormatIIFE
	}
	switch o.Platform {
	case "node":
		t.Platform = api.PlatformNode
	case "browser":
		t.Platform = api.PlatformBrowser
	case "neutral":
		t.Platform = api.PlatformNeutral
	}
	switch o.Loader {
	case "jsx":
		t.Loader = api.LoaderJSX
	}
	switch o.JSX {
	case "preserve":
		t.JSX = api.JSXPreserve
	case "automatic":
		t.JSX = api.JSXAutomatic
	case "transform":
		t.JSX = api.JSXTransform
	}
	return t
}

func drawOpts(rt *rapid.T, formats bool) Opts {
	o := Opts{ASCII: rapid.Bool().Draw(rt, "ascii"), MinifyWS: rapid.Bool().Draw(rt, "minws")}
	if rapid.IntRange(0, 3).Draw(rt, "ll") == 0 {
		o.LineLimit = rapid.SampledFrom([]int{1, 10, 40, 80}).Draw(rt, "linelimit")
	}
	if formats {
		o.Format = rapid.SampledFrom([]string{"", "", "iife", "cjs", "esm"}).Draw(rt, "format")
		o.Platform = rapid.SampledFrom([]string{"", "node", "browser", "neutral"}).Draw(rt, "platform")
	}
	return o
}

// asciiViolation returns the first non-ASCII byte offset outside regexp literals and comments, or -1.
// It is only applied to outputs that contain no regexp literal / comment (the generators for the
// literal checks produce none), so a plain byte scan is exact.
func asciiViolation(out string) int {
	for i := 0; i < len(out); i++ {
		if out[i] >= 0x80 {
			return i
		}
	}
	return -1
}

// ----------------------------------------------------------------------------- literal cases

type LitCase struct {
	Kind   string `json:"kind"` // number | string | template | tagged | bigint | regexp
	Lit    string `json:"lit"`  // literal source text
	Ctx    string `json:"ctx"`  // template with @
	Strict bool   `json:"strict,omitempty"`
	Opts   Opts   `json:"opts"`
}

const litPrelude = `function T(s) { var r = []; for (var i = 0; i < s.length; i++) r.push(s[i], s.raw[i]); for (var j = 1; j < arguments.length; j++) r.push(arguments[j]); return r; } var x, y = {};`

func litCode(c LitCase) string { return strings.ReplaceAll(c.Ctx, "@", c.Lit) }

func judgeLits(cases []LitCase) []vdrv.Verdict {
	vs := make([]vdrv.Verdict, len(cases))
	var codes []string
	outs := make([]string, len(cases))
	for i, c := range cases {
		src := litCode(c)
		r := api.Transform(src, c.Opts.api())
		if len(r.Errors) > 0 {
			outs[i] = "\x00ERROR " + r.Errors[0].Text
			codes = append(codes, isolate(src), isolate(src))
			continue
		}
		outs[i] = string(r.Code)
		codes = append(codes, isolate(src), isolate(outs[i]))
	}
	res, err := W.Batch(codes, litPrelude)
	if err != nil {
		for i := range vs {
			vs[i] = vdrv.Skip("node-infra")
		}
		return vs
	}
	for i, c := range cases {
		ref, got := res[2*i], res[2*i+1]
		if strings.HasPrefix(ref, "parse-error") {
			vs[i] = vdrv.Skip("generator-invalid")
			continue
		}
		if strings.HasPrefix(outs[i], "\x00ERROR ") {
			vs[i] = vdrv.Fail("esbuild rejects a literal V8 accepts: "+outs[i][7:], ref, outs[i][1:])
			continue
		}
		src := litCode(c)
		spellingChanged := !strings.Contains(outs[i], c.Lit)
		cls := []string{c.Kind}
		if spellingChanged {
			cls = append(cls, "respelled")
		}
		if c.Opts.ASCII {
			cls = append(cls, "ascii")
		}
		if c.Opts.LineLimit > 0 {
			cls = append(cls, "linelimit")
		}
		if c.Opts.ASCII && c.Kind != "regexp" && c.Kind != "tagged" { // the raw text of a tagged template cannot be escaped without changing .raw
			if off := asciiViolation(outs[i]); off >= 0 {
				vs[i] = vdrv.Fail(fmt.Sprintf("charset=ascii output contains a non-ASCII byte at offset %d", off), "ASCII only", outs[i])
				continue
			}
		}
		if ref != got {
			vs[i] = vdrv.Fail("literal value changed: "+src+"  ⇒  "+strings.TrimSpace(outs[i]), ref, got)
			if c.Ctx == shadowCtx && strings.Count(outs[i], "Infinity") >= 2 {
				// known finding C01-infinity-literal-shadowed: an overflowing literal is printed as the
				// identifier `Infinity`, which a local binding of that name captures
				vs[i].Known = "C01-infinity-literal-shadowed"
			}
			continue
		}
		nontrivial := spellingChanged || strings.ContainsAny(c.Lit, "\\eE") || !isASCII(c.Lit)
		vs[i] = vdrv.Pass(nontrivial, cls...)
		vs[i].Observed = strings.TrimSpace(outs[i])
	}
	return vs
}

// isolate runs a statement list in its own function scope (helpers such as the `var _a` template
// cache that esbuild declares must not leak between the cases of one batch) and yields x.
func isolate(code string) string { return "(function () {" + code + "\n})(); x" }

func isASCII(s string) bool {
	for i := 0; i < len(s); i++ {
		if s[i] >= 0x80 {
			return false
		}
	}
	return true
}

func replayLit(raw json.RawMessage) vdrv.Verdict {
	var c LitCase
	if json.Unmarshal(raw, &c) != nil {
		return vdrv.Skip("bad-replay")
	}
	return judgeLits([]LitCase{c})[0]
}

// --- numbers

var numCtx = []string{"x = @;", "x = (@).toString();", "x = (@).x;", "x = -@;", "x = (-@) ** 2;", "x = @ in y;", "x = Object.keys({ @: 1 });", "x = y[@];", "x = 1 - -@;", "x = 1 + +@;", "x = typeof @;", "x = [@, -@];", "x = @ / 3;", "x = { a: @ };", "x = 2 ** @;", "x = @ ** 2;", "x = - -@;", "x = 1 / @;", "x = `${@}`;", "x = (@)[\"toFixed\"](2);", shadowCtx}

// shadowCtx evaluates the literal where the global value names are shadowed by parameters.
const shadowCtx = "x = (function (Infinity, NaN, undefined) { return [@, -@, 1 / @]; })(1, 2, 3);"

func drawFloat(rt *rapid.T) float64 {
	switch rapid.IntRange(0, 9).Draw(rt, "fclass") {
	case 0:
		return math.Float64frombits(rapid.Uint64().Draw(rt, "bits"))
	case 1:
		return float64(rapid.Int64Range(-1<<53-2, 1<<53+2).Draw(rt, "int53"))
	case 2:
		return math.Pow(10, float64(rapid.IntRange(-330, 310).Draw(rt, "pow10")))
	case 3:
		return float64(rapid.IntRange(1, 9999).Draw(rt, "mant")) * math.Pow(10, float64(rapid.IntRange(-30, 30).Draw(rt, "e")))
	case 4:
		return math.Float64frombits(rapid.Uint64Range(0, 1<<53).Draw(rt, "subnormalish"))
	case 5:
		return rapid.SampledFrom([]float64{0, 1, 0.5, 1e21, 1e21 - 65536, 999999999999999868928, 1e-7, 1e-6, 123456789012345680000, 4294967295, 4294967296, 2147483648, 0.1, 0.2, 0.30000000000000004, 5e-324, 1.7976931348623157e308, 2.2250738585072014e-308, 9007199254740993, 18446744073709551615, 0xFFFFFFFFFFFFF800, 1000, 100, 1e3, 12e4, 0.001, 0.0001, math.Inf(1), math.Inf(1)}).Draw(rt, "special")
	case 6:
		return float64(rapid.Uint32().Draw(rt, "u32"))
	case 7:
		return float64(rapid.IntRange(0, 1000).Draw(rt, "small")) / float64(rapid.SampledFrom([]int{1, 2, 4, 8, 10, 100, 1000, 3, 7}).Draw(rt, "den"))
	default:
		return rapid.Float64().Draw(rt, "f64")
	}
}

func spellNumber(rt *rapid.T, f float64) (string, bool) {
	f = math.Abs(f)
	if math.IsInf(f, 0) {
		// literals that overflow to Infinity
		return rapid.SampledFrom([]string{"1e999", "2e308", "1.7976931348623159e308", "1" + strings.Repeat("0", 309), "0x" + strings.Repeat("f", 257), "1e309"}).Draw(rt, "overflow"), true
	}
	if math.IsNaN(f) {
		return "", false
	}
	isInt := f == math.Trunc(f) && f < 1e21
	k := rapid.IntRange(0, 11).Draw(rt, "spell")
	switch {
	case k == 0:
		return strconv.FormatFloat(f, 'g', -1, 64), true
	case k == 1:
		return strconv.FormatFloat(f, 'e', -1, 64), true
	case k == 2 && f < 1e21 && f >= 1e-7:
		return strconv.FormatFloat(f, 'f', -1, 64), true
	case k == 3 && isInt && f < 1<<63:
		return "0x" + strconv.FormatUint(uint64(f), 16), true
	case k == 4 && isInt && f < 1<<63:
		return "0o" + strconv.FormatUint(uint64(f), 8), true
	case k == 5 && isInt && f < 1<<63:
		return "0b" + strconv.FormatUint(uint64(f), 2), true
	case k == 6:
		s := strconv.FormatFloat(f, 'g', 17, 64) // 17 significant digits
		return s, true
	case k == 7 && f < 1 && f > 0:
		s := strconv.FormatFloat(f, 'f', -1, 64)
		if strings.HasPrefix(s, "0.") && len(s) < 340 {
			return s[1:], true // leading-dot
		}
	case k == 8 && isInt && f < 1e15:
		return strconv.FormatFloat(f, 'f', -1, 64) + ".", true
	case k == 9 && isInt && f < 1e15 && f >= 1000:
		s := strconv.FormatFloat(f, 'f', -1, 64)
		return s[:len(s)-3] + "_" + s[len(s)-3:], true
	case k == 10:
		s := strconv.FormatFloat(f, 'E', -1, 64)
		return strings.Replace(s, "E+", "E", 1), true
	case k == 11:
		// excess precision: digits beyond what float64 can hold
		s := strconv.FormatFloat(f, 'e', 25, 64)
		return s, true
	}
	return strconv.FormatFloat(f, 'g', -1, 64), true
}

func runLitNum(t *testing.T) {
	H.Rule("litnum", "rapid: float64 from all bit patterns + boundary classes, spelled decimal/exponent/fixed/hex/octal/binary/17-digit/leading-dot/trailing-dot/separator/excess-precision, placed in 20 hazard contexts (member access, unary minus, **, in, property key, template hole) × charset × minify-whitespace × line-limit; oracle: V8 value of the input statement vs the output statement; non-trivial = output spelling differs from input spelling or uses exponent")
	H.SetupRapid("litnum", H.N(8000, 400000)/8)
	rapid.Check(t, func(rt *rapid.T) {
		var cases []LitCase
		for k := 0; k < 8; k++ {
			f := drawFloat(rt)
			lit, ok := spellNumber(rt, f)
			if !ok {
				lit = "0"
			}
			cases = append(cases, LitCase{Kind: "number", Lit: lit, Ctx: rapid.SampledFrom(numCtx).Draw(rt, "ctx"), Opts: drawOpts(rt, false)})
		}
		for i, v := range judgeLits(cases) {
			H.Report(rt, "litnum", fmt.Sprint(cases[i]), cases[i], v)
		}
	})
}

// --- bigint, regexp

func runLitMisc(t *testing.T) {
	H.Rule("litmisc", "rapid: bigint literals in all radices with separators, legacy octal / 08-style decimals (sloppy), regular-expression literals from a pool of bodies × flags (body and flags must be byte-identical, checked through .source/.flags and the literal text)")
	H.SetupRapid("litmisc", H.N(2500, 60000)/8)
	reBodies := []string{"a", "a+?", "[/]", "\\/", "[\\]/]", "(?:x)", "(?<n>a)\\k<n>", "\\u{1F600}", "\\p{L}", "é", "😀", "\\u2028", "[^]", "a|b", "^$", "\\d{2,}", "(?<=a)b", "\\x41", "\\0", "[\\b]", "\\cA", "=", " ", "\\ "}
	reFlags := []string{"", "g", "i", "gi", "u", "y", "s", "gimsuy", "d", "v"}
	rapid.Check(t, func(rt *rapid.T) {
		var cases []LitCase
		for k := 0; k < 8; k++ {
			o := drawOpts(rt, false)
			switch rapid.IntRange(0, 3).Draw(rt, "kind") {
			case 0:
				n := rapid.Uint64().Draw(rt, "n")
				var lit string
				switch rapid.IntRange(0, 4).Draw(rt, "radix") {
				case 0:
					lit = strconv.FormatUint(n, 10) + "n"
				case 1:
					lit = "0x" + strconv.FormatUint(n, 16) + "n"
				case 2:
					lit = "0o" + strconv.FormatUint(n, 8) + "n"
				case 3:
					lit = "0b" + strconv.FormatUint(n, 2) + "n"
				default:
					lit = strconv.FormatUint(n, 10) + "0000000000000000000000001n"
				}
				if len(lit) > 6 && rapid.Bool().Draw(rt, "sep") {
					lit = lit[:4] + "_" + lit[4:]
				}
				cases = append(cases, LitCase{Kind: "bigint", Lit: lit, Ctx: rapid.SampledFrom([]string{"x = @;", "x = -@;", "x = (@).toString();", "x = @ * 2n;", "x = typeof @;", "x = { a: @ };"}).Draw(rt, "ctx"), Opts: o})
			case 1:
				lit := rapid.SampledFrom([]string{"017", "08", "09.5", "0777", "00", "019", "0123456789", "07.toString()"}).Draw(rt, "legacy")
				cases = append(cases, LitCase{Kind: "number", Lit: lit, Ctx: "x = @;", Opts: o})
			default:
				body := rapid.SampledFrom(reBodies).Draw(rt, "body")
				fl := rapid.SampledFrom(reFlags).Draw(rt, "flags")
				if fl == "v" && strings.Contains(body, "[^]") {
					fl = "u"
				}
				lit := "/" + body + "/" + fl
				cases = append(cases, LitCase{Kind: "regexp", Lit: lit, Ctx: rapid.SampledFrom([]string{"x = [@.source, @.flags];", "x = String(@);", "x = @.test(\"ab/\");", "x = 1 / @.lastIndex;", "x = y / @.lastIndex / 2;"}).Draw(rt, "ctx"), Opts: o})
			}
		}
		// the regexp context uses @ twice
		for i := range cases {
			if cases[i].Kind == "regexp" {
				cases[i].Ctx = strings.ReplaceAll(cases[i].Ctx, "@", cases[i].Lit)
				cases[i].Ctx = strings.Replace(cases[i].Ctx, cases[i].Lit, "@", 1)
			}
		}
		for i, v := range judgeLits(cases) {
			H.Report(rt, "litmisc", fmt.Sprint(cases[i]), cases[i], v)
		}
	})
}

// --- strings and templates

func drawUnit(rt *rapid.T) uint16 {
	switch rapid.IntRange(0, 11).Draw(rt, "uclass") {
	case 0:
		return uint16(rapid.IntRange(0, 0xFFFF).Draw(rt, "any"))
	case 1:
		return uint16(rapid.IntRange(0xD800, 0xDBFF).Draw(rt, "hi"))
	case 2:
		return uint16(rapid.IntRange(0xDC00, 0xDFFF).Draw(rt, "lo"))
	case 3:
		return rapid.SampledFrom([]uint16{0x2028, 0x2029, 0, '\n', '\r', '\t', '\b', '\f', '\v', 0xFEFF, 0x7F, 0x80, 0xFF, 0x100, 0xA0, 0x1B}).Draw(rt, "special")
	case 4:
		return rapid.SampledFrom([]uint16{'"', '\'', '`', '\\', '$', '{', '}', '<', '/', '>', '!', '-'}).Draw(rt, "punct")
	case 5:
		return uint16(rapid.IntRange('0', '9').Draw(rt, "digit"))
	case 6:
		return uint16(rapid.IntRange(0x80, 0x7FF).Draw(rt, "latin"))
	default:
		return uint16(rapid.IntRange(0x20, 0x7E).Draw(rt, "ascii"))
	}
}

var stringFragments = [][]uint16{u("</script"), u("</SCRIPT>"), u("<!--"), u("-->"), u("${"), u("\\u"), {0, '1'}, {0, '8'}, {0xD83D, 0xDE00}, {0xDE00, 0xD83D}, u("*/"), u("//"), u("\r\n"), u("]]>"), u("</style")}

func u(s string) []uint16 {
	var out []uint16
	for _, r := range s {
		out = append(out, uint16(r))
	}
	return out
}

func drawUnits(rt *rapid.T) []uint16 {
	n := rapid.IntRange(0, 12).Draw(rt, "len")
	var out []uint16
	for i := 0; i < n; i++ {
		if rapid.IntRange(0, 5).Draw(rt, "frag") == 0 {
			out = append(out, rapid.SampledFrom(stringFragments).Draw(rt, "fragment")...)
		} else {
			out = append(out, drawUnit(rt))
		}
	}
	return out
}

// spellString writes units as the body of a string literal with the given quote (or '`' for templates),
// choosing raw or escaped spellings at random.
func spellString(rt *rapid.T, units []uint16, quote byte, tagged bool) string {
	var sb strings.Builder
	for i := 0; i < len(units); i++ {
		c := units[i]
		hi := c >= 0xD800 && c <= 0xDBFF && i+1 < len(units) && units[i+1] >= 0xDC00 && units[i+1] <= 0xDFFF
		surrogate := c >= 0xD800 && c <= 0xDFFF
		mode := rapid.IntRange(0, 5).Draw(rt, "escmode")
		nextDigit := i+1 < len(units) && units[i+1] >= '0' && units[i+1] <= '9'
		switch {
		case hi && mode <= 2:
			r := rune(0x10000 + (int(c)-0xD800)<<10 + int(units[i+1]) - 0xDC00)
			if mode == 0 {
				sb.WriteString(string(r))
			} else {
				fmt.Fprintf(&sb, "\\u{%X}", r)
			}
			i++
		case surrogate:
			fmt.Fprintf(&sb, "\\u%04X", c)
		case mode == 1:
			fmt.Fprintf(&sb, "\\u%04x", c)
		case mode == 2 && c <= 0xFF:
			fmt.Fprintf(&sb, "\\x%02X", c)
		case mode == 3:
			fmt.Fprintf(&sb, "\\u{%x}", c)
		case c == 0 && !nextDigit && mode == 4:
			sb.WriteString("\\0")
		default:
			// raw where the grammar allows it
			switch {
			case c == '\\':
				sb.WriteString("\\\\")
			case c == uint16(quote):
				sb.WriteByte('\\')
				sb.WriteByte(quote)
			case c == '\n':
				if quote == '`' {
					sb.WriteString("\n")
				} else {
					sb.WriteString("\\n")
				}
			case c == '\r':
				sb.WriteString("\\r") // a raw CR in a template is normalised to LF: use the escape
			case c == 0x2028 || c == 0x2029:
				sb.WriteString(string(rune(c))) // legal raw in strings since ES2019 and in templates
			case c == '$' && quote == '`':
				sb.WriteString("\\$")
			case c < 0x20:
				fmt.Fprintf(&sb, "\\x%02x", c)
			default:
				sb.WriteString(string(rune(c)))
			}
		}
	}
	if rapid.IntRange(0, 9).Draw(rt, "linecont") == 0 && !tagged {
		return sb.String() + "\\\n"
	}
	return sb.String()
}

var strCtx = []string{"x = @;", "x = { @: 1 };", "x = @.length;", "x = @ + @;", "x = y[@];", "x = [@];", "x = @ in y;", "x = typeof @;"}

func runLitStr(t *testing.T) {
	H.Rule("litstr", "rapid: UTF-16 unit sequences over all 65536 units with boosted classes (paired/unpaired surrogates, U+2028/9, NUL+digit, </script, quotes, backslash, ${, CR/LF, BOM), spelled with random raw/\\x/\\u/\\u{}/\\0/line-continuation escapes in '…', \"…\", `…`, `…${e}…` and tagged templates (cooked and raw must survive), as values and as property keys × charset × minify-whitespace × line-limit; oracle: V8 value of input vs output statement (UTF-16 exact); charset=ascii ⇒ every output byte < 0x80; non-trivial = spelling changed or non-ASCII or escapes present")
	H.SetupRapid("litstr", H.N(8000, 400000)/8)
	rapid.Check(t, func(rt *rapid.T) {
		var cases []LitCase
		for k := 0; k < 8; k++ {
			units := drawUnits(rt)
			o := drawOpts(rt, false)
			switch rapid.IntRange(0, 5).Draw(rt, "form") {
			case 0:
				cases = append(cases, LitCase{Kind: "string", Lit: "\"" + spellString(rt, units, '"', false) + "\"", Ctx: rapid.SampledFrom(strCtx).Draw(rt, "ctx"), Opts: o})
			case 1:
				cases = append(cases, LitCase{Kind: "string", Lit: "'" + spellString(rt, units, '\'', false) + "'", Ctx: rapid.SampledFrom(strCtx).Draw(rt, "ctx"), Opts: o})
			case 2:
				cases = append(cases, LitCase{Kind: "template", Lit: "`" + spellString(rt, units, '`', false) + "`", Ctx: rapid.SampledFrom([]string{"x = @;", "x = @.length;", "x = [@];"}).Draw(rt, "ctx"), Opts: o})
			case 3:
				u2 := drawUnits(rt)
				cases = append(cases, LitCase{Kind: "template", Lit: "`" + spellString(rt, units, '`', false) + "${y.q}" + spellString(rt, u2, '`', false) + "${1}`", Ctx: "x = @;", Opts: o})
			default:
				u2 := drawUnits(rt)
				lit := "T`" + spellString(rt, units, '`', true) + "${7}" + spellString(rt, u2, '`', true)
				if rapid.IntRange(0, 4).Draw(rt, "badescape") == 0 {
					lit += rapid.SampledFrom([]string{"\\u", "\\xg", "\\01", "\\u{110000}", "\\9"}).Draw(rt, "invalid")
				}
				cases = append(cases, LitCase{Kind: "tagged", Lit: lit + "`", Ctx: "x = @;", Opts: o})
			}
		}
		for i := range cases {
			if strings.Count(cases[i].Ctx, "@") > 1 {
				cases[i].Ctx = strings.Replace(strings.ReplaceAll(cases[i].Ctx, "@", cases[i].Lit), cases[i].Lit, "@", 1)
			}
		}
		for i, v := range judgeLits(cases) {
			H.Report(rt, "litstr", fmt.Sprint(cases[i]), cases[i], v)
		}
	})
}

// ----------------------------------------------------------------------------- expression × context grid

type CtxCase struct {
	Code string `json:"code"`
	Tree string `json:"tree"`
	Ctx  string `json:"ctx"`
	Opts Opts   `json:"opts"`
}

func judgeCtx(cases []CtxCase) []vdrv.Verdict {
	vs := make([]vdrv.Verdict, len(cases))
	outs := make([]string, len(cases))
	var codes []string
	for i, c := range cases {
		src := jsgen.EnumReinit + c.Code
		r := api.Transform(src, c.Opts.api())
		if len(r.Errors) > 0 {
			outs[i] = "\x00ERROR " + r.Errors[0].Text
			codes = append(codes, src, src)
			continue
		}
		outs[i] = string(r.Code)
		codes = append(codes, src, outs[i])
	}
	res, err := W.Batch(codes, jsgen.EnumPrelude)
	if err != nil {
		for i := range vs {
			vs[i] = vdrv.Skip("node-infra")
		}
		return vs
	}
	for i, c := range cases {
		ref, got := res[2*i], res[2*i+1]
		if strings.HasPrefix(ref, "parse-error") {
			vs[i] = vdrv.Skip("invalid-combination")
			continue
		}
		if ref == "timeout" {
			vs[i] = vdrv.Skip("reference-timeout")
			continue
		}
		// (function source text is hidden by the worker: Function.prototype.toString returns a constant in
		// both runs, so comparisons and concatenations of functions need no special treatment)
		if strings.HasPrefix(outs[i], "\x00ERROR ") {
			v := vdrv.Fail("esbuild rejects a program V8 accepts: "+c.Code+": "+outs[i][7:], ref, outs[i][1:])
			vs[i] = v
			continue
		}
		if ref != got && outs[i] == reinitOutput(c.Opts) && dropCompletion(ref) == dropCompletion(got) {
			// esbuild removed the whole statement as free of side effects (e.g. `!function(){}` is folded
			// and dropped even without minification): the statement's completion value, which only an
			// enclosing eval could see, is not part of the observable behaviour
			vs[i] = vdrv.Pass(false, "ctx="+c.Ctx, "statement-dropped")
			continue
		}
		if ref != got {
			vs[i] = vdrv.Fail("behaviour changed for `"+c.Code+"`; output: "+strings.TrimSpace(strings.TrimPrefix(outs[i], jsgen.EnumReinit)), ref, got)
			continue
		}
		// non-trivial: evaluation touched a probe (an event or a thrown error) and the output is not a verbatim copy
		nontrivial := strings.Contains(ref, "events:") && !strings.Contains(outs[i], c.Code)
		vs[i] = vdrv.Pass(nontrivial, "ctx="+c.Ctx)
		vs[i].Observed = strings.TrimSpace(strings.TrimPrefix(outs[i], jsgen.EnumReinit))
	}
	return vs
}

var reinitOut = map[Opts]string{}

// reinitOutput is what esbuild prints for the atom re-initialisation alone under the given options.
func reinitOutput(o Opts) string {
	if s, ok := reinitOut[o]; ok {
		return s
	}
	r := api.Transform(jsgen.EnumReinit, o.api())
	reinitOut[o] = string(r.Code)
	return reinitOut[o]
}

// dropCompletion removes the completion value ("v:…") from a batch result, keeping thrown values and events.
func dropCompletion(res string) string {
	if !strings.HasPrefix(res, "v:") {
		return res
	}
	if i := strings.Index(res, " events:"); i >= 0 {
		return res[i:]
	}
	return ""
}

func replayCtx(raw json.RawMessage) vdrv.Verdict {
	var c CtxCase
	if json.Unmarshal(raw, &c) != nil {
		return vdrv.Skip("bad-replay")
	}
	return judgeCtx([]CtxCase{c})[0]
}

var ctxOptSets = []Opts{{}, {MinifyWS: true}, {ASCII: true, LineLimit: 20}, {MinifyWS: true, LineLimit: 1}}

func runCtxGrid(t *testing.T) {
	H.Rule("ctx", "bounded-exhaustive: every one-operator expression tree (84 forms over probe atoms a,b,c: all unary/update/assignment/binary operators, conditional, call/new/member/optional chain/tagged template/arrow/function/class/object/array/spread) embedded in each of 109 syntactic contexts (statement start, arrow body, for-init, operand of each precedence level left/right, callee, new target, tag, computed key, class heritage/field/static block, default values, yield, assignment targets …) × {pretty, minify-whitespace, ascii+line-limit, minify+line-limit 1}; plus depth-2 trees (operands from 55 representative forms) in a neutral context, sliced by seed in quick. Oracle: V8 completion value + probe event sequence of input vs output; non-trivial = a probe fired and the output text differs from the input text")
	var all []CtxCase
	d1 := append(jsgen.Atoms(), jsgen.Depth1()...)
	ctxs := jsgen.Contexts()
	k := 0
	for _, cx := range ctxs {
		for _, tr := range d1 {
			code, ok := jsgen.Embed(cx, tr)
			if !ok {
				continue
			}
			for oi, o := range ctxOptSets {
				k++
				if !H.Thorough() && oi >= 2 && uint64(k)%4 != H.Seed%4 {
					continue
				}
				all = append(all, CtxCase{Code: code, Tree: tr.Text, Ctx: cx.Name, Opts: o})
			}
		}
	}
	neutral := jsgen.Context{Name: "neutral", Template: "x = @;", Raw: true}
	neutral2 := jsgen.Context{Name: "neutral-stmt", Template: "@;", Raw: true}
	slices := uint64(16)
	j := uint64(0)
	jsgen.Depth2(func(tr jsgen.Tree) bool {
		j++
		if !H.Thorough() && j%slices != H.Seed%slices {
			return true
		}
		cx := neutral
		if j%5 == 0 {
			cx = neutral2
		}
		code, _ := jsgen.Embed(cx, tr)
		o := ctxOptSets[int(j)%2]
		all = append(all, CtxCase{Code: code, Tree: tr.Text, Ctx: cx.Name, Opts: o})
		return true
	})
	H.Exhaustive("ctx", H.Thorough())
	var mine []CtxCase
	for i, c := range all {
		if H.MySlice(i) {
			mine = append(mine, c)
		}
	}
	const B = 300
	for lo := 0; lo < len(mine); lo += B {
		hi := lo + B
		if hi > len(mine) {
			hi = len(mine)
		}
		for i, v := range judgeCtx(mine[lo:hi]) {
			c := mine[lo+i]
			H.Report(t, "ctx", c.Code+fmt.Sprint(c.Opts), c, v)
		}
	}
}

// ----------------------------------------------------------------------------- programs

type ProgCase struct {
	Code   string `json:"code"`
	Goal   string `json:"goal"` // script | module
	Opts   Opts   `json:"opts"`
	Global string `json:"global_name,omitempty"`
}

func runOne(code, goal string, externals map[string]string) (*noderun.Resp, error) {
	switch goal {
	case "module":
		return W.Call(noderun.Req{Kind: "module", Code: code, Externals: externals})
	case "cjs":
		return W.Call(noderun.Req{Kind: "cjs", Code: code, Externals: externals})
	}
	return W.Call(noderun.Req{Kind: "script", Code: code})
}

func judgeProg(c ProgCase) vdrv.Verdict {
	ref, err := runOne(c.Code, c.Goal, nil)
	if err != nil {
		return vdrv.Skip("node-infra")
	}
	if ref.ParseError != "" {
		return vdrv.Skip("generator-invalid")
	}
	if ref.Timeout || ref.Overflow {
		return vdrv.Skip("reference-timeout-or-overflow")
	}
	if r2, err := runOne(c.Code, c.Goal, nil); err != nil || r2.Trace() != ref.Trace() {
		return vdrv.Skip("nondeterministic-reference")
	}
	r := api.Transform(c.Code, c.Opts.api())
	if len(r.Errors) > 0 {
		return vdrv.Fail("esbuild rejects a program V8 accepts: "+r.Errors[0].Text, "accepted", r.Errors[0].Text)
	}
	out := string(r.Code)
	outGoal := c.Goal
	switch c.Opts.Format {
	case "esm":
		outGoal = "module"
	case "cjs":
		outGoal = "cjs"
	case "iife":
		outGoal = "script"
	}
	got, err := runOne(out, outGoal, nil)
	if err != nil {
		return vdrv.Skip("node-infra")
	}
	refTrace, gotTrace := ref.Trace(), got.Trace()
	if c.Goal != outGoal {
		// exports are observed differently per format; compare events and termination only, plus export *names/values* when both sides have them
		refTrace, gotTrace = stripExports(refTrace), stripExports(gotTrace)
	}
	if c.Opts.ASCII {
		off, perr := jsutil.NonASCIIOutsideExempt(out, outGoal == "module", false)
		if perr != nil {
			return vdrv.Skip("jsref-gap") // V8 accepted the output (it ran); our parser did not: harness gap, never a verdict
		}
		if off >= 0 {
			return vdrv.Fail(fmt.Sprintf("charset=ascii output has a non-ASCII byte at %d outside regexp literals/comments", off), "ASCII", out)
		}
	}
	cls := []string{"goal=" + c.Goal, "format=" + c.Opts.Format}
	if refTrace == gotTrace {
		v := vdrv.Pass(len(ref.Events) >= 3, cls...)
		v.Observed = fmt.Sprintf("%d events, end=%s", len(ref.Events), ref.End)
		return v
	}
	return vdrv.Fail("trace differs after transform", refTrace, gotTrace+"\n--- output\n"+out)
}

func stripExports(tr string) string {
	var keep []string
	for _, l := range strings.Split(tr, "\n") {
		if strings.HasPrefix(l, "EXPORTS ") {
			continue
		}
		keep = append(keep, l)
	}
	return strings.Join(keep, "\n")
}

func replayProg(raw json.RawMessage) vdrv.Verdict {
	var c ProgCase
	if json.Unmarshal(raw, &c) != nil {
		return vdrv.Skip("bad-replay")
	}
	return judgeProg(c)
}

func runProg(t *testing.T) {
	H.Rule("prog", "rapid: terminating probe-instrumented programs (jsgen: statements, classes with fields/private/static blocks, generators, destructuring, labels, switch, try/finally, templates, optional chains, getters …) with non-ASCII identifiers/strings sprinkled in, script goal × charset × minify-whitespace × line-limit, strict programs additionally × format {iife,cjs,esm} × platform; oracle: V8 trace of input vs output (events, termination; exports when the goal is unchanged); charset=ascii ⇒ no non-ASCII byte outside regexp literals/comments; non-trivial = ≥3 events")
	H.SetupRapid("prog", H.N(2000, 200000))
	rapid.Check(t, func(rt *rapid.T) {
		c := ProgCase{Goal: "script"}
		strict := rapid.Bool().Draw(rt, "strict")
		c.Opts = drawOpts(rt, strict)
		code := jsgen.Program(rt, jsgen.Config{Features: jsgen.FAll &^ jsgen.FAsync &^ jsgen.FAsyncGenerators &^ jsgen.FForAwait, Strict: strict, MaxDepth: 3, MaxStmts: 7})
		if rapid.IntRange(0, 2).Draw(rt, "unicode") == 0 {
			code += "var π = \"ünï\" + `çødé${1}😀`, ಠ_ಠ = { ñ: 1, \"é\": 2, 𝒳: /ü+/u.source }; log(π, ಠ_ಠ, \"\\u2028\\u{1F600}\");\n"
		}
		c.Code = code
		H.Report(rt, "prog", c.Code+fmt.Sprint(c.Opts), c, judgeProg(c))
	})
}

func runProgModule(t *testing.T) {
	H.Rule("progmod", "rapid: module-goal programs with exports (export const/let/function/class/default, export lists with renames) and top-level await, transformed to esm/cjs/iife(+global name); oracle: V8 trace + exported names and values (namespace for esm, module.exports for cjs, the global for iife)")
	H.SetupRapid("progmod", H.N(1000, 80000))
	rapid.Check(t, func(rt *rapid.T) {
		c := ProgCase{Goal: "module"}
		c.Opts = drawOpts(rt, false)
		c.Opts.Format = rapid.SampledFrom([]string{"esm", "cjs", "iife", ""}).Draw(rt, "format")
		feats := jsgen.FAll &^ jsgen.FAsync &^ jsgen.FAsyncGenerators &^ jsgen.FForAwait
		if c.Opts.Format == "esm" || c.Opts.Format == "" {
			if rapid.Bool().Draw(rt, "tla") {
				feats |= jsgen.FAsync
			}
		}
		body := jsgen.Program(rt, jsgen.Config{Features: feats, Module: true, MaxDepth: 3, MaxStmts: 6})
		n := rapid.IntRange(1, 4).Draw(rt, "nexports")
		var exp strings.Builder
		for i := 0; i < n; i++ {
			id := fmt.Sprintf("ex%d", i)
			switch rapid.IntRange(0, 5).Draw(rt, "expkind") {
			case 0:
				fmt.Fprintf(&exp, "export const %s = %d;\n", id, i+10)
			case 1:
				fmt.Fprintf(&exp, "export let %s = \"v%d\"; %s += \"!\";\n", id, i, id)
			case 2:
				fmt.Fprintf(&exp, "export function %s() { return %d; }\n", id, i)
			case 3:
				fmt.Fprintf(&exp, "export class %s {}\n", id)
			case 4:
				fmt.Fprintf(&exp, "var loc%d = [%d]; export { loc%d as %s };\n", i, i, i, id)
			default:
				fmt.Fprintf(&exp, "var loc%d = %d; export { loc%d as \"str %d\" };\n", i, i, i, i)
			}
		}
		if rapid.Bool().Draw(rt, "default") {
			exp.WriteString(rapid.SampledFrom([]string{"export default 42;\n", "export default function () {}\n", "export default class Named {}\n", "export default (1, 2);\n", "export default { a: 1 };\n"}).Draw(rt, "defkind"))
		}
		c.Code = body + exp.String()
		H.Report(rt, "progmod", c.Code+fmt.Sprint(c.Opts), c, judgeProgModule(c))
	})
}

// judgeProgModule: like judgeProg, but compares exports across formats through the format's own window.
func judgeProgModule(c ProgCase) vdrv.Verdict {
	ref, err := runOne(c.Code, "module", nil)
	if err != nil {
		return vdrv.Skip("node-infra")
	}
	if ref.ParseError != "" || ref.LinkError != "" {
		return vdrv.Skip("generator-invalid")
	}
	if ref.Timeout || ref.Overflow {
		return vdrv.Skip("reference-timeout-or-overflow")
	}
	o := c.Opts.api()
	if c.Opts.Format == "iife" {
		o.GlobalName = "GLOBALNS"
	}
	r := api.Transform(c.Code, o)
	if len(r.Errors) > 0 {
		if strings.Contains(r.Errors[0].Text, "Top-level await") {
			return vdrv.Skip("tla-refused-for-format")
		}
		return vdrv.Fail("esbuild rejects a module V8 accepts: "+r.Errors[0].Text, "accepted", r.Errors[0].Text)
	}
	out := string(r.Code)
	var got *noderun.Resp
	switch c.Opts.Format {
	case "cjs":
		// ES modules are strict; esbuild documents that converting to cjs/iife does not add "use strict",
		// and the property excludes strict/sloppy differences across formats: evaluate the output strict.
		got, err = W.Call(noderun.Req{Kind: "cjs", Code: out, Strict: true})
	case "iife":
		got, err = W.Call(noderun.Req{Kind: "script", Code: out, GlobalName: "GLOBALNS", Strict: true})
	default:
		got, err = W.Call(noderun.Req{Kind: "module", Code: out})
	}
	if err != nil {
		return vdrv.Skip("node-infra")
	}
	rt, gt := ref.Trace(), got.Trace()
	if ref.End != "normal" {
		rt, gt = stripExports(rt), stripExports(gt) // exports of a module whose evaluation threw are not observable natively
	}
	if c.Opts.Format == "cjs" || c.Opts.Format == "iife" {
		// the namespace of an ES module and a CommonJS exports object differ in kind; compare key/value pairs
		rt = strings.Replace(rt, "EXPORTS ns{", "EXPORTS {", 1)
		gt = strings.Replace(gt, "EXPORTS ns{", "EXPORTS {", 1)
	}
	if rt == gt {
		v := vdrv.Pass(len(ref.Events) >= 2, "format="+c.Opts.Format)
		v.Observed = ref.Exports
		return v
	}
	return vdrv.Fail("module trace/exports differ after format conversion", rt, gt+"\n--- output\n"+out)
}

func replayProgModule(raw json.RawMessage) vdrv.Verdict {
	var c ProgCase
	if json.Unmarshal(raw, &c) != nil {
		return vdrv.Skip("bad-replay")
	}
	return judgeProgModule(c)
}

var subs = map[string]vdrv.ReplayFunc{"litnum": replayLit, "litstr": replayLit, "litmisc": replayLit, "litops": replayLit, "ctx": replayCtx, "prog": replayProg, "progmod": replayProgModule, "jsxrt": replayJSX, "jsxlit": replayJSX}

func setup(t *testing.T) {
	H = vdrv.New("C01")
	var err error
	W, err = noderun.Start("")
	if err != nil {
		t.Fatalf("INFRA: %v", err)
	}
}

func TestCheck(t *testing.T) {
	setup(t)
	defer W.Close()
	complete := false
	defer func() { H.Finish(complete) }()
	H.RunReplays(t, subs)
	H.Sub(t, "litnum", runLitNum)
	H.Sub(t, "litstr", runLitStr)
	H.Sub(t, "litmisc", runLitMisc)
	H.Sub(t, "litops", runLitOps)
	H.Sub(t, "ctx", runCtxGrid)
	H.Sub(t, "prog", runProg)
	H.Sub(t, "progmod", runProgModule)
	H.Sub(t, "jsxrt", runJSXRT)
	H.Sub(t, "jsxlit", runJSXLit)
	complete = true
}

func TestReplay(t *testing.T) {
	setup(t)
	defer W.Close()
	H.ReplayOne(t, subs)
}

var _ = utf8.RuneError

package c01

import (
	"fmt"
	"os"
	"testing"

	"pgregory.net/rapid"
)

func TestJSXDump(t *testing.T) {
	if os.Getenv("JSXDUMP") == "" {
		t.Skip()
	}
	setup(t)
	defer W.Close()
	n := 0
	rapid.Check(t, func(rt *rapid.T) {
		c := genJSXCase(rt, os.Getenv("JSXDUMP") == "lit")
		n++
		if n > 12 {
			return
		}
		r := jsxTransform(c)
		fmt.Printf("=== case %d opts=%+v labels=%v\n--- src\n%s\n--- ref\n%s\n--- e1\n%s\n--- q\n%s\n", n, c.Opts, c.Labels, c.Src, c.Ref, r.e1, r.q)
		v := judgeJSX([]JSXCase{c})[0]
		fmt.Printf("--- verdict ok=%v discard=%q known=%q detail=%s\nexpected=%s\nobserved=%s\n", v.OK, v.Discard, v.Known, v.Detail, v.Expected, v.Observed)
	})
}

func TestJSXOnly(t *testing.T) {
	if os.Getenv("JSXONLY") == "" {
		t.Skip()
	}
	setup(t)
	defer W.Close()
	defer func() { H.Finish(true) }()
	H.Sub(t, "jsxrt", runJSXRT)
	H.Sub(t, "jsxlit", runJSXLit)
}

func TestJSXTiming(t *testing.T) {
	if os.Getenv("JSXTIME") == "" {
		t.Skip()
	}
	setup(t)
	defer W.Close()
	var cases []JSXCase
	rapid.Check(t, func(rt *rapid.T) {
		cases = append(cases, genJSXCase(rt, os.Getenv("JSXTIME") == "lit"))
	})
	fmt.Println("cases", len(cases))
	t0 := timeNow()
	tot := 0
	for _, c := range cases {
		r := jsxTransform(c)
		tot += len(r.e1)
	}
	fmt.Println("transform", timeSince(t0), "bytes", tot)
	c0, _ := cpuTimes()
	fmt.Println("cpu self so far", c0)
	t0 = timeNow()
	for lo := 0; lo+6 <= len(cases); lo += 6 {
		judgeJSX(cases[lo : lo+6])
	}
	fmt.Println("judge", timeSince(t0))
	c1, _ := cpuTimes()
	fmt.Println("cpu self total", c1)
	W.Close()
	_, ch := cpuTimes()
	fmt.Println("cpu children", ch)
}

func TestJSXTiming2(t *testing.T) {
	if os.Getenv("JSXTIME2") == "" {
		t.Skip()
	}
	setup(t)
	defer W.Close()
	code := jsxWrap(`log("r", __h("a", null, p(1, 2)));`)
	var codes []string
	for i := 0; i < 18; i++ {
		codes = append(codes, code)
	}
	t0 := timeNow()
	for i := 0; i < 50; i++ {
		W.Batch(codes, jsxPrelude)
	}
	fmt.Println("50 batches of 18:", timeSince(t0))
	t0 = timeNow()
	for i := 0; i < 50; i++ {
		W.Batch(codes[:1], "")
	}
	fmt.Println("50 batches of 1 no prelude:", timeSince(t0))
	t0 = timeNow()
	for i := 0; i < 50; i++ {
		moduleTrace(`import {jsx} from "react/jsx-runtime"; log("r", jsx("a", {}));`)
	}
	fmt.Println("50 module calls:", timeSince(t0))
}

func TestJSXKnownDebug(t *testing.T) {
	path := os.Getenv("JSXKNOWN")
	if path == "" {
		t.Skip()
	}
	setup(t)
	defer W.Close()
	r, err := vdrvLoad(path)
	if err != nil {
		t.Fatal(err)
	}
	for _, k := range jsxKnownShapes {
		fmt.Println(k.id, "applies:", k.applies(r))
		if k.applies(r) {
			v2 := judgeJSXRaw([]JSXCase{k.without(r)})[0]
			fmt.Println("  without: ok", v2.OK, "discard", v2.Discard, "detail", v2.Detail)
		}
	}
	v := judgeJSX([]JSXCase{r})[0]
	fmt.Println("known:", v.Known, "ok:", v.OK, v.Detail)
}

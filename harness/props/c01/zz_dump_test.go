package c01

import (
	"fmt"
	"os"
	"testing"

	"pgregory.net/rapid"
)

func TestJSXDump(t *testing.T) {
	if os.Getenv("JSXDUMP") == "" {
		t.Skip()
	}
	setup(t)
	defer W.Close()
	n := 0
	rapid.Check(t, func(rt *rapid.T) {
		c := genJSXCase(rt, os.Getenv("JSXDUMP") == "lit")
		n++
		if n > 12 {
			return
		}
		r := jsxTransform(c)
		fmt.Printf("=== case %d opts=%+v labels=%v\n--- src\n%s\n--- ref\n%s\n--- e1\n%s\n--- q\n%s\n", n, c.Opts, c.Labels, c.Src, c.Ref, r.e1, r.q)
		v := judgeJSX([]JSXCase{c})[0]
		fmt.Printf("--- verdict ok=%v discard=%q known=%q detail=%s\nexpected=%s\nobserved=%s\n", v.OK, v.Discard, v.Known, v.Detail, v.Expected, v.Observed)
	})
}

func TestJSXOnly(t *testing.T) {
	if os.Getenv("JSXONLY") == "" {
		t.Skip()
	}
	setup(t)
	defer W.Close()
	defer func() { H.Finish(true) }()
	H.Sub(t, "jsxrt", runJSXRT)
	H.Sub(t, "jsxlit", runJSXLit)
}

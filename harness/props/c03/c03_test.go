// C03 — minification never changes behaviour. See DESIGN.md section 5 / C03.
package c03

import (
	"encoding/json"
	"fmt"
	"regexp"
	"strings"
	"testing"

	"github.com/evanw/esbuild/pkg/api"
	"github.com/evanw/esbuild/verif/jsgen"
	"github.com/evanw/esbuild/verif/noderun"
	"github.com/evanw/esbuild/verif/vdrv"
	"pgregory.net/rapid"
)

var H *vdrv.H
var W *noderun.Worker

// ----------------------------------------------------------------------------- C03.a fold grid

var grid = []string{
	"0", "-0", "NaN", "Infinity", "-Infinity", "1", "-1", "0.5", "-0.5", "2", "3", "10", "31", "32", "33", "255", "256",
	"2147483647", "2147483648", "-2147483648", "-2147483649", "4294967295", "4294967296", "4294967297", "9007199254740992", "1e21", "1e-7", "5e-324",
	"1.7976931348623157e308", "0.1", "0.2", "1.5", "-1.5", "123456789",
	`""`, `" "`, `" 12 "`, `"0x10"`, `"1e3"`, `"-0"`, `"Infinity"`, `"abc"`, `"abd"`, `"1"`, `"10"`, `"9"`, `"a"`, `"\ud800"`, `"\udc00"`, `"😀"`, `"￿"`, `"\n"`, `"0b11"`, `"1_0"`,
	"null", "undefined", "true", "false", "0n", "1n", "-1n", "18446744073709551616n", "[]", "{}", "/a/", "`t`", "void 0",
}

var coreGrid = []string{"0", "-0", "NaN", "Infinity", "-Infinity", "1", "-1", "2147483648", "4294967295", `""`, `"abc"`, `"\ud800"`, "null", "undefined", "true", "1n", "[]"}

var binops = []string{"+", "-", "*", "/", "%", "**", "==", "!=", "===", "!==", "<", "<=", ">", ">=", "<<", ">>", ">>>", "&", "|", "^", "&&", "||", "??", ","}
var unops = []string{"-", "+", "!", "~", "typeof ", "void "}

type FoldCase struct {
	Expr string `json:"expr"`
	Site string `json:"site"` // plain | const | enum | define
}

func operand(s string) string {
	if strings.HasPrefix(s, "-") || s == "{}" || s == "void 0" {
		return "(" + s + ")"
	}
	return s
}

func foldSource(c FoldCase) (string, api.TransformOptions) {
	opts := api.TransformOptions{MinifySyntax: true, LogLevel: api.LogLevelSilent}
	switch c.Site {
	case "const":
		return "const c = (" + c.Expr + ");\nx = c;", opts
	case "enum":
		opts.Loader = api.LoaderTS
		return "enum E { A = (" + c.Expr + ") }\nx = E.A;", opts
	case "define":
		opts.Define = map[string]string{"DEF_L": "1", "DEF_S": `"a"`}
		return "x = (" + c.Expr + ");", opts
	}
	return "x = (" + c.Expr + ");", opts
}

// For the const and enum sites the script is wrapped in a function so that repeated evaluation in
// one shared context does not redeclare anything.
func wrapForEval(site, code string) string {
	if site == "const" || site == "enum" {
		return "(function(){" + code + "\n})(); x"
	}
	return code
}

func refExpr(c FoldCase) string {
	if c.Site == "define" {
		return strings.ReplaceAll(strings.ReplaceAll(c.Expr, "DEF_L", "1"), "DEF_S", `"a"`)
	}
	return c.Expr
}

func isPowSpecial(expr string) bool {
	// known finding C03-pow-special: 1 ** NaN, 1 ** ±Infinity, (-1) ** ±Infinity
	e := strings.ReplaceAll(strings.ReplaceAll(strings.ReplaceAll(expr, " ", ""), "(", ""), ")", "")
	switch e {
	case "1**NaN", "1**Infinity", "1**-Infinity", "-1**Infinity", "-1**-Infinity":
		return true
	}
	return false
}

// judgeFold evaluates a batch of fold cases.
func judgeFold(cases []FoldCase) ([]vdrv.Verdict, []string) {
	verdicts := make([]vdrv.Verdict, len(cases))
	outs := make([]string, len(cases))
	var codes []string
	idx := []int{}
	for i, c := range cases {
		src, opts := foldSource(c)
		r := api.Transform(src, opts)
		if len(r.Errors) > 0 {
			// esbuild refusing is judged by asking V8 whether the plain JS form is valid
			outs[i] = "ERROR: " + r.Errors[0].Text
			codes = append(codes, "x = ("+refExpr(c)+");", "x = ("+refExpr(c)+");")
			idx = append(idx, i)
			continue
		}
		out := string(r.Code)
		outs[i] = out
		codes = append(codes, "x = ("+refExpr(c)+");", wrapForEval(c.Site, out))
		idx = append(idx, i)
	}
	res, err := W.Batch(codes, "")
	if err != nil {
		for i := range verdicts {
			verdicts[i] = vdrv.Skip("node-infra")
		}
		return verdicts, outs
	}
	for k, i := range idx {
		ref, got := res[2*k], res[2*k+1]
		c := cases[i]
		if strings.HasPrefix(outs[i], "ERROR: ") {
			if strings.HasPrefix(ref, "parse-error") {
				verdicts[i] = vdrv.Skip("invalid-expression")
			} else if c.Site == "enum" {
				verdicts[i] = vdrv.Skip("enum-refused")
			} else {
				verdicts[i] = vdrv.Fail("esbuild rejects an expression V8 accepts: "+outs[i], ref, outs[i])
			}
			continue
		}
		if strings.HasPrefix(ref, "parse-error") {
			verdicts[i] = vdrv.Skip("invalid-expression")
			continue
		}
		folded := !strings.Contains(stripParens(outs[i]), stripParens(refExpr(c)))
		cls := []string{"site=" + c.Site}
		if folded {
			cls = append(cls, "folded")
		}
		if ref == got {
			verdicts[i] = vdrv.Pass(folded, cls...)
			verdicts[i].Observed = strings.TrimSpace(outs[i]) + "  ⇒  " + got
			continue
		}
		// exponentiation: finite non-special results may differ by rounding (see ulpClose)
		if strings.Contains(c.Expr, "**") && ulpClose(ref, got) {
			verdicts[i] = vdrv.Pass(folded, append(cls, "pow-rounding")...)
			continue
		}
		v := vdrv.Fail(fmt.Sprintf("compile-time value differs from V8 for %s at site %s; output: %s", c.Expr, c.Site, strings.TrimSpace(outs[i])), ref, got)
		if isPowSpecial(c.Expr) {
			v.Known = "C03-pow-special"
		}
		verdicts[i] = v
	}
	return verdicts, outs
}

func stripParens(s string) string {
	return strings.NewReplacer("(", "", ")", "", " ", "", "\n", "", "\t", "").Replace(s)
}

func normWS(s string) string {
	return strings.Join(strings.Fields(s), "")
}

// ulpClose: both results are finite numbers "v:n:<16hex>(...)" whose bit patterns differ by at most 4096, i.e. a relative difference below 2^-40. The language defines `**` only as "an implementation-approximated value"; neither Go's nor V8's pow is correctly rounded, and V8's error grows with the exponent (0.1 ** 255 is 113 units off Go's result, which is the more accurate one). Genuine folding defects found so far were off by orders of magnitude.
func ulpClose(a, b string) bool {
	var x, y uint64
	if _, err := fmt.Sscanf(a, "v:n:%16x(", &x); err != nil {
		return false
	}
	if _, err := fmt.Sscanf(b, "v:n:%16x(", &y); err != nil {
		return false
	}
	const expMask = 0x7ff0000000000000
	if x&expMask == expMask || y&expMask == expMask {
		return false // NaN/Infinity must be exact
	}
	d := int64(x - y)
	return d >= -4096 && d <= 4096
}

func enumerateFold(thorough bool, seed uint64) []FoldCase {
	var cases []FoldCase
	sites := []string{"plain", "const", "enum"}
	add := func(e string, core bool) {
		for _, s := range sites {
			cases = append(cases, FoldCase{e, s})
		}
		_ = core
	}
	inCore := map[string]bool{}
	for _, g := range coreGrid {
		inCore[g] = true
	}
	slices := uint64(8)
	k := 0
	for _, op := range binops {
		for _, a := range grid {
			for _, b := range grid {
				k++
				core := inCore[a] && inCore[b]
				if !thorough && !core && uint64(k)%slices != seed%slices {
					continue
				}
				add(operand(a)+" "+op+" "+operand(b), core)
			}
		}
	}
	for _, op := range unops {
		for _, a := range grid {
			add(op+operand(a), true)
			for _, op2 := range unops {
				add(op2+"("+op+operand(a)+")", true)
			}
		}
	}
	for _, a := range grid {
		for _, b := range coreGrid[:6] {
			add(operand(a)+" ? "+operand(b)+" : 7", true)
			add("!"+operand(a)+" ? "+operand(b)+" : 7", true)
		}
	}
	// define site: identifiers replaced by constants, then folded
	for _, op := range binops {
		for _, b := range coreGrid {
			cases = append(cases, FoldCase{"DEF_L " + op + " " + operand(b), "define"}, FoldCase{operand(b) + " " + op + " DEF_S", "define"})
		}
	}
	return cases
}

func replayFold(raw json.RawMessage) vdrv.Verdict {
	var c FoldCase
	if err := json.Unmarshal(raw, &c); err != nil {
		return vdrv.Skip("bad-replay")
	}
	vs, _ := judgeFold([]FoldCase{c})
	vs[0].Known = "" // a replay is judged on its own; the driver knows whether it is a listed finding
	return vs[0]
}

func runFoldGrid(t *testing.T) {
	H.Rule("fold", "bounded-exhaustive: every binary operator × grid × grid, unary × grid (depth 2), conditional; each pushed through the minify-syntax, leading-const, TS-enum and define sites; oracle V8 value of the unfolded expression (Object.is + typeof via canonical value); non-trivial = esbuild's output differs from the input text (a fold happened). Quick runs the core grid plus one of 8 slices chosen by the seed.")
	cases := enumerateFold(H.Thorough(), H.Seed)
	var mine []FoldCase
	for i, c := range cases {
		if H.MySlice(i) {
			mine = append(mine, c)
		}
	}
	H.Exhaustive("fold", H.Thorough())
	const B = 400
	for lo := 0; lo < len(mine); lo += B {
		hi := lo + B
		if hi > len(mine) {
			hi = len(mine)
		}
		vs, _ := judgeFold(mine[lo:hi])
		for i, v := range vs {
			c := mine[lo+i]
			H.Report(t, "fold", c.Site+"|"+c.Expr, c, v)
		}
	}
}

// rapid: deeper random constant expressions (depth 2-3 over the grid)
func genConstExpr(t *rapid.T, depth int) string {
	if depth == 0 || rapid.IntRange(0, 9).Draw(t, "leaf") < 2 {
		return operand(rapid.SampledFrom(grid).Draw(t, "g"))
	}
	switch rapid.IntRange(0, 9).Draw(t, "k") {
	case 0:
		return rapid.SampledFrom(unops).Draw(t, "u") + "(" + genConstExpr(t, depth-1) + ")"
	case 1:
		return "(" + genConstExpr(t, depth-1) + " ? " + genConstExpr(t, depth-1) + " : " + genConstExpr(t, depth-1) + ")"
	default:
		op := rapid.SampledFrom(binops).Draw(t, "op")
		l, r := genConstExpr(t, depth-1), genConstExpr(t, depth-1)
		if op == "**" {
			l = "(" + l + ")"
		}
		if op == "??" || op == "||" || op == "&&" {
			return "((" + l + ") " + op + " (" + r + "))"
		}
		return "(" + l + " " + op + " " + r + ")"
	}
}

func runFoldDeep(t *testing.T) {
	H.Rule("folddeep", "rapid: constant expression trees of depth ≤3 over the same grid and operator alphabet, random site; same oracle")
	H.SetupRapid("folddeep", H.N(6000, 200000))
	rapid.Check(t, func(rt *rapid.T) {
		c := FoldCase{Expr: genConstExpr(rt, rapid.IntRange(2, 3).Draw(rt, "depth")), Site: rapid.SampledFrom([]string{"plain", "const", "enum"}).Draw(rt, "site")}
		vs, _ := judgeFold([]FoldCase{c})
		H.Report(rt, "folddeep", c.Site+"|"+c.Expr, c, vs[0])
	})
}

// ----------------------------------------------------------------------------- C03.b programs

type ProgCase struct {
	Code       string `json:"code"`
	Syntax     bool   `json:"minify_syntax"`
	Idents     bool   `json:"minify_identifiers"`
	Whitespace bool   `json:"minify_whitespace"`
	KeepNames  bool   `json:"keep_names"`
	Strict     bool   `json:"strict"`
	Format     string `json:"format,omitempty"`
}

func judgeProg(c ProgCase) vdrv.Verdict {
	ref, err := W.Script(c.Code, false)
	if err != nil {
		return vdrv.Skip("node-infra")
	}
	if ref.ParseError != "" {
		return vdrv.Skip("generator-invalid:" + ref.ParseError)
	}
	if ref.Timeout || ref.Overflow {
		return vdrv.Skip("reference-timeout-or-overflow")
	}
	ref2, err := W.Script(c.Code, false)
	if err != nil || ref2.Trace() != ref.Trace() {
		return vdrv.Skip("nondeterministic-reference")
	}
	opts := api.TransformOptions{MinifySyntax: c.Syntax, MinifyIdentifiers: c.Idents, MinifyWhitespace: c.Whitespace, KeepNames: c.KeepNames, LogLevel: api.LogLevelSilent}
	switch c.Format {
	case "iife":
		opts.Format = api.FormatIIFE
	}
	r := api.Transform(c.Code, opts)
	if len(r.Errors) > 0 {
		return vdrv.Fail("esbuild rejects a program V8 accepts: "+r.Errors[0].Text, "accepted", r.Errors[0].Text)
	}
	out := string(r.Code)
	got, err := W.Script(out, false)
	if err != nil {
		return vdrv.Skip("node-infra")
	}
	if got.Timeout {
		got, err = W.Script(out, false)
		if err != nil || got.Timeout {
			return vdrv.Fail("minified program does not terminate", ref.Trace(), "TIMEOUT\n"+out)
		}
	}
	nontrivial := len(ref.Events) >= 3 && normWS(out) != normWS(c.Code)
	cls := []string{fmt.Sprintf("flags=s%v,i%v,w%v", b2i(c.Syntax), b2i(c.Idents), b2i(c.Whitespace))}
	if strings.HasPrefix(ref.End, "throw") {
		cls = append(cls, "ends-in-throw")
	}
	if ref.Trace() == got.Trace() {
		v := vdrv.Pass(nontrivial, cls...)
		v.Observed = fmt.Sprintf("%d events; output %d bytes", len(ref.Events), len(out))
		return v
	}
	v := vdrv.Fail("trace of minified program differs", ref.Trace(), got.Trace()+"\n--- output\n"+out)
	if c.KeepNames && strings.Contains(got.End, "TypeError") {
		// known finding C03-keep-names-self-reassigning-function: `__name(f, "f")` is placed after the text of a
		// function declaration; a hoisted function that is called earlier and reassigns its own binding hands
		// __name a non-object. Signature: the failure disappears when the helper tolerates a non-function target.
		if repaired := nameHelperRe.ReplaceAllString(out, `(typeof $2=="function"&&$0)`); repaired != out {
			if got2, err := W.Script(repaired, false); err == nil && got2.Trace() == ref.Trace() {
				v.Known = "C03-keep-names-self-reassigning-function"
			}
		}
	}
	return v
}

var nameHelperRe = regexp.MustCompile(`([\w$]+)\(([\w$]+),\s*"name",\s*\{\s*value(?::\s*[\w$]+)?,\s*configurable:\s*(?:true|!0)\s*\}\)`)

func b2i(b bool) int {
	if b {
		return 1
	}
	return 0
}

func replayProg(raw json.RawMessage) vdrv.Verdict {
	var c ProgCase
	if err := json.Unmarshal(raw, &c); err != nil {
		return vdrv.Skip("bad-replay")
	}
	return judgeProg(c)
}

func runProg(t *testing.T) {
	H.Rule("prog", "rapid: terminating probe-instrumented programs (jsgen, all ES2022 features) × 7 non-empty minify flag subsets × keep-names × {no format, iife}; oracle: V8 trace (host calls with canonical values, termination) of input vs output; non-trivial = ≥3 events and output differs from input modulo whitespace")
	H.SetupRapid("prog", H.N(2500, 150000))
	rapid.Check(t, func(rt *rapid.T) {
		feats := jsgen.FAll &^ jsgen.FAsync &^ jsgen.FAsyncGenerators &^ jsgen.FForAwait
		c := ProgCase{}
		bits := rapid.IntRange(1, 7).Draw(rt, "flags")
		c.Syntax, c.Idents, c.Whitespace = bits&1 != 0, bits&2 != 0, bits&4 != 0
		c.KeepNames = rapid.IntRange(0, 4).Draw(rt, "keepnames") == 0
		c.Strict = rapid.Bool().Draw(rt, "strict")
		if rapid.IntRange(0, 3).Draw(rt, "fmt") == 0 {
			c.Format = "iife"
			c.Strict = true // the iife wrapper must not change sloppy top-level semantics
		}
		c.Code = jsgen.Program(rt, jsgen.Config{Features: feats, Strict: c.Strict, MaxDepth: 3, MaxStmts: 7})
		H.Report(rt, "prog", c.Code+fmt.Sprint(bits, c.KeepNames, c.Format), c, judgeProg(c))
	})
}

func runProgAsync(t *testing.T) {
	H.Rule("progasync", "as prog, with async functions/await in a single sequential chain inside an async main")
	H.SetupRapid("progasync", H.N(800, 40000))
	rapid.Check(t, func(rt *rapid.T) {
		c := ProgCase{}
		bits := rapid.IntRange(1, 7).Draw(rt, "flags")
		c.Syntax, c.Idents, c.Whitespace = bits&1 != 0, bits&2 != 0, bits&4 != 0
		c.Code = jsgen.Program(rt, jsgen.Config{Features: jsgen.FAll, WrapAsync: true, MaxDepth: 3, MaxStmts: 6})
		H.Report(rt, "progasync", c.Code+fmt.Sprint(bits), c, judgeProg(c))
	})
}

var subs = map[string]vdrv.ReplayFunc{"fold": replayFold, "folddeep": replayFold, "prog": replayProg, "progasync": replayProg, "xmod": replayX}

func setup(t *testing.T) {
	H = vdrv.New("C03")
	var err error
	W, err = noderun.Start("")
	if err != nil {
		t.Fatalf("INFRA: %v", err)
	}
}

func TestCheck(t *testing.T) {
	setup(t)
	defer W.Close()
	complete := false
	defer func() { H.Finish(complete) }()
	H.RunReplays(t, subs)
	H.Sub(t, "fold", runFoldGrid)
	H.Sub(t, "folddeep", runFoldDeep)
	H.Sub(t, "prog", runProg)
	H.Sub(t, "progasync", runProgAsync)
	H.Sub(t, "xmod", runXmod)
	complete = true
}

func TestReplay(t *testing.T) {
	setup(t)
	defer W.Close()
	H.ReplayOne(t, subs)
}

package c03

import (
	"encoding/json"
	"fmt"
	"strings"
	"testing"

	"github.com/evanw/esbuild/pkg/api"
	"github.com/evanw/esbuild/verif/vdrv"
	"pgregory.net/rapid"
)

// ----------------------------------------------------------------------------- C03.c constants that arrive late
//
// Constant folding happens in two places: in the parser (same-file constants, `define`) and again while
// printing, after the linker has inlined constants and enum values that come from OTHER modules. The
// second path only exists in bundles, so the single-file sub-checks never reach it.

// XCase is one bundle: k supplies named constants through one mechanism, entry uses them.
type XCase struct {
	Mech   string            `json:"mechanism"` // import-const | import-enum | import-const-enum | define | same-file
	Consts map[string]string `json:"consts"`    // name -> literal source
	Body   string            `json:"body"`      // statements using the names (K0, K1, …) and probes p(id, v)
	Idents bool              `json:"minify_identifiers"`
	WS     bool              `json:"minify_whitespace"`
}

var constPool = []string{"false", "true", "0", "1", "-1", `""`, `"a"`, "null", "void 0", "NaN", "2", `"0"`}
var enumPool = []string{"0", "1", "-1", `""`, `"a"`, "2", `"0"`, "NaN"}

func (c XCase) names() []string {
	var ns []string
	for i := 0; i < len(c.Consts); i++ {
		ns = append(ns, fmt.Sprintf("K%d", i))
	}
	return ns
}

// reference: the body with every constant replaced by its literal (what the program means).
func (c XCase) reference() string {
	body := c.Body
	for _, n := range c.names() {
		body = strings.ReplaceAll(body, n, "("+c.Consts[n]+")")
	}
	return "(function () {\n" + body + "\n})();\n"
}

func (c XCase) build() (string, string) {
	files := map[string]string{}
	body := c.Body
	opts := api.BuildOptions{LogLevel: api.LogLevelSilent, Bundle: true, Write: false, Format: api.FormatIIFE,
		MinifySyntax: true, MinifyIdentifiers: c.Idents, MinifyWhitespace: c.WS, Outfile: "out.js", EntryPoints: []string{"mem:entry.ts"}}
	var kb strings.Builder
	switch c.Mech {
	case "import-const":
		for _, n := range c.names() {
			fmt.Fprintf(&kb, "export const %s = %s;\n", n, c.Consts[n])
		}
		files["k.ts"] = kb.String()
		body = "import { " + strings.Join(c.names(), ", ") + " } from \"mem:k.ts\";\n" + body
	case "import-enum", "import-const-enum":
		kw := "enum"
		if c.Mech == "import-const-enum" {
			kw = "const enum"
		}
		fmt.Fprintf(&kb, "export %s E {\n", kw)
		for _, n := range c.names() {
			fmt.Fprintf(&kb, "  %s = %s,\n", n, c.Consts[n])
		}
		kb.WriteString("}\n")
		files["k.ts"] = kb.String()
		for _, n := range c.names() {
			body = strings.ReplaceAll(body, n, "E."+n)
		}
		body = "import { E } from \"mem:k.ts\";\n" + body
	case "define":
		opts.Define = map[string]string{}
		for _, n := range c.names() {
			v := c.Consts[n]
			if v == "void 0" {
				v = "undefined"
			}
			if v == "-1" || v == "NaN" {
				// define values must be JSON or an identifier: use a same-file const for these
				body = fmt.Sprintf("const %s = %s;\n", n, c.Consts[n]) + body
				continue
			}
			opts.Define[n] = v
		}
	default: // same-file
		var pre strings.Builder
		for _, n := range c.names() {
			fmt.Fprintf(&pre, "const %s = %s;\n", n, c.Consts[n])
		}
		body = pre.String() + body
	}
	files["entry.ts"] = body
	opts.Plugins = []api.Plugin{{Name: "mem", Setup: func(b api.PluginBuild) {
		b.OnResolve(api.OnResolveOptions{Filter: "^mem:"}, func(a api.OnResolveArgs) (api.OnResolveResult, error) {
			return api.OnResolveResult{Path: strings.TrimPrefix(a.Path, "mem:"), Namespace: "mem"}, nil
		})
		b.OnLoad(api.OnLoadOptions{Filter: ".*", Namespace: "mem"}, func(a api.OnLoadArgs) (api.OnLoadResult, error) {
			s := files[a.Path]
			return api.OnLoadResult{Contents: &s, Loader: api.LoaderTS}, nil
		})
	}}}
	r := api.Build(opts)
	if len(r.Errors) > 0 {
		return "", r.Errors[0].Text
	}
	if len(r.OutputFiles) != 1 {
		return "", fmt.Sprintf("%d output files", len(r.OutputFiles))
	}
	return string(r.OutputFiles[0].Contents), ""
}

func judgeX(c XCase) vdrv.Verdict {
	refCode := c.reference()
	ref, err := W.Script(refCode, false)
	if err != nil {
		return vdrv.Skip("node-infra")
	}
	if ref.ParseError != "" {
		return vdrv.Skip("generator-invalid:" + ref.ParseError)
	}
	if ref.Timeout || ref.Overflow {
		return vdrv.Skip("reference-timeout-or-overflow")
	}
	out, berr := c.build()
	if berr != "" {
		return vdrv.Fail("esbuild rejects a bundle whose meaning V8 accepts: "+berr, "accepted", berr)
	}
	got, err := W.Script(out, false)
	if err != nil {
		return vdrv.Skip("node-infra")
	}
	cls := []string{"mech=" + c.Mech}
	inlined := true
	for _, n := range c.names() {
		if strings.Contains(out, n+" ") || strings.Contains(out, n+"=") || strings.Contains(out, "."+n) {
			inlined = false
		}
	}
	if inlined {
		cls = append(cls, "all-constants-inlined")
	}
	if ref.Trace() == got.Trace() {
		v := vdrv.Pass(len(ref.Events) >= 2 && strings.Contains(c.Body, "p("), cls...)
		v.Observed = fmt.Sprintf("%d events; output %d bytes", len(ref.Events), len(out))
		return v
	}
	return vdrv.Fail("minified bundle with late-inlined constants behaves differently from the program with the constants written out", ref.Trace(), got.Trace()+"\n--- output\n"+out)
}

func replayX(raw json.RawMessage) vdrv.Verdict {
	var c XCase
	if err := json.Unmarshal(raw, &c); err != nil {
		return vdrv.Skip("bad-replay")
	}
	return judgeX(c)
}

type xgen struct {
	t      *rapid.T
	names  []string
	nextID int
}

func (g *xgen) probe() string {
	g.nextID++
	v := rapid.SampledFrom([]string{"0", "1", `""`, `"x"`, "null", "void 0", "true", "false", "{}"}).Draw(g.t, "pv")
	return fmt.Sprintf("p(%d, %s)", g.nextID, v)
}

func (g *xgen) leaf() string {
	switch rapid.IntRange(0, 5).Draw(g.t, "leaf") {
	case 0, 1:
		return g.probe()
	case 2, 3, 4:
		return rapid.SampledFrom(g.names).Draw(g.t, "k")
	default:
		return rapid.SampledFrom([]string{"0", "1", `"s"`, "null", "true", "false", "void 0"}).Draw(g.t, "lit")
	}
}

func (g *xgen) expr(d int) string {
	if d <= 0 {
		return g.leaf()
	}
	switch rapid.IntRange(0, 13).Draw(g.t, "op") {
	case 0, 1:
		return "(" + g.expr(d-1) + " && " + g.expr(d-1) + ")"
	case 2, 3:
		return "(" + g.expr(d-1) + " || " + g.expr(d-1) + ")"
	case 4:
		return "(" + g.expr(d-1) + " ?? " + g.expr(d-1) + ")"
	case 5, 6:
		return "(" + g.expr(d-1) + " ? " + g.expr(d-1) + " : " + g.expr(d-1) + ")"
	case 7:
		return "!" + g.expr(d-1)
	case 8:
		return "(" + g.expr(d-1) + rapid.SampledFrom([]string{" === ", " == ", " !== ", " != "}).Draw(g.t, "eq") + g.expr(d-1) + ")"
	case 9:
		return "(" + g.expr(d-1) + ", " + g.expr(d-1) + ")"
	case 10:
		return "typeof " + g.expr(d-1)
	case 11:
		return "(" + g.expr(d-1) + " + " + g.expr(d-1) + ")"
	default:
		return g.leaf()
	}
}

func (g *xgen) stmt() string {
	g.nextID++
	id := g.nextID
	e := g.expr(rapid.IntRange(1, 3).Draw(g.t, "depth"))
	switch rapid.IntRange(0, 8).Draw(g.t, "stmt") {
	case 0, 1:
		return fmt.Sprintf("log(%d, %s);", id, e)
	case 2:
		return fmt.Sprintf("if (%s) log(%d, \"then\"); else log(%d, \"else\");", e, id, id)
	case 3:
		return fmt.Sprintf("if (%s) log(%d, \"then\");", e, id)
	case 4:
		return fmt.Sprintf("%s && log(%d, \"and\");", e, id)
	case 5:
		return fmt.Sprintf("%s || log(%d, \"or\");", e, id)
	case 6:
		return fmt.Sprintf("while (%s) { log(%d, \"loop\"); break; }", e, id)
	case 7:
		return fmt.Sprintf("log(%d, (function () { if (%s) return 1; return 2; })());", id, e)
	default:
		return fmt.Sprintf("switch (%s) { case %s: log(%d, \"case\"); break; default: log(%d, \"default\"); }", e, rapid.SampledFrom(g.names).Draw(g.t, "casek"), id, id)
	}
}

func runXmod(t *testing.T) {
	H.Rule("xmod", "rapid: 2–6 named constants (false/true/0/1/-1/\"\"/\"a\"/null/undefined/NaN/…) supplied through one of five mechanisms — `export const` imported from another module, a TypeScript enum or const enum imported from another module (all three are inlined by the linker and folded only while printing), `define`, or same-file `const` — and 1–6 statements (log/if/&&/||/while/return/switch) whose tests are trees (depth ≤3) over && || ?? ?: ! == === , typeof + with side-effect probes, the constants and literals as leaves; bundled with minify-syntax (× identifiers × whitespace), iife. Oracle: V8 trace of the program with the constants written out as literals vs V8 trace of the bundle. Non-trivial = at least one probe and ≥2 events.")
	H.SetupRapid("xmod", H.N(4000, 80000))
	rapid.Check(t, func(rt *rapid.T) {
		c := XCase{Consts: map[string]string{}}
		c.Mech = rapid.SampledFrom([]string{"import-const", "import-const", "import-enum", "import-const-enum", "define", "same-file"}).Draw(rt, "mech")
		n := rapid.IntRange(2, 6).Draw(rt, "nconsts")
		pool := constPool
		if strings.Contains(c.Mech, "enum") {
			pool = enumPool
		}
		g := &xgen{t: rt}
		for i := 0; i < n; i++ {
			name := fmt.Sprintf("K%d", i)
			c.Consts[name] = rapid.SampledFrom(pool).Draw(rt, "value")
			g.names = append(g.names, name)
		}
		var sb strings.Builder
		for i, k := 0, rapid.IntRange(1, 6).Draw(rt, "nstmts"); i < k; i++ {
			sb.WriteString(g.stmt() + "\n")
		}
		c.Body = sb.String()
		c.Idents, c.WS = rapid.Bool().Draw(rt, "idents"), rapid.Bool().Draw(rt, "ws")
		H.Report(rt, "xmod", fmt.Sprint(c), c, judgeX(c))
	})
}

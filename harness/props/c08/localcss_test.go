package c08

import (
	"encoding/json"
	"fmt"
	"runtime"
	"sort"
	"strings"
	"sync"
	"testing"
	"time"

	"github.com/evanw/esbuild/pkg/api"
	"github.com/evanw/esbuild/verif/vdrv"
	"pgregory.net/rapid"
)

// localcss: several entry points (linked in parallel when code splitting is off) that reach local-css
// (CSS-module) files whose local names collide — the same file from several entries, and different
// files with the same base name and class names. Name assignment shares state between the per-entry
// linkers, so its result must not depend on which entry point gets there first.

type LocalCSSCase struct {
	Files     map[string]string `json:"files"`
	Entries   []string          `json:"entries"`
	MinifyIDs bool              `json:"minify_identifiers"`
	Splitting bool              `json:"splitting"`
	Cache     bool              `json:"mangle_cache"`
	Procs     []int             `json:"gomaxprocs_per_run"`
	Delays    [][]int           `json:"load_delays_100us_per_run"`
}

func buildLocalCSS(c LocalCSSCase, run int) (string, error) {
	files := c.Files
	var mu sync.Mutex
	order := 0
	o := api.BuildOptions{LogLevel: api.LogLevelSilent, Write: false, Bundle: true, Outdir: "/out", AbsWorkingDir: "/in", Metafile: true, MinifyIdentifiers: c.MinifyIDs,
		Loader: map[string]api.Loader{".css": api.LoaderLocalCSS}, Splitting: c.Splitting}
	if c.Splitting {
		o.Format = api.FormatESModule
	}
	if c.Cache {
		o.MangleProps = "_$"
		o.MangleCache = map[string]interface{}{}
	}
	for _, e := range c.Entries {
		o.EntryPoints = append(o.EntryPoints, "/in/"+e)
	}
	o.Plugins = []api.Plugin{{Name: "mem", Setup: func(b api.PluginBuild) {
		b.OnResolve(api.OnResolveOptions{Filter: ".*"}, func(a api.OnResolveArgs) (api.OnResolveResult, error) {
			p := a.Path
			if strings.HasPrefix(p, "./") || strings.HasPrefix(p, "../") {
				dir := a.ResolveDir
				if dir == "" {
					dir = "/in"
				}
				p = clean(dir + "/" + p)
			}
			return api.OnResolveResult{Path: p, Namespace: "mem"}, nil
		})
		b.OnLoad(api.OnLoadOptions{Filter: ".*", Namespace: "mem"}, func(a api.OnLoadArgs) (api.OnLoadResult, error) {
			s, ok := files[strings.TrimPrefix(a.Path, "/in/")]
			if !ok {
				return api.OnLoadResult{}, fmt.Errorf("no such file %s", a.Path)
			}
			mu.Lock()
			k := order
			order++
			mu.Unlock()
			if run < len(c.Delays) && len(c.Delays[run]) > 0 {
				time.Sleep(time.Duration(c.Delays[run][k%len(c.Delays[run])]) * 100 * time.Microsecond)
			}
			l := api.LoaderJS
			if strings.HasSuffix(a.Path, ".css") {
				l = api.LoaderLocalCSS
			}
			dir := a.Path[:strings.LastIndex(a.Path, "/")]
			return api.OnLoadResult{Contents: &s, Loader: l, ResolveDir: dir}, nil
		})
	}}}
	r := api.Build(o)
	if len(r.Errors) > 0 {
		return "", fmt.Errorf("%s", r.Errors[0].Text)
	}
	var sb strings.Builder
	sort.Slice(r.OutputFiles, func(i, j int) bool { return r.OutputFiles[i].Path < r.OutputFiles[j].Path })
	for _, f := range r.OutputFiles {
		fmt.Fprintf(&sb, "=== %s hash=%s\n%s\n", f.Path, f.Hash, f.Contents)
	}
	sb.WriteString("=== metafile\n" + r.Metafile)
	return sb.String(), nil
}

func clean(p string) string {
	parts := strings.Split(p, "/")
	var out []string
	for _, x := range parts {
		switch x {
		case "", ".":
		case "..":
			if len(out) > 0 {
				out = out[:len(out)-1]
			}
		default:
			out = append(out, x)
		}
	}
	return "/" + strings.Join(out, "/")
}

func judgeLocalCSS(c LocalCSSCase) vdrv.Verdict {
	old := runtime.GOMAXPROCS(0)
	defer runtime.GOMAXPROCS(old)
	var base string
	distinct := map[string]bool{}
	for run, procs := range c.Procs {
		runtime.GOMAXPROCS(procs)
		got, err := buildLocalCSS(c, run)
		if err != nil {
			return vdrv.Skip("build-error:" + err.Error())
		}
		if run == 0 {
			base = got
		} else if got != base {
			return vdrv.Fail(fmt.Sprintf("run %d (GOMAXPROCS=%d) of the same build differs from run 0 (GOMAXPROCS=%d): %s", run, procs, c.Procs[0], firstDiff([]byte(base), []byte(got))), base, got)
		}
		distinct[got] = true
	}
	v := vdrv.Pass(len(c.Entries) >= 2 && strings.Count(base, ".css") >= 1, fmt.Sprintf("entries=%d", len(c.Entries)), fmt.Sprintf("minify-ids=%v", c.MinifyIDs), fmt.Sprintf("splitting=%v", c.Splitting))
	v.Observed = fmt.Sprintf("%d runs identical", len(c.Procs))
	return v
}

func replayLocalCSS(raw json.RawMessage) vdrv.Verdict {
	var c LocalCSSCase
	if json.Unmarshal(raw, &c) != nil {
		return vdrv.Skip("bad-replay")
	}
	return judgeLocalCSS(c)
}

func runLocalCSS(t *testing.T) {
	H.Rule("localcss", "rapid: 2–6 entry points, each importing 1–3 local-css files out of a pool in which the same class/keyframe/id names recur (same file from several entries; different directories with equal base names) × minify-identifiers × splitting × mangle cache; 6 runs per case under GOMAXPROCS drawn from 1/2/3/4/8/16 with drawn load delays; oracle: outputs, hashes and metafile byte-identical across the runs; non-trivial = ≥2 entry points and CSS emitted")
	H.SetupRapid("localcss", H.N(240, 6000))
	rapid.Check(t, func(rt *rapid.T) {
		c := LocalCSSCase{Files: map[string]string{}}
		npool := rapid.IntRange(1, 4).Draw(rt, "ncss")
		var pool []string
		for i := 0; i < npool; i++ {
			dir := rapid.SampledFrom([]string{"components", "pages", "components/deep", "lib"}).Draw(rt, "dir")
			base := rapid.SampledFrom([]string{"button", "card", "index"}).Draw(rt, "base")
			p := fmt.Sprintf("%s/%s.module.css", dir, base)
			if _, dup := c.Files[p]; dup {
				continue
			}
			c.Files[p] = fmt.Sprintf(".btn { color: red; animation: spin 1s } .title_%d { width: %dpx } #main { top: 0 } @keyframes spin { to { top: 1px } } .btn:hover .inner { left: 0 }\n", i, i)
			pool = append(pool, p)
		}
		n := rapid.IntRange(2, 6).Draw(rt, "nentries")
		for e := 0; e < n; e++ {
			var sb strings.Builder
			k := rapid.IntRange(1, 3).Draw(rt, "nimports")
			for j := 0; j < k; j++ {
				p := pool[rapid.IntRange(0, len(pool)-1).Draw(rt, "css")]
				fmt.Fprintf(&sb, "import s%d from \"./%s\";\n", j, p)
			}
			fmt.Fprintf(&sb, "console.log(\"page%d\"", e)
			for j := 0; j < k; j++ {
				fmt.Fprintf(&sb, ", s%d.btn, s%d.inner, s%d.spin", j, j, j)
			}
			sb.WriteString(");\n")
			name := fmt.Sprintf("page%d.js", e)
			c.Files[name] = sb.String()
			c.Entries = append(c.Entries, name)
		}
		c.MinifyIDs = rapid.IntRange(0, 2).Draw(rt, "minify") == 0
		c.Splitting = rapid.IntRange(0, 3).Draw(rt, "splitting") == 0
		c.Cache = rapid.IntRange(0, 3).Draw(rt, "cache") == 0
		for r := 0; r < 6; r++ {
			c.Procs = append(c.Procs, rapid.SampledFrom([]int{1, 2, 3, 4, 8, 16}).Draw(rt, "procs"))
			c.Delays = append(c.Delays, rapid.SliceOfN(rapid.IntRange(0, 20), 0, 6).Draw(rt, "delays"))
		}
		c.Procs[0] = 1
		b, _ := json.Marshal(c)
		H.Report(rt, "localcss", string(b), c, judgeLocalCSS(c))
	})
}

// C08 — determinism: the same inputs and options give byte-identical results under every schedule.
// See DESIGN.md section 5 / C08.
package c08

import (
	"bytes"
	"encoding/json"
	"fmt"
	"hash/fnv"
	"os"
	"path/filepath"
	"runtime"
	"runtime/debug"
	"sort"
	"strings"
	"sync"
	"testing"
	"time"

	"github.com/evanw/esbuild/pkg/api"
	"github.com/evanw/esbuild/verif/projgen"
	"github.com/evanw/esbuild/verif/vdrv"
	"pgregory.net/rapid"
)

var H *vdrv.H

// Schedule is one perturbation of the run-time circumstances of a build.
type Schedule struct {
	Procs         int   `json:"gomaxprocs"`
	LoadDelays    []int `json:"load_delays_100us"`    // per input file (index into project.files; wraps), unit 100 µs
	ResolveDelays []int `json:"resolve_delays_100us"` // indexed by a hash of the import specifier
	Siblings      int   `json:"siblings"`             // concurrent builds of other projects in the same process
	Relocate      bool  `json:"relocate"`             // build the copy at the second absolute location
}

// Case is one determinism case: a project, sibling projects and the schedules to try.
type Case struct {
	Project   projgen.Project   `json:"project"`
	Siblings  []projgen.Project `json:"siblings,omitempty"`
	Schedules []Schedule        `json:"schedules"`
}

// snapshot is everything the property says must be identical.
type snapshot struct {
	outs     []projgen.Out
	metafile string
	cache    string
	diags    []string
}

func fmtLoc(l *api.Location, root string) string {
	if l == nil {
		return "-"
	}
	return fmt.Sprintf("%s|ns=%s|%d:%d+%d|%s|sugg=%s", strings.ReplaceAll(l.File, root, "<ROOT>"), l.Namespace, l.Line, l.Column, l.Length, strings.ReplaceAll(l.LineText, root, "<ROOT>"), l.Suggestion)
}

func fmtMsgs(kind string, msgs []api.Message, root string) []string {
	var out []string
	for _, m := range msgs {
		s := fmt.Sprintf("%s id=%s plugin=%s text=%s loc=%s", kind, m.ID, m.PluginName, strings.ReplaceAll(m.Text, root, "<ROOT>"), fmtLoc(m.Location, root))
		for _, n := range m.Notes {
			s += fmt.Sprintf(" note{%s @ %s}", strings.ReplaceAll(n.Text, root, "<ROOT>"), fmtLoc(n.Location, root))
		}
		out = append(out, s)
	}
	return out
}

func sortedJSON(m map[string]interface{}) string {
	if m == nil {
		return "null"
	}
	keys := make([]string, 0, len(m))
	for k := range m {
		keys = append(keys, k)
	}
	sort.Strings(keys)
	var sb strings.Builder
	sb.WriteString("{")
	for i, k := range keys {
		if i > 0 {
			sb.WriteString(",")
		}
		kb, _ := json.Marshal(k)
		vb, _ := json.Marshal(m[k])
		sb.Write(kb)
		sb.WriteString(":")
		sb.Write(vb)
	}
	sb.WriteString("}")
	return sb.String()
}

type recorder struct {
	mu    sync.Mutex
	order []string
}

func hashIdx(s string, n int) int {
	if n == 0 {
		return 0
	}
	f := fnv.New32a()
	f.Write([]byte(s))
	return int(f.Sum32() % uint32(n))
}

// schedulePlugin sleeps the drawn per-file / per-specifier durations and records the order in which loads
// finish sleeping. It returns empty results, so esbuild's default resolver and loader do the real work.
func schedulePlugin(p *projgen.Project, root string, s *Schedule, rec *recorder) api.Plugin {
	idx := map[string]int{}
	for i, f := range p.Files {
		idx[f.Path] = i
	}
	return api.Plugin{Name: "schedule", Setup: func(b api.PluginBuild) {
		b.OnResolve(api.OnResolveOptions{Filter: ".*"}, func(a api.OnResolveArgs) (api.OnResolveResult, error) {
			if s != nil && len(s.ResolveDelays) > 0 {
				if d := s.ResolveDelays[hashIdx(a.Path, len(s.ResolveDelays))]; d > 0 {
					time.Sleep(time.Duration(d) * 100 * time.Microsecond)
				}
			}
			return api.OnResolveResult{}, nil
		})
		b.OnLoad(api.OnLoadOptions{Filter: ".*"}, func(a api.OnLoadArgs) (api.OnLoadResult, error) {
			rel, err := filepath.Rel(root, a.Path)
			if err != nil {
				rel = a.Path
			}
			rel = filepath.ToSlash(rel)
			if s != nil && len(s.LoadDelays) > 0 {
				i, ok := idx[rel]
				if !ok {
					i = hashIdx(rel, len(s.LoadDelays))
				}
				if d := s.LoadDelays[i%len(s.LoadDelays)]; d > 0 {
					time.Sleep(time.Duration(d) * 100 * time.Microsecond)
				}
			}
			rec.mu.Lock()
			rec.order = append(rec.order, rel)
			rec.mu.Unlock()
			return api.OnLoadResult{}, nil
		})
	}}
}

func runOnce(p *projgen.Project, root string, s *Schedule) (snapshot, string, error) {
	rec := &recorder{}
	opts := p.BuildOptions(root, schedulePlugin(p, root, s, rec))
	r := api.Build(opts)
	outs, err := projgen.RelOutputs(root, r)
	if err != nil {
		return snapshot{}, "", err
	}
	sn := snapshot{outs: outs, metafile: r.Metafile, cache: sortedJSON(r.MangleCache)}
	sn.diags = append(fmtMsgs("error", r.Errors, root), fmtMsgs("warning", r.Warnings, root)...)
	return sn, strings.Join(rec.order, ","), nil
}

func clip(b []byte, n int) string {
	if len(b) > n {
		return string(b[:n]) + "…"
	}
	return string(b)
}

// firstDiff describes where two byte strings start to differ.
func firstDiff(a, b []byte) string {
	n := len(a)
	if len(b) < n {
		n = len(b)
	}
	i := 0
	for i < n && a[i] == b[i] {
		i++
	}
	lo := i - 60
	if lo < 0 {
		lo = 0
	}
	ha, hb := i+80, i+80
	if ha > len(a) {
		ha = len(a)
	}
	if hb > len(b) {
		hb = len(b)
	}
	return fmt.Sprintf("first difference at byte %d (lengths %d vs %d)\n  baseline: …%q\n  this run: …%q", i, len(a), len(b), a[lo:ha], b[lo:hb])
}

// diff returns "" when two snapshots agree, else (what differs, expected, observed).
func diff(base, got snapshot) (string, string, string) {
	var pa, pb []string
	for _, o := range base.outs {
		pa = append(pa, o.Path)
	}
	for _, o := range got.outs {
		pb = append(pb, o.Path)
	}
	if strings.Join(pa, "\n") != strings.Join(pb, "\n") {
		return "output-paths", strings.Join(pa, "\n"), strings.Join(pb, "\n")
	}
	for i := range base.outs {
		if !bytes.Equal(base.outs[i].Contents, got.outs[i].Contents) {
			return "contents:" + base.outs[i].Path, clip(base.outs[i].Contents, 3000), firstDiff(base.outs[i].Contents, got.outs[i].Contents)
		}
		if base.outs[i].Hash != got.outs[i].Hash {
			return "hash:" + base.outs[i].Path, base.outs[i].Hash, got.outs[i].Hash
		}
	}
	if base.metafile != got.metafile {
		return "metafile", clip([]byte(base.metafile), 3000), firstDiff([]byte(base.metafile), []byte(got.metafile))
	}
	if base.cache != got.cache {
		return "mangle-cache", base.cache, got.cache
	}
	if strings.Join(base.diags, "\n") != strings.Join(got.diags, "\n") {
		return "diagnostics", strings.Join(base.diags, "\n"), strings.Join(got.diags, "\n")
	}
	return "", "", ""
}

const longDirName = "a-second-and-much-longer-absolute-location/for-the-very-same-project-tree/nested"

// harness panics must never pass silently nor become verdicts: they are counted and turn the run into an INFRA error.
var harnessPanics []string

func judge(c Case) (v vdrv.Verdict) {
	defer func() {
		if r := recover(); r != nil {
			harnessPanics = append(harnessPanics, fmt.Sprintf("%v\n%s", r, debug.Stack()))
			v = vdrv.Skip("harness-panic")
		}
	}()
	return judgeCase(c)
}

func judgeCase(c Case) vdrv.Verdict {
	if len(c.Schedules) == 0 {
		return vdrv.Skip("no-schedules")
	}
	base, err := os.MkdirTemp("", "c08-")
	if err != nil {
		return vdrv.Skip("tempdir-io")
	}
	defer os.RemoveAll(base)
	root1 := filepath.Join(base, "p")
	root2 := filepath.Join(base, filepath.FromSlash(longDirName))
	for _, r := range []string{root1, root2} {
		if err := os.MkdirAll(r, 0o755); err != nil {
			return vdrv.Skip("tempdir-io")
		}
		if err := c.Project.WriteTo(r); err != nil {
			return vdrv.Skip("tempdir-io")
		}
	}
	var sibRoots []string
	for i := range c.Siblings {
		r := filepath.Join(base, fmt.Sprintf("sib%d", i))
		if err := os.MkdirAll(r, 0o755); err != nil {
			return vdrv.Skip("tempdir-io")
		}
		if err := c.Siblings[i].WriteTo(r); err != nil {
			return vdrv.Skip("tempdir-io")
		}
		sibRoots = append(sibRoots, r)
	}

	prevProcs := runtime.GOMAXPROCS(1)
	defer runtime.GOMAXPROCS(prevProcs)
	baseSnap, order0, err := runOnce(&c.Project, root1, nil)
	if err != nil {
		return vdrv.Skip("outputs-outside-root")
	}
	orders := map[string]bool{order0: true}
	var knownV *vdrv.Verdict

	for si := range c.Schedules {
		s := &c.Schedules[si]
		procs := s.Procs
		if procs < 1 {
			procs = 1
		}
		runtime.GOMAXPROCS(procs)
		root := root1
		if s.Relocate {
			root = root2
		}
		var wg sync.WaitGroup
		nsib := s.Siblings
		if nsib > len(c.Siblings) {
			nsib = len(c.Siblings)
		}
		for k := 0; k < nsib; k++ {
			wg.Add(1)
			go func(k int) {
				defer wg.Done()
				for rep := 0; rep < 2; rep++ {
					api.Build(c.Siblings[k].BuildOptions(sibRoots[k]))
				}
			}(k)
		}
		got, order, err := runOnce(&c.Project, root, s)
		wg.Wait()
		if err != nil {
			return vdrv.Skip("outputs-outside-root")
		}
		orders[order] = true
		if what, exp, obs := diff(baseSnap, got); what != "" {
			v := vdrv.Fail(fmt.Sprintf("schedule %d (GOMAXPROCS=%d, siblings=%d, relocated=%v) differs from the baseline run (GOMAXPROCS=1, no delays) in %s", si, procs, nsib, s.Relocate, what), exp, obs)
			if isInjectAbsPath(c, s, what, baseSnap, got, root1, root2) {
				// known finding: remember it, but keep judging the remaining aspects and schedules with the
				// injected file's absolute path masked, so that the search continues behind the finding
				v.Known = "C08-inject-abs-path-in-metafile"
				if knownV == nil {
					knownV = &v
				}
				b2, g2 := baseSnap, got
				b2.metafile = strings.ReplaceAll(b2.metafile, root1+"/"+c.Project.Opts.Inject[0], "<ROOT>/INJECT")
				g2.metafile = strings.ReplaceAll(g2.metafile, root2+"/"+c.Project.Opts.Inject[0], "<ROOT>/INJECT")
				if what2, exp2, obs2 := diff(b2, g2); what2 != "" {
					return vdrv.Fail(fmt.Sprintf("schedule %d (GOMAXPROCS=%d, siblings=%d, relocated=%v) differs from the baseline in %s (beyond the known inject path)", si, procs, nsib, s.Relocate, what2), exp2, obs2)
				}
				continue
			}
			return v
		}
	}
	if knownV != nil {
		return *knownV
	}

	o := c.Project.Opts
	nfiles := 0
	for _, f := range c.Project.Files {
		if f.Kind != projgen.KMeta {
			nfiles++
		}
	}
	cls := []string{fmt.Sprintf("bundle=%v", o.Bundle), fmt.Sprintf("splitting=%v", o.Splitting), "format=" + o.Format,
		fmt.Sprintf("minify=%v%v%v", b2i(o.MinifyWS), b2i(o.MinifyIDs), b2i(o.MinifySyntax)), "sourcemap=" + o.Sourcemap,
		fmt.Sprintf("metafile=%v", o.Metafile), fmt.Sprintf("mangle=%v/cache=%v", o.MangleProps, o.UseCache),
		fmt.Sprintf("arrival-orders=%d", len(orders)), "files=" + bucket(nfiles), fmt.Sprintf("outputs=%s", bucket(len(baseSnap.outs)))}
	nerr, nwarn := 0, 0
	diagFiles := map[string]bool{}
	for _, d := range baseSnap.diags {
		if strings.HasPrefix(d, "error") {
			nerr++
		} else {
			nwarn++
		}
		if i := strings.Index(d, "loc="); i >= 0 {
			diagFiles[strings.SplitN(d[i+4:], "|", 2)[0]] = true
		}
	}
	if nerr > 0 {
		cls = append(cls, "build-errors")
	}
	if nwarn > 0 {
		cls = append(cls, "warnings")
	}
	if len(diagFiles) >= 2 {
		cls = append(cls, "diagnostics-in-several-files")
	}
	if c.Project.Opts.Inject != nil {
		cls = append(cls, "inject")
	}
	if c.Project.Stdin != nil {
		cls = append(cls, "stdin")
	}
	hasCSS, hasAsset := false, false
	for _, ou := range baseSnap.outs {
		if strings.HasSuffix(ou.Path, ".css") {
			hasCSS = true
		}
		if strings.HasSuffix(ou.Path, ".png") || strings.HasSuffix(ou.Path, ".bin") {
			hasAsset = true
		}
	}
	if hasCSS {
		cls = append(cls, "css-output")
	}
	if hasAsset {
		cls = append(cls, "asset-output")
	}
	v := vdrv.Pass(nfiles >= 8 && len(orders) >= 2, cls...)
	v.Observed = fmt.Sprintf("%d input files, %d outputs, %d diagnostics, %d runs, %d distinct arrival orders", nfiles, len(baseSnap.outs), len(baseSnap.diags), len(c.Schedules)+1, len(orders))
	return v
}

// isInjectAbsPath is the signature of the known finding C08-inject-abs-path-in-metafile: the project uses
// Inject, the run was at the second location, only the metafile differs, and the two metafiles become
// equal once each project root is replaced by a fixed token.
func isInjectAbsPath(c Case, s *Schedule, what string, base, got snapshot, root1, root2 string) bool {
	if what != "metafile" || !s.Relocate || len(c.Project.Opts.Inject) == 0 {
		return false
	}
	a := strings.ReplaceAll(base.metafile, root1+"/"+c.Project.Opts.Inject[0], "<ROOT>/INJECT")
	b := strings.ReplaceAll(got.metafile, root2+"/"+c.Project.Opts.Inject[0], "<ROOT>/INJECT")
	return a == b && a != base.metafile
}

func b2i(b bool) int {
	if b {
		return 1
	}
	return 0
}

func bucket(n int) string {
	switch {
	case n < 8:
		return "<8"
	case n < 16:
		return "8-15"
	case n < 32:
		return "16-31"
	default:
		return "32+"
	}
}

func genSchedule(t *rapid.T, procs int, nfiles int, nsib int, relocate bool) Schedule {
	s := Schedule{Procs: procs, Relocate: relocate}
	if rapid.IntRange(0, 5).Draw(t, "nodelay") != 0 {
		s.LoadDelays = rapid.SliceOfN(rapid.IntRange(0, 30), nfiles, nfiles).Draw(t, "loaddelays")
	}
	if rapid.IntRange(0, 2).Draw(t, "resolvedelay") == 0 {
		s.ResolveDelays = rapid.SliceOfN(rapid.IntRange(0, 20), 7, 7).Draw(t, "resolvedelays")
	}
	s.Siblings = rapid.IntRange(0, nsib).Draw(t, "nsiblings")
	return s
}

func genCase(t *rapid.T) Case {
	var c Case
	c.Project = projgen.Gen(t, projgen.Config{MinFiles: 8, MaxFiles: 60, Diagnostics: true, AllowErrors: true, AllowRequire: true, Placeholders: true, InputMaps: true})
	nsib := rapid.IntRange(0, 2).Draw(t, "siblings")
	for i := 0; i < nsib; i++ {
		c.Siblings = append(c.Siblings, projgen.Gen(t, projgen.Config{MinFiles: 5, MaxFiles: 12}))
	}
	relocAt := rapid.IntRange(0, 3).Draw(t, "relocate-at")
	for i, procs := range []int{1, 2, 4, 16} {
		c.Schedules = append(c.Schedules, genSchedule(t, procs, len(c.Project.Files), nsib, i == relocAt || rapid.IntRange(0, 3).Draw(t, "reloc") == 0))
	}
	return c
}

func caseKey(c Case) string {
	b, _ := json.Marshal(c.Project)
	return string(b)
}

func replayDet(raw json.RawMessage) vdrv.Verdict {
	var c Case
	if err := json.Unmarshal(raw, &c); err != nil {
		return vdrv.Skip("bad-replay")
	}
	v := judge(c)
	v.Known = ""
	return v
}

func runDet(t *testing.T) {
	H.Rule("det", "rapid: projgen projects of 8–60 files (ESM modules with static/dynamic/re-export edges and cycles, 1–3 entry points sharing modules, identical top-level names, `_`-suffixed properties, CSS with @import/url(), file/copy/dataurl/text/json assets, legal comments, warnings and errors spread over files, inject, stdin, externals) × options (bundle, splitting, format, minify subsets, sourcemap modes, metafile, mangle-props ± cache, name templates, public path, legal comments, banner/footer). Baseline build with GOMAXPROCS=1 and no delays, then 4 schedules with GOMAXPROCS 1/2/4/16, drawn per-file load delays 0–3 ms and per-specifier resolve delays (pass-through plugins), 0–2 concurrent sibling builds of other projects, ≥1 run from a copy at a longer absolute path. Oracle: output paths (relative), contents, Hash, metafile, mangle cache (sorted JSON) and the ordered diagnostics must be byte-identical to the baseline. Non-trivial = ≥8 input files and ≥2 distinct load-arrival orders observed among the runs.")
	H.SetupRapid("det", H.N(720, 10000))
	rapid.Check(t, func(rt *rapid.T) {
		c := genCase(rt)
		H.Report(rt, "det", caseKey(c), c, judge(c))
	})
}

var subs = map[string]vdrv.ReplayFunc{"det": replayDet, "localcss": replayLocalCSS}

func TestCheck(t *testing.T) {
	H = vdrv.New("C08")
	complete := false
	defer func() { H.Finish(complete) }()
	H.RunReplays(t, subs)
	H.Sub(t, "det", runDet)
	H.Sub(t, "localcss", runLocalCSS)
	if len(harnessPanics) > 0 {
		t.Fatalf("INFRA: the harness panicked %d time(s); first: %s", len(harnessPanics), harnessPanics[0])
	}
	complete = true
}

func TestReplay(t *testing.T) {
	H = vdrv.New("C08")
	H.ReplayOne(t, subs)
}

// C20 — concurrency safety. See DESIGN.md section 5 / C20.
//
// Built with -race ("race": true in checks.d/C20.json). Process structure of one shard:
//
//	supervisor (TestCheck, no role) ── spawns ──▶ worker (role=worker, GORACE=halt_on_error=1 exitcode=66)
//
// The worker journals every case before it runs. A data race makes the worker exit with code 66 and a
// "WARNING: DATA RACE" report on stderr; the supervisor turns that into a violation whose replay file is the
// journaled case plus the report. A deadlock is detected inside the worker (60 s bound; goroutine dump).
package c20

import (
	"bytes"
	"encoding/binary"
	"encoding/json"
	"fmt"
	"io"
	"net/http"
	"os"
	"os/exec"
	"path/filepath"
	"regexp"
	"runtime"
	"runtime/pprof"
	"sort"
	"strconv"
	"strings"
	"sync"
	"sync/atomic"
	"testing"
	"time"

	"github.com/evanw/esbuild/pkg/api"
	"github.com/evanw/esbuild/verif/vdrv"
	"pgregory.net/rapid"
)

var H *vdrv.H

func role() string { return os.Getenv("VERIF_C20_ROLE") }

const deadlockBound = 60 * time.Second

// ----------------------------------------------------------------------------- case

// APICase is one concurrent history to run against the Go API. Everything random is in here; only the real
// interleaving is left to the scheduler.
type APICase struct {
	Procs   int       `json:"gomaxprocs"`
	Modules int       `json:"modules"`
	Deps    [][]int   `json:"deps"` // Deps[i] = indices (> i) imported by module i
	Ctx     []CtxSpec `json:"contexts"`
	Workers [][]Op    `json:"workers"`
	Edits   []int     `json:"edits_delay_us"` // the editor bumps the store version after each delay
	Repeat  int       `json:"repeat,omitempty"`
}

type CtxSpec struct {
	Plugins      int   `json:"plugins"`        // number of plugins with OnStart/OnEnd (plugin 0 also resolves and loads)
	StartDelayUS []int `json:"start_delay_us"` // per plugin
	EndDelayUS   []int `json:"end_delay_us"`   // per plugin
	LoadDelayUS  []int `json:"load_delay_us"`  // per module
	Reentrant    bool  `json:"reentrant"`      // OnResolve of odd modules calls build.Resolve for the next module
	FailLoadMod  int   `json:"fail_load_module"`
	FailLoadGen  int   `json:"fail_load_gen_mod"` // 0 = never; otherwise the load of FailLoadMod fails when g % FailLoadGen == 1
	FailEndK     int   `json:"fail_end_plugin"`
	FailEndGen   int   `json:"fail_end_gen_mod"` // 0 = never; otherwise OnEnd of plugin FailEndK fails when g % FailEndGen == 0
	Minify       bool  `json:"minify"`
	Splitting    bool  `json:"splitting"`
	Inject       bool  `json:"inject,omitempty"` // the last module is also an injected file (resolved and loaded through the plugin)
}

type Op struct {
	Kind    string `json:"op"` // rebuild | cancel | dispose | watch | serve | get | sleep
	Ctx     int    `json:"ctx"`
	DelayUS int    `json:"delay_us"` // sleep before the op
}

// ----------------------------------------------------------------------------- event log

type event struct {
	T      time.Duration
	Kind   string // start-begin start-end resolve-begin resolve-end load-begin load-end end-begin end-end | call-begin call-end | edit
	Ctx    int
	Gen    int
	Ver    int
	Plugin int
	Path   string
	Worker int
	Op     string
	CallID int
	Failed bool
	Note   string
	Stamps string
}

type history struct {
	mu     sync.Mutex
	t0     time.Time
	events []event
}

func (h *history) add(e event) time.Duration {
	now := time.Since(h.t0)
	e.T = now
	h.mu.Lock()
	h.events = append(h.events, e)
	h.mu.Unlock()
	return now
}

func (h *history) snapshot() []event {
	h.mu.Lock()
	defer h.mu.Unlock()
	return append([]event{}, h.events...)
}

// ----------------------------------------------------------------------------- the in-memory store and the plugins

type store struct {
	mu  sync.Mutex
	ver int
}

func (s *store) version() int { s.mu.Lock(); defer s.mu.Unlock(); return s.ver }
func (s *store) bump() int    { s.mu.Lock(); defer s.mu.Unlock(); s.ver++; return s.ver }

func moduleSource(c *APICase, i, g, v int) string {
	var sb strings.Builder
	for _, j := range c.Deps[i] {
		fmt.Fprintf(&sb, "import \"./m%d\"\n", j)
	}
	fmt.Fprintf(&sb, "console.log(\"STAMP|g=%d|v=%d|m=%d|\")\nexport default %d\n", g, v, i, i)
	return sb.String()
}

func loadFails(s *CtxSpec, g int) bool { return s.FailLoadGen > 0 && g%s.FailLoadGen == 1 }
func endFails(s *CtxSpec, g int) bool  { return s.FailEndGen > 0 && g%s.FailEndGen == 0 }

type ctxState struct {
	idx     int
	spec    *CtxSpec
	mu      sync.Mutex
	open    bool
	gen     int
	ver     int
	trigger string // file whose change wakes the watcher
}

func sleepUS(us int) {
	if us > 0 {
		time.Sleep(time.Duration(us) * time.Microsecond)
	}
}

var modPathRe = regexp.MustCompile(`^(?:mem:|\./)?m(\d+)$`)

// plugins builds the logging plugins of one context. When h is nil the plugins are the quiet reference:
// no delays, no log, generation and version fixed.
func plugins(c *APICase, st *ctxState, s *store, h *history, fixedGen, fixedVer int) []api.Plugin {
	quiet := h == nil
	cur := func() (int, int) {
		if quiet {
			return fixedGen, fixedVer
		}
		st.mu.Lock()
		defer st.mu.Unlock()
		return st.gen, st.ver
	}
	var list []api.Plugin
	for k := 0; k < st.spec.Plugins; k++ {
		k := k
		list = append(list, api.Plugin{Name: fmt.Sprintf("p%d", k), Setup: func(b api.PluginBuild) {
			b.OnStart(func() (api.OnStartResult, error) {
				if quiet {
					return api.OnStartResult{}, nil
				}
				st.mu.Lock()
				if !st.open {
					st.open = true
					st.gen++
					st.ver = s.version()
				}
				g, v := st.gen, st.ver
				st.mu.Unlock()
				h.add(event{Kind: "start-begin", Ctx: st.idx, Gen: g, Ver: v, Plugin: k})
				sleepUS(st.spec.StartDelayUS[k])
				h.add(event{Kind: "start-end", Ctx: st.idx, Gen: g, Ver: v, Plugin: k})
				return api.OnStartResult{}, nil
			})
			if k == 0 {
				b.OnResolve(api.OnResolveOptions{Filter: `^(mem:|\./)m\d+$`}, func(a api.OnResolveArgs) (api.OnResolveResult, error) {
					m := modPathRe.FindStringSubmatch(a.Path)
					if m == nil {
						return api.OnResolveResult{}, nil
					}
					g, v := cur()
					if !quiet {
						h.add(event{Kind: "resolve-begin", Ctx: st.idx, Gen: g, Ver: v, Path: a.Path})
					}
					i, _ := strconv.Atoi(m[1])
					note := ""
					if st.spec.Reentrant && i%2 == 1 && i+1 < c.Modules && a.PluginData == nil {
						// re-enter the API from inside a callback
						r := b.Resolve(fmt.Sprintf("./m%d", i+1), api.ResolveOptions{Importer: "m0", Namespace: "mem", Kind: api.ResolveJSImportStatement, PluginData: 1})
						note = fmt.Sprintf("reentrant resolve -> %q ns=%q errors=%d", r.Path, r.Namespace, len(r.Errors))
						if !quiet && (r.Path != fmt.Sprintf("m%d", i+1) || r.Namespace != "mem" || len(r.Errors) > 0) {
							h.add(event{Kind: "bad-reentrant", Ctx: st.idx, Gen: g, Path: a.Path, Note: note + fmt.Sprint(r.Errors)})
						}
					}
					if !quiet {
						h.add(event{Kind: "resolve-end", Ctx: st.idx, Gen: g, Ver: v, Path: a.Path, Note: note})
					}
					return api.OnResolveResult{Path: "m" + m[1], Namespace: "mem"}, nil
				})
				b.OnLoad(api.OnLoadOptions{Filter: `.*`, Namespace: "mem"}, func(a api.OnLoadArgs) (api.OnLoadResult, error) {
					g, v := cur()
					i, _ := strconv.Atoi(strings.TrimPrefix(a.Path, "m"))
					if !quiet {
						h.add(event{Kind: "load-begin", Ctx: st.idx, Gen: g, Ver: v, Path: a.Path})
						if i >= 0 && i < len(st.spec.LoadDelayUS) {
							sleepUS(st.spec.LoadDelayUS[i])
						}
					}
					var res api.OnLoadResult
					var err error
					if loadFails(st.spec, g) && i == st.spec.FailLoadMod {
						err = fmt.Errorf("LOADFAIL|g=%d|m=%d|", g, i)
					} else if i >= 0 && i < c.Modules {
						src := moduleSource(c, i, g, v)
						res = api.OnLoadResult{Contents: &src, Loader: api.LoaderJS}
						if i == 0 && st.trigger != "" {
							res.WatchFiles = []string{st.trigger}
						}
					} else {
						err = fmt.Errorf("no such module %q", a.Path)
					}
					if !quiet {
						h.add(event{Kind: "load-end", Ctx: st.idx, Gen: g, Ver: v, Path: a.Path, Failed: err != nil})
					}
					return res, err
				})
			}
			b.OnEnd(func(r *api.BuildResult) (api.OnEndResult, error) {
				g, v := cur()
				var out api.OnEndResult
				if k == 0 {
					// every returned result carries its generation
					out.Warnings = []api.Message{{Text: fmt.Sprintf("GEN|g=%d|v=%d|", g, v)}}
				}
				fail := endFails(st.spec, g) && k == st.spec.FailEndK
				if fail {
					out.Errors = []api.Message{{Text: fmt.Sprintf("ENDFAIL|g=%d|k=%d|", g, k)}}
				}
				if quiet {
					return out, nil
				}
				h.add(event{Kind: "end-begin", Ctx: st.idx, Gen: g, Ver: v, Plugin: k, Stamps: stampSummary(r)})
				sleepUS(st.spec.EndDelayUS[k])
				if fail || k == st.spec.Plugins-1 {
					st.mu.Lock()
					st.open = false
					st.mu.Unlock()
				}
				h.add(event{Kind: "end-end", Ctx: st.idx, Gen: g, Ver: v, Plugin: k, Failed: fail})
				return out, nil
			})
		}})
	}
	return list
}

func buildOptions(c *APICase, st *ctxState, dir string, pl []api.Plugin) api.BuildOptions {
	o := api.BuildOptions{EntryPoints: []string{"mem:m0"}, Bundle: true, Write: false, Outdir: filepath.Join(dir, "out"), AbsWorkingDir: dir,
		Format: api.FormatESModule, LogLevel: api.LogLevelSilent, Plugins: pl, MinifyWhitespace: st.spec.Minify, Splitting: st.spec.Splitting}
	if st.spec.Inject {
		// injected files are resolved and loaded by the same plugin callbacks, through a separate path in the scanner
		o.Inject = []string{fmt.Sprintf("mem:m%d", c.Modules-1)}
	}
	return o
}

var stampRe = regexp.MustCompile(`STAMP\|g=(\d+)\|v=(\d+)\|m=(\d+)\|`)
var genRe = regexp.MustCompile(`GEN\|g=(\d+)\|v=(\d+)\|`)

type stamp struct{ g, v, m int }

func stampsOf(files []api.OutputFile) []stamp {
	var l []stamp
	for _, f := range files {
		for _, m := range stampRe.FindAllSubmatch(f.Contents, -1) {
			g, _ := strconv.Atoi(string(m[1]))
			v, _ := strconv.Atoi(string(m[2]))
			i, _ := strconv.Atoi(string(m[3]))
			l = append(l, stamp{g, v, i})
		}
	}
	return l
}

func stampSummary(r *api.BuildResult) string {
	gens := map[int]int{}
	for _, s := range stampsOf(r.OutputFiles) {
		gens[s.g]++
	}
	keys := make([]int, 0, len(gens))
	for g := range gens {
		keys = append(keys, g)
	}
	sort.Ints(keys)
	var sb strings.Builder
	for _, g := range keys {
		fmt.Fprintf(&sb, "g%d×%d ", g, gens[g])
	}
	fmt.Fprintf(&sb, "errors=%d files=%d", len(r.Errors), len(r.OutputFiles))
	return sb.String()
}

// reachable modules from m0
func reachable(c *APICase) []int {
	seen := map[int]bool{0: true}
	todo := []int{0}
	for len(todo) > 0 {
		i := todo[0]
		todo = todo[1:]
		for _, j := range c.Deps[i] {
			if !seen[j] {
				seen[j] = true
				todo = append(todo, j)
			}
		}
	}
	var l []int
	for i := range seen {
		l = append(l, i)
	}
	sort.Ints(l)
	return l
}

// ----------------------------------------------------------------------------- running one history

type callRecord struct {
	ID     int
	Worker int
	Op     string
	Ctx    int
	T0, T1 time.Duration
	VerAt  int
	Result *api.BuildResult
	Err    string
	Body   []byte
	Status int
}

type runOutcome struct {
	Events   []event
	Calls    []callRecord
	Deadlock string
	Infra    string
	Cases    *APICase
	dir      string
}

var portCounter atomic.Int64

func nextPort() int {
	n := int(portCounter.Add(1))
	shard := 0
	if H != nil {
		shard = H.Shard
	}
	return 21000 + (shard%64)*400 + n%400
}

func runHistory(c *APICase) runOutcome {
	out := runOutcome{Cases: c}
	dir, err := os.MkdirTemp("", "c20-")
	if err != nil {
		out.Infra = err.Error()
		return out
	}
	if real, err := filepath.EvalSymlinks(dir); err == nil {
		dir = real
	}
	defer os.RemoveAll(dir)
	out.dir = dir
	if c.Procs > 0 {
		defer runtime.GOMAXPROCS(runtime.GOMAXPROCS(c.Procs))
	}
	h := &history{t0: time.Now()}
	s := &store{}
	states := make([]*ctxState, len(c.Ctx))
	ctxs := make([]api.BuildContext, len(c.Ctx))
	for i := range c.Ctx {
		states[i] = &ctxState{idx: i, spec: &c.Ctx[i], trigger: filepath.Join(dir, fmt.Sprintf("trigger-%d.txt", i))}
		os.WriteFile(states[i].trigger, []byte("0"), 0o644)
		ctx, cerr := api.Context(buildOptions(c, states[i], dir, plugins(c, states[i], s, h, 0, 0)))
		if cerr != nil {
			out.Infra = "context: " + cerr.Error()
			return out
		}
		ctxs[i] = ctx
	}
	var callMu sync.Mutex
	var calls []callRecord
	callSeq := 0
	record := func(r callRecord) {
		callMu.Lock()
		calls = append(calls, r)
		callMu.Unlock()
	}
	newCall := func() int { callMu.Lock(); defer callMu.Unlock(); callSeq++; return callSeq }
	ports := make([]int, len(c.Ctx))
	var portMu sync.Mutex
	client := &http.Client{Timeout: 30 * time.Second, Transport: &http.Transport{DisableKeepAlives: true}}

	var wg sync.WaitGroup
	for w, ops := range c.Workers {
		wg.Add(1)
		go func(w int, ops []Op) {
			defer wg.Done()
			for _, op := range ops {
				sleepUS(op.DelayUS)
				if op.Kind == "sleep" {
					continue
				}
				ci := op.Ctx % len(ctxs)
				ctx := ctxs[ci]
				id := newCall()
				rec := callRecord{ID: id, Worker: w, Op: op.Kind, Ctx: ci, VerAt: s.version()}
				rec.T0 = h.add(event{Kind: "call-begin", Ctx: ci, Worker: w, Op: op.Kind, CallID: id})
				switch op.Kind {
				case "rebuild":
					r := ctx.Rebuild()
					rec.Result = &r
				case "cancel":
					ctx.Cancel()
				case "dispose":
					ctx.Dispose()
				case "watch":
					if err := ctx.Watch(api.WatchOptions{}); err != nil {
						rec.Err = err.Error()
					}
				case "serve":
					res, err := ctx.Serve(api.ServeOptions{Host: "127.0.0.1", Port: nextPort()})
					if err != nil {
						rec.Err = err.Error()
					} else {
						portMu.Lock()
						ports[ci] = int(res.Port)
						portMu.Unlock()
					}
				case "get":
					portMu.Lock()
					p := ports[ci]
					portMu.Unlock()
					if p == 0 {
						rec.Err = "not serving"
					} else if resp, err := client.Get(fmt.Sprintf("http://127.0.0.1:%d/mem_m0.js", p)); err != nil {
						rec.Err = err.Error()
					} else {
						rec.Body, _ = io.ReadAll(resp.Body)
						rec.Status = resp.StatusCode
						resp.Body.Close()
					}
				}
				rec.T1 = h.add(event{Kind: "call-end", Ctx: ci, Worker: w, Op: op.Kind, CallID: id})
				record(rec)
			}
		}(w, ops)
	}
	// the editor
	wg.Add(1)
	go func() {
		defer wg.Done()
		for _, d := range c.Edits {
			sleepUS(d)
			v := s.bump()
			for _, st := range states {
				os.WriteFile(st.trigger, []byte(strconv.Itoa(v)), 0o644)
			}
			h.add(event{Kind: "edit", Ver: v})
		}
	}()

	done := make(chan struct{})
	go func() { wg.Wait(); close(done) }()
	select {
	case <-done:
	case <-time.After(deadlockBound):
		var buf bytes.Buffer
		pprof.Lookup("goroutine").WriteTo(&buf, 2)
		out.Deadlock = buf.String()
		out.Events = h.snapshot()
		return out
	}
	// final dispose of every context (idempotent), also bounded
	fin := make(chan struct{})
	go func() {
		for i, ctx := range ctxs {
			id := newCall()
			rec := callRecord{ID: id, Worker: -1, Op: "dispose", Ctx: i}
			rec.T0 = h.add(event{Kind: "call-begin", Ctx: i, Worker: -1, Op: "dispose", CallID: id})
			ctx.Dispose()
			rec.T1 = h.add(event{Kind: "call-end", Ctx: i, Worker: -1, Op: "dispose", CallID: id})
			record(rec)
		}
		close(fin)
	}()
	select {
	case <-fin:
	case <-time.After(deadlockBound):
		var buf bytes.Buffer
		pprof.Lookup("goroutine").WriteTo(&buf, 2)
		out.Deadlock = "in the final Dispose:\n" + buf.String()
		out.Events = h.snapshot()
		return out
	}
	time.Sleep(3 * time.Millisecond) // stragglers after Dispose would show up in the log
	out.Events = h.snapshot()
	callMu.Lock()
	out.Calls = append([]callRecord{}, calls...)
	callMu.Unlock()
	return out
}

// quietBuild: what an undisturbed one-shot build of store version v produces when stamped with generation g.
func quietBuild(c *APICase, ci int, dir string, g, v int) api.BuildResult {
	st := &ctxState{idx: ci, spec: &c.Ctx[ci]}
	return api.Build(buildOptions(c, st, dir, plugins(c, st, nil, nil, g, v)))
}

// ----------------------------------------------------------------------------- judging a history

type buildInfo struct {
	ctx, gen, ver      int
	firstStart         time.Duration
	lastStartEnd       time.Duration
	starts             map[int][2]time.Duration // plugin → begin,end
	ends               []event                  // end-begin / end-end in log order
	lastEndEnd         time.Duration
	hasEnd             bool
	firstResolveOrLoad time.Duration
	lastLoadEnd        time.Duration
	loads              map[string]int
}

func fmtEvents(ev []event, ctx int) string {
	var sb strings.Builder
	n := 0
	for _, e := range ev {
		if ctx >= 0 && e.Ctx != ctx && e.Kind != "edit" {
			continue
		}
		n++
		if n > 400 {
			sb.WriteString("…\n")
			break
		}
		fmt.Fprintf(&sb, "%9.3fms %-13s ctx=%d g=%d v=%d", float64(e.T.Microseconds())/1000, e.Kind, e.Ctx, e.Gen, e.Ver)
		switch {
		case strings.HasPrefix(e.Kind, "call"):
			fmt.Fprintf(&sb, " worker=%d %s #%d", e.Worker, e.Op, e.CallID)
		case strings.HasPrefix(e.Kind, "start"), strings.HasPrefix(e.Kind, "end"):
			fmt.Fprintf(&sb, " plugin=%d failed=%v %s", e.Plugin, e.Failed, e.Stamps)
		default:
			fmt.Fprintf(&sb, " %s failed=%v %s", e.Path, e.Failed, e.Note)
		}
		sb.WriteByte('\n')
	}
	return sb.String()
}

func judgeHistory(o runOutcome) vdrv.Verdict {
	c := o.Cases
	if o.Infra != "" {
		return vdrv.Skip("harness-setup")
	}
	if o.Deadlock != "" {
		return vdrv.Fail("deadlock: the history did not finish within 60 s", "every call returns", clipMid(o.Deadlock, 12000)+"\n--- events\n"+fmtEvents(o.Events, -1))
	}
	fail := func(ctx int, format string, args ...interface{}) vdrv.Verdict {
		return vdrv.Fail(fmt.Sprintf(format, args...), "see the property statement", fmtEvents(o.Events, ctx))
	}
	// group callback events into builds
	builds := map[[2]int]*buildInfo{}
	var order [][2]int
	get := func(e event) *buildInfo {
		k := [2]int{e.Ctx, e.Gen}
		b := builds[k]
		if b == nil {
			b = &buildInfo{ctx: e.Ctx, gen: e.Gen, ver: e.Ver, firstStart: -1, firstResolveOrLoad: -1, starts: map[int][2]time.Duration{}, loads: map[string]int{}}
			builds[k] = b
			order = append(order, k)
		}
		return b
	}
	for _, e := range o.Events {
		switch e.Kind {
		case "bad-reentrant":
			return fail(e.Ctx, "a re-entrant build.Resolve from inside an OnResolve callback gave a wrong answer: %s", e.Note)
		case "start-begin":
			b := get(e)
			if b.firstStart < 0 {
				b.firstStart = e.T
			}
			if _, dup := b.starts[e.Plugin]; dup {
				return fail(e.Ctx, "OnStart of plugin %d ran twice in build g=%d of context %d", e.Plugin, e.Gen, e.Ctx)
			}
			if b.hasEnd {
				return fail(e.Ctx, "an OnStart callback of build g=%d of context %d began after an OnEnd callback of that build", e.Gen, e.Ctx)
			}
			b.starts[e.Plugin] = [2]time.Duration{e.T, -1}
		case "start-end":
			b := get(e)
			p := b.starts[e.Plugin]
			p[1] = e.T
			b.starts[e.Plugin] = p
			if e.T > b.lastStartEnd {
				b.lastStartEnd = e.T
			}
		case "resolve-begin", "load-begin":
			b := get(e)
			if b.firstResolveOrLoad < 0 {
				b.firstResolveOrLoad = e.T
			}
			if e.Kind == "load-begin" {
				b.loads[e.Path]++
			}
			if b.hasEnd {
				return fail(e.Ctx, "%s of %q in build g=%d of context %d began after the first OnEnd callback of that build", e.Kind, e.Path, e.Gen, e.Ctx)
			}
		case "load-end", "resolve-end":
			b := get(e)
			if e.T > b.lastLoadEnd {
				b.lastLoadEnd = e.T
			}
		case "end-begin", "end-end":
			b := get(e)
			b.hasEnd = true
			b.ends = append(b.ends, e)
			if e.Kind == "end-end" && e.T > b.lastEndEnd {
				b.lastEndEnd = e.T
			}
		}
	}
	for _, k := range order {
		b := builds[k]
		spec := &c.Ctx[b.ctx]
		// all OnStart callbacks ran, and ended before the first resolve/load
		if len(b.starts) != spec.Plugins {
			return fail(b.ctx, "build g=%d of context %d ran %d of %d OnStart callbacks", b.gen, b.ctx, len(b.starts), spec.Plugins)
		}
		for p, se := range b.starts {
			if se[1] < 0 {
				return fail(b.ctx, "OnStart of plugin %d in build g=%d of context %d has no end", p, b.gen, b.ctx)
			}
		}
		if b.firstResolveOrLoad >= 0 && b.firstResolveOrLoad < b.lastStartEnd {
			return fail(b.ctx, "build g=%d of context %d: an OnResolve/OnLoad callback began at %v, before the last OnStart callback ended at %v", b.gen, b.ctx, b.firstResolveOrLoad, b.lastStartEnd)
		}
		for p, n := range b.loads {
			if n > 1 {
				return fail(b.ctx, "build g=%d of context %d loaded (%q, mem) %d times", b.gen, b.ctx, p, n)
			}
		}
		// OnEnd: once each, in registration order, sequentially, after starts and loads, stopping at the first failure
		if !b.hasEnd {
			return fail(b.ctx, "build g=%d of context %d never ran its OnEnd callbacks", b.gen, b.ctx)
		}
		want := 0
		stopped := false
		for i := 0; i < len(b.ends); i += 2 {
			if i+1 >= len(b.ends) || b.ends[i].Kind != "end-begin" || b.ends[i+1].Kind != "end-end" || b.ends[i].Plugin != b.ends[i+1].Plugin {
				return fail(b.ctx, "build g=%d of context %d: OnEnd callbacks overlap or are incomplete", b.gen, b.ctx)
			}
			if stopped {
				return fail(b.ctx, "build g=%d of context %d: OnEnd of plugin %d ran after an earlier OnEnd callback had failed", b.gen, b.ctx, b.ends[i].Plugin)
			}
			if b.ends[i].Plugin != want {
				return fail(b.ctx, "build g=%d of context %d: OnEnd callbacks out of registration order (plugin %d where %d was due)", b.gen, b.ctx, b.ends[i].Plugin, want)
			}
			if b.ends[i].T < b.lastStartEnd || b.ends[i].T < b.lastLoadEnd {
				return fail(b.ctx, "build g=%d of context %d: OnEnd of plugin %d began before the OnStart/OnLoad callbacks had ended", b.gen, b.ctx, want)
			}
			if b.ends[i+1].Failed {
				stopped = true
			}
			want++
		}
		if !stopped && want != spec.Plugins {
			return fail(b.ctx, "build g=%d of context %d ran %d of %d OnEnd callbacks although none failed", b.gen, b.ctx, want, spec.Plugins)
		}
		// the result handed to OnEnd carries only this build's stamp
		for _, e := range b.ends {
			if e.Kind == "end-begin" && e.Stamps != "" {
				for _, f := range strings.Fields(e.Stamps) {
					if strings.HasPrefix(f, "g") && !strings.HasPrefix(f, fmt.Sprintf("g%d×", b.gen)) {
						return fail(b.ctx, "build g=%d of context %d: the result passed to OnEnd contains modules stamped by another build (%s)", b.gen, b.ctx, e.Stamps)
					}
				}
			}
		}
	}
	// two builds of one context never overlap
	for ci := range c.Ctx {
		var prev *buildInfo
		for _, k := range order {
			b := builds[k]
			if b.ctx != ci {
				continue
			}
			if prev != nil && b.firstStart < prev.lastEndEnd {
				return fail(ci, "context %d: build g=%d began (%v) before build g=%d had run its last OnEnd callback (%v)", ci, b.gen, b.firstStart, prev.gen, prev.lastEndEnd)
			}
			prev = b
		}
	}

	// per-context call lists
	type disposeInfo struct{ minStart, firstReturn, T time.Duration }
	disp := map[int]*disposeInfo{}
	for _, cl := range o.Calls {
		if cl.Op == "dispose" {
			d := disp[cl.Ctx]
			if d == nil {
				d = &disposeInfo{minStart: cl.T0, firstReturn: cl.T1}
				disp[cl.Ctx] = d
			}
			if cl.T0 < d.minStart {
				d.minStart = cl.T0
			}
			if cl.T1 < d.firstReturn {
				d.firstReturn = cl.T1
			}
		}
	}
	for _, cl := range o.Calls {
		if cl.Op == "dispose" {
			if d := disp[cl.Ctx]; cl.T0 < d.firstReturn && cl.T1 > d.T {
				d.T = cl.T1
			}
		}
	}
	// Dispose returns only after the running build has ended; afterwards no callback begins
	for ci, d := range disp {
		for _, k := range order {
			b := builds[k]
			if b.ctx != ci {
				continue
			}
			if b.firstStart < d.minStart && b.lastEndEnd > d.T {
				return fail(ci, "Dispose of context %d returned at %v while build g=%d (started %v) ran its last OnEnd callback only at %v", ci, d.T, b.gen, b.firstStart, b.lastEndEnd)
			}
		}
		for _, e := range o.Events {
			if e.Ctx == ci && strings.HasSuffix(e.Kind, "-begin") && !strings.HasPrefix(e.Kind, "call") && e.T > d.T {
				return fail(ci, "context %d: callback %s (g=%d %s) began at %v, after Dispose had returned at %v", ci, e.Kind, e.Gen, e.Path, e.T, d.T)
			}
		}
	}
	// Cancel returns only after the running build has ended (calls that overlap or follow a Dispose are not judged:
	// a disposed context ignores Cancel)
	for _, cl := range o.Calls {
		if cl.Op != "cancel" {
			continue
		}
		if d := disp[cl.Ctx]; d != nil && d.minStart < cl.T1 {
			continue
		}
		for _, k := range order {
			b := builds[k]
			if b.ctx == cl.Ctx && b.firstStart < cl.T0 && b.lastEndEnd > cl.T1 {
				return fail(cl.Ctx, "Cancel #%d on context %d returned at %v while build g=%d (started %v, before the call at %v) ran its last OnEnd callback only at %v", cl.ID, cl.Ctx, cl.T1, b.gen, b.firstStart, cl.T0, b.lastEndEnd)
			}
		}
	}

	// results of Rebuild calls
	type ret struct {
		gen int
		t1  time.Duration
	}
	firstReturn := map[[2]int]time.Duration{} // (ctx, gen) → earliest return of a Rebuild call that delivered it
	retOf := map[int]ret{}
	quiet := map[[3]int]api.BuildResult{}
	cancelled, withOutput, joined := 0, 0, 0
	for i := range o.Calls {
		cl := &o.Calls[i]
		if cl.Op == "get" && cl.Status == 200 {
			if v := checkStamps(c, stampsFromBytes(cl.Body), builds, cl.Ctx, -1); v != "" {
				return fail(cl.Ctx, "GET #%d served by context %d: %s", cl.ID, cl.Ctx, v)
			}
		}
		if cl.Op != "rebuild" || cl.Result == nil {
			continue
		}
		r := cl.Result
		g, v := -1, -1
		for _, w := range r.Warnings {
			if m := genRe.FindStringSubmatch(w.Text); m != nil {
				g, _ = strconv.Atoi(m[1])
				v, _ = strconv.Atoi(m[2])
			}
		}
		if g < 0 {
			// no build behind this result: only a disposed context may answer like that
			d := disp[cl.Ctx]
			if len(r.Errors) == 0 && len(r.OutputFiles) == 0 && d != nil && d.minStart < cl.T1 {
				continue
			}
			return fail(cl.Ctx, "Rebuild #%d on context %d returned a result that went through no OnEnd callback (errors=%d, files=%d) although the context was not being disposed", cl.ID, cl.Ctx, len(r.Errors), len(r.OutputFiles))
		}
		b := builds[[2]int{cl.Ctx, g}]
		if b == nil {
			return fail(cl.Ctx, "Rebuild #%d on context %d returned generation %d, which no OnStart callback ever announced", cl.ID, cl.Ctx, g)
		}
		if b.ver != v {
			return fail(cl.Ctx, "Rebuild #%d: generation %d was started with store version %d but its result says %d", cl.ID, g, b.ver, v)
		}
		if b.firstStart > cl.T1 {
			return fail(cl.Ctx, "Rebuild #%d returned at %v the result of build g=%d that only started at %v", cl.ID, cl.T1, g, b.firstStart)
		}
		if b.lastEndEnd > cl.T1 {
			return fail(cl.Ctx, "Rebuild #%d returned at %v before build g=%d had run its last OnEnd callback (%v)", cl.ID, cl.T1, g, b.lastEndEnd)
		}
		retOf[cl.ID] = ret{g, cl.T1}
		k := [2]int{cl.Ctx, g}
		if t, ok := firstReturn[k]; !ok || cl.T1 < t {
			firstReturn[k] = cl.T1
		}
		if b.firstStart < cl.T0 {
			joined++
		}
		// (No freshness rule of the form "a call that started its own build sees the store version current at
		// the call": which call started a build is not observable — the first OnStart callback may run
		// milliseconds after the build was started by an earlier call — and stamped soundly (entry of OnStart
		// before the version snapshot) the rule would only restate that the harness's own counter is monotonic.
		// Staleness is covered by: no Rebuild returns a build that had been delivered before it was issued.)
		spec := &c.Ctx[cl.Ctx]
		isCancel := false
		for _, e := range r.Errors {
			if strings.Contains(e.Text, "cancel") {
				isCancel = true
			}
		}
		switch {
		case isCancel:
			cancelled++
			if len(r.OutputFiles) > 0 {
				return fail(cl.Ctx, "Rebuild #%d reports cancellation and output files at once", cl.ID)
			}
		case loadFails(spec, g):
			ok := false
			for _, e := range r.Errors {
				if strings.Contains(e.Text, fmt.Sprintf("LOADFAIL|g=%d|", g)) {
					ok = true
				}
			}
			// the failing module may be unreachable in this graph; then the build succeeds
			if !ok && !contains(reachable(c), spec.FailLoadMod) {
				ok = len(r.OutputFiles) > 0
			}
			if !ok {
				return fail(cl.Ctx, "Rebuild #%d: build g=%d had a failing OnLoad but the result neither reports it nor is cancelled (errors: %v)", cl.ID, g, msgTexts(r.Errors))
			}
		default:
			for _, e := range r.Errors {
				if !strings.Contains(e.Text, fmt.Sprintf("ENDFAIL|g=%d|", g)) {
					return fail(cl.Ctx, "Rebuild #%d: build g=%d reports an error nobody caused: %q", cl.ID, g, e.Text)
				}
			}
			if len(r.OutputFiles) == 0 {
				return fail(cl.Ctx, "Rebuild #%d: build g=%d succeeded but has no output files", cl.ID, g)
			}
		}
		if len(r.OutputFiles) > 0 {
			withOutput++
			if msg := checkStamps(c, stampsOf(r.OutputFiles), builds, cl.Ctx, g); msg != "" {
				return fail(cl.Ctx, "Rebuild #%d on context %d: %s", cl.ID, cl.Ctx, msg)
			}
			qk := [3]int{cl.Ctx, g, v}
			q, ok := quiet[qk]
			if !ok {
				q = quietBuild(c, cl.Ctx, o.dirOrTemp(), g, v)
				quiet[qk] = q
			}
			if len(q.OutputFiles) != len(r.OutputFiles) {
				return fail(cl.Ctx, "Rebuild #%d: %d output files, a quiet build of store version %d gives %d", cl.ID, len(r.OutputFiles), v, len(q.OutputFiles))
			}
			for i := range q.OutputFiles {
				if filepath.Base(q.OutputFiles[i].Path) != filepath.Base(r.OutputFiles[i].Path) || !bytes.Equal(q.OutputFiles[i].Contents, r.OutputFiles[i].Contents) {
					return vdrv.Fail(fmt.Sprintf("Rebuild #%d on context %d (g=%d, v=%d): output differs from a quiet build of the same store version", cl.ID, cl.Ctx, g, v),
						string(q.OutputFiles[i].Contents), string(r.OutputFiles[i].Contents))
				}
			}
		}
	}
	// stale results: a Rebuild must not deliver a build that another Rebuild call had already delivered before this one was issued
	for _, cl := range o.Calls {
		if rt, ok := retOf[cl.ID]; ok {
			if t := firstReturn[[2]int{cl.Ctx, rt.gen}]; t < cl.T0 {
				return fail(cl.Ctx, "Rebuild #%d (issued at %v) returned build g=%d, which another Rebuild call had already returned at %v: not a build in progress at, or started by, the call", cl.ID, cl.T0, rt.gen, t)
			}
		}
	}

	// non-triviality: ≥2 workers with overlapping calls on one context, and a Cancel/Dispose racing a build
	overlap, racing := false, false
	for i := range o.Calls {
		a := &o.Calls[i]
		if a.Worker < 0 {
			continue
		}
		for j := i + 1; j < len(o.Calls); j++ {
			b := &o.Calls[j]
			if b.Worker >= 0 && a.Worker != b.Worker && a.Ctx == b.Ctx && a.T0 < b.T1 && b.T0 < a.T1 {
				overlap = true
			}
		}
		if a.Op == "cancel" || a.Op == "dispose" {
			for _, k := range order {
				b := builds[k]
				if b.ctx == a.Ctx && b.firstStart < a.T1 && a.T0 < b.lastEndEnd {
					racing = true
				}
			}
		}
	}
	cls := []string{fmt.Sprintf("procs=%d", c.Procs), fmt.Sprintf("workers=%d", len(c.Workers)), fmt.Sprintf("contexts=%d", len(c.Ctx))}
	if overlap {
		cls = append(cls, "calls-overlapped")
	}
	if racing {
		cls = append(cls, "cancel-or-dispose-raced-a-build")
	}
	if cancelled > 0 {
		cls = append(cls, "rebuild-cancelled")
	}
	if joined > 0 {
		cls = append(cls, "rebuild-joined-a-running-build")
	}
	if withOutput > 0 {
		cls = append(cls, "rebuild-with-output")
	}
	nb := len(order)
	switch {
	case nb == 0:
		cls = append(cls, "builds=0")
	case nb < 4:
		cls = append(cls, "builds=1-3")
	case nb < 10:
		cls = append(cls, "builds=4-9")
	default:
		cls = append(cls, "builds>=10")
	}
	for _, cl := range o.Calls {
		if cl.Worker >= 0 {
			cls = appendOnce(cls, "op="+cl.Op)
		}
		if cl.Op == "get" && cl.Status == 200 {
			cls = appendOnce(cls, "http-get-served")
		}
	}
	for i := range c.Ctx {
		if c.Ctx[i].Reentrant {
			cls = appendOnce(cls, "reentrant-resolve")
		}
	}
	v := vdrv.Pass(overlap && racing, cls...)
	v.Observed = fmt.Sprintf("%d builds, %d API calls (%d Rebuild results with output, %d cancelled, %d joined a running build), %d events", nb, len(o.Calls), withOutput, cancelled, joined, len(o.Events))
	return v
}

func (o runOutcome) dirOrTemp() string {
	// the quiet build needs a working directory that exists; the run's directory is gone by now
	d, err := os.MkdirTemp("", "c20-quiet-")
	if err != nil {
		return os.TempDir()
	}
	if real, err := filepath.EvalSymlinks(d); err == nil {
		d = real
	}
	quietDirs = append(quietDirs, d)
	return d
}

var quietDirs []string

func cleanupQuietDirs() {
	for _, d := range quietDirs {
		os.RemoveAll(d)
	}
	quietDirs = nil
}

func contains(l []int, x int) bool {
	for _, y := range l {
		if y == x {
			return true
		}
	}
	return false
}

func appendOnce(l []string, s string) []string {
	for _, x := range l {
		if x == s {
			return l
		}
	}
	return append(l, s)
}

func msgTexts(m []api.Message) []string {
	var l []string
	for _, x := range m {
		l = append(l, x.Text)
	}
	return l
}

func stampsFromBytes(b []byte) []stamp {
	return stampsOf([]api.OutputFile{{Contents: b}})
}

// checkStamps: one generation, the version that generation was started with, every reachable module exactly once.
func checkStamps(c *APICase, st []stamp, builds map[[2]int]*buildInfo, ctx, wantGen int) string {
	if len(st) == 0 {
		return "output contains no module stamp"
	}
	g := st[0].g
	seen := map[int]int{}
	for _, s := range st {
		if s.g != g {
			return fmt.Sprintf("output mixes modules of generations %d and %d", g, s.g)
		}
		seen[s.m]++
	}
	if wantGen >= 0 && g != wantGen {
		return fmt.Sprintf("result announces generation %d but its modules are stamped %d", wantGen, g)
	}
	b := builds[[2]int{ctx, g}]
	if b == nil {
		return fmt.Sprintf("modules are stamped with generation %d, which never started on this context", g)
	}
	for _, s := range st {
		if s.v != b.ver {
			return fmt.Sprintf("module m%d has store version %d, generation %d was started with %d", s.m, s.v, g, b.ver)
		}
	}
	if c.Ctx[ctx].Splitting {
		return "" // with splitting the entry chunk is what was looked at; completeness is covered by the quiet build
	}
	for _, m := range reachable(c) {
		if seen[m] != 1 {
			return fmt.Sprintf("module m%d appears %d times in the output of generation %d", m, seen[m], g)
		}
	}
	return ""
}

func clipMid(s string, n int) string {
	if len(s) <= n {
		return s
	}
	return s[:n/2] + "\n…\n" + s[len(s)-n/2:]
}

// ----------------------------------------------------------------------------- generator

func genAPICase(t *rapid.T) APICase {
	c := APICase{}
	c.Procs = rapid.SampledFrom([]int{1, 2, 3, 4, 8}).Draw(t, "gomaxprocs")
	c.Modules = rapid.IntRange(2, 7).Draw(t, "modules")
	c.Deps = make([][]int, c.Modules)
	for i := 0; i < c.Modules-1; i++ {
		// a chain plus drawn extra edges keeps everything reachable most of the time
		c.Deps[i] = []int{i + 1}
		for j := i + 2; j < c.Modules; j++ {
			if rapid.IntRange(0, 3).Draw(t, "edge") == 0 {
				c.Deps[i] = append(c.Deps[i], j)
			}
		}
	}
	if rapid.IntRange(0, 5).Draw(t, "cut") == 0 && c.Modules > 3 {
		c.Deps[c.Modules-3] = nil // makes the tail unreachable
	}
	delay := func(label string) int {
		return rapid.SampledFrom([]int{0, 0, 50, 300, 1000, 2500, 5000}).Draw(t, label)
	}
	nctx := rapid.IntRange(1, 2).Draw(t, "contexts")
	for i := 0; i < nctx; i++ {
		s := CtxSpec{Plugins: rapid.IntRange(1, 3).Draw(t, "plugins")}
		for k := 0; k < s.Plugins; k++ {
			s.StartDelayUS = append(s.StartDelayUS, delay("startdelay"))
			s.EndDelayUS = append(s.EndDelayUS, delay("enddelay"))
		}
		for m := 0; m < c.Modules; m++ {
			s.LoadDelayUS = append(s.LoadDelayUS, delay("loaddelay"))
		}
		s.Reentrant = rapid.Bool().Draw(t, "reentrant")
		s.Inject = rapid.IntRange(0, 2).Draw(t, "inject") == 0
		if rapid.IntRange(0, 2).Draw(t, "failload") == 0 {
			s.FailLoadGen = rapid.IntRange(2, 4).Draw(t, "failloadgen")
			s.FailLoadMod = rapid.IntRange(0, c.Modules-1).Draw(t, "failloadmod")
		}
		if rapid.IntRange(0, 2).Draw(t, "failend") == 0 {
			s.FailEndGen = rapid.IntRange(2, 4).Draw(t, "failendgen")
			s.FailEndK = rapid.IntRange(0, s.Plugins-1).Draw(t, "failendk")
		}
		s.Minify = rapid.Bool().Draw(t, "minify")
		s.Splitting = rapid.IntRange(0, 4).Draw(t, "splitting") == 0
		c.Ctx = append(c.Ctx, s)
	}
	nw := rapid.IntRange(2, 6).Draw(t, "workers")
	kinds := []string{"rebuild", "rebuild", "rebuild", "rebuild", "cancel", "cancel", "sleep", "get", "serve", "watch", "dispose"}
	for w := 0; w < nw; w++ {
		var ops []Op
		for i, n := 0, rapid.IntRange(1, 7).Draw(t, "nops"); i < n; i++ {
			op := Op{Kind: rapid.SampledFrom(kinds).Draw(t, "op"), Ctx: rapid.IntRange(0, nctx-1).Draw(t, "ctx"), DelayUS: rapid.SampledFrom([]int{0, 0, 20, 200, 1000, 4000}).Draw(t, "opdelay")}
			if op.Kind == "dispose" && rapid.IntRange(0, 2).Draw(t, "keepdispose") > 0 {
				op.Kind = "rebuild" // disposing early ends most of the interesting part of a history
			}
			if op.Kind == "sleep" {
				op.DelayUS = rapid.SampledFrom([]int{500, 3000, 20000, 150000}).Draw(t, "sleep")
			}
			ops = append(ops, op)
		}
		c.Workers = append(c.Workers, ops)
	}
	for i, n := 0, rapid.IntRange(0, 5).Draw(t, "nedits"); i < n; i++ {
		c.Edits = append(c.Edits, rapid.SampledFrom([]int{0, 100, 1000, 3000, 8000}).Draw(t, "editdelay"))
	}
	return c
}

func judgeAPI(c APICase) vdrv.Verdict {
	n := c.Repeat
	if n < 1 {
		n = 1
	}
	var v vdrv.Verdict
	for i := 0; i < n; i++ {
		o := runHistory(&c)
		v = judgeHistory(o)
		cleanupQuietDirs()
		if !v.OK || v.Discard != "" {
			return v
		}
	}
	return v
}

func replayAPI(raw json.RawMessage) vdrv.Verdict {
	var c APICase
	if err := json.Unmarshal(raw, &c); err != nil {
		return vdrv.Skip("bad-replay")
	}
	if c.Repeat < 1 {
		c.Repeat = 25 // a stored history is a schedule sample: give the scheduler several chances
	}
	if H != nil && role() == "worker" {
		journal("api", raw)
	}
	return judgeAPI(c)
}

func runAPI(t *testing.T) {
	H.Rule("api", "rapid: 1–2 shared api.Context objects whose modules (2–7, drawn import DAG) all come from a versioned in-memory store through plugins (1–3 per context, OnStart/OnEnd on each, OnResolve/OnLoad in namespace `mem` on the first; drawn 0–5 ms blocking per callback, OnLoad failing in drawn generations, OnEnd failing in drawn generations, re-entrant build.Resolve from inside OnResolve); 2–6 goroutines run drawn sequences of Rebuild/Cancel/Dispose/Watch/Serve/HTTP GET/sleep with drawn gaps while an editor goroutine bumps the store version (and touches the watched trigger file); GOMAXPROCS drawn from {1,2,3,4,8}; the process runs under the race detector. Judged from a timestamped event log after all goroutines joined (60 s bound ⇒ deadlock + goroutine dump): callback order within a build (all OnStart end before the first OnResolve/OnLoad; each (path, namespace) loaded once; OnEnd once each, sequential, in registration order, after loads, stopping at the first failure; OnEnd always runs), builds of one context never overlap, every Rebuild result went through OnEnd and carries one generation whose modules all have the store version snapshotted at that generation's OnStart and equals byte-for-byte a quiet one-shot build of that version, no Rebuild returns a build another call had already delivered before it was issued, Cancel and Dispose return only after the last OnEnd of every build that had started before the call, no callback begins after Dispose returned, errors are only cancellation or the failures the case asked for. Non-trivial = calls of ≥2 goroutines overlapped in time on one context and a Cancel or Dispose overlapped a build.")
	H.SetupRapid("api", H.N(900, 24000))
	rapid.Check(t, func(rt *rapid.T) {
		c := genAPICase(rt)
		raw, _ := json.Marshal(c)
		journal("api", raw)
		v := judgeAPI(c)
		if strings.HasPrefix(v.Detail, "deadlock") {
			// goroutines are stuck inside esbuild: report and leave
			reportFatal("api", raw, v)
		}
		H.Report(rt, "api", string(raw), c, v)
	})
}

// ----------------------------------------------------------------------------- journal / supervisor (as in C16)

func journalPath() string {
	return filepath.Join(H.OutDir, fmt.Sprintf("journal-shard-%d.json", H.Shard))
}

type journalEntry struct {
	Sub  string          `json:"sub"`
	Case json.RawMessage `json:"case"`
}

var journalFile *os.File

func journal(sub string, raw []byte) {
	if journalFile == nil {
		f, err := os.OpenFile(journalPath(), os.O_CREATE|os.O_RDWR|os.O_TRUNC, 0o644)
		if err != nil {
			return
		}
		journalFile = f
	}
	b, _ := json.Marshal(journalEntry{Sub: sub, Case: raw})
	buf := make([]byte, 8, 8+len(b))
	binary.LittleEndian.PutUint64(buf, uint64(len(b)))
	journalFile.WriteAt(append(buf, b...), 0)
}

func readJournal() (journalEntry, bool) {
	var j journalEntry
	b, err := os.ReadFile(journalPath())
	if err != nil || len(b) < 8 {
		return j, false
	}
	n := binary.LittleEndian.Uint64(b)
	if n == 0 || n > uint64(len(b)-8) {
		return j, false
	}
	if json.Unmarshal(b[8:8+n], &j) != nil || len(j.Case) == 0 {
		return j, false
	}
	return j, true
}

type silentTB struct{ msgs []string }

func (s *silentTB) Fatalf(format string, args ...interface{}) {
	s.msgs = append(s.msgs, fmt.Sprintf(format, args...))
}
func (s *silentTB) Logf(format string, args ...interface{}) {}

func reportFatal(sub string, raw []byte, v vdrv.Verdict) {
	var c interface{}
	json.Unmarshal(raw, &c)
	tb := &silentTB{}
	H.Report(tb, sub, string(raw), c, v)
	H.FlushFailure(sub)
	for _, m := range tb.msgs {
		fmt.Println(clipMid(m, 6000))
	}
	H.Finish(false)
	os.Exit(1)
}

type tailWriter struct {
	mu  sync.Mutex
	buf []byte
}

func (w *tailWriter) Write(p []byte) (int, error) {
	w.mu.Lock()
	defer w.mu.Unlock()
	w.buf = append(w.buf, p...)
	if len(w.buf) > 256*1024 {
		w.buf = w.buf[len(w.buf)-192*1024:]
	}
	return len(p), nil
}

func raceExcerpt(s string) string {
	i := strings.Index(s, "WARNING: DATA RACE")
	if i < 0 {
		return ""
	}
	s = s[i:]
	if j := strings.Index(s[20:], "=================="); j >= 0 {
		s = s[:20+j]
	}
	return clipMid(s, 14000)
}

func supervise(t *testing.T) {
	H = vdrv.New("C20")
	shardJSON := filepath.Join(H.OutDir, fmt.Sprintf("shard-%d.json", H.Shard))
	os.Remove(shardJSON)
	os.Remove(journalPath())
	cmd := exec.Command(os.Args[0], "-test.run", "^TestCheck$", "-test.timeout", "0")
	cmd.Env = append(os.Environ(), "VERIF_C20_ROLE=worker", "GORACE=halt_on_error=1 exitcode=66")
	tail := &tailWriter{}
	cmd.Stdout = io.MultiWriter(os.Stdout, tail)
	cmd.Stderr = cmd.Stdout
	err := cmd.Run()
	tail.mu.Lock()
	out := string(tail.buf)
	tail.mu.Unlock()
	if race := raceExcerpt(out); race != "" {
		j, ok := readJournal()
		if !ok {
			j = journalEntry{Sub: "api", Case: json.RawMessage(`{}`)}
		}
		v := vdrv.Fail("the race detector reported a data race while this history ran", "no data race", race)
		reportFatal(j.Sub, j.Case, v)
	}
	if _, serr := os.Stat(shardJSON); serr == nil {
		if err != nil {
			t.Fail()
		}
		return
	}
	t.Fatalf("INFRA: worker ended (%v) without evidence and without a race report", err)
}

// ----------------------------------------------------------------------------- entry points

var subs = map[string]vdrv.ReplayFunc{"api": replayAPI, "service": replayService}

func TestCheck(t *testing.T) {
	switch role() {
	case "":
		supervise(t)
		return
	case "worker":
	default:
		t.Skip("not for this role")
	}
	H = vdrv.New("C20")
	complete := false
	defer func() { H.Finish(complete) }()
	H.RunReplays(t, subs)
	H.Sub(t, "api", runAPI)
	H.Sub(t, "service", runService)
	complete = true
}

func TestReplay(t *testing.T) {
	H = vdrv.New("C20")
	if role() == "" {
		// run the replay under the race detector's halt mode in a child so that a race becomes a verdict
		cmd := exec.Command(os.Args[0], "-test.run", "^TestReplay$", "-test.timeout", "0")
		cmd.Env = append(os.Environ(), "VERIF_C20_ROLE=replay", "GORACE=halt_on_error=1 exitcode=66")
		var buf bytes.Buffer
		cmd.Stdout = io.MultiWriter(os.Stdout, &buf)
		cmd.Stderr = cmd.Stdout
		err := cmd.Run()
		if race := raceExcerpt(buf.String()); race != "" {
			fmt.Printf("SHARD-VIOLATION property=C20 replay=%s\n", os.Getenv("VERIF_REPLAY"))
			t.Fatalf("data race while replaying:\n%s", race)
		}
		if err != nil {
			t.Fail()
		}
		return
	}
	H.ReplayOne(t, subs)
}

package c20

import (
	"fmt"
	"os"
	"testing"
)

func TestDebugServe(t *testing.T) {
	if os.Getenv("VERIF_C20_DEBUG") == "" {
		t.Skip()
	}
	c := APICase{Procs: 4, Modules: 3, Deps: [][]int{{1}, {2}, nil}, Ctx: []CtxSpec{{Plugins: 2, StartDelayUS: []int{0, 0}, EndDelayUS: []int{0, 0}, LoadDelayUS: []int{0, 0, 0}}},
		Workers: [][]Op{{{Kind: "serve"}, {Kind: "rebuild"}, {Kind: "get"}, {Kind: "watch"}, {Kind: "sleep", DelayUS: 400000}, {Kind: "get"}}}, Edits: []int{100000, 100000}}
	o := runHistory(&c)
	for _, cl := range o.Calls {
		fmt.Printf("call %d %s err=%q status=%d body=%d bytes\n", cl.ID, cl.Op, cl.Err, cl.Status, len(cl.Body))
		if cl.Result != nil {
			for _, f := range cl.Result.OutputFiles {
				fmt.Println("  output", f.Path)
			}
			fmt.Println("  errors", msgTexts(cl.Result.Errors), "warnings", msgTexts(cl.Result.Warnings))
		}
		if cl.Status != 0 && cl.Status != 200 {
			fmt.Println("  body:", string(cl.Body))
		}
	}
	fmt.Print(fmtEvents(o.Events, -1))
	v := judgeHistory(o)
	fmt.Println("verdict", v.OK, v.Detail, v.Classes)
}

func TestDebugTiming(t *testing.T) {
	if os.Getenv("VERIF_C20_DEBUG") == "" {
		t.Skip()
	}
	H = nil
}

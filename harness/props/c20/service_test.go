package c20

import (
	"bytes"
	"encoding/binary"
	"encoding/json"
	"fmt"
	"io"
	"os"
	"os/exec"
	"path/filepath"
	"sort"
	"strings"
	"sync"
	"syscall"
	"testing"
	"time"

	"github.com/evanw/esbuild/verif/vdrv"
	"pgregory.net/rapid"
)

// ----------------------------------------------------------------------------- the service binary (built with -race)

var (
	svcBinOnce sync.Once
	svcBin     string
	svcBinErr  error
	svcVersion string
)

// serviceBinary builds <repo>/cmd/esbuild with -race into $TMPDIR once per run (shards share $TMPDIR; a lock
// file serialises them; the Go build cache makes every build after the first a relink).
func serviceBinary() (string, error) {
	svcBinOnce.Do(func() {
		repo := vdrv.RepoDir()
		vb, err := os.ReadFile(filepath.Join(repo, "version.txt"))
		if err != nil {
			svcBinErr = err
			return
		}
		svcVersion = strings.TrimSpace(string(vb))
		dir := os.Getenv("TMPDIR")
		if dir == "" {
			dir = os.TempDir()
		}
		bin := filepath.Join(dir, "esbuild-race")
		lock, err := os.OpenFile(bin+".lock", os.O_CREATE|os.O_RDWR, 0o644)
		if err != nil {
			svcBinErr = err
			return
		}
		defer lock.Close()
		if err := syscall.Flock(int(lock.Fd()), syscall.LOCK_EX); err != nil {
			svcBinErr = err
			return
		}
		defer syscall.Flock(int(lock.Fd()), syscall.LOCK_UN)
		if st, err := os.Stat(bin); err == nil && st.Size() > 0 {
			svcBin = bin
			return
		}
		tmp := fmt.Sprintf("%s.%d.tmp", bin, os.Getpid())
		cmd := exec.Command("go", "build", "-race", "-o", tmp, "./cmd/esbuild")
		cmd.Dir = repo
		env := []string{}
		for _, e := range os.Environ() {
			if !strings.HasPrefix(e, "GOMAXPROCS=") && !strings.HasPrefix(e, "GORACE=") {
				env = append(env, e)
			}
		}
		cmd.Env = env
		if out, err := cmd.CombinedOutput(); err != nil {
			svcBinErr = fmt.Errorf("go build -race ./cmd/esbuild: %v\n%s", err, out)
			return
		}
		if err := os.Rename(tmp, bin); err != nil {
			svcBinErr = err
			return
		}
		svcBin = bin
	})
	return svcBin, svcBinErr
}

// ----------------------------------------------------------------------------- wire format (my own implementation of cmd/esbuild/stdio_protocol.go)

type packet struct {
	id        uint32
	isRequest bool
	value     interface{}
}

func encodeValue(b []byte, v interface{}) []byte {
	u32 := func(n int) []byte { var x [4]byte; binary.LittleEndian.PutUint32(x[:], uint32(n)); return x[:] }
	switch x := v.(type) {
	case nil:
		return append(b, 0)
	case bool:
		if x {
			return append(b, 1, 1)
		}
		return append(b, 1, 0)
	case int:
		return append(append(b, 2), u32(x)...)
	case string:
		return append(append(append(b, 3), u32(len(x))...), x...)
	case []byte:
		return append(append(append(b, 4), u32(len(x))...), x...)
	case []interface{}:
		b = append(append(b, 5), u32(len(x))...)
		for _, it := range x {
			b = encodeValue(b, it)
		}
		return b
	case map[string]interface{}:
		keys := make([]string, 0, len(x))
		for k := range x {
			keys = append(keys, k)
		}
		sort.Strings(keys)
		b = append(append(b, 6), u32(len(keys))...)
		for _, k := range keys {
			b = append(append(b, u32(len(k))...), k...)
			b = encodeValue(b, x[k])
		}
		return b
	}
	panic(fmt.Sprintf("cannot encode %T", v))
}

func encodePacket(p packet) []byte {
	body := make([]byte, 4)
	id := p.id << 1
	if !p.isRequest {
		id |= 1
	}
	binary.LittleEndian.PutUint32(body, id)
	body = encodeValue(body, p.value)
	out := make([]byte, 4, 4+len(body))
	binary.LittleEndian.PutUint32(out, uint32(len(body)))
	return append(out, body...)
}

type decoder struct {
	b   []byte
	err string
}

func (d *decoder) u32() int {
	if len(d.b) < 4 {
		d.err = "truncated uint32"
		return 0
	}
	v := binary.LittleEndian.Uint32(d.b)
	d.b = d.b[4:]
	return int(v)
}

func (d *decoder) bytesN() []byte {
	n := d.u32()
	if d.err != "" {
		return nil
	}
	if n < 0 || n > len(d.b) {
		d.err = "length beyond the packet"
		return nil
	}
	v := d.b[:n]
	d.b = d.b[n:]
	return v
}

func (d *decoder) value(depth int) interface{} {
	if d.err != "" {
		return nil
	}
	if depth > 64 {
		d.err = "nesting too deep"
		return nil
	}
	if len(d.b) < 1 {
		d.err = "truncated value"
		return nil
	}
	kind := d.b[0]
	d.b = d.b[1:]
	switch kind {
	case 0:
		return nil
	case 1:
		if len(d.b) < 1 {
			d.err = "truncated bool"
			return nil
		}
		v := d.b[0]
		d.b = d.b[1:]
		return v != 0
	case 2:
		return d.u32()
	case 3:
		return string(d.bytesN())
	case 4:
		return append([]byte{}, d.bytesN()...)
	case 5:
		n := d.u32()
		if n > len(d.b) {
			d.err = "array longer than the packet"
			return nil
		}
		l := make([]interface{}, 0, n)
		for i := 0; i < n && d.err == ""; i++ {
			l = append(l, d.value(depth+1))
		}
		return l
	case 6:
		n := d.u32()
		if n > len(d.b) {
			d.err = "map longer than the packet"
			return nil
		}
		m := make(map[string]interface{}, n)
		for i := 0; i < n && d.err == ""; i++ {
			k := string(d.bytesN())
			m[k] = d.value(depth + 1)
		}
		return m
	}
	d.err = fmt.Sprintf("unknown value kind %d", kind)
	return nil
}

func decodePacket(b []byte) (packet, string) {
	d := &decoder{b: b}
	id := d.u32()
	v := d.value(0)
	if d.err == "" && len(d.b) != 0 {
		d.err = fmt.Sprintf("%d trailing bytes", len(d.b))
	}
	return packet{id: uint32(id) >> 1, isRequest: id&1 == 0, value: v}, d.err
}

// ----------------------------------------------------------------------------- case

type SvcCase struct {
	Procs           int       `json:"gomaxprocs"`
	Clients         [][]SvcOp `json:"clients"`
	CloseAfter      int       `json:"close_after_ops"` // the closer starts once this many operations have been issued (0 = after all)
	WaitDispose     bool      `json:"wait_for_dispose_responses"`
	CallbackDelayUS int       `json:"callback_delay_us"`
	Repeat          int       `json:"repeat,omitempty"`
}

type SvcOp struct {
	Kind    string `json:"op"` // transform | build | pbuild | ctx | rebuild | cancel | dispose | format | analyze
	Slot    int    `json:"slot"`
	DelayUS int    `json:"delay_us"`
	Plugins bool   `json:"plugins,omitempty"`
	Big     bool   `json:"big,omitempty"`
}

// ----------------------------------------------------------------------------- client

type svcEvent struct {
	T    time.Duration
	Kind string // req resp cb-req cb-resp
	ID   uint32
	Cmd  string
	Key  int
	Path string
}

type slot struct {
	key      int
	live     bool
	creating bool
	plugins  bool
}

type svcClient struct {
	t0         time.Time
	cmd        *exec.Cmd
	stdin      io.WriteCloser
	wmu        sync.Mutex
	mu         sync.Mutex
	pending    map[uint32]chan map[string]interface{}
	answered   map[uint32]int
	issued     map[uint32]string
	nextID     uint32
	nextKey    int
	events     []svcEvent
	problems   []string
	slots      [3]slot
	closing    bool
	inflightCB int
	cond       *sync.Cond
	opsIssued  int
	cbDelay    time.Duration
	stdinOpen  bool
	cbAnswered int
	dir        string
	stderr     bytes.Buffer
	readerDone chan struct{}
}

func (s *svcClient) problem(format string, args ...interface{}) {
	s.mu.Lock()
	if len(s.problems) < 20 {
		s.problems = append(s.problems, fmt.Sprintf(format, args...))
	}
	s.mu.Unlock()
}

func (s *svcClient) logEvent(e svcEvent) {
	e.T = time.Since(s.t0)
	s.mu.Lock()
	s.events = append(s.events, e)
	s.mu.Unlock()
}

func (s *svcClient) write(b []byte) error {
	s.wmu.Lock()
	defer s.wmu.Unlock()
	if !s.stdinOpen {
		return io.ErrClosedPipe
	}
	_, err := s.stdin.Write(b)
	return err
}

// send writes one request; await waits for its response.
func (s *svcClient) send(cmd string, key int, v map[string]interface{}) (chan map[string]interface{}, bool) {
	v["command"] = cmd
	ch := make(chan map[string]interface{}, 4)
	s.mu.Lock()
	id := s.nextID
	s.nextID++
	s.pending[id] = ch
	s.issued[id] = cmd
	s.mu.Unlock()
	s.logEvent(svcEvent{Kind: "req", ID: id, Cmd: cmd, Key: key})
	if err := s.write(encodePacket(packet{id: id, isRequest: true, value: v})); err != nil {
		s.mu.Lock()
		delete(s.pending, id)
		delete(s.issued, id)
		s.mu.Unlock()
		return nil, false
	}
	return ch, true
}

func (s *svcClient) await(ch chan map[string]interface{}) (map[string]interface{}, string) {
	select {
	case r := <-ch:
		return r, ""
	case <-s.readerDone:
		// the process ended: a response may still have been delivered just before
		select {
		case r := <-ch:
			return r, ""
		default:
		}
		return nil, "no-response"
	case <-time.After(90 * time.Second):
		return nil, "no-response"
	}
}

func (s *svcClient) request(cmd string, key int, v map[string]interface{}) (map[string]interface{}, string) {
	ch, ok := s.send(cmd, key, v)
	if !ok {
		return nil, "not-sent"
	}
	return s.await(ch)
}

func (s *svcClient) reader(stdout io.Reader) {
	defer close(s.readerDone)
	var lenbuf [4]byte
	first := true
	for {
		if _, err := io.ReadFull(stdout, lenbuf[:]); err != nil {
			if err != io.EOF {
				s.problem("stdout ended inside a length prefix: %v", err)
			}
			return
		}
		n := binary.LittleEndian.Uint32(lenbuf[:])
		if n > 256<<20 {
			s.problem("packet length %d is implausible: the stream is corrupt", n)
			return
		}
		body := make([]byte, n)
		if _, err := io.ReadFull(stdout, body); err != nil {
			s.problem("stdout ended inside a packet of %d bytes: %v", n, err)
			return
		}
		if first {
			first = false
			if string(body) != svcVersion {
				s.problem("handshake %q is not the version %q", string(body), svcVersion)
			}
			continue
		}
		p, derr := decodePacket(body)
		if derr != "" {
			s.problem("malformed packet from esbuild (%s): % x", derr, body[:min(len(body), 64)])
			continue
		}
		m, ok := p.value.(map[string]interface{})
		if !ok {
			s.problem("packet %d carries a %T, not a map", p.id, p.value)
			continue
		}
		if p.isRequest {
			go s.handleCallback(p.id, m)
			continue
		}
		s.mu.Lock()
		ch := s.pending[p.id]
		cmd := s.issued[p.id]
		s.answered[p.id]++
		n2 := s.answered[p.id]
		s.mu.Unlock()
		s.logEvent(svcEvent{Kind: "resp", ID: p.id, Cmd: cmd})
		if ch == nil {
			s.problem("response carries id %d, which no outstanding request has", p.id)
			continue
		}
		if n2 > 1 {
			s.problem("request %d (%s) received %d responses", p.id, cmd, n2)
			continue
		}
		ch <- m
	}
}

func emptyMsgs() map[string]interface{} {
	return map[string]interface{}{"errors": []interface{}{}, "warnings": []interface{}{}}
}

// handleCallback answers a request that esbuild sends to its host.
func (s *svcClient) handleCallback(id uint32, m map[string]interface{}) {
	cmd, _ := m["command"].(string)
	key, _ := m["key"].(int)
	path, _ := m["path"].(string)
	s.logEvent(svcEvent{Kind: "cb-req", ID: id, Cmd: cmd, Key: key, Path: path})
	if cmd != "ping" && s.cbDelay > 0 {
		time.Sleep(s.cbDelay)
	}
	var resp map[string]interface{}
	switch cmd {
	case "ping":
		resp = map[string]interface{}{}
	case "on-start":
		resp = emptyMsgs()
	case "on-resolve":
		resp = map[string]interface{}{"id": 1, "path": strings.TrimPrefix(path, "svc:"), "namespace": "svc"}
	case "on-load":
		src := fmt.Sprintf("console.log(\"P%d|%s|\")\n", key, path)
		if path == "e" {
			src = "import \"svc:d\"\n" + src
		}
		resp = map[string]interface{}{"id": 2, "contents": []byte(src), "loader": "js"}
	case "on-end":
		// for a context, the output files arrive here: they must belong to this key
		if files, ok := m["outputFiles"].([]interface{}); ok {
			for _, f := range files {
				if fm, ok := f.(map[string]interface{}); ok {
					if c, ok := fm["contents"].([]byte); ok && bytes.Contains(c, []byte("console.log(\"P")) && !bytes.Contains(c, []byte(fmt.Sprintf("P%d|", key))) {
						s.problem("on-end for key %d delivers output of another build: %s", key, clipMid(string(c), 300))
					}
				}
			}
		}
		resp = emptyMsgs()
	case "serve-request":
		resp = map[string]interface{}{}
	default:
		s.problem("esbuild sent an unknown request %q", cmd)
		resp = map[string]interface{}{}
	}
	if err := s.write(encodePacket(packet{id: id, isRequest: false, value: resp})); err == nil {
		s.logEvent(svcEvent{Kind: "cb-resp", ID: id, Cmd: cmd, Key: key, Path: path})
		if cmd != "ping" {
			s.mu.Lock()
			s.cbAnswered++
			s.mu.Unlock()
		}
	} else if cmd != "ping" {
		s.problem("HARNESS: could not answer %s for key %d because stdin was already closed (the guard failed)", cmd, key)
	}
}

// enterCB / leaveCB bracket operations during which esbuild needs answers from this client.
func (s *svcClient) enterCB() bool {
	s.mu.Lock()
	defer s.mu.Unlock()
	if s.closing {
		return false
	}
	s.inflightCB++
	return true
}

func (s *svcClient) leaveCB() {
	s.mu.Lock()
	s.inflightCB--
	s.cond.Broadcast()
	s.mu.Unlock()
}

func (s *svcClient) mayIssue() bool {
	s.mu.Lock()
	defer s.mu.Unlock()
	if s.closing {
		return false
	}
	s.opsIssued++
	s.cond.Broadcast()
	return true
}

func pluginSpec() []interface{} {
	return []interface{}{map[string]interface{}{"name": "wire", "onEnd": true,
		"onResolve": []interface{}{map[string]interface{}{"id": 1, "filter": "^svc:", "namespace": ""}},
		"onLoad":    []interface{}{map[string]interface{}{"id": 2, "filter": ".*", "namespace": "svc"}}}}
}

func (s *svcClient) buildRequest(key int, context, plugins bool) map[string]interface{} {
	v := map[string]interface{}{"key": key, "flags": []interface{}{"--bundle", "--outdir=out", "--log-level=silent", "--format=esm"}, "write": false,
		"absWorkingDir": s.dir, "nodePaths": []interface{}{}, "context": context, "entries": []interface{}{}}
	if plugins {
		v["entries"] = []interface{}{[]interface{}{"", "svc:e"}}
		v["plugins"] = pluginSpec()
	} else {
		v["stdinContents"] = []byte(fmt.Sprintf("console.log(\"B%d|\")", key))
		v["stdinResolveDir"] = s.dir
	}
	return v
}

func hasErrorText(r map[string]interface{}, sub string) bool {
	if e, ok := r["error"].(string); ok && strings.Contains(e, sub) {
		return true
	}
	if l, ok := r["errors"].([]interface{}); ok {
		for _, it := range l {
			if m, ok := it.(map[string]interface{}); ok {
				if t, _ := m["text"].(string); strings.Contains(t, sub) {
					return true
				}
			}
		}
	}
	return false
}

func outputsContain(r map[string]interface{}, sub string) bool {
	files, ok := r["outputFiles"].([]interface{})
	if !ok {
		return false
	}
	for _, f := range files {
		if fm, ok := f.(map[string]interface{}); ok {
			if c, ok := fm["contents"].([]byte); ok && bytes.Contains(c, []byte(sub)) {
				return true
			}
		}
	}
	return false
}

func msgList(r map[string]interface{}, k string) bool {
	_, ok := r[k].([]interface{})
	return ok
}

// runOp performs one operation of a logical client and checks its response.
func (s *svcClient) runOp(op SvcOp) {
	if !s.mayIssue() {
		return
	}
	bad := func(cmd string, id interface{}, r map[string]interface{}, why string) {
		s.problem("%s %v: %s; response: %s", cmd, id, why, clipMid(fmt.Sprintf("%v", r), 600))
	}
	switch op.Kind {
	case "transform":
		s.mu.Lock()
		n := int(s.nextID)*7 + 1000003
		s.mu.Unlock()
		src := fmt.Sprintf("export const t%d = %d", n, n)
		if op.Big {
			src += strings.Repeat(fmt.Sprintf("\nconsole.log(%d, [1, 2, 3].map(x => x * 2))", n), 600)
		}
		r, e := s.request("transform", 0, map[string]interface{}{"flags": []interface{}{"--loader=js", "--minify-whitespace"}, "inputFS": false, "input": []byte(src)})
		if e == "" {
			code, ok := r["code"].(string)
			if !ok || !strings.Contains(code, fmt.Sprintf("t%d=%d", n, n)) || !msgList(r, "errors") || !msgList(r, "warnings") {
				bad("transform", n, r, "the response does not carry the transformed input of this request")
			}
		} else if e == "no-response" {
			s.problem("transform %d never received a response", n)
		}
	case "build":
		s.mu.Lock()
		s.nextKey++
		key := s.nextKey
		s.mu.Unlock()
		r, e := s.request("build", key, s.buildRequest(key, false, false))
		if e == "" {
			if !outputsContain(r, fmt.Sprintf("B%d|", key)) || !msgList(r, "errors") {
				bad("build", key, r, "the response does not carry the output of this build")
			}
		} else if e == "no-response" {
			s.problem("build key %d never received a response", key)
		}
	case "pbuild":
		if !s.enterCB() {
			return
		}
		defer s.leaveCB()
		s.mu.Lock()
		s.nextKey++
		key := s.nextKey
		s.mu.Unlock()
		r, e := s.request("build", key, s.buildRequest(key, false, true))
		if e == "" {
			if !outputsContain(r, fmt.Sprintf("P%d|e|", key)) || !outputsContain(r, fmt.Sprintf("P%d|d|", key)) {
				bad("build+plugins", key, r, "the response does not carry the two plugin-provided modules of this build")
			}
		} else if e == "no-response" {
			s.problem("build key %d (plugins) never received a response", key)
		}
	case "ctx":
		// A key may be used only after the response to the request that created it has arrived (the real host
		// has no handle before that); creation is therefore bracketed like an operation the closer must wait for.
		if !s.enterCB() {
			return
		}
		defer s.leaveCB()
		s.mu.Lock()
		sl := &s.slots[op.Slot%3]
		if sl.live || sl.creating {
			s.mu.Unlock()
			return
		}
		s.nextKey++
		key := s.nextKey
		*sl = slot{creating: true}
		s.mu.Unlock()
		r, e := s.request("build", key, s.buildRequest(key, true, op.Plugins))
		created := false
		if l, ok := r["errors"].([]interface{}); e == "" && (!ok || len(l) > 0) {
			bad("context", key, r, "context creation failed")
		} else if e == "no-response" {
			s.problem("context key %d never received a response", key)
		} else if e == "" {
			created = true
		}
		s.mu.Lock()
		if created {
			*sl = slot{key: key, live: true, plugins: op.Plugins}
		} else {
			*sl = slot{}
		}
		s.mu.Unlock()
	case "rebuild", "cancel", "dispose":
		// rebuild needs the client to answer on-end; a dispose issued by a client must reach the service before
		// stdin closes (otherwise the context would stay alive, and with it the process, by design): both are
		// operations the closer waits for. If the closer is already at work it disposes the context itself.
		if op.Kind != "cancel" {
			if !s.enterCB() {
				return
			}
			defer s.leaveCB()
		}
		s.mu.Lock()
		sl := &s.slots[op.Slot%3]
		key, live := sl.key, sl.live
		if op.Kind == "dispose" {
			sl.live = false
		}
		s.mu.Unlock()
		if key == 0 || (!live && op.Kind == "dispose") {
			return
		}
		r, e := s.request(op.Kind, key, map[string]interface{}{"key": key})
		if e == "no-response" {
			s.problem("%s key %d never received a response", op.Kind, key)
		} else if e == "" && op.Kind == "rebuild" {
			_, isErr := r["error"].(string)
			if !isErr && (!msgList(r, "errors") || !msgList(r, "warnings")) {
				bad("rebuild", key, r, "neither a result nor an error")
			}
			if l, ok := r["errors"].([]interface{}); ok && len(l) > 0 && !hasErrorText(r, "cancel") {
				bad("rebuild", key, r, "the rebuild failed although nothing was wrong with its input")
			}
		}
	case "format":
		s.mu.Lock()
		n := int(s.nextID)*7 + 2000003
		s.mu.Unlock()
		msg := map[string]interface{}{"id": "", "pluginName": "", "text": fmt.Sprintf("M%d|", n), "location": nil, "notes": []interface{}{}, "detail": -1}
		r, e := s.request("format-msgs", 0, map[string]interface{}{"messages": []interface{}{msg}, "isWarning": op.Big, "color": false, "terminalWidth": 80})
		if e == "" {
			l, ok := r["messages"].([]interface{})
			if !ok || len(l) != 1 || !strings.Contains(fmt.Sprint(l[0]), fmt.Sprintf("M%d|", n)) {
				bad("format-msgs", n, r, "the response does not carry the formatted message of this request")
			}
		} else if e == "no-response" {
			s.problem("format-msgs %d never received a response", n)
		}
	case "analyze":
		s.mu.Lock()
		n := int(s.nextID)*7 + 3000003
		s.mu.Unlock()
		meta := fmt.Sprintf(`{"inputs":{"in%d.js":{"bytes":10,"imports":[]}},"outputs":{"out%d.js":{"bytes":10,"inputs":{"in%d.js":{"bytesInOutput":10}},"imports":[],"exports":[]}}}`, n, n, n)
		r, e := s.request("analyze-metafile", 0, map[string]interface{}{"metafile": meta, "color": false, "verbose": op.Big})
		if e == "" {
			res, ok := r["result"].(string)
			if !ok || !strings.Contains(res, fmt.Sprintf("out%d.js", n)) {
				bad("analyze-metafile", n, r, "the response does not carry the analysis of this request's metafile")
			}
		} else if e == "no-response" {
			s.problem("analyze-metafile %d never received a response", n)
		}
	}
}

type svcOutcome struct {
	Infra     string
	Problems  []string
	Events    []svcEvent
	ExitErr   string
	Stderr    string
	Overlap   bool
	Callbacks int
	Requests  int
	Inflight  int // requests without a response at the moment stdin was closed
}

func runService1(c *SvcCase) svcOutcome {
	var out svcOutcome
	bin, err := serviceBinary()
	if err != nil {
		out.Infra = err.Error()
		return out
	}
	dir, err := os.MkdirTemp("", "c20-svc-")
	if err != nil {
		out.Infra = err.Error()
		return out
	}
	defer os.RemoveAll(dir)
	if real, err := filepath.EvalSymlinks(dir); err == nil {
		dir = real
	}
	cmd := exec.Command(bin, "--service="+svcVersion, "--ping")
	env := []string{}
	for _, e := range os.Environ() {
		if !strings.HasPrefix(e, "GOMAXPROCS=") && !strings.HasPrefix(e, "GORACE=") {
			env = append(env, e)
		}
	}
	cmd.Env = append(env, fmt.Sprintf("GOMAXPROCS=%d", c.Procs), "GORACE=halt_on_error=1 exitcode=66")
	cmd.Dir = dir
	stdin, err := cmd.StdinPipe()
	if err != nil {
		out.Infra = err.Error()
		return out
	}
	stdout, err := cmd.StdoutPipe()
	if err != nil {
		out.Infra = err.Error()
		return out
	}
	s := &svcClient{t0: time.Now(), cmd: cmd, stdin: stdin, pending: map[uint32]chan map[string]interface{}{}, answered: map[uint32]int{}, issued: map[uint32]string{},
		cbDelay: time.Duration(c.CallbackDelayUS) * time.Microsecond, stdinOpen: true, dir: dir, readerDone: make(chan struct{})}
	s.cond = sync.NewCond(&s.mu)
	cmd.Stderr = &s.stderr
	if err := cmd.Start(); err != nil {
		out.Infra = err.Error()
		return out
	}
	go s.reader(stdout)

	total := 0
	for _, ops := range c.Clients {
		total += len(ops)
	}
	var wg sync.WaitGroup
	for _, ops := range c.Clients {
		wg.Add(1)
		go func(ops []SvcOp) {
			defer wg.Done()
			for _, op := range ops {
				sleepUS(op.DelayUS)
				s.runOp(op)
			}
		}(ops)
	}
	clientsDone := make(chan struct{})
	go func() { wg.Wait(); close(clientsDone) }()

	// the closer
	closeAfter := c.CloseAfter
	if closeAfter <= 0 || closeAfter > total {
		closeAfter = total
	}
	closed := make(chan struct{})
	go func() {
		defer close(closed)
		if closeAfter < total {
			s.mu.Lock()
			for s.opsIssued < closeAfter {
				s.cond.Wait()
			}
			s.mu.Unlock()
		} else {
			<-clientsDone
		}
		s.mu.Lock()
		s.closing = true
		for s.inflightCB > 0 {
			s.cond.Wait()
		}
		var keys []int
		for i := range s.slots {
			if s.slots[i].live {
				keys = append(keys, s.slots[i].key)
				s.slots[i].live = false
			}
		}
		s.mu.Unlock()
		// dispose what is still alive: an undisposed context keeps the service running by design
		var waits []chan map[string]interface{}
		for _, k := range keys {
			if ch, ok := s.send("dispose", k, map[string]interface{}{"key": k}); ok {
				waits = append(waits, ch)
			}
		}
		awaitAll := func() {
			for _, ch := range waits {
				if _, e := s.await(ch); e == "no-response" {
					s.problem("a dispose request sent before stdin was closed never received a response")
				}
			}
		}
		if c.WaitDispose {
			awaitAll()
			waits = nil
		}
		s.mu.Lock()
		for id := range s.pending {
			if s.answered[id] == 0 {
				out.Inflight++
			}
		}
		s.mu.Unlock()
		s.wmu.Lock()
		s.stdinOpen = false
		s.stdin.Close()
		s.wmu.Unlock()
		awaitAll()
	}()

	waitAll := make(chan struct{})
	go func() { <-clientsDone; <-closed; close(waitAll) }()
	select {
	case <-waitAll:
	case <-time.After(120 * time.Second):
		s.problem("clients or the closer still waiting after 120 s (a request was never answered)")
	}
	exited := make(chan error, 1)
	go func() { <-s.readerDone; exited <- cmd.Wait() }()
	select {
	case err := <-exited:
		if err != nil {
			out.ExitErr = err.Error()
		}
	case <-time.After(30 * time.Second):
		s.problem("the service process was still running 30 s after stdin was closed (every context had been disposed)")
		cmd.Process.Kill()
		<-exited
	}
	s.mu.Lock()
	defer s.mu.Unlock()
	out.Problems = append([]string{}, s.problems...)
	out.Events = append([]svcEvent{}, s.events...)
	out.Stderr = s.stderr.String()
	out.Callbacks = s.cbAnswered
	out.Requests = len(s.issued)
	for id, cmdName := range s.issued {
		if s.answered[id] != 1 {
			out.Problems = append(out.Problems, fmt.Sprintf("request %d (%s) received %d responses", id, cmdName, s.answered[id]))
		}
	}
	// overlap of requests of different kinds in flight
	open := 0
	for _, e := range s.events {
		switch e.Kind {
		case "req":
			open++
			if open >= 2 {
				out.Overlap = true
			}
		case "resp":
			open--
		}
	}
	// callback order per key: on-start before on-resolve/on-load, on-end last; each path loaded once per build
	type kstate struct {
		started bool
		loads   map[string]int
	}
	ks := map[int]*kstate{}
	for _, e := range s.events {
		if e.Kind != "cb-req" || e.Cmd == "ping" {
			continue
		}
		st := ks[e.Key]
		if st == nil {
			st = &kstate{loads: map[string]int{}}
			ks[e.Key] = st
		}
		switch e.Cmd {
		case "on-start":
			st.started = true
			st.loads = map[string]int{}
		case "on-resolve", "on-load":
			if !st.started {
				out.Problems = append(out.Problems, fmt.Sprintf("key %d: %s %q arrived before on-start of that build", e.Key, e.Cmd, e.Path))
			}
			if e.Cmd == "on-load" {
				st.loads[e.Path]++
				if st.loads[e.Path] > 1 {
					out.Problems = append(out.Problems, fmt.Sprintf("key %d: %q loaded twice in one build", e.Key, e.Path))
				}
			}
		case "on-end":
			st.started = false
		}
	}
	return out
}

func judgeService(c SvcCase) vdrv.Verdict {
	n := c.Repeat
	if n < 1 {
		n = 1
	}
	var v vdrv.Verdict
	for i := 0; i < n; i++ {
		o := runService1(&c)
		if o.Infra != "" {
			return vdrv.Skip("service-binary")
		}
		var log strings.Builder
		for i, e := range o.Events {
			if i > 300 {
				log.WriteString("…\n")
				break
			}
			if e.Cmd == "ping" {
				continue
			}
			fmt.Fprintf(&log, "%9.3fms %-7s id=%d %s key=%d %s\n", float64(e.T.Microseconds())/1000, e.Kind, e.ID, e.Cmd, e.Key, e.Path)
		}
		observed := "--- stderr of the service\n" + clipMid(o.Stderr, 8000) + "\n--- exit: " + o.ExitErr + "\n--- events\n" + log.String()
		switch {
		case strings.Contains(o.Stderr, "WARNING: DATA RACE"):
			return vdrv.Fail("the race detector reported a data race inside the esbuild service process", "no data race", raceExcerpt(o.Stderr)+"\n"+observed)
		case strings.Contains(o.Stderr, "panic:") || strings.Contains(o.Stderr, "fatal error:"):
			return vdrv.Fail("the esbuild service process crashed", "the service answers and exits", observed)
		case len(o.Problems) > 0:
			for _, p := range o.Problems {
				if strings.HasPrefix(p, "HARNESS:") {
					return vdrv.Skip("harness-guard")
				}
			}
			return vdrv.Fail(strings.Join(o.Problems, "; "), "every request receives exactly one well-formed response carrying its id; the process exits after stdin closes", observed)
		case o.ExitErr != "":
			return vdrv.Fail("the esbuild service process ended with "+o.ExitErr, "exit status 0 after stdin closes", observed)
		}
		cls := []string{fmt.Sprintf("procs=%d", c.Procs), fmt.Sprintf("clients=%d", len(c.Clients))}
		if o.Overlap {
			cls = append(cls, "requests-overlapped")
		}
		if o.Callbacks > 0 {
			cls = append(cls, "plugin-callbacks-answered")
		}
		if o.Inflight > 0 {
			cls = append(cls, "stdin-closed-with-requests-in-flight")
		}
		if c.CloseAfter > 0 {
			cls = append(cls, "stdin-closed-early")
		}
		seen := map[string]bool{}
		for _, e := range o.Events {
			if e.Kind == "req" && !seen[e.Cmd] {
				seen[e.Cmd] = true
				cls = append(cls, "cmd="+e.Cmd)
			}
		}
		v = vdrv.Pass(o.Overlap && o.Callbacks > 0, cls...)
		v.Observed = fmt.Sprintf("%d requests, %d callbacks answered, %d in flight when stdin closed", o.Requests, o.Callbacks, o.Inflight)
	}
	return v
}

func replayService(raw json.RawMessage) vdrv.Verdict {
	var c SvcCase
	if err := json.Unmarshal(raw, &c); err != nil {
		return vdrv.Skip("bad-replay")
	}
	if c.Repeat < 1 {
		c.Repeat = 15
	}
	return judgeService(c)
}

func genSvcCase(t *rapid.T) SvcCase {
	c := SvcCase{Procs: rapid.SampledFrom([]int{1, 2, 4, 8}).Draw(t, "gomaxprocs")}
	kinds := []string{"transform", "transform", "build", "pbuild", "ctx", "rebuild", "rebuild", "rebuild", "cancel", "dispose", "format", "analyze"}
	ctxKinds := []string{"rebuild", "rebuild", "rebuild", "cancel", "rebuild", "transform", "dispose"}
	total := 0
	for i, n := 0, rapid.IntRange(2, 6).Draw(t, "clients"); i < n; i++ {
		var ops []SvcOp
		delay := func() int { return rapid.SampledFrom([]int{0, 0, 100, 1000, 5000}).Draw(t, "delay") }
		if rapid.Bool().Draw(t, "ctxclient") {
			// a client that owns a context: create it, then work on it (other clients may use the same slot)
			slot := rapid.SampledFrom([]int{0, 0, 0, 1, 2}).Draw(t, "ownslot")
			ops = append(ops, SvcOp{Kind: "ctx", Slot: slot, DelayUS: delay(), Plugins: rapid.Bool().Draw(t, "plugins")})
			for j, m := 0, rapid.IntRange(1, 6).Draw(t, "nctxops"); j < m; j++ {
				ops = append(ops, SvcOp{Kind: rapid.SampledFrom(ctxKinds).Draw(t, "ctxop"), Slot: slot, DelayUS: delay(), Big: rapid.IntRange(0, 3).Draw(t, "big") == 0})
			}
		} else {
			for j, m := 0, rapid.IntRange(1, 8).Draw(t, "nops"); j < m; j++ {
				ops = append(ops, SvcOp{Kind: rapid.SampledFrom(kinds).Draw(t, "op"), Slot: rapid.SampledFrom([]int{0, 0, 0, 1, 2}).Draw(t, "slot"),
					DelayUS: delay(), Plugins: rapid.Bool().Draw(t, "plugins"), Big: rapid.IntRange(0, 3).Draw(t, "big") == 0})
			}
		}
		total += len(ops)
		c.Clients = append(c.Clients, ops)
	}
	if rapid.Bool().Draw(t, "closeearly") {
		c.CloseAfter = rapid.IntRange(1, total).Draw(t, "closeafter")
	}
	c.WaitDispose = rapid.Bool().Draw(t, "waitdispose")
	c.CallbackDelayUS = rapid.SampledFrom([]int{0, 0, 200, 2000, 5000}).Draw(t, "cbdelay")
	return c
}

func runService(t *testing.T) {
	H.Rule("service", "rapid: the real `esbuild --service=<version> --ping` child (cmd/esbuild built with -race, GORACE=halt_on_error, GOMAXPROCS drawn) driven over stdin/stdout by an independent implementation of the length-prefixed wire protocol: 2–6 logical clients interleave transform (small and 600-statement inputs), build from stdin, build with wire plugins (on-start/on-resolve/on-load/on-end requests FROM esbuild answered by the client after a drawn 0–5 ms), context creation on three shared slots followed by rebuild/cancel/dispose from any client, format-msgs and analyze-metafile; every request payload is unique so a response can be matched to its request by content as well as by id; pings are answered. stdin is closed after a drawn number of operations, only when no operation that needs client callbacks is in flight and after `dispose` was sent for every live context (drawn: with or without waiting for the dispose responses); callback-free requests may still be in flight. Oracle: every packet decodes; every request id receives exactly one response, carrying that id and the content that belongs to it; on-start precedes on-resolve/on-load per build, each path loaded once; no output of another build in on-end; no DATA RACE/panic on stderr; exit status 0 within 30 s of closing stdin. Non-trivial = two requests were in flight at once and a plugin callback was answered.")
	if _, err := serviceBinary(); err != nil {
		t.Fatalf("INFRA: %v", err)
	}
	H.SetupRapid("service", H.N(96, 2400))
	rapid.Check(t, func(rt *rapid.T) {
		c := genSvcCase(rt)
		raw, _ := json.Marshal(c)
		journal("service", raw)
		H.Report(rt, "service", string(raw), c, judgeService(c))
	})
}

package c20

import (
	"encoding/json"
	"os"
	"path/filepath"
	"testing"

	"github.com/evanw/esbuild/verif/vdrv"
)

// TestMakeReplays (re)writes the hand-made regression replays under replays/C20 (VERIF_C20_MAKE_REPLAYS=1 only).
func TestMakeReplays(t *testing.T) {
	if os.Getenv("VERIF_C20_MAKE_REPLAYS") == "" {
		t.Skip("set VERIF_C20_MAKE_REPLAYS=1")
	}
	dir := filepath.Join(vdrv.Root(), "replays", "C20")
	os.MkdirAll(dir, 0o755)
	write := func(name, sub, note string, c interface{}) {
		b, _ := json.MarshalIndent(vdrv.Failure{Property: "C20", Sub: sub, Case: c, Note: note}, "", " ")
		if err := os.WriteFile(filepath.Join(dir, name+".json"), b, 0o644); err != nil {
			t.Fatal(err)
		}
	}
	spec := func(p int) CtxSpec {
		s := CtxSpec{Plugins: p, LoadDelayUS: []int{1000, 0, 2500, 300}, Reentrant: true}
		for k := 0; k < p; k++ {
			s.StartDelayUS = append(s.StartDelayUS, 300*k)
			s.EndDelayUS = append(s.EndDelayUS, 1000)
		}
		return s
	}
	deps := [][]int{{1, 2}, {2, 3}, {3}, nil}
	write("hazard-cancel-races-rebuilds", "api", "three goroutines rebuild while a fourth cancels repeatedly; an editor bumps the store", APICase{Procs: 4, Modules: 4, Deps: deps, Ctx: []CtxSpec{spec(3)}, Repeat: 3,
		Workers: [][]Op{{{Kind: "rebuild"}, {Kind: "rebuild", DelayUS: 200}, {Kind: "rebuild"}}, {{Kind: "rebuild", DelayUS: 1000}, {Kind: "rebuild"}}, {{Kind: "rebuild", DelayUS: 20}, {Kind: "rebuild", DelayUS: 4000}},
			{{Kind: "cancel", DelayUS: 1000}, {Kind: "cancel", DelayUS: 1000}, {Kind: "cancel", DelayUS: 4000}, {Kind: "cancel"}}}, Edits: []int{1000, 3000, 3000}})
	failing := spec(2)
	failing.FailLoadGen, failing.FailLoadMod, failing.FailEndGen, failing.FailEndK = 2, 2, 3, 0
	write("hazard-dispose-during-build-two-contexts", "api", "Dispose while builds run on two contexts, with failing OnLoad/OnEnd generations", APICase{Procs: 2, Modules: 4, Deps: deps, Ctx: []CtxSpec{failing, spec(1)}, Repeat: 3,
		Workers: [][]Op{{{Kind: "rebuild"}, {Kind: "rebuild", Ctx: 1}, {Kind: "rebuild"}, {Kind: "rebuild", Ctx: 1}}, {{Kind: "rebuild", Ctx: 1, DelayUS: 200}, {Kind: "dispose", DelayUS: 1000}, {Kind: "rebuild"}, {Kind: "cancel", Ctx: 1}},
			{{Kind: "rebuild", DelayUS: 20}, {Kind: "dispose", Ctx: 1, DelayUS: 4000}, {Kind: "dispose", Ctx: 1}}}, Edits: []int{100, 100, 8000}})
	write("hazard-serve-watch-get", "api", "Serve + Watch + HTTP GET next to Rebuild and Cancel", APICase{Procs: 8, Modules: 4, Deps: deps, Ctx: []CtxSpec{spec(2)}, Repeat: 2,
		Workers: [][]Op{{{Kind: "serve"}, {Kind: "get"}, {Kind: "get", DelayUS: 1000}, {Kind: "get"}}, {{Kind: "watch", DelayUS: 200}, {Kind: "rebuild"}, {Kind: "sleep", DelayUS: 150000}, {Kind: "rebuild"}},
			{{Kind: "rebuild"}, {Kind: "cancel", DelayUS: 1000}, {Kind: "get", DelayUS: 4000}}}, Edits: []int{3000, 8000, 8000}})
	write("hazard-service-contexts-and-early-close", "service", "two clients share a context with wire plugins, others transform/build; stdin closed after 9 operations", SvcCase{Procs: 4, CloseAfter: 9, WaitDispose: false, CallbackDelayUS: 200, Repeat: 2,
		Clients: [][]SvcOp{{{Kind: "ctx", Plugins: true}, {Kind: "rebuild"}, {Kind: "rebuild", DelayUS: 100}, {Kind: "cancel"}, {Kind: "rebuild"}, {Kind: "dispose"}},
			{{Kind: "rebuild", DelayUS: 1000}, {Kind: "cancel", DelayUS: 1000}, {Kind: "rebuild"}, {Kind: "rebuild"}},
			{{Kind: "transform", Big: true}, {Kind: "pbuild"}, {Kind: "format"}, {Kind: "analyze"}, {Kind: "build"}, {Kind: "transform"}},
			{{Kind: "ctx", Slot: 1}, {Kind: "rebuild", Slot: 1}, {Kind: "transform", Big: true}, {Kind: "rebuild", Slot: 1}}}})
}

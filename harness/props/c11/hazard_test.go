package c11

import (
	"encoding/json"
	"testing"
)

// A hand-made tree that exercises every rule at least once; each (tree, query) is judged like a generated
// case. It gives the check known-good coverage from the first run and serves as a readable example.

func js(p string) File { return File{Path: p, Content: "// " + p + "\n"} }

func hazardTree() Tree {
	return Tree{Files: []File{
		{Path: "package.json", Content: `{"name":"rootpkg","type":"module","exports":{".":"./index.js","./feat/*":{"require":"./src/*.cjs","import":"./src/*.mjs"}},
 "imports":{"#a":"./src/a.js","#dep":"pa","#depsub/*":"pa/lib/*","#cond":{"browser":"./src/nope.js","custom":"./src/c.cjs","require":"./src/c.cjs","import":"./src/b.mjs"},
  "#lib/*":"./src/*.js","#lib/deep/*":"./src/deep/*.js","#null":null,"#bad":"../outside.js","#arr":["../bad.js","./src/a.js"],"#lib/*.min":"./src/deep/*.js"}}`},
		js("index.js"), js("src/a.js"), js("src/b.mjs"), js("src/c.cjs"), js("src/deep/d.js"), js("src/deep/index.js"),
		{Path: "src/data.json", Content: "{}"},
		js("src/a b.mjs"), js("src/sp ace.js"),
		js("src/both.js"), js("src/both/index.js"),
		{Path: "src/dirmain/package.json", Content: `{"main":"m"}`}, js("src/dirmain/m.js"), js("src/dirmain/index.js"),
		// hoisted packages
		{Path: "node_modules/pa/package.json", Content: `{"name":"pa","main":"./lib/a"}`},
		js("node_modules/pa/lib/a.js"), js("node_modules/pa/lib/a b.js"), js("node_modules/pa/lib/b.mjs"), js("node_modules/pa/index.js"),
		{Path: "node_modules/pa/lib/d.json", Content: "{}"},
		{Path: "node_modules/pb/package.json", Content: `{"name":"pb","module":"./esm.js","browser":"./browser.js","exports":{
  ".":{"browser":"./browser.js","module":"./esm.js","import":{"custom":"./custom.mjs","node":"./node.mjs","default":"./def.mjs"},"require":"./req.cjs","default":"./def.js"},
  "./package.json":"./package.json",
  "./lib/*":"./lib/*.js","./lib/*.js":"./lib/*.js","./lib/sub/*":"./lib/sub/*.js","./lib/s*":"./dist/s*.js","./lib/internal/*":null,"./lib/*/index.js":"./dist/*.js",
  "./null":null,"./bad1":"lib/a.js","./bad2":"./lib/../../x.js","./bad3":"./node_modules/x/index.js","./bad4":"../pa/index.js","./bad5":"./lib/../dist/a.js","./bad6":"./node_modules/inner/index.js","./bad7":["./lib/../dist/a.js","./lib/b.js"],
  "./arr":["lib/a.js","./lib/a.js"],"./arr-null":[null,"./lib/a.js"],"./arr-missing":["./lib/missing.js","./lib/a.js"],"./arr-cond":[{"browser":"./browser.js"},{"default":"./lib/b.js"}],
  "./cond-null":{"import":null,"default":"./lib/a.js"},"./cond-none":{"browser":"./browser.js"},"./cond-nested-none":{"node":{"browser":"./browser.js"},"default":"./lib/a.js"},
  "./dir":"./lib","./q":"./lib/a.js"}}`},
		js("node_modules/pb/browser.js"), js("node_modules/pb/node_modules/inner/index.js"), js("node_modules/pb/esm.js"), js("node_modules/pb/custom.mjs"), js("node_modules/pb/node.mjs"), js("node_modules/pb/def.mjs"),
		js("node_modules/pb/req.cjs"), js("node_modules/pb/def.js"), js("node_modules/pb/lib/a.js"), js("node_modules/pb/lib/b.js"), js("node_modules/pb/lib/sub/e.js"),
		js("node_modules/pb/lib/internal/x.js"), js("node_modules/pb/dist/sub/e.js"), js("node_modules/pb/dist/a.js"), js("node_modules/pb/dist/sx.js"), js("node_modules/pb/lib/a b.js"),
		{Path: "node_modules/@s/pd/package.json", Content: `{"name":"@s/pd","exports":["./main.cjs"]}`}, js("node_modules/@s/pd/main.cjs"),
		{Path: "node_modules/@s/pe/package.json", Content: `{"name":"@s/pe","type":"module"}`}, js("node_modules/@s/pe/index.js"), js("node_modules/@s/pe/x.js"),
		// nested: pa has its own pb (shadows the hoisted one), and a deeper package
		{Path: "node_modules/pa/node_modules/pb/package.json", Content: `{"name":"pb","main":"nested.js"}`}, js("node_modules/pa/node_modules/pb/nested.js"),
		{Path: "node_modules/pa/node_modules/pc/package.json", Content: `{"exports":"./c.js"}`}, js("node_modules/pa/node_modules/pc/c.js"),
		// symlinked package (pnpm-style): node_modules/pl -> ../store/pl ; the linked package sees store/node_modules
		{Path: "node_modules/pl", Link: "../store/pl"},
		{Path: "store/pl/package.json", Content: `{"name":"pl","exports":{".":"./l.js","./*":"./*.js"}}`}, js("store/pl/l.js"), js("store/pl/m.js"),
		{Path: "store/node_modules/pm/package.json", Content: `{"name":"pm"}`}, js("store/node_modules/pm/index.js"),
		// a workspace package with its own scope (no imports field) and a nested package.json that is a scope boundary
		{Path: "packages/app/package.json", Content: `{"name":"app","exports":{".":"./app.js","./x":"./x.js"}}`}, js("packages/app/app.js"), js("packages/app/x.js"), js("packages/app/src/i.js"),
		{Path: "packages/app/inner/package.json", Content: `{"type":"commonjs"}`}, js("packages/app/inner/j.js"),
		{Path: "packages/noexp/package.json", Content: `{"name":"noexp"}`}, js("packages/noexp/k.js"),
	}}
}

func hazardQueries() []Query {
	var qs []Query
	both := func(imp, spec string) {
		qs = append(qs, Query{imp, spec, "import"}, Query{imp, spec, "require"})
	}
	for _, s := range []string{
		// relative / absolute / probing
		"./a.js", "./a", "./b.mjs", "./deep", "./deep/index.js", "./deep/d", "./data", "./data.json", "./both", "./dirmain", "../index.js", "..", ".", "./nope.js",
		"$ROOT/src/a.js", "$ROOT/src/a", "$ROOT/src/deep",
		"./a.js?q=1", "./a.js#frag", "./a.js?q#h", "./a?q",
		"./a%20b.mjs", "./sp%20ace.js", "./%61.js", "./deep%2fd.js", "$ROOT/src/%61.js",
		// bare
		"pa", "pa/lib/a.js", "pa/lib/a", "pa/lib", "pa/lib/b.mjs", "pa/lib/d", "pa/lib/a%20b.js", "pa/package.json", "pa/nope",
		"pb", "pb/package.json", "pb/lib/a", "pb/lib/a.js", "pb/lib/sub/e", "pb/lib/sx", "pb/lib/internal/x", "pb/lib/a/index.js", "pb/lib/nope",
		"pb/null", "pb/bad1", "pb/bad2", "pb/bad3", "pb/bad4", "pb/bad5", "pb/bad6", "pb/bad7", "pb/arr", "pb/arr-null", "pb/arr-missing", "pb/arr-cond", "pb/cond-null", "pb/cond-none", "pb/cond-nested-none", "pb/dir", "pb/q?x=1", "pb/q#h",
		"pb/lib/a%20b", "pb/lib/%61", "pb/lib/../lib/a", "pb/lib/sub/../../lib/a", "pb/lib/%2e%2e/lib/a", "pb/lib/node_modules/a", "pb/lib/x/../a", "pb/lib%2fa", "pb/lib/sub%2fe", "pb/lib/a?q=1", "pb/unlisted", "pb/lib/a.js?q",
		"@s/pd", "@s/pd/main.cjs", "@s/pe", "@s/pe/x.js", "@s/pe/x", "@s", "@s/missing", "missing", "p%61",
		"pl", "pl/m", "pl/nope", "pc", "pm",
		// imports and self-reference
		"#a", "#dep", "#depsub/a.js", "#cond", "#lib/a", "#lib/deep/d", "#lib/d.min", "#null", "#bad", "#arr", "#nope", "#", "#/a", "#a?q",
		"rootpkg", "rootpkg/feat/c", "rootpkg/feat/b", "rootpkg/src/a.js",
	} {
		both("src/a.js", s)
	}
	for _, s := range []string{"pb", "pc", "pa", "pa/lib/a.js", "./lib/a.js", "#a", "rootpkg", "pl"} {
		both("node_modules/pa/index.js", s)
	}
	for _, s := range []string{"pm", "pl", "pl/m", "pa", "#a", "./m.js"} {
		both("store/pl/l.js", s)
	}
	for _, s := range []string{"app", "app/x", "app/y", "#a", "pa", "noexp", "../noexp/k.js"} {
		both("packages/app/src/i.js", s)
		both("packages/app/inner/j.js", s)
	}
	both("packages/noexp/k.js", "noexp")
	return qs
}

func runHazards(t *testing.T) {
	H.Rule("hazard", "one hand-made tree (hoisted, nested, scoped and symlinked packages; exports/imports with patterns, conditions, arrays, null and invalid targets; scope boundaries) × ~130 specifiers × {import, require}, with user conditions [] and [custom]; same oracle and verdict rule as the generated trees")
	if H.Shard != 0 {
		return
	}
	for _, conds := range [][]string{nil, {"custom"}} {
		tr := hazardTree()
		tr.Conditions = conds
		qs := hazardQueries()
		tj, _ := json.Marshal(tr)
		vs := judgeTree(tr, qs)
		for i, v := range vs {
			H.Report(t, "hazard", caseKey(tr, string(tj), qs[i]), Case{Tree: tr, Query: qs[i]}, v)
		}
	}
}

// C11 — resolution agrees with Node. See DESIGN.md section 5 / C11.
//
// A case is a package tree (files, package.json texts, symlinks) written to a fresh temp directory plus
// one question "where does specifier S lead from importer I for kind K (under user conditions C)?".
// Node answers through harness/node/resolve_probe.js (createRequire(importer).resolve /
// import.meta.resolve — resolution only, nothing is loaded); esbuild answers through
// PluginBuild.Resolve. Many questions about one tree share one node process and one api.Build.
package c11

import (
	"bufio"
	"bytes"
	"encoding/json"
	"fmt"
	"io"
	"net/url"
	"os"
	"os/exec"
	"path/filepath"
	"sort"
	"strings"
	"sync"
	"testing"
	"time"

	"github.com/evanw/esbuild/pkg/api"
	"github.com/evanw/esbuild/verif/noderun"
	"github.com/evanw/esbuild/verif/vdrv"
)

var H *vdrv.H
var nodeBin string
var probeScript string

// ----------------------------------------------------------------------------- case

// File is one entry of the tree. Path is relative to the tree root (forward slashes, no "..").
type File struct {
	Path    string `json:"path"`
	Content string `json:"content,omitempty"` // regular file content
	Link    string `json:"link,omitempty"`    // non-empty: a symlink with this target (relative to the link's directory)
}

// Query asks for one resolution. Importer is the tree-relative *real* path of an existing regular file.
// "$ROOT" at the start of Spec stands for the absolute path of the tree root.
type Query struct {
	Importer string `json:"importer"`
	Spec     string `json:"spec"`
	Kind     string `json:"kind"` // import | dynamic-import | require | require-resolve
}

// Tree is everything both resolvers see.
type Tree struct {
	Files      []File   `json:"files"`
	Conditions []string `json:"conditions,omitempty"` // user conditions: node --conditions=… / esbuild Conditions
}

// Case is the replayable unit.
type Case struct {
	Tree
	Query Query `json:"query"`
}

func isImportKind(k string) bool { return k == "import" || k == "dynamic-import" }

func okKind(k string) bool {
	return k == "import" || k == "dynamic-import" || k == "require" || k == "require-resolve"
}

// ----------------------------------------------------------------------------- tree on disk

func safeRel(p string) bool {
	if p == "" || strings.HasPrefix(p, "/") || strings.Contains(p, "\\") || strings.Contains(p, "\x00") {
		return false
	}
	for _, seg := range strings.Split(p, "/") {
		if seg == "" || seg == "." || seg == ".." {
			return false
		}
	}
	return true
}

// materialize writes the tree under base/t and returns the real path of the root.
func materialize(base string, files []File) (string, error) {
	root := filepath.Join(base, "t")
	if err := os.Mkdir(root, 0o755); err != nil {
		return "", err
	}
	links := map[string]bool{}
	for _, f := range files {
		if f.Link != "" {
			links[f.Path] = true
		}
	}
	for _, f := range files {
		if !safeRel(f.Path) {
			return "", fmt.Errorf("unsafe path %q", f.Path)
		}
		for d := parent(f.Path); d != ""; d = parent(d) {
			if links[d] {
				return "", fmt.Errorf("path %q passes through the symlink %q (only real paths may be listed)", f.Path, d)
			}
		}
		p := filepath.Join(root, filepath.FromSlash(f.Path))
		if err := os.MkdirAll(filepath.Dir(p), 0o755); err != nil {
			return "", err
		}
		if f.Link != "" {
			if strings.HasPrefix(f.Link, "/") {
				return "", fmt.Errorf("absolute link target %q", f.Link)
			}
			if err := os.Symlink(filepath.FromSlash(f.Link), p); err != nil {
				return "", err
			}
			continue
		}
		if err := os.WriteFile(p, []byte(f.Content), 0o644); err != nil {
			return "", err
		}
	}
	return filepath.EvalSymlinks(root)
}

func absSpec(root, spec string) string {
	if strings.HasPrefix(spec, "$ROOT") {
		return root + spec[len("$ROOT"):]
	}
	return spec
}

// ----------------------------------------------------------------------------- Node side

type nodeAnswer struct {
	Path    string `json:"path"`
	Suffix  string `json:"suffix"`
	Exists  bool   `json:"exists"`
	Code    string `json:"code"`
	Message string `json:"message"`
}

// nodeWorker is one long-lived `node --conditions=… resolve_probe.js --serve` process. Node caches
// package.json files by absolute path, so every plan sent to a worker lives in a directory name that
// this process has never used before (see freshBase).
type nodeWorker struct {
	cmd    *exec.Cmd
	in     io.WriteCloser
	out    *bufio.Reader
	stderr *bytes.Buffer
	nextID int
}

var (
	workerMu sync.Mutex
	workers  = map[string]*nodeWorker{}
	baseSeq  int
)

func startWorker(conds []string) (*nodeWorker, error) {
	args := []string{}
	for _, c := range conds {
		args = append(args, "--conditions="+c)
	}
	args = append(args, probeScript, "--serve")
	cmd := exec.Command(nodeBin, args...)
	// a clean environment: no NODE_PATH / NODE_OPTIONS, HOME without .node_modules
	home := os.TempDir()
	cmd.Env = []string{"PATH=/usr/bin:/bin", "HOME=" + home, "NODE_NO_WARNINGS=1", "TMPDIR=" + home}
	cmd.Dir = home
	in, err := cmd.StdinPipe()
	if err != nil {
		return nil, err
	}
	out, err := cmd.StdoutPipe()
	if err != nil {
		return nil, err
	}
	w := &nodeWorker{cmd: cmd, in: in, out: bufio.NewReaderSize(out, 1<<20), stderr: &bytes.Buffer{}}
	cmd.Stderr = w.stderr
	if err := cmd.Start(); err != nil {
		return nil, err
	}
	return w, nil
}

func (w *nodeWorker) kill() {
	w.in.Close()
	if w.cmd.Process != nil {
		w.cmd.Process.Kill()
	}
	w.cmd.Wait()
}

func closeWorkers() {
	workerMu.Lock()
	defer workerMu.Unlock()
	for k, w := range workers {
		w.kill()
		delete(workers, k)
	}
}

// freshBase makes a scratch directory whose name is unique within this process.
func freshBase() (string, error) {
	workerMu.Lock()
	baseSeq++
	n := baseSeq
	workerMu.Unlock()
	return os.MkdirTemp("", fmt.Sprintf("c11-%d-%d-", os.Getpid(), n))
}

func runNode(base, root string, conds []string, qs []Query) ([]nodeAnswer, error) {
	type pq struct {
		Importer string `json:"importer"`
		Spec     string `json:"spec"`
		Kind     string `json:"kind"`
	}
	workerMu.Lock()
	defer workerMu.Unlock()
	key := strings.Join(conds, ",")
	w := workers[key]
	if w == nil {
		var err error
		if w, err = startWorker(conds); err != nil {
			return nil, err
		}
		workers[key] = w
	}
	w.nextID++
	plan := struct {
		ID      int  `json:"id"`
		Queries []pq `json:"queries"`
	}{ID: w.nextID}
	for _, q := range qs {
		k := "require"
		if isImportKind(q.Kind) {
			k = "import"
		}
		plan.Queries = append(plan.Queries, pq{filepath.Join(root, filepath.FromSlash(q.Importer)), absSpec(root, q.Spec), k})
	}
	pb, _ := json.Marshal(plan)
	type reply struct {
		ID      int          `json:"id"`
		Results []nodeAnswer `json:"results"`
		Error   string       `json:"error"`
	}
	done := make(chan error, 1)
	var rep reply
	go func() {
		if _, err := w.in.Write(append(pb, '\n')); err != nil {
			done <- err
			return
		}
		line, err := w.out.ReadBytes('\n')
		if err != nil {
			done <- fmt.Errorf("%v: %s", err, clip(w.stderr.String(), 400))
			return
		}
		done <- json.Unmarshal(line, &rep)
	}()
	var err error
	select {
	case err = <-done:
	case <-time.After(120 * time.Second): // guard only: a stuck oracle makes the tree inconclusive
		err = fmt.Errorf("node probe timed out")
	}
	if err == nil && rep.Error != "" {
		err = fmt.Errorf("node probe: %s", clip(rep.Error, 400))
	}
	if err == nil && (rep.ID != plan.ID || len(rep.Results) != len(qs)) {
		err = fmt.Errorf("node probe answered id %d with %d results (asked id %d, %d queries)", rep.ID, len(rep.Results), plan.ID, len(qs))
	}
	if err != nil {
		w.kill()
		delete(workers, key)
		return nil, err
	}
	return rep.Results, nil
}

func clip(s string, n int) string {
	if len(s) > n {
		return s[:n] + "…"
	}
	return s
}

// ----------------------------------------------------------------------------- esbuild side

type esAnswer struct {
	Path     string
	Suffix   string
	External bool
	Errors   []string
}

func runEsbuild(root string, conds []string, qs []Query) ([]esAnswer, error) {
	out := make([]esAnswer, len(qs))
	ran := false
	conditions := append([]string{}, conds...) // explicit non-nil slice: drops the automatic "module" condition
	plugin := api.Plugin{Name: "c11", Setup: func(b api.PluginBuild) {
		b.OnStart(func() (api.OnStartResult, error) {
			ran = true
			for i, q := range qs {
				imp := filepath.Join(root, filepath.FromSlash(q.Importer))
				kind := api.ResolveJSImportStatement
				switch q.Kind {
				case "dynamic-import":
					kind = api.ResolveJSDynamicImport
				case "require":
					kind = api.ResolveJSRequireCall
				case "require-resolve":
					kind = api.ResolveJSRequireResolve
				}
				r := b.Resolve(absSpec(root, q.Spec), api.ResolveOptions{ResolveDir: filepath.Dir(imp), Importer: imp, Kind: kind, Namespace: "file"})
				a := esAnswer{Path: r.Path, Suffix: r.Suffix, External: r.External}
				for _, e := range r.Errors {
					t := e.Text
					for k, n := range e.Notes {
						if k < 1 && !strings.HasPrefix(n.Text, "You can mark") {
							t += " | " + n.Text
						}
					}
					a.Errors = append(a.Errors, t)
				}
				out[i] = a
			}
			return api.OnStartResult{}, nil
		})
	}}
	api.Build(api.BuildOptions{
		Stdin:             &api.StdinOptions{Contents: "", ResolveDir: root, Sourcefile: "c11-entry.js"},
		AbsWorkingDir:     root,
		Bundle:            true,
		Write:             false,
		LogLevel:          api.LogLevelSilent,
		Platform:          api.PlatformNode,
		Conditions:        conditions,
		MainFields:        []string{"main"},
		ResolveExtensions: []string{".js", ".json", ".node"},
		Plugins:           []api.Plugin{plugin},
	})
	if !ran {
		return nil, fmt.Errorf("esbuild did not run the plugin")
	}
	return out, nil
}

// ----------------------------------------------------------------------------- judge

// Node error codes that mean "refused because of the package's exports/imports map".
var refusalCodes = map[string]bool{
	"ERR_PACKAGE_PATH_NOT_EXPORTED":  true,
	"ERR_INVALID_PACKAGE_TARGET":     true,
	"ERR_PACKAGE_IMPORT_NOT_DEFINED": true,
	"ERR_INVALID_MODULE_SPECIFIER":   true,
}

func hasPercentEscape(s string) bool {
	for i := 0; i+2 < len(s); i++ {
		if s[i] == '%' && isHex(s[i+1]) && isHex(s[i+2]) {
			return true
		}
	}
	return false
}

func isHex(c byte) bool {
	return c >= '0' && c <= '9' || c >= 'a' && c <= 'f' || c >= 'A' && c <= 'F'
}

func isRelOrAbs(spec string) bool {
	return strings.HasPrefix(spec, "./") || strings.HasPrefix(spec, "../") || spec == "." || spec == ".." || strings.HasPrefix(spec, "/") || strings.HasPrefix(spec, "$ROOT")
}

// knownSignature returns the id of the listed finding whose narrow signature this failing case matches
// ("" = none). Each signature is a predicate over the case (specifier shape, kind, and the label model's
// view of the targeted package) plus, for the suffix finding, the shape of esbuild's answer.
func knownSignature(q Query, classes []string, n nodeAnswer, e esAnswer) string {
	has := func(c string) bool {
		for _, x := range classes {
			if x == c {
				return true
			}
		}
		return false
	}
	hasPrefix := func(p string) bool {
		for _, x := range classes {
			if strings.HasPrefix(x, p) {
				return true
			}
		}
		return false
	}
	bare := !isRelOrAbs(q.Spec) && !strings.HasPrefix(q.Spec, "#")
	hashImport := strings.HasPrefix(q.Spec, "#")
	throughMap := hasPrefix("exports-") || hasPrefix("imports-")
	switch {
	case isImportKind(q.Kind) && isRelOrAbs(q.Spec) && hasPercentEscape(q.Spec):
		// Node's ESM resolver treats the specifier as a URL and decodes %XX; esbuild looks for the literal name
		return "C11-percent-relative-import"
	case isImportKind(q.Kind) && bare && has("subpath-no-exports") && hasPercentEscape(q.Spec):
		// same decoding for "pkg/sub%20path.js" when the package has no "exports" (legacy subpath)
		return "C11-percent-bare-import"
	case bare && strings.ContainsAny(q.Spec, "?#") && (throughMap || has("outer-candidate-has-exports") || refusalCodes[n.Code] && len(e.Errors) == 0 && e.Suffix != ""):
		// Node builds a URL from the matched exports target, so the ?query/#hash of the specifier takes part in
		// key matching and in "*" substitution; esbuild instead retries the whole resolution without the suffix
		return "C11-suffix-bare-through-exports"
	case hashImport && strings.ContainsAny(q.Spec[1:], "?#") && throughMap:
		// as above for "#imports"; in addition esbuild never retries a specifier that starts with "#"
		return "C11-suffix-hash-import"
	case (bare || hashImport) && has("subpath-invalid-segment") && throughMap && n.Code == "ERR_INVALID_MODULE_SPECIFIER":
		// "pkg/lib/../x" against "./lib/*": Node refuses a "*" match that contains a ".", ".." or "node_modules"
		// segment; esbuild's check skips the first segment of the match (and encoded/case variants everywhere)
		return "C11-dot-segment-in-subpath"
	case hashImport && has("imports-to-package") && hasPercentEscape(q.Spec):
		// an imports entry that maps to another package ("#dep/*": "pb/*"): Node resolves the remapped specifier
		// with the ESM package resolver for import AND require, with the same URL decoding that esbuild lacks
		return "C11-percent-bare-import"
	case hashImport && has("imports-array") && has("imports-to-package") && n.Code == "" && len(e.Errors) > 0:
		// Node's array loop also catches ERR_INVALID_PACKAGE_TARGET thrown while resolving an entry that is a
		// package specifier and moves on; esbuild leaves the loop with the package specifier
		return "C11-imports-array-package-fallback"
	case (bare || hashImport) && has("pattern-base-equals-subpath"):
		// "./lib/a*" must not match the subpath "./lib/a" (Node requires a non-empty match: subpath at least as
		// long as the key); esbuild lets "*" match the empty string and never reaches the next pattern
		return "C11-pattern-empty-match"
	case bare && n.Code == "" && e.Path == n.Path && onlyNotADirectory(e.Errors):
		// a nearer installation of the package has a regular file where the subpath needs a directory: esbuild
		// finds the right file farther up but also logs "Cannot read directory …: not a directory" as an error
		return "C11-enotdir-spurious-error"
	case has("target-encoded-segment"):
		// a target with a percent-encoded or differently-cased ".", ".." or "node_modules" segment is invalid for
		// Node; esbuild's segment check compares the raw text case-sensitively and decodes afterwards
		return "C11-encoded-segment-in-target"
	}
	return ""
}

func onlyNotADirectory(errs []string) bool {
	for _, e := range errs {
		if !strings.HasPrefix(e, "Cannot read directory ") || !strings.Contains(e, "not a directory") {
			return false
		}
	}
	return len(errs) > 0
}

func judgeTree(t Tree, qs []Query) []vdrv.Verdict {
	vs := make([]vdrv.Verdict, len(qs))
	all := func(v vdrv.Verdict) []vdrv.Verdict {
		for i := range vs {
			vs[i] = v
		}
		return vs
	}
	for _, q := range qs {
		if !okKind(q.Kind) || !safeRel(q.Importer) {
			return all(vdrv.Skip("bad-case"))
		}
	}
	t0 := time.Now()
	base, err := freshBase()
	if err != nil {
		return all(vdrv.Skip("tempdir-io"))
	}
	var t1, t2, t3 time.Time
	defer func() {
		os.RemoveAll(base)
		if os.Getenv("C11_TIMING") != "" { // local diagnostics only; never influences a verdict
			fmt.Printf("C11_TIMING files=%d queries=%d write=%v node=%v esbuild=%v rest=%v\n", len(t.Files), len(qs), t1.Sub(t0), t2.Sub(t1), t3.Sub(t2), time.Since(t3))
		}
	}()
	if rb, err := filepath.EvalSymlinks(base); err == nil {
		base = rb
	}
	root, err := materialize(base, t.Files)
	if err != nil {
		return all(vdrv.Skip("tempdir-io"))
	}
	t1 = time.Now()
	nodeAns, err := runNode(base, root, t.Conditions, qs)
	t2 = time.Now()
	if err != nil {
		if os.Getenv("C11_DEBUG") != "" {
			fmt.Println("node-infra:", err)
		}
		return all(vdrv.Skip("node-infra"))
	}
	esAns, err := runEsbuild(root, t.Conditions, qs)
	if err != nil {
		return all(vdrv.Skip("esbuild-infra"))
	}
	t3 = time.Now()
	model := newModel(t.Files)
	for i, q := range qs {
		vs[i] = judgeOne(root, model, q, nodeAns[i], esAns[i])
		if os.Getenv("C11_DEBUG") != "" {
			fmt.Printf("C11_DEBUG %-16s %-40q from %-34s node=%s | esbuild=%s | ok=%v known=%q discard=%q classes=%v nt=%v\n", q.Kind, q.Spec, q.Importer,
				showNode(root, nodeAns[i]), showEs(root, esAns[i]), vs[i].OK, vs[i].Known, vs[i].Discard, vs[i].Classes, vs[i].NonTrivial)
		}
	}
	return vs
}

func rel(root, p string) string {
	if strings.HasPrefix(p, root+"/") {
		return p[len(root)+1:]
	}
	return p
}

func showNode(root string, a nodeAnswer) string {
	if a.Code != "" {
		return a.Code + " (" + clip(strings.ReplaceAll(strings.ReplaceAll(a.Message, root, "$ROOT"), "\n", " "), 160) + ")"
	}
	s := rel(root, a.Path)
	if a.Suffix != "" {
		s += " suffix " + a.Suffix
	}
	if !a.Exists {
		s += " (not an existing file)"
	}
	return s
}

func showEs(root string, a esAnswer) string {
	if len(a.Errors) > 0 {
		s := "error: " + clip(strings.ReplaceAll(strings.Join(a.Errors, "; "), root, "$ROOT"), 300)
		if a.Path != "" {
			s += " (with path " + rel(root, a.Path) + ")"
		}
		return s
	}
	s := rel(root, a.Path)
	if a.Suffix != "" {
		s += " suffix " + a.Suffix
	}
	if a.External {
		s += " (external)"
	}
	return s
}

func dedupe(xs []string) []string {
	seen := map[string]bool{}
	out := xs[:0]
	for _, x := range xs {
		if !seen[x] {
			seen[x] = true
			out = append(out, x)
		}
	}
	return out
}

func judgeOne(root string, m *model, q Query, n nodeAnswer, e esAnswer) vdrv.Verdict {
	classes, nontrivial := m.classify(q)
	classes = dedupe(classes)
	switch {
	case n.Code == "" && n.Exists:
		// Node resolved to an existing file ⇒ esbuild must resolve to the same file.
		classes = append(classes, "node=resolved")
		if len(e.Errors) == 0 && !e.External && e.Path == n.Path {
			if (n.Suffix != "") != (e.Suffix != "") || (n.Suffix != "" && n.Suffix != e.Suffix) {
				// Where the ?query/#hash ends up is not part of the statement (esbuild keeps it in Suffix when the
				// literal name does not exist); only note it.
				classes = append(classes, "suffix-differs")
			}
			v := vdrv.Pass(nontrivial, classes...)
			v.Observed = showNode(root, n)
			return v
		}
		detail := fmt.Sprintf("%s of %q from %s: Node resolves to %s, esbuild answers %s", q.Kind, q.Spec, q.Importer, showNode(root, n), showEs(root, e))
		if len(e.Errors) == 0 && !e.External {
			if rp, err := filepath.EvalSymlinks(e.Path); err == nil && rp == n.Path {
				detail += " — the same file, but through an unresolved symlink (Node and esbuild both promise the real path)"
			}
		}
		v := vdrv.Fail(detail, showNode(root, n), showEs(root, e))
		v.Classes = classes
		v.Known = knownSignature(q, classes, n, e)
		return v
	case n.Code == "ERR_INVALID_MODULE_SPECIFIER" && strings.Contains(n.Message, "is not a valid package name"):
		// refused while parsing the specifier, not because of any exports/imports map: outside the statement
		return vdrv.Skip("no-requirement:invalid-package-name")
	case n.Code == "ERR_INVALID_MODULE_SPECIFIER" && strings.Contains(n.Message, "is not a valid internal imports specifier name"):
		// "#" and "#/x": a syntactic rule of the specifier that depends on the Node version (Node 20 refuses "#/x",
		// newer releases accept it), not a refusal by an imports map
		return vdrv.Skip("no-requirement:invalid-imports-specifier-name")
	case refusalCodes[n.Code]:
		classes = append(classes, "node="+n.Code)
		if len(e.Errors) > 0 {
			v := vdrv.Pass(nontrivial, classes...)
			v.Observed = showNode(root, n) + "  /  esbuild " + showEs(root, e)
			return v
		}
		v := vdrv.Fail(fmt.Sprintf("%s of %q from %s: Node refuses with %s, esbuild answers %s", q.Kind, q.Spec, q.Importer, showNode(root, n), showEs(root, e)), showNode(root, n), showEs(root, e))
		v.Classes = classes
		v.Known = knownSignature(q, classes, n, e)
		return v
	case n.Code == "":
		return vdrv.Skip("no-requirement:node-path-not-a-file")
	case strings.HasPrefix(n.Code, "C11_"):
		if n.Code == "C11_BUILTIN" || n.Code == "C11_NOT_FILE" {
			return vdrv.Skip("no-requirement:" + n.Code)
		}
		return vdrv.Skip("node-infra:" + n.Code)
	default:
		return vdrv.Skip("no-requirement:" + n.Code)
	}
}

// ----------------------------------------------------------------------------- labels (never used for verdicts)

// model is a read-only view of the case used only to label it: which package the specifier targets,
// how big its exports/imports map is, whether a symlink or several node_modules levels are involved.
type model struct {
	files map[string]File // by path
	dirs  map[string]bool
}

func newModel(files []File) *model {
	m := &model{files: map[string]File{}, dirs: map[string]bool{"": true}}
	for _, f := range files {
		m.files[f.Path] = f
		for d := parent(f.Path); d != ""; d = parent(d) {
			m.dirs[d] = true
		}
	}
	return m
}

func parent(p string) string {
	i := strings.LastIndex(p, "/")
	if i < 0 {
		return ""
	}
	return p[:i]
}

func join(d, p string) string {
	if d == "" {
		return p
	}
	return d + "/" + p
}

type pkgJSON struct {
	Name    *string         `json:"name"`
	Main    json.RawMessage `json:"main"`
	Exports json.RawMessage `json:"exports"`
	Imports json.RawMessage `json:"imports"`
}

func (m *model) pkgAt(dir string) (pkgJSON, bool) {
	f, ok := m.files[join(dir, "package.json")]
	if !ok || f.Link != "" {
		return pkgJSON{}, false
	}
	var p pkgJSON
	if json.Unmarshal([]byte(f.Content), &p) != nil {
		return pkgJSON{}, false
	}
	return p, true
}

// resolveLink follows a symlinked directory entry (one level of generated links is enough for labels).
func (m *model) resolveLink(p string) (string, bool) {
	f, ok := m.files[p]
	if !ok || f.Link == "" {
		return p, false
	}
	segs := strings.Split(parent(p), "/")
	if parent(p) == "" {
		segs = nil
	}
	for _, s := range strings.Split(f.Link, "/") {
		switch s {
		case "", ".":
		case "..":
			if len(segs) > 0 {
				segs = segs[:len(segs)-1]
			}
		default:
			segs = append(segs, s)
		}
	}
	return strings.Join(segs, "/"), true
}

// entryFor picks, for labelling only, the key of an exports/imports map that Node's algorithm would
// use for subpath (exact key, else the most specific "*" pattern). ok=false: nothing matches.
func entryFor(raw json.RawMessage, subpath string, isImports bool) (nkeys int, key string, target json.RawMessage, ok bool) {
	trim := bytes.TrimSpace(raw)
	if len(trim) == 0 {
		return
	}
	entries := map[string]json.RawMessage{}
	sugar := true
	if trim[0] == '{' {
		if json.Unmarshal(trim, &entries) != nil {
			return
		}
		if !isImports {
			for k := range entries {
				if strings.HasPrefix(k, ".") {
					sugar = false
				}
			}
		} else {
			sugar = false
		}
	}
	if sugar {
		entries = map[string]json.RawMessage{".": trim}
	}
	nkeys = len(entries)
	if t, found := entries[subpath]; found && !strings.Contains(subpath, "*") {
		return nkeys, subpath, t, true
	}
	keys := make([]string, 0, len(entries))
	for k := range entries {
		keys = append(keys, k)
	}
	sort.Strings(keys)
	best := ""
	for _, k := range keys {
		i := strings.Index(k, "*")
		if i < 0 || i != strings.LastIndex(k, "*") || !strings.HasPrefix(subpath, k[:i]) {
			continue
		}
		trailer := k[i+1:]
		if len(subpath) >= len(k) && strings.HasSuffix(subpath, trailer) && patternKeyCompare(best, k) == 1 {
			best = k
		}
	}
	if best == "" {
		return nkeys, "", nil, false
	}
	return nkeys, best, entries[best], true
}

func patternKeyCompare(a, b string) int {
	ai, bi := strings.Index(a, "*"), strings.Index(b, "*")
	la, lb := len(a), len(b)
	if ai >= 0 {
		la = ai + 1
	}
	if bi >= 0 {
		lb = bi + 1
	}
	switch {
	case la > lb:
		return -1
	case lb > la:
		return 1
	case ai < 0:
		return 1
	case bi < 0:
		return -1
	case len(a) > len(b):
		return -1
	case len(b) > len(a):
		return 1
	}
	return 0
}

// encodedInvalidSegment: the path has a segment that is ".", ".." or "node_modules" only after
// percent-decoding or case folding — Node's invalidSegmentRegEx ("case insensitive and including percent
// encoded variants") rejects these too.
func encodedInvalidSegment(target string) bool {
	for _, seg := range strings.FieldsFunc(target, func(r rune) bool { return r == '/' || r == '\\' }) {
		if seg == "." || seg == ".." || seg == "node_modules" {
			continue
		}
		dec := seg
		if d, err := pathUnescape(seg); err == nil {
			dec = d
		}
		if dec == "." || dec == ".." || strings.EqualFold(dec, "node_modules") {
			return true
		}
	}
	return false
}

func pathUnescape(s string) (string, error) { return url.PathUnescape(s) }

// targetStats describes one target subtree.
func targetStats(raw json.RawMessage) (maxConds int, hasNull, hasArray, hasInvalid, hasBare, hasEncodedSeg bool) {
	var v interface{}
	if json.Unmarshal(raw, &v) != nil {
		return
	}
	var walk func(v interface{})
	walk = func(v interface{}) {
		switch x := v.(type) {
		case nil:
			hasNull = true
		case string:
			if encodedInvalidSegment(x) {
				hasEncodedSeg = true
			}
			if !strings.HasPrefix(x, "./") {
				if strings.HasPrefix(x, "/") || strings.HasPrefix(x, "../") {
					hasInvalid = true
				} else {
					hasBare = true // invalid in exports, a package specifier in imports
				}
			} else if strings.Contains(x, "/../") || strings.Contains(x, "/node_modules/") || strings.HasSuffix(x, "/..") || strings.Contains(x, "/./") {
				hasInvalid = true
			}
		case []interface{}:
			hasArray = true
			for _, e := range x {
				walk(e)
			}
		case map[string]interface{}:
			if len(x) > maxConds {
				maxConds = len(x)
			}
			ks := make([]string, 0, len(x))
			for k := range x {
				ks = append(ks, k)
			}
			sort.Strings(ks)
			for _, k := range ks {
				walk(x[k])
			}
		default:
			hasInvalid = true
		}
	}
	walk(v)
	return
}

func splitBare(spec string) (name, sub string) {
	parts := strings.SplitN(spec, "/", 3)
	if strings.HasPrefix(spec, "@") {
		if len(parts) < 2 {
			return spec, ""
		}
		name = parts[0] + "/" + parts[1]
		if len(parts) == 3 {
			sub = "/" + parts[2]
		}
		return
	}
	name = parts[0]
	if len(spec) > len(name) {
		sub = spec[len(name):]
	}
	return
}

// classify labels a query from the case alone.
func (m *model) classify(q Query) (classes []string, nontrivial bool) { return m.classifyDepth(q, 0) }

// bareLeaves lists the string leaves of a target that are package specifiers (not "./…", "../…", "/…").
func bareLeaves(raw json.RawMessage) (out []string) {
	var v interface{}
	if json.Unmarshal(raw, &v) != nil {
		return
	}
	var walk func(v interface{})
	walk = func(v interface{}) {
		switch x := v.(type) {
		case string:
			if !strings.HasPrefix(x, "./") && !strings.HasPrefix(x, "../") && !strings.HasPrefix(x, "/") {
				out = append(out, x)
			}
		case []interface{}:
			for _, e := range x {
				walk(e)
			}
		case map[string]interface{}:
			ks := make([]string, 0, len(x))
			for k := range x {
				ks = append(ks, k)
			}
			sort.Strings(ks)
			for _, k := range ks {
				walk(x[k])
			}
		}
	}
	walk(v)
	return
}

func (m *model) classifyDepth(q Query, depth int) (classes []string, nontrivial bool) {
	add := func(c string) { classes = append(classes, c) }
	if isImportKind(q.Kind) {
		add("kind=import")
	} else {
		add("kind=require")
	}
	spec := q.Spec
	if strings.ContainsAny(spec, "?#") && !strings.HasPrefix(spec, "#") || strings.HasPrefix(spec, "#") && strings.ContainsAny(spec[1:], "?#") {
		add("query-hash")
	}
	if hasPercentEscape(spec) {
		add("percent")
	}
	impDir := parent(q.Importer)
	scopeDir, scope, haveScope := "", pkgJSON{}, false
	for d := impDir; ; d = parent(d) {
		if p, ok := m.pkgAt(d); ok {
			scopeDir, scope, haveScope = d, p, true
			break
		}
		if d == "" {
			break
		}
	}
	mapLabels := func(prefix string, raw json.RawMessage, subpath string) {
		nkeys, key, target, ok := entryFor(raw, subpath, prefix == "imports")
		var allKeys map[string]json.RawMessage
		if json.Unmarshal(raw, &allKeys) == nil {
			for k := range allKeys {
				if strings.HasSuffix(k, "*") && k[:len(k)-1] == subpath {
					add("pattern-base-equals-subpath")
					break
				}
			}
		}
		if nkeys >= 2 {
			add(prefix + "-keys>=2")
			nontrivial = true
		}
		if !ok {
			add(prefix + "-nomatch")
			return
		}
		match := ""
		if i := strings.Index(key, "*"); i >= 0 {
			add(prefix + "-pattern")
			match = subpath[i : len(subpath)-(len(key)-i-1)]
			pathPart := match
			if j := strings.IndexAny(pathPart, "?#"); j >= 0 {
				pathPart = pathPart[:j]
			}
			for _, seg := range strings.Split(pathPart, "/") {
				if seg == "." || seg == ".." || seg == "node_modules" || encodedInvalidSegment(seg) {
					add("subpath-invalid-segment")
					break
				}
			}
		}
		conds, null, arr, inv, bare, encSeg := targetStats(target)
		if encSeg {
			add("target-encoded-segment")
		}
		tt := bytes.TrimSpace(target)
		if len(tt) > 0 && tt[0] == '"' {
			add(prefix + "-string")
		}
		if arr {
			add(prefix + "-array")
		}
		if conds >= 1 {
			add(prefix + "-conditions")
		}
		if conds >= 2 {
			add(prefix + "-conditions>=2")
			nontrivial = true
		}
		if null {
			add(prefix + "-null")
		}
		if inv || (bare && prefix == "exports") {
			add(prefix + "-invalid")
		}
		if bare && prefix == "imports" {
			add("imports-to-package")
			// follow the remapped package specifier(s) one step so that the labels also describe the exports map
			// the request finally goes through (labels only)
			for _, leaf := range bareLeaves(target) {
				remapped := leaf
				if strings.Contains(key, "*") {
					remapped = strings.ReplaceAll(leaf, "*", match)
				}
				if depth > 0 || isRelOrAbs(remapped) || strings.HasPrefix(remapped, "#") || remapped == "" {
					continue
				}
				sub, nt := m.classifyDepth(Query{Importer: join(scopeDir, "package.json"), Spec: remapped, Kind: q.Kind}, depth+1)
				nontrivial = nontrivial || nt
				for _, c := range sub {
					if strings.HasPrefix(c, "exports-") || strings.HasPrefix(c, "pattern-base") || strings.HasPrefix(c, "subpath-") || strings.HasPrefix(c, "target-encoded") ||
						strings.HasPrefix(c, "outer-candidate") || c == "symlink" || c == "nm-levels>=2" || c == "self-reference" {
						add(c)
					}
				}
			}
		}
	}
	switch {
	case isRelOrAbs(spec):
		if strings.HasPrefix(spec, "/") || strings.HasPrefix(spec, "$ROOT") {
			add("absolute")
		} else {
			add("relative")
		}
		clean := spec
		if i := strings.IndexAny(clean, "?#"); i >= 0 {
			clean = clean[:i]
		}
		base := clean[strings.LastIndex(clean, "/")+1:]
		if !strings.Contains(base, ".") || base == "." || base == ".." {
			add("extension-or-index-probe")
		}
	case strings.HasPrefix(spec, "#"):
		add("imports-map")
		if haveScope && len(scope.Imports) > 0 {
			mapLabels("imports", scope.Imports, spec)
		}
	default:
		name, sub := splitBare(spec)
		if strings.HasPrefix(name, "@") {
			add("scoped")
		}
		if haveScope && scope.Name != nil && *scope.Name == name && len(scope.Exports) > 0 && string(scope.Exports) != "null" {
			add("self-reference")
			mapLabels("exports", scope.Exports, "."+sub)
			break
		}
		// walk node_modules directories upwards
		levels := 0
		for d := impDir; ; d = parent(d) {
			if d != "node_modules" && !strings.HasSuffix(d, "/node_modules") {
				nm := join(d, "node_modules")
				if m.dirs[nm] {
					levels++
					pdir := join(nm, name)
					real, linked := m.resolveLink(pdir)
					if linked || m.dirs[pdir] {
						if linked {
							add("symlink")
							nontrivial = true
						}
						if levels >= 2 || strings.Count("/"+pdir+"/", "/node_modules/") >= 2 {
							add("nm-levels>=2")
							nontrivial = true
						}
						if p, ok := m.pkgAt(real); ok {
							if len(p.Exports) > 0 && string(p.Exports) != "null" {
								mapLabels("exports", p.Exports, "."+sub)
							} else if sub == "" {
								if len(p.Main) > 0 {
									add("main-field")
								} else {
									add("index")
								}
							} else {
								add("subpath-no-exports")
								b := sub[strings.LastIndex(sub, "/")+1:]
								if !strings.Contains(b, ".") {
									add("extension-or-index-probe")
								}
							}
						} else if sub == "" {
							add("index")
						}
						// (labels only) a farther installation of the same name that has an exports map: CommonJS
						// resolution falls through to it when the nearer one has no such file
						for o := d; o != ""; {
							o = parent(o)
							if o != "node_modules" && !strings.HasSuffix(o, "/node_modules") {
								oreal, _ := m.resolveLink(join(join(o, "node_modules"), name))
								if p, ok := m.pkgAt(oreal); ok && len(p.Exports) > 0 && string(p.Exports) != "null" {
									add("outer-candidate-has-exports")
									if sub != "" {
										mapLabels("exports", p.Exports, "."+sub)
									}
									break
								}
							}
						}
						break
					}
				}
			}
			if d == "" {
				add("package-not-installed")
				break
			}
		}
	}
	return
}

// ----------------------------------------------------------------------------- replay / driver glue

func replayCase(raw json.RawMessage) vdrv.Verdict {
	var c Case
	if err := json.Unmarshal(raw, &c); err != nil {
		return vdrv.Skip("bad-replay")
	}
	v := judgeTree(c.Tree, []Query{c.Query})[0]
	v.Known = "" // a replay is judged on its own; the driver knows whether it is a listed finding
	return v
}

var subs = map[string]vdrv.ReplayFunc{"tree": replayCase, "hazard": replayCase}

func caseKey(t Tree, treeJSON string, q Query) string {
	return treeJSON + "\x00" + q.Importer + "\x00" + q.Spec + "\x00" + q.Kind
}

func setup(t *testing.T) {
	H = vdrv.New("C11")
	nodeBin = noderun.NodePath()
	if nodeBin == "" {
		t.Fatalf("INFRA: node binary not found")
	}
	probeScript = filepath.Join(noderun.HarnessDir(), "node", "resolve_probe.js")
	if _, err := os.Stat(probeScript); err != nil {
		t.Fatalf("INFRA: %v", err)
	}
	// the oracle needs a synchronous import.meta.resolve (Node ≥ 20)
	out, err := exec.Command(nodeBin, "-p", "process.versions.node").Output()
	if err != nil {
		t.Fatalf("INFRA: cannot run node: %v", err)
	}
	var major int
	fmt.Sscanf(strings.TrimSpace(string(out)), "%d.", &major)
	if major < 20 {
		t.Fatalf("INFRA: node %s is too old for import.meta.resolve (need ≥ 20)", strings.TrimSpace(string(out)))
	}
	H.Note("oracle: node %s at %s", strings.TrimSpace(string(out)), nodeBin)
}

func TestCheck(t *testing.T) {
	setup(t)
	defer closeWorkers()
	complete := false
	defer func() { H.Finish(complete) }()
	H.RunReplays(t, subs)
	H.Sub(t, "hazard", runHazards)
	H.Sub(t, "tree", runTrees)
	complete = true
}

func TestReplay(t *testing.T) {
	setup(t)
	defer closeWorkers()
	H.ReplayOne(t, subs)
}

package c11

import (
	"encoding/json"
	"fmt"
	"os"
	"sort"
	"strings"
	"testing"

	"pgregory.net/rapid"
)

// ----------------------------------------------------------------------------- small helpers

// uniform draws an (almost exactly) uniform integer in [0,n). rapid's own integer generators favour small
// values on purpose, which would skew every weighted choice of the grammar towards its first alternative;
// unbiased bits (rapid.Bool) are combined instead. Shrinks towards 0 like any other draw.
func uniform(t *rapid.T, label string, n int) int {
	if n <= 1 {
		return 0
	}
	bits := 3
	for m := n - 1; m > 0; m >>= 1 {
		bits++
	}
	v := 0
	for i := 0; i < bits; i++ {
		v <<= 1
		if boolGen.Draw(t, label) {
			v |= 1
		}
	}
	return v % n
}

var boolGen = rapid.Bool()

func intRange(t *rapid.T, label string, lo, hi int) int { return lo + uniform(t, label, hi-lo+1) }

func chance(t *rapid.T, label string, pct int) bool {
	return uniform(t, label, 100) < pct
}

func pick(t *rapid.T, label string, xs []string) string {
	return xs[uniform(t, label, len(xs))]
}

// subset keeps each element with probability pct (at least one element).
func subset(t *rapid.T, label string, xs []string, pct int) []string {
	var out []string
	for _, x := range xs {
		if chance(t, label, pct) {
			out = append(out, x)
		}
	}
	if len(out) == 0 {
		out = append(out, pick(t, label+"-one", xs))
	}
	return out
}

// shuffled returns a drawn permutation prefix of n distinct elements.
func shuffled(t *rapid.T, label string, xs []string, n int) []string {
	pool := append([]string{}, xs...)
	var out []string
	for len(out) < n && len(pool) > 0 {
		i := uniform(t, label, len(pool))
		out = append(out, pool[i])
		pool = append(pool[:i], pool[i+1:]...)
	}
	return out
}

func jstr(s string) string {
	b, _ := json.Marshal(s)
	return string(b)
}

type kv struct{ k, v string } // v is raw JSON

func jobj(kvs []kv) string {
	var sb strings.Builder
	sb.WriteString("{")
	for i, e := range kvs {
		if i > 0 {
			sb.WriteString(",")
		}
		sb.WriteString(jstr(e.k) + ":" + e.v)
	}
	sb.WriteString("}")
	return sb.String()
}

func jarr(vs []string) string { return "[" + strings.Join(vs, ",") + "]" }

// relPath: path of `to` relative to directory `fromDir` (both tree-relative, "" = root).
func relPath(fromDir, to string) string {
	var a, b []string
	if fromDir != "" {
		a = strings.Split(fromDir, "/")
	}
	if to != "" {
		b = strings.Split(to, "/")
	}
	i := 0
	for i < len(a) && i < len(b) && a[i] == b[i] {
		i++
	}
	var parts []string
	for range a[i:] {
		parts = append(parts, "..")
	}
	parts = append(parts, b[i:]...)
	return strings.Join(parts, "/")
}

// ----------------------------------------------------------------------------- grammar pools

var depFilePool = []string{
	"index.js", "main.js", "a.js", "lib/index.js", "lib/a.js", "lib/b.js", "lib/a.min.js", "lib/b.mjs", "lib/c.cjs", "lib/d.json", "lib/f.node", "lib/a b.js",
	"lib/sub/e.js", "lib/sub/index.js", "lib/sub.js", "lib/noext", "dist/a.js", "dist/b.js", "dist/a.mjs", "dist/a.cjs", "dist/sub/e.js", "dist/a/index.js", "dist/index.js",
	"feat/a.js", "feat/x/index.js", "index.json", "index.node", "main.json",
}

var rootFilePool = []string{
	"index.js", "src/a.js", "src/b.mjs", "src/c.cjs", "src/deep/d.js", "src/deep/index.js", "src/data.json", "src/a b.mjs", "src/both.js", "src/both/index.js",
	"src/noext", "src/deep/e.mjs", "src/f.node", "lib/a.js", "lib/sub/e.js",
}

var appFilePool = []string{"app.js", "x.js", "index.js", "src/i.js", "src/k.mjs", "inner/j.js", "lib/a.js", "lib/b.js", "lib/sub/e.js", "dist/a.js"}

var exportKeyPool = []string{
	".", ".", "./a", "./a.js", "./lib/a.js", "./lib/a", "./sub/e", "./feat", "./package.json", "./lib/*", "./lib/*.js", "./lib/sub/*", "./lib/s*", "./lib/*/index.js", "./*", "./*.js",
	"./dist/*", "./l*", "./lib/a*", "./lib/*.min.js", "./lib/*b.js", "./feat/*", "./*/index.js", "./lib/su*/e", "./d*/*", "./lib/*.mjs", "./src/*", "./src/*.js",
}

var importKeyPool = []string{
	"#a", "#lib/a", "#dep", "#x/y", "#feat", "#lib/*", "#lib/*.js", "#lib/sub/*", "#lib/s*", "#*", "#l*", "#dist/*", "#lib/*.min", "#dep/*", "#src/*", "#lib/*/index",
}

var conditionPool = []string{"import", "require", "node", "default", "browser", "custom", "module", "production", "types"}

var stemPool = []string{"a", "b", "a.js", "b.js", "a.min", "sub/e", "sub/e.js", "sub/index", "index", "e", "e.js", "ub/e", "x", "a/index.js", "a b", "nope", "ib/a.js", "lib/a.js", "lib/a", "dist/a", "c.cjs", "b.mjs", "d.json", "d", "ist/a.js", "in", "sub",
	"../lib/a.js", "sub/../a.js", "%2e%2e/lib/a.js", "node_modules/x.js", "./a.js"}

var invalidTargets = []string{"../x.js", "./../x.js", "./lib/../../x.js", "./node_modules/pb/index.js", "/abs/x.js", "./lib/./a.js", "./lib//a.js", "./%2e%2e/x.js", "./lib/%2E%2e/a.js", "./lib/Node_Modules/a.js", "./..", "./lib/.."}

var invalidPatternTargets = []string{"lib/*.js", "../*", "./node_modules/*", "./lib/../*", "/abs/*", "./lib/./*.js"}

var depNames = []string{"pa", "pb", "pc", "@s/pd", "@s/pe", "@t/pa"}

// ----------------------------------------------------------------------------- generated package model

type genPkg struct {
	dir        string   // tree-relative real directory ("" = root)
	lookup     string   // name under node_modules ("" for root / workspace packages)
	name       string   // "name" in package.json ("" = none)
	files      []string // package-relative regular files
	exportKeys []string // nil = no exports
	importKeys []string
	patTargets map[string][]string // key -> string leaves containing "*"
}

type gen struct {
	t     *rapid.T
	files []File
	pkgs  []*genPkg
	names []string // package names installed somewhere
}

func (g *gen) addFile(path, content string) {
	g.files = append(g.files, File{Path: path, Content: content})
}

func fileContent(p string) string {
	if strings.HasSuffix(p, ".json") {
		return "{}"
	}
	return "// " + p + "\n"
}

func dirsOf(files []string) []string {
	seen := map[string]bool{}
	for _, f := range files {
		seen[parent(f)] = true
	}
	var out []string
	for d := range seen {
		out = append(out, d)
	}
	sort.Strings(out)
	return out
}

// genTarget produces one exports/imports target (raw JSON).
func (g *gen) genTarget(p *genPkg, key string, isImports bool, depth int, leaves *[]string) string {
	t := g.t
	pattern := strings.Contains(key, "*")
	k := intRange(t, "target-kind", 0, 99)
	switch {
	case depth > 0 && k < 24:
		n := intRange(t, "nconds", 1, 4)
		var kvs []kv
		for _, c := range shuffled(t, "cond", conditionPool, n) {
			kvs = append(kvs, kv{c, g.genTarget(p, key, isImports, depth-1, leaves)})
		}
		return jobj(kvs)
	case depth > 0 && k < 36:
		n := intRange(t, "narr", 0, 3)
		if n == 0 && !chance(t, "empty-array", 20) {
			n = 2
		}
		var vs []string
		for i := 0; i < n; i++ {
			vs = append(vs, g.genTarget(p, key, isImports, depth-1, leaves))
		}
		return jarr(vs)
	case k < 44:
		return "null"
	case k < 45:
		return pick(t, "odd-target", []string{"1", "true", "false"})
	case depth > 0 && k < 51:
		// targets whose resolution is *undefined* (neither a path nor null): the enclosing condition object
		// or array must go on to its next entry. Objects with inactive conditions only, empty objects,
		// and arrays made of such objects.
		inactive := func() string {
			n := intRange(t, "ninactive", 0, 2)
			var kvs []kv
			for _, c := range shuffled(t, "inactive-cond", []string{"browser", "custom", "production", "types", "deno", "worker"}, n) {
				kvs = append(kvs, kv{c, g.genTarget(p, key, isImports, 0, leaves)})
			}
			return jobj(kvs)
		}
		if chance(t, "undefined-array", 60) {
			var vs []string
			for i, n := 0, intRange(t, "nundef", 1, 3); i < n; i++ {
				vs = append(vs, inactive())
			}
			return jarr(vs)
		}
		return inactive()
	}
	// string target
	s := ""
	m := intRange(t, "string-target", 0, 99)
	if pattern {
		dirs := dirsOf(p.files)
		d := pick(t, "tdir", dirs)
		pre := "./"
		if d != "" {
			pre = "./" + d + "/"
		}
		switch {
		case m < 30:
			s = pre + "*.js"
		case m < 52:
			s = pre + "*"
		case m < 60:
			s = pre + "*/index.js"
		case m < 66:
			s = "./*"
		case m < 72:
			s = pre + "*" + pick(t, "text", []string{".mjs", ".cjs", ".json", ".min.js"})
		case m < 78 && len(p.files) > 0:
			s = "./" + pick(t, "tfile", p.files) // fixed file for a pattern key
		case m < 88:
			s = pick(t, "bad-pattern", invalidPatternTargets)
		case isImports && len(g.names) > 0:
			s = pick(t, "dep", g.names) + pick(t, "depsub", []string{"/*", "/lib/*", "/lib/*.js"})
		default:
			s = pre + "s*.js"
		}
	} else {
		switch {
		case m < 68 && len(p.files) > 0:
			s = "./" + pick(t, "tfile", p.files)
		case m < 74:
			s = pick(t, "missing", []string{"./lib/missing.js", "./missing.js", "./dist/nope.mjs"})
		case m < 78:
			s = pick(t, "tdir", []string{"./lib", "./dist", "./src", "."})
		case m < 90:
			s = pick(t, "bad", invalidTargets)
		case isImports && len(g.names) > 0:
			s = pick(t, "dep", g.names) + pick(t, "depsub", []string{"", "", "/lib/a.js", "/lib/a", "/a", "/package.json"})
		default:
			s = pick(t, "bare-target", []string{"lib/a.js", "index.js", "pa"})
		}
	}
	if strings.Contains(s, "*") {
		*leaves = append(*leaves, s)
	}
	return jstr(s)
}

func (g *gen) genMap(p *genPkg, isImports bool) string {
	t := g.t
	p.patTargets = mapOrNew(p.patTargets)
	if !isImports {
		f := intRange(t, "exports-form", 0, 99)
		var leaves []string
		switch {
		case f < 10: // string sugar
			p.exportKeys = []string{"."}
			if len(p.files) > 0 && chance(t, "valid", 85) {
				return jstr("./" + pick(t, "tfile", p.files))
			}
			return jstr(pick(t, "bad", invalidTargets))
		case f < 18: // array sugar
			p.exportKeys = []string{"."}
			n := intRange(t, "narr", 1, 3)
			var vs []string
			for i := 0; i < n; i++ {
				vs = append(vs, g.genTarget(p, ".", false, 2, &leaves))
			}
			return jarr(vs)
		case f < 32: // conditions sugar
			p.exportKeys = []string{"."}
			n := intRange(t, "nconds", 1, 4)
			var kvs []kv
			for _, c := range shuffled(t, "cond", conditionPool, n) {
				kvs = append(kvs, kv{c, g.genTarget(p, ".", false, 2, &leaves)})
			}
			return jobj(kvs)
		}
	}
	pool := exportKeyPool
	if isImports {
		pool = importKeyPool
	}
	n := intRange(t, "nkeys", 1, 6)
	var keys []string
	seen := map[string]bool{}
	for _, k := range shuffled(t, "key", pool, n) {
		if !seen[k] {
			seen[k] = true
			keys = append(keys, k)
		}
	}
	var kvs []kv
	for _, k := range keys {
		var leaves []string
		kvs = append(kvs, kv{k, g.genTarget(p, k, isImports, 3, &leaves)})
		if len(leaves) > 0 {
			p.patTargets[k] = leaves
		}
	}
	if !isImports && chance(t, "mixed-keys", 2) {
		kvs = append(kvs, kv{"default", jstr("./index.js")}) // invalid package configuration in Node
	}
	if isImports {
		p.importKeys = keys
	} else {
		p.exportKeys = keys
	}
	return jobj(kvs)
}

func mapOrNew(m map[string][]string) map[string][]string {
	if m == nil {
		return map[string][]string{}
	}
	return m
}

// genPackageJSON writes package.json for p (files must be set).
func (g *gen) genPackageJSON(p *genPkg, pExports, pImports int) {
	t := g.t
	var kvs []kv
	switch n := intRange(t, "name-form", 0, 99); {
	case n < 84:
		p.name = p.lookup
		if p.name == "" {
			p.name = "app"
			if p.dir == "" {
				p.name = "rootpkg"
			}
		}
	case n < 92:
		p.name = ""
	default:
		p.name = pick(t, "other-name", []string{"other", "pa", "rootpkg"})
	}
	if p.name != "" {
		kvs = append(kvs, kv{"name", jstr(p.name)})
	}
	if chance(t, "type", 40) {
		kvs = append(kvs, kv{"type", jstr(pick(t, "type-v", []string{"module", "commonjs"}))})
	}
	if chance(t, "main", 55) {
		m := intRange(t, "main-form", 0, 99)
		var v string
		switch {
		case m < 40 && len(p.files) > 0:
			v = pick(t, "main-file", p.files)
			if chance(t, "main-dot", 50) {
				v = "./" + v
			}
			if chance(t, "main-noext", 35) {
				if i := strings.LastIndex(v, "."); i > 1 {
					v = v[:i]
				}
			}
		case m < 60:
			v = pick(t, "main-dir", []string{"lib", "./lib", "dist", "./dist/a", "lib/sub", "."})
		case m < 72:
			v = pick(t, "main-missing", []string{"missing.js", "./lib/missing", "nope/index.js"})
		case m < 76:
			v = ""
		default:
			v = pick(t, "main-common", []string{"main.js", "./main", "main", "index", "./lib/a", "lib/a.js", "./lib/d.json", "lib/d"})
		}
		kvs = append(kvs, kv{"main", jstr(v)})
	}
	if chance(t, "distractors", 25) {
		// fields Node ignores: esbuild must ignore them too with MainFields [main] on the node platform
		kvs = append(kvs, kv{"module", jstr("./dist/a.mjs")})
		if chance(t, "browser-map", 40) {
			kvs = append(kvs, kv{"browser", `{"./lib/a.js":"./lib/b.js","./index.js":"./dist/b.js","pb":false,"pa":"pc","./main.js":false}`})
		} else {
			kvs = append(kvs, kv{"browser", jstr("./dist/b.js")})
		}
	}
	if chance(t, "exports", pExports) {
		kvs = append(kvs, kv{"exports", g.genMap(p, false)})
	}
	if chance(t, "imports", pImports) {
		kvs = append(kvs, kv{"imports", g.genMap(p, true)})
	}
	g.addFile(join(p.dir, "package.json"), jobj(kvs))
}

func (g *gen) newPkg(dir, lookup string, pool []string, pct, pExports, pImports int) *genPkg {
	p := &genPkg{dir: dir, lookup: lookup}
	p.files = subset(g.t, "file", pool, pct)
	for _, f := range p.files {
		g.addFile(join(dir, f), fileContent(f))
	}
	g.pkgs = append(g.pkgs, p)
	g.genPackageJSON(p, pExports, pImports)
	if chance(g.t, "scope-boundary", 8) {
		// a nested package.json: a package-scope boundary for "#imports" and self-reference
		d := pick(g.t, "boundary-dir", dirsOf(p.files))
		if d != "" {
			g.addFile(join(join(dir, d), "package.json"), pick(g.t, "boundary", []string{`{}`, `{"type":"module"}`, `{"name":"inner","main":"./a.js"}`, `{"imports":{"#a":"./a.js"}}`}))
		}
	}
	return p
}

// genTree draws a whole tree and its queries.
func genTree(t *rapid.T) (Tree, []Query) {
	g := &gen{t: t}
	// which dependency names exist at all (known early so that imports maps can point at them)
	ndeps := intRange(t, "ndeps", 1, 6)
	type inst struct{ name, nm, real string } // real != "": the package lives in store/ and nm/name is a symlink to it
	var insts []inst
	taken := map[string]bool{}
	nmDirs := []string{"node_modules"}
	hasApp := chance(t, "workspace", 50)
	if hasApp {
		nmDirs = append(nmDirs, "packages/app/node_modules")
	}
	for i := 0; i < ndeps; i++ {
		name := pick(t, "dep-name", depNames)
		nm := pick(t, "dep-nm", nmDirs)
		if taken[nm+"/"+name] {
			continue
		}
		taken[nm+"/"+name] = true
		in := inst{name: name, nm: nm}
		if chance(t, "symlinked", 22) {
			// pnpm style: the real package sits in store/, its own dependencies in store/node_modules or store/<pkg>/node_modules
			in.real = "store/" + strings.ReplaceAll(name, "/", "+")
			nmDirs = append(nmDirs, in.real+"/node_modules", "store/node_modules")
		} else {
			nmDirs = append(nmDirs, nm+"/"+name+"/node_modules")
		}
		insts = append(insts, in)
		if !contains(g.names, name) {
			g.names = append(g.names, name)
		}
	}
	// root package
	root := &genPkg{dir: ""}
	root.files = subset(t, "root-file", rootFilePool, 60)
	if !contains(root.files, "src/a.js") {
		root.files = append(root.files, "src/a.js")
	}
	for _, f := range root.files {
		g.addFile(f, fileContent(f))
	}
	g.pkgs = append(g.pkgs, root)
	if chance(t, "root-pkgjson", 88) {
		g.genPackageJSON(root, 35, 60)
	}
	if chance(t, "dirmain", 30) {
		g.addFile("src/dirmain/package.json", pick(t, "dirmain-json", []string{`{"main":"m"}`, `{"main":"./m.js"}`, `{"main":"missing"}`, `{}`, `{"main":"sub"}`}))
		g.addFile("src/dirmain/m.js", "// m\n")
		if chance(t, "dirmain-index", 60) {
			g.addFile("src/dirmain/index.js", "// i\n")
		}
		root.files = append(root.files, "src/dirmain/m.js")
	}
	if hasApp {
		g.newPkg("packages/app", "", appFilePool, 60, 60, 50)
	}
	for _, in := range insts {
		dir := in.nm + "/" + in.name
		if in.real != "" {
			exists := false
			for _, p := range g.pkgs {
				exists = exists || p.dir == in.real
			}
			if !exists {
				g.newPkg(in.real, in.name, depFilePool, 55, 62, 22)
			}
			g.files = append(g.files, File{Path: dir, Link: relPath(parent(dir), in.real)})
			continue
		}
		g.newPkg(dir, in.name, depFilePool, 55, 62, 22)
	}
	tree := Tree{Files: g.files}
	switch c := intRange(t, "user-conditions", 0, 99); {
	case c < 55:
	case c < 80:
		tree.Conditions = []string{"custom"}
	case c < 85:
		tree.Conditions = []string{"browser"}
	case c < 95:
		tree.Conditions = []string{"custom", "browser"}
	default:
		tree.Conditions = []string{"production"}
	}
	// queries
	var importers []string
	for _, f := range g.files {
		if f.Link == "" && (strings.HasSuffix(f.Path, ".js") || strings.HasSuffix(f.Path, ".mjs") || strings.HasSuffix(f.Path, ".cjs")) {
			importers = append(importers, f.Path)
		}
	}
	nq := intRange(t, "nqueries", 14, 34)
	var qs []Query
	for i := 0; i < nq; i++ {
		imp := pick(t, "importer", importers)
		spec := g.genSpec(imp)
		kind := "import"
		switch k := intRange(t, "kind", 0, 99); {
		case k < 44:
		case k < 84:
			kind = "require"
		case k < 92:
			kind = "dynamic-import"
		default:
			kind = "require-resolve"
		}
		qs = append(qs, Query{Importer: imp, Spec: spec, Kind: kind})
	}
	return tree, qs
}

func contains(xs []string, x string) bool {
	for _, y := range xs {
		if y == x {
			return true
		}
	}
	return false
}

// scopeOf finds the generated package whose directory encloses path (nested package.json boundaries are
// ignored here: this only steers generation).
func (g *gen) scopeOf(path string) *genPkg {
	var best *genPkg
	for _, p := range g.pkgs {
		if p.dir == "" || strings.HasPrefix(path, p.dir+"/") {
			if best == nil || len(p.dir) > len(best.dir) {
				best = p
			}
		}
	}
	return best
}

// instantiate replaces the "*" of a pattern key by a stem that has a fair chance of hitting a file.
func (g *gen) instantiate(p *genPkg, key string) string {
	t := g.t
	if !strings.Contains(key, "*") {
		return key
	}
	stem := ""
	if leaves := p.patTargets[key]; len(leaves) > 0 && chance(t, "stem-from-file", 60) {
		leaf := pick(t, "leaf", leaves)
		i := strings.Index(leaf, "*")
		pre, suf := leaf[:i], leaf[i+1:]
		if !strings.Contains(suf, "*") {
			var cands []string
			for _, f := range p.files {
				ff := "./" + f
				if len(ff) > len(pre)+len(suf) && strings.HasPrefix(ff, pre) && strings.HasSuffix(ff, suf) {
					cands = append(cands, ff[len(pre):len(ff)-len(suf)])
				}
			}
			if len(cands) > 0 {
				stem = pick(t, "stem-file", cands)
			}
		}
	}
	if stem == "" {
		stem = pick(t, "stem", stemPool)
	}
	return strings.Replace(key, "*", stem, 1)
}

func (g *gen) subpathFor(p *genPkg) string {
	t := g.t
	m := intRange(t, "subpath-kind", 0, 99)
	switch {
	case m < 22:
		return ""
	case m < 62 && len(p.exportKeys) > 0:
		k := g.instantiate(p, pick(t, "export-key", p.exportKeys))
		return strings.TrimPrefix(k, ".")
	case m < 90 && len(p.files) > 0:
		f := pick(t, "subfile", p.files)
		switch v := intRange(t, "subfile-form", 0, 9); {
		case v < 5:
		case v < 8:
			if i := strings.LastIndex(f, "."); i > 0 {
				f = f[:i]
			}
		default:
			if parent(f) != "" {
				f = parent(f)
			}
		}
		return "/" + f
	case m < 94:
		return "/package.json"
	default:
		return pick(t, "sub-nope", []string{"/nope", "/lib/nope.js", "/lib"})
	}
}

func (g *gen) pkgByLookup(name string) *genPkg {
	var cands []*genPkg
	for _, p := range g.pkgs {
		if p.lookup == name {
			cands = append(cands, p)
		}
	}
	if len(cands) == 0 {
		return nil
	}
	return cands[uniform(g.t, "which-instance", len(cands))]
}

func (g *gen) genSpec(importer string) string {
	t := g.t
	scope := g.scopeOf(importer)
	impDir := parent(importer)
	spec := ""
	m := intRange(t, "spec-kind", 0, 99)
	switch {
	case m < 42: // bare
		if len(g.names) == 0 || chance(t, "missing-pkg", 4) {
			spec = pick(t, "missing-name", []string{"missing", "@s/missing", "@s", "pz/lib/a.js"})
			break
		}
		name := pick(t, "bare-name", g.names)
		spec = name
		if p := g.pkgByLookup(name); p != nil {
			spec += g.subpathFor(p)
		}
	case m < 50: // self-reference
		if scope != nil && scope.name != "" {
			spec = scope.name + g.subpathFor(scope)
		} else {
			spec = "rootpkg"
		}
	case m < 65: // #imports
		if scope != nil && len(scope.importKeys) > 0 && chance(t, "known-import-key", 85) {
			spec = g.instantiate(scope, pick(t, "import-key", scope.importKeys))
		} else {
			spec = pick(t, "import-odd", []string{"#nope", "#", "#a", "#lib/a", "#lib/sub/e", "#x/y"})
		}
	default: // relative or absolute
		var target string
		if scope != nil && len(scope.files) > 0 && chance(t, "same-package", 70) {
			target = join(scope.dir, pick(t, "rel-file", scope.files))
		} else {
			var all []string
			for _, f := range g.files {
				if f.Link == "" {
					all = append(all, f.Path)
				}
			}
			target = pick(t, "any-file", all)
		}
		switch v := intRange(t, "rel-form", 0, 19); {
		case v < 10:
		case v < 15:
			if i := strings.LastIndex(target, "."); i > strings.LastIndex(target, "/")+1 {
				target = target[:i]
			}
		case v < 18:
			if parent(target) != "" {
				target = parent(target)
			}
		default:
			target += ".nope"
		}
		if m < 93 {
			r := relPath(impDir, target)
			switch {
			case r == "":
				spec = "."
			case strings.HasPrefix(r, ".."):
				spec = r
			default:
				spec = "./" + r
			}
		} else {
			spec = "$ROOT/" + target
		}
	}
	// decorations
	if chance(t, "percent", 9) {
		spec = percentEncodeOne(t, spec)
	}
	if chance(t, "suffix", 12) && spec != "." && spec != ".." {
		spec += pick(t, "suffix-v", []string{"?q", "?q=1&r=2", "#h", "?q#h", "#h?x"})
	}
	return sanitizeSpec(spec)
}

// percentEncodeOne replaces one character of the path part by its %XX escape.
func percentEncodeOne(t *rapid.T, spec string) string {
	lo := 0
	switch {
	case strings.HasPrefix(spec, "$ROOT/"):
		lo = len("$ROOT/")
	case strings.HasPrefix(spec, "../"):
		lo = 3
	case strings.HasPrefix(spec, "./"):
		lo = 2
	case strings.HasPrefix(spec, "#"):
		lo = 1
	case spec == "." || spec == "..":
		return spec
	default:
		// mostly leave the package name alone
		name, _ := splitBare(spec)
		if len(spec) > len(name)+1 && !chance(t, "percent-in-name", 15) {
			lo = len(name) + 1
		}
	}
	if lo >= len(spec) {
		return spec
	}
	if i := strings.Index(spec[lo:], " "); i >= 0 && chance(t, "percent-space", 70) {
		return spec[:lo+i] + "%20" + spec[lo+i+1:]
	}
	i := intRange(t, "percent-pos", lo, len(spec)-1)
	if spec[i] == '%' {
		return spec
	}
	format := "%%%02x"
	if chance(t, "percent-upper", 50) {
		format = "%%%02X"
	}
	return spec[:i] + fmt.Sprintf(format, spec[i]) + spec[i+1:]
}

// sanitizeSpec keeps generated specifiers inside the property's quantifier: never a trailing "/"
// (Node 17+ rejects it, esbuild honours it — excluded), no "*" (esbuild's single-path API refuses
// wildcards), no backslash, no scheme.
func sanitizeSpec(s string) string {
	path := s
	if i := strings.IndexAny(s[min(1, len(s)):], "?#"); i >= 0 {
		path = s[:i+min(1, len(s))]
	}
	if strings.HasPrefix(s, "#/") {
		return "#a" // "#/x" is refused by Node 20 and accepted by newer Node releases: not generated
	}
	if s == "" || strings.HasSuffix(path, "/") || strings.HasSuffix(s, "/") || strings.ContainsAny(s, "*\\:") {
		return "./a.js"
	}
	return s
}

func min(a, b int) int {
	if a < b {
		return a
	}
	return b
}

// ----------------------------------------------------------------------------- the sub-check

func runTrees(t *testing.T) {
	H.Rule("tree", "rapid: package trees on a real temp dir from the package.json grammar (exports/imports as string, array, nested condition objects in drawn key order over {import, require, node, default, browser, custom, module, production, types}, `*` patterns with overlapping prefixes/suffixes, null, invalid targets, main with/without extension/directory/missing, type, name) × layouts (hoisted, nested and workspace node_modules, scoped packages, pnpm-style symlinked packages with their own store/node_modules, nested package.json scope boundaries) × 14–34 specifiers per tree (bare, subpath, self-reference, #imports, relative, absolute, ?query/#hash, one %XX escape) × kinds {import, dynamic-import, require, require-resolve} × user condition sets; oracle: Node's createRequire().resolve / import.meta.resolve; non-trivial = the targeted exports/imports map has ≥2 keys or the matched target has a condition object with ≥2 keys, or the package is reached through a symlink, or through ≥2 node_modules levels")
	n := H.N(quickTrees, thoroughTrees)
	if v := os.Getenv("C11_TREES"); v != "" { // local experiments only
		fmt.Sscanf(v, "%d", &n)
	}
	H.SetupRapid("tree", n)
	rapid.Check(t, func(rt *rapid.T) {
		tr, qs := genTree(rt)
		tj, _ := json.Marshal(tr)
		vs := judgeTree(tr, qs)
		for i, v := range vs {
			H.Report(rt, "tree", caseKey(tr, string(tj), qs[i]), Case{Tree: tr, Query: qs[i]}, v)
		}
	})
}

const quickTrees = 1200
const thoroughTrees = 60000

// C10 — code splitting shares modules correctly across chunks. See DESIGN.md section 5 / C10.
package c10

import (
	"encoding/json"
	"fmt"
	"os"
	"path"
	"path/filepath"
	"regexp"
	"sort"
	"strings"
	"testing"

	"github.com/evanw/esbuild/pkg/api"
	"github.com/evanw/esbuild/verif/jsref"
	"github.com/evanw/esbuild/verif/modgraph"
	"github.com/evanw/esbuild/verif/noderun"
	"github.com/evanw/esbuild/verif/vdrv"
	"pgregory.net/rapid"
)

var H *vdrv.H
var FW *noderun.FileWorker

type Case struct {
	Files      map[string]string `json:"files"`
	Entries    []string          `json:"entries"`    // entry points of the build (the last one is the final state reader)
	LoadOrder  []string          `json:"load_order"` // entries loaded into one runtime, in this order
	Minify     bool              `json:"minify"`
	ChunkNames string            `json:"chunk_names,omitempty"`
	EntryNames string            `json:"entry_names,omitempty"`
	PublicPath string            `json:"public_path,omitempty"`
	Labels     []string          `json:"labels,omitempty"`
}

var modTag = regexp.MustCompile(`^s:"(m\d+|final):`)

// perModule splits the event list by the module tag of each event; untagged events (probes) go to "".
func perModule(events []string) map[string][]string {
	out := map[string][]string{}
	for _, e := range events {
		tag := ""
		if m := modTag.FindStringSubmatch(e); m != nil {
			tag = m[1]
		}
		out[tag] = append(out[tag], e)
	}
	return out
}

func sortedCopy(xs []string) []string {
	c := append([]string{}, xs...)
	sort.Strings(c)
	return c
}

// selfDynamicImport: signature of known finding C10-self-dynamic-import — a module that dynamically
// imports itself.
func selfDynamicImport(files map[string]string) bool {
	for name, src := range files {
		if strings.Contains(src, "import(\"./"+name+"\")") {
			return true
		}
	}
	return false
}

func judge(c Case) vdrv.Verdict {
	v := judge1(c)
	if !v.OK && v.Discard == "" && selfDynamicImport(c.Files) && strings.Contains(v.Observed, "err:ReferenceError") {
		v.Known = "C10-self-dynamic-import"
	}
	return v
}

func judge1(c Case) vdrv.Verdict {
	dir, err := os.MkdirTemp("", "c10-")
	if err != nil {
		return vdrv.Skip("tmpdir")
	}
	defer os.RemoveAll(dir)
	src := filepath.Join(dir, "src")
	for name, s := range c.Files {
		p := filepath.Join(src, name)
		os.MkdirAll(filepath.Dir(p), 0o755)
		if os.WriteFile(p, []byte(s), 0o644) != nil {
			return vdrv.Skip("tmpdir-write")
		}
	}
	var steps []noderun.Step
	for _, e := range c.LoadOrder {
		steps = append(steps, noderun.Step{Kind: "import", File: filepath.Join(src, e), Label: e})
	}
	ref, err := FW.Run(steps)
	if err != nil {
		return vdrv.Skip("node-infra")
	}
	if ref.TimedOut || ref.Overflow {
		return vdrv.Skip("reference-timeout")
	}
	for _, s := range ref.Steps {
		if s.LoadError != "" {
			return vdrv.Skip("native-load-error")
		}
		if strings.Contains(s.End, "err:ReferenceError") {
			return vdrv.Skip("tdz-dependent")
		}
	}
	for _, e := range ref.Events {
		if strings.Contains(e, "err:ReferenceError") {
			return vdrv.Skip("tdz-dependent")
		}
	}
	// --- split build
	o := api.BuildOptions{LogLevel: api.LogLevelSilent, Write: false, Bundle: true, Splitting: true, Format: api.FormatESModule, AbsWorkingDir: src,
		Outdir: filepath.Join(dir, "out"), OutExtension: map[string]string{".js": ".mjs"}, Platform: api.PlatformNode, ChunkNames: c.ChunkNames, EntryNames: c.EntryNames, PublicPath: c.PublicPath}
	o.Engines = []api.Engine{{Name: api.EngineNode, Version: "20.0.0"}}
	for _, e := range c.Entries {
		o.EntryPoints = append(o.EntryPoints, "./"+e)
	}
	if c.Minify {
		o.MinifySyntax, o.MinifyWhitespace, o.MinifyIdentifiers = true, true, true
	}
	r := api.Build(o)
	if len(r.Errors) > 0 {
		return vdrv.Fail("esbuild refuses the split build: "+r.Errors[0].Text, "", fmt.Sprint(r.Errors))
	}
	outFiles := map[string]string{}
	var dump strings.Builder
	for _, f := range r.OutputFiles {
		os.MkdirAll(filepath.Dir(f.Path), 0o755)
		if os.WriteFile(f.Path, f.Contents, 0o644) != nil {
			return vdrv.Skip("tmpdir-write")
		}
		outFiles[f.Path] = string(f.Contents)
		fmt.Fprintf(&dump, "=== %s\n%s\n", strings.TrimPrefix(f.Path, dir), f.Contents)
	}
	cls := append([]string{fmt.Sprintf("entries=%d", len(c.Entries)), fmt.Sprintf("chunks=%d", len(outFiles))}, c.Labels...)
	// --- static checks on the emitted chunks
	type info struct {
		prog    *jsref.Program
		imports map[string][]string // resolved target path -> imported names
	}
	infos := map[string]*info{}
	for p, text := range outFiles {
		prog, perr := jsref.Parse(text, jsref.Options{Module: true})
		if perr != nil {
			return vdrv.Skip("jsref-gap")
		}
		in := &info{prog: prog, imports: map[string][]string{}}
		importedLocals := map[string]bool{}
		for _, im := range prog.Imports {
			if im.Spec == "" || !(strings.HasPrefix(im.Spec, ".") || (c.PublicPath != "" && strings.HasPrefix(im.Spec, c.PublicPath))) {
				continue
			}
			var target string
			if strings.HasPrefix(im.Spec, ".") {
				target = filepath.Clean(filepath.Join(filepath.Dir(p), im.Spec))
			} else {
				target = filepath.Join(dir, "out", strings.TrimPrefix(im.Spec, c.PublicPath))
			}
			if _, ok := outFiles[target]; !ok {
				return vdrv.Fail(fmt.Sprintf("chunk %s imports %q which is not an emitted file", path.Base(p), im.Spec), "existing chunk", dump.String())
			}
			if im.Kind == "import-statement" {
				var names []string
				for _, n := range im.Names {
					names = append(names, n.Imported)
					importedLocals[n.Local] = true
				}
				in.imports[target] = append(in.imports[target], names...)
			} else if im.Kind == "export-from" {
				if _, ok := in.imports[target]; !ok {
					in.imports[target] = nil
				}
			}
		}
		for _, a := range prog.AssignedNames {
			if importedLocals[a.Name] && a.Decl != nil && a.Decl.Kind == "import" {
				return vdrv.Fail(fmt.Sprintf("chunk %s assigns to %q, which it imports from another chunk", path.Base(p), a.Name), "no assignment to imports", dump.String())
			}
		}
		infos[p] = in
	}
	for p, in := range infos {
		for target, names := range in.imports {
			exp := map[string]bool{}
			for _, e := range infos[target].prog.Exports {
				exp[e.Exported] = true
			}
			for _, n := range names {
				if !exp[n] {
					return vdrv.Fail(fmt.Sprintf("chunk %s imports name %q from %s, which does not export it", path.Base(p), n, path.Base(target)), "exported name", dump.String())
				}
			}
		}
	}
	// acyclic static import graph
	color := map[string]int{}
	var cyc func(p string) bool
	cyc = func(p string) bool {
		color[p] = 1
		for t := range infos[p].imports {
			if color[t] == 1 || (color[t] == 0 && cyc(t)) {
				return true
			}
		}
		color[p] = 2
		return false
	}
	for p := range infos {
		if color[p] == 0 && cyc(p) {
			return vdrv.Fail("the emitted chunks form a static import cycle", "acyclic", dump.String())
		}
	}
	// --- dynamic: load the same entries in the same order
	var osteps []noderun.Step
	for _, e := range c.LoadOrder {
		name := strings.TrimSuffix(e, ".mjs")
		var found string
		for p := range outFiles {
			b := path.Base(p)
			if b == name+".mjs" || strings.HasPrefix(b, name+"-") || strings.HasPrefix(b, name+".") {
				if found == "" || len(p) < len(found) {
					found = p
				}
			}
		}
		if found == "" {
			return vdrv.Fail("no output file for entry "+e, "", dump.String())
		}
		osteps = append(osteps, noderun.Step{Kind: "import", File: found, Label: e})
	}
	got, err := FW.Run(osteps)
	if err != nil {
		return vdrv.Skip("node-infra")
	}
	if got.TimedOut {
		return vdrv.Fail("split build does not terminate", ref.Trace(), dump.String())
	}
	// termination and exports per step
	for i := range ref.Steps {
		if i >= len(got.Steps) || ref.Steps[i].End != got.Steps[i].End || ref.Steps[i].Exports != got.Steps[i].Exports {
			return vdrv.Fail(fmt.Sprintf("entry %s: termination/exports differ", c.LoadOrder[i]), ref.Trace(), got.Trace()+"\n"+dump.String())
		}
	}
	// per-module subsequences identical (=> every module body ran exactly once, its own effects in order)
	rm, gm := perModule(ref.Events), perModule(got.Events)
	tags := map[string]bool{}
	for t := range rm {
		tags[t] = true
	}
	for t := range gm {
		tags[t] = true
	}
	for t := range tags {
		a, b := rm[t], gm[t]
		if t == "" || strings.HasPrefix(t, "step") {
			a, b = sortedCopy(a), sortedCopy(b) // probes and step markers: compared as a multiset
		}
		if strings.Join(a, "\n") != strings.Join(b, "\n") {
			return vdrv.Fail(fmt.Sprintf("events of module %q differ between native loading and the split build", t), strings.Join(rm[t], "\n"), strings.Join(gm[t], "\n")+"\n--- full native\n"+ref.Trace()+"\n--- full split\n"+got.Trace()+"\n"+dump.String())
		}
	}
	shared := len(outFiles) > len(c.Entries)
	if shared {
		cls = append(cls, "shared-chunk")
	}
	v := vdrv.Pass(shared && len(ref.Events) >= 4, cls...)
	v.Observed = fmt.Sprintf("%d events, %d output files, order %v", len(ref.Events), len(outFiles), c.LoadOrder)
	return v
}

func replay(raw json.RawMessage) vdrv.Verdict {
	var c Case
	if json.Unmarshal(raw, &c) != nil {
		return vdrv.Skip("bad-replay")
	}
	return judge(c)
}

func key(c Case) string {
	var names []string
	for n := range c.Files {
		names = append(names, n)
	}
	sort.Strings(names)
	var sb strings.Builder
	for _, n := range names {
		sb.WriteString(n + "\x00" + c.Files[n] + "\x00")
	}
	return sb.String() + fmt.Sprint(c.LoadOrder, c.Minify, c.ChunkNames, c.EntryNames, c.PublicPath)
}

func runSplit(t *testing.T) {
	H.Rule("split", "rapid: ES module graphs with 2–3 entry points plus a final state-reader entry, shared modules reachable from several entries (directly, through shared modules, through import()), exported let counters mutated from other modules, re-exports across chunk boundaries, export *, identical names in different modules × minify × chunk/entry name templates; every drawn subset and order of entries is loaded into ONE runtime. Oracle: native Node loading of the sources vs the emitted chunks — per-module event subsequences equal (each module body exactly once, own effects in order), probe multiset equal, per-entry termination and exports equal, final shared state equal; static (jsref): every imported chunk exists and exports the imported names, no chunk assigns to an imported binding, static import graph acyclic. Cross-module order is NOT compared (documented limitation). Non-trivial = a shared chunk exists and ≥4 events")
	H.SetupRapid("split", H.N(2500, 150000))
	rapid.Check(t, func(rt *rapid.T) {
		k := rapid.IntRange(2, 3).Draw(rt, "nentries")
		g := modgraph.Generate(rt, modgraph.Config{MaxModules: k + rapid.IntRange(1, 4).Draw(rt, "extra"), MultiEntry: k, AllowCycles: rapid.Bool().Draw(rt, "cycles"), AllowDynamic: rapid.Bool().Draw(rt, "dynamic"), MutableLets: true, DeferLive: true, CollidingLocals: rapid.Bool().Draw(rt, "colliding")})
		files := g.Files()
		var entries []string
		for i := 0; i < k; i++ {
			entries = append(entries, g.Modules[i].Name)
		}
		// the final state reader imports every module's namespace and logs the shared counters
		var fin strings.Builder
		for i, m := range g.Modules {
			fmt.Fprintf(&fin, "import * as n%d from \"./%s\";\n", i, m.Name)
		}
		fin.WriteString("log(\"final:state\"")
		for i := range g.Modules {
			fmt.Fprintf(&fin, ", n%d.c%d, n%d.a%d", i, i, i, i)
		}
		fin.WriteString(");\n")
		files["zfinal.mjs"] = fin.String()
		c := Case{Files: files, Labels: g.Labels}
		c.Entries = append(append([]string{}, entries...), "zfinal.mjs")
		// a drawn non-empty subset of entries in a drawn order, then the final reader
		order := rapid.Permutation(entries).Draw(rt, "order")
		n := rapid.IntRange(1, len(order)).Draw(rt, "nloaded")
		c.LoadOrder = append(append([]string{}, order[:n]...), "zfinal.mjs")
		c.Minify = rapid.Bool().Draw(rt, "minify")
		c.ChunkNames = rapid.SampledFrom([]string{"", "chunks/[name]-[hash]", "[hash]", "deep/er/[name]-[hash]"}).Draw(rt, "chunknames")
		c.EntryNames = rapid.SampledFrom([]string{"", "[name]", "[dir]/[name]"}).Draw(rt, "entrynames")
		H.Report(rt, "split", key(c), c, judge(c))
	})
}

var subs = map[string]vdrv.ReplayFunc{"split": replay}

func setup(t *testing.T) {
	H = vdrv.New("C10")
	if noderun.NodePath() == "" {
		t.Fatalf("INFRA: node not found")
	}
	FW = noderun.NewFileWorker("")
}

func TestCheck(t *testing.T) {
	setup(t)
	defer FW.Close()
	complete := false
	defer func() { H.Finish(complete) }()
	H.RunReplays(t, subs)
	H.Sub(t, "split", runSplit)
	complete = true
}

func TestReplay(t *testing.T) {
	setup(t)
	defer FW.Close()
	H.ReplayOne(t, subs)
}

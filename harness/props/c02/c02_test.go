// C02 — bundling preserves module-graph semantics. See DESIGN.md section 5 / C02.
package c02

import (
	"encoding/json"
	"fmt"
	"os"
	"path/filepath"
	"regexp"
	"sort"
	"strings"
	"testing"

	"github.com/evanw/esbuild/pkg/api"
	"github.com/evanw/esbuild/verif/modgraph"
	"github.com/evanw/esbuild/verif/noderun"
	"github.com/evanw/esbuild/verif/vdrv"
	"pgregory.net/rapid"
)

var H *vdrv.H
var FW *noderun.FileWorker

type Case struct {
	Files    map[string]string `json:"files"`
	Entry    string            `json:"entry"`
	Format   string            `json:"format"` // esm | cjs | iife
	Platform string            `json:"platform"`
	Minify   bool              `json:"minify"`
	Labels   []string          `json:"labels,omitempty"`
	Loaders  map[string]string `json:"loaders,omitempty"`
	Binary   map[string][]byte `json:"binary_files,omitempty"` // asset files (raw bytes)
	RefEntry string            `json:"ref_entry,omitempty"`    // assets: reference script computing the expected trace
	StarKey  string            `json:"star_key,omitempty"`     // export-star family member: mask-cjsMask-enter-viaMid
}

func writeTree(dir string, files map[string]string, bin map[string][]byte) error {
	for name, src := range files {
		p := filepath.Join(dir, name)
		os.MkdirAll(filepath.Dir(p), 0o755)
		if err := os.WriteFile(p, []byte(src), 0o644); err != nil {
			return err
		}
	}
	for name, b := range bin {
		p := filepath.Join(dir, name)
		os.MkdirAll(filepath.Dir(p), 0o755)
		if err := os.WriteFile(p, b, 0o644); err != nil {
			return err
		}
	}
	return nil
}

func loaderOf(s string) api.Loader {
	switch s {
	case "text":
		return api.LoaderText
	case "binary":
		return api.LoaderBinary
	case "base64":
		return api.LoaderBase64
	case "dataurl":
		return api.LoaderDataURL
	case "json":
		return api.LoaderJSON
	}
	return api.LoaderJS
}

func (c Case) build(srcDir string) api.BuildResult {
	o := api.BuildOptions{LogLevel: api.LogLevelSilent, Write: false, Bundle: true, AbsWorkingDir: srcDir, EntryPoints: []string{"./" + c.Entry}, Outfile: "out.js"}
	// the bundle is executed by the reference engine, so it is built for that engine (otherwise esbuild
	// may use APIs newer than Node 20, e.g. Uint8Array.fromBase64 for the binary loader)
	o.Engines = []api.Engine{{Name: api.EngineNode, Version: "20.0.0"}}
	switch c.Format {
	case "esm":
		o.Format = api.FormatESModule
	case "cjs":
		o.Format = api.FormatCommonJS
	case "iife":
		o.Format = api.FormatIIFE
		o.GlobalName = "BUNDLE_NS"
	}
	switch c.Platform {
	case "node":
		o.Platform = api.PlatformNode
	case "browser":
		o.Platform = api.PlatformBrowser
	case "neutral":
		o.Platform = api.PlatformNeutral
	}
	if c.Minify {
		o.MinifySyntax, o.MinifyWhitespace, o.MinifyIdentifiers = true, true, true
	}
	if len(c.Loaders) > 0 {
		o.Loader = map[string]api.Loader{}
		for ext, l := range c.Loaders {
			o.Loader[ext] = loaderOf(l)
		}
	}
	return api.Build(o)
}

// judge requires a failure to be reproducible: the file-based runner is a long-lived Node process, and on a
// very busy machine a late event of the previous run (a dynamic import that finished after the quiescence
// poll gave up) can land in the next trace. A verdict must be a function of the case, so a failing case is
// judged a second time; it fails only if it fails again against the same reference trace.
func judge(c Case) vdrv.Verdict {
	v := judgeOnce(c)
	if v.OK || v.Discard != "" {
		return v
	}
	v2 := judgeOnce(c)
	if v2.Discard != "" {
		return v2
	}
	if v2.OK {
		return vdrv.Skip("failure-not-reproducible")
	}
	if v2.Expected != v.Expected {
		return vdrv.Skip("nondeterministic-reference")
	}
	return v2
}

func judgeOnce(c Case) vdrv.Verdict {
	dir, err := os.MkdirTemp("", "c02-")
	if err != nil {
		return vdrv.Skip("tmpdir")
	}
	defer os.RemoveAll(dir)
	src := filepath.Join(dir, "src")
	if err := writeTree(src, c.Files, c.Binary); err != nil {
		return vdrv.Skip("tmpdir-write")
	}
	// --- reference: Node's own loaders
	entryIsCJS := strings.HasSuffix(c.Entry, ".cjs")
	refStep := noderun.Step{Kind: "import", File: filepath.Join(src, c.Entry)}
	if entryIsCJS {
		refStep.Kind = "require"
	}
	if c.RefEntry != "" {
		refStep = noderun.Step{Kind: "require", File: filepath.Join(src, c.RefEntry)}
	}
	ref, err := FW.Run([]noderun.Step{refStep})
	if err != nil {
		return vdrv.Skip("node-infra")
	}
	if ref.TimedOut || ref.Overflow {
		return vdrv.Skip("reference-timeout-or-overflow")
	}
	if len(ref.Steps) == 1 && ref.Steps[0].LoadError != "" {
		return vdrv.Skip("native-load-error:" + strings.SplitN(ref.Steps[0].LoadError, ":", 2)[0])
	}
	refTrace := ref.Trace()
	if strings.Contains(refTrace, "err:ReferenceError") {
		return vdrv.Skip("tdz-dependent") // bundling turns top-level let/const/class into var: documented
	}
	// --- bundle
	r := c.build(src)
	if len(r.Errors) > 0 {
		return vdrv.Fail("esbuild refuses to bundle a graph that Node loads: "+r.Errors[0].Text, refTrace, fmt.Sprint(r.Errors))
	}
	if len(r.OutputFiles) != 1 {
		return vdrv.Fail(fmt.Sprintf("expected one output file, got %d", len(r.OutputFiles)), "", "")
	}
	out := string(r.OutputFiles[0].Contents)
	outDir := filepath.Join(dir, "out")
	os.MkdirAll(outDir, 0o755)
	var step noderun.Step
	switch c.Format {
	case "esm":
		step = noderun.Step{Kind: "import", File: filepath.Join(outDir, "out.mjs")}
	case "cjs":
		step = noderun.Step{Kind: "require", File: filepath.Join(outDir, "out.cjs")}
	default:
		step = noderun.Step{Kind: "script", File: filepath.Join(outDir, "out.js"), GlobalName: "BUNDLE_NS"}
	}
	if err := os.WriteFile(step.File, r.OutputFiles[0].Contents, 0o644); err != nil {
		return vdrv.Skip("tmpdir-write")
	}
	got, err := FW.Run([]noderun.Step{step})
	if err != nil {
		return vdrv.Skip("node-infra")
	}
	if got.TimedOut {
		return vdrv.Fail("bundle does not terminate", refTrace, "TIMEOUT\n"+out)
	}
	gotTrace := got.Trace()
	rt, gt := dropLoaderNoise(refTrace), dropLoaderNoise(gotTrace)
	compareExports := true
	if c.RefEntry != "" {
		compareExports = false // assets: the reference is a script that logs the expected values
	}
	if len(ref.Steps) == 1 && ref.Steps[0].End != "normal" {
		compareExports = false // exports of a failed load are not observable natively
	}
	if entryIsCJS && c.Format != "cjs" {
		// module.exports seen through an ESM/iife window has an extra `default`: compare events and termination only
		compareExports = false
	}
	if !compareExports {
		rt, gt = stripExports(rt), stripExports(gt)
	}
	cls := append([]string{"format=" + c.Format, "platform=" + c.Platform}, c.Labels...)
	if strings.Contains(out, "__commonJS") {
		cls = append(cls, "wrapped-cjs")
	}
	if strings.Contains(out, "__esm") {
		cls = append(cls, "wrapped-esm")
	}
	if c.Minify {
		cls = append(cls, "minify")
	}
	if rt == gt {
		v := vdrv.Pass(len(c.Files) >= 2 && len(ref.Events) >= 2, cls...)
		v.Observed = fmt.Sprintf("%d events, end=%s, %d modules", len(ref.Events), ref.Steps[0].End, len(c.Files))
		return v
	}
	v := vdrv.Fail("bundle behaves differently from native loading", rt, gt+"\n--- bundle\n"+out)
	if c.StarKey != "" {
		cat := starCategory(rt, gt)
		v.Detail = "star-category=" + cat + " " + v.Detail
		if starBaseline()[c.StarKey+"-"+c.Format] == cat && cat != "other-unclassified" {
			v.Known = "C02-star-" + cat
		}
		return v
	}
	// Known deviations are recognised by normalising both traces for the deviation's class and comparing
	// again; two classes may be present in one case, so the normalisations compose.
	nrt, ngt, known := rt, gt, ""
	if hasLabel(c.Labels, "namespace-call") && strings.Count(rt, ":recv") > strings.Count(gt, ":recv") {
		// C02-namespace-call-receiver: `ns.f()` on a namespace import is bound statically and printed as
		// `f()`, so the callee no longer receives the namespace object as `this`
		nrt, ngt = strings.ReplaceAll(nrt, ":recv", ""), strings.ReplaceAll(ngt, ":recv", "")
		known = "C02-namespace-call-receiver"
	}
	if nrt != ngt && hasLabel(c.Labels, "export-star-from-cjs") && (c.Format == "esm" || hasLabel(c.Labels, "cycle")) {
		// (in cjs/iife output the names are only lost when the star path runs through an `export *` cycle)
		// C02-esm-export-star-from-cjs: the names of a starred CommonJS module are missing from the
		// export list of the entry and from the namespaces of the modules on the star path
		cjs := cjsStarNames(c)
		nrt, ngt = dropNames(stripExports(nrt), cjs), dropNames(stripExports(ngt), cjs)
		if known == "" {
			known = "C02-esm-export-star-from-cjs"
		}
	}
	if known != "" && nrt == ngt {
		v.Known = known
	} else if id := reexecutedThrowingCJS(c, rt, gt); id != "" {
		v.Known = id
	} else if hasLabel(c.Labels, "cycle") && hasLabel(c.Labels, "top-level-throw") && erroredCycleOnly(rt, gt) {
		v.Known = "C02-errored-cycle-member-importable"
	}
	return v
}

var dynFailedRe = regexp.MustCompile(`^s:"(m\d+:dyn m\d+) failed" err:\w+$`)

// erroredCycleOnly: the traces differ only in lines where the native run reports a failed dynamic import and the
// bundle reports the same import as successful (known finding C02-errored-cycle-member-importable).
func erroredCycleOnly(rt, gt string) bool {
	a, b := strings.Split(rt, "\n"), strings.Split(gt, "\n")
	if len(a) != len(b) {
		return false
	}
	n := 0
	for i := range a {
		if a[i] == b[i] {
			continue
		}
		m := dynFailedRe.FindStringSubmatch(a[i])
		if m == nil || !strings.HasPrefix(b[i], `s:"`+m[1]+`" `) {
			return false
		}
		n++
	}
	return n > 0
}

// reexecutedThrowingCJS recognises known finding C02-throwing-cjs-reexecuted: the body of a CommonJS
// module that throws at top level runs once natively and again in the bundle for each later importer.
func reexecutedThrowingCJS(c Case, rt, gt string) string {
	for name, src := range c.Files {
		if !strings.HasSuffix(name, ".cjs") || !strings.Contains(src, "throw new TypeError(\"boom") {
			continue
		}
		start := `s:"` + strings.TrimSuffix(name, ".cjs") + `:start"`
		if strings.Count(rt, start) == 1 && strings.Count(gt, start) > 1 {
			return "C02-throwing-cjs-reexecuted"
		}
	}
	return ""
}

var keyListRe = regexp.MustCompile(`s:"[A-Za-z0-9_$]+(,[A-Za-z0-9_$]+)*"`)

var starFromCJSRe = regexp.MustCompile(`export \* from "\./m(\d+)\.cjs"`)

// cjsStarNames lists the export names of the CommonJS modules that some module of the case re-exports with
// `export *` (they are generated as aN, cN, fN plus `__esModule`).
func cjsStarNames(c Case) map[string]bool {
	out := map[string]bool{"__esModule": true}
	for _, src := range c.Files {
		for _, m := range starFromCJSRe.FindAllStringSubmatch(src, -1) {
			for _, p := range []string{"a", "c", "f"} {
				out[p+m[1]] = true
			}
		}
	}
	return out
}

// dropNames removes the given names from every comma-separated key list logged in a trace.
func dropNames(tr string, names map[string]bool) string {
	return keyListRe.ReplaceAllStringFunc(tr, func(m string) string {
		parts := strings.Split(m[3:len(m)-1], ",")
		var keep []string
		for _, p := range parts {
			if !names[p] {
				keep = append(keep, p)
			}
		}
		return `s:"` + strings.Join(keep, ",") + `"`
	})
}

// When an ES module imports (statically or dynamically) a CommonJS module that throws, Node reports the
// error twice: as the rejection of the import and as an "unhandled rejection" of an internal promise.
// The second report is an artefact of the loader, not part of the program's behaviour; generated
// programs handle every promise they create, so "unhandled" lines are dropped on both sides.
func dropLoaderNoise(tr string) string {
	var keep []string
	for _, l := range strings.Split(tr, "\n") {
		if strings.HasPrefix(l, "unhandled:") {
			continue
		}
		keep = append(keep, l)
	}
	return strings.Join(keep, "\n")
}

func hasLabel(ls []string, l string) bool {
	for _, x := range ls {
		if x == l {
			return true
		}
	}
	return false
}

func stripExports(tr string) string {
	var keep []string
	for _, l := range strings.Split(tr, "\n") {
		if strings.Contains(l, " EXPORTS ") {
			continue
		}
		keep = append(keep, l)
	}
	return strings.Join(keep, "\n")
}

func replay(raw json.RawMessage) vdrv.Verdict {
	var c Case
	if json.Unmarshal(raw, &c) != nil {
		return vdrv.Skip("bad-replay")
	}
	return judge(c)
}

func key(c Case) string {
	var names []string
	for n := range c.Files {
		names = append(names, n)
	}
	sort.Strings(names)
	var sb strings.Builder
	for _, n := range names {
		sb.WriteString(n + "\x00" + c.Files[n] + "\x00")
	}
	return sb.String() + c.Format + c.Platform + fmt.Sprint(c.Minify, c.Binary)
}

func runGraphs(t *testing.T) {
	H.Rule("graphs", "rapid: module graphs of 2–6 files (.mjs ES modules and .cjs CommonJS modules; edges: named/default/namespace/side-effect imports, export-from, export *, export * as, import(), require; import cycles and self-imports; exported var/let/const/function/class/default, live bindings mutated through exported functions, deferred readers, top-level throws, __esModule-flagged CommonJS) × format {esm, cjs, iife+global name} × platform {node, browser, neutral} × minify; oracle: the same tree loaded by Node 20's native ESM/CJS loaders vs the bundle loaded the way its format demands — event sequence (evaluation order, at-most-once), termination, and the entry's exports; non-trivial = ≥2 modules and ≥2 events")
	H.SetupRapid("graphs", H.N(3000, 200000))
	rapid.Check(t, func(rt *rapid.T) {
		g := modgraph.Generate(rt, modgraph.Config{MaxModules: 6, AllowCJS: rapid.Bool().Draw(rt, "cjs"), AllowCycles: rapid.Bool().Draw(rt, "cycles"), AllowDynamic: rapid.Bool().Draw(rt, "dynamic"), AllowThrow: rapid.IntRange(0, 3).Draw(rt, "throw") == 0, MutableLets: rapid.Bool().Draw(rt, "mutable"), ThisOfNamespaceCall: rapid.IntRange(0, 3).Draw(rt, "nscall") == 0, CollidingLocals: rapid.Bool().Draw(rt, "colliding")})
		c := Case{Files: g.Files(), Entry: g.Modules[0].Name, Labels: g.Labels}
		c.Format = rapid.SampledFrom([]string{"esm", "cjs", "iife"}).Draw(rt, "format")
		c.Platform = rapid.SampledFrom([]string{"node", "browser", "neutral"}).Draw(rt, "platform")
		c.Minify = rapid.IntRange(0, 2).Draw(rt, "minify") == 0
		H.Report(rt, "graphs", key(c), c, judge(c))
	})
}

// ---- export-star families (bounded-exhaustive): every set of `export *` edges among three ES modules, each
// optionally also star-exporting a CommonJS module, with same-named exports that conflict; the entry enters
// the graph through one module (directly or via an extra hop) and observes every namespace.
func runStarFamilies(t *testing.T) {
	H.Rule("stars", "bounded-exhaustive (sliced by seed in quick): all 64 sets of `export *` edges among three ES modules × 8 subsets of modules that also `export *` from a CommonJS module × which module the entry enters through × {direct, via an intermediate re-exporting module}, with a conflicting export name `same` declared by two modules and a local declaration shadowing a star; the entry logs the sorted keys and values of the namespace it entered through and of every module's namespace, and re-exports the entered module (entry exports compared for cjs/iife) × format; oracle as in `graphs`")
	i := 0
	edges := [][2]int{{1, 2}, {1, 3}, {2, 1}, {2, 3}, {3, 1}, {3, 2}}
	for mask := 0; mask < 64; mask++ {
		for cjsMask := 0; cjsMask < 8; cjsMask++ {
			for enter := 1; enter <= 3; enter++ {
				for _, viaMid := range []bool{false, true} {
					for _, format := range []string{"esm", "cjs", "iife"} {
						i++
						if !H.MySlice(i) {
							continue
						}
						if !H.Thorough() && uint64(i/H.NShards)%12 != H.Seed%12 {
							continue
						}
						files := map[string]string{}
						for m := 1; m <= 3; m++ {
							var sb strings.Builder
							// CommonJS star first or last, alternating by module, so that both orders occur
							cjsLine := ""
							if cjsMask&(1<<(m-1)) != 0 {
								cjsLine = "export * from \"./c.cjs\";\n"
							}
							if m%2 == 0 {
								sb.WriteString(cjsLine)
							}
							for k, e := range edges {
								if mask&(1<<k) != 0 && e[0] == m {
									fmt.Fprintf(&sb, "export * from \"./m%d.mjs\";\n", e[1])
								}
							}
							if m%2 == 1 {
								sb.WriteString(cjsLine)
							}
							fmt.Fprintf(&sb, "log(\"run m%d\");\nexport var own%d = \"own%d\";\n", m, m, m)
							if m <= 2 {
								fmt.Fprintf(&sb, "export var same = \"same-from-m%d\";\n", m)
							}
							files[fmt.Sprintf("m%d.mjs", m)] = sb.String()
						}
						files["c.cjs"] = "log(\"run c\");\nexports.fromC = \"c\";\nexports.alsoC = 42;\nexports.own3 = \"c-shadowed-by-local\";\n"
						enterFile := fmt.Sprintf("m%d.mjs", enter)
						if viaMid {
							files["mid.mjs"] = fmt.Sprintf("export * from \"./%s\";\nexport var fromMid = \"mid\";\nlog(\"run mid\");\n", enterFile)
							enterFile = "mid.mjs"
						}
						var eb strings.Builder
						fmt.Fprintf(&eb, "import * as entered from \"./%s\";\nimport * as n1 from \"./m1.mjs\";\nimport * as n2 from \"./m2.mjs\";\nimport * as n3 from \"./m3.mjs\";\n", enterFile)
						fmt.Fprintf(&eb, "export * from \"./%s\";\n", enterFile)
						eb.WriteString("function dump(ns) { return Object.keys(ns).sort().map(function (k) { return k + \"=\" + String(ns[k]); }).join(\",\"); }\n")
						eb.WriteString("log(\"entered\", dump(entered));\nlog(\"n1\", dump(n1));\nlog(\"n2\", dump(n2));\nlog(\"n3\", dump(n3));\n")
						files["entry.mjs"] = eb.String()
						c := Case{Files: files, Entry: "entry.mjs", Format: format, Platform: "node", StarKey: fmt.Sprintf("%d-%d-%d-%v", mask, cjsMask, enter, viaMid), Labels: []string{"star-family", fmt.Sprintf("stars=%d", bitsSet(mask)), fmt.Sprintf("cjsstars=%d", bitsSet(cjsMask))}}
						if cjsMask != 0 {
							c.Labels = append(c.Labels, "export-star-from-cjs")
						}
						H.Report(t, "stars", key(c), c, judge(c))
					}
				}
			}
		}
	}
	H.Exhaustive("stars", H.Thorough())
}

// The export-star family is finite, and on the pinned tree a large part of it deviates from Node in three
// classified ways (see known-findings.d/C02.json). The shapes that deviate, with the class of the
// deviation, are listed in star_baseline.json; a failing shape is forgiven only if it is listed there with
// the same class, so a change of the set of failing shapes is reported.
var starTable map[string]string

func starBaseline() map[string]string {
	if starTable == nil {
		starTable = map[string]string{}
		if b, err := os.ReadFile("star_baseline.json"); err == nil {
			json.Unmarshal(b, &starTable)
		}
	}
	return starTable
}

func dropTokens(t string, toks []string) string {
	for _, x := range toks {
		t = strings.ReplaceAll(t, x, "")
	}
	for strings.Contains(t, ",,") {
		t = strings.ReplaceAll(t, ",,", ",")
	}
	t = strings.ReplaceAll(t, "\",", "\"")
	t = strings.ReplaceAll(t, ",\"", "\"")
	t = strings.ReplaceAll(t, "{,", "{")
	t = strings.ReplaceAll(t, ",}", "}")
	return t
}

// starCategory classifies a deviation: "esm-vs-cjs-conflict" (a name exported by an ES module and by a
// CommonJS module through two stars is kept although it is ambiguous natively), "cjs-names-lost" (names of
// a star-exported CommonJS module are missing), "ambiguous-esm-name-kept" (a name exported by two ES modules
// through two stars is kept), or combinations.
func starCategory(ref, got string) string {
	a := []string{"own3=own3", "\"own3\"=s:\"own3\""}
	b := []string{"alsoC=42", "fromC=c", "own3=c-shadowed-by-local", "\"alsoC\"=n:4045000000000000(42)", "\"fromC\"=s:\"c\"", "\"own3\"=s:\"c-shadowed-by-local\""}
	c := []string{"same=same-from-m1", "same=same-from-m2", "\"same\"=s:\"same-from-m1\"", "\"same\"=s:\"same-from-m2\""}
	sets := []struct {
		name string
		toks []string
	}{{"esm-vs-cjs-conflict", a}, {"cjs-names-lost", b}, {"ambiguous-esm-name-kept", c}}
	for mask := 1; mask < 8; mask++ {
		var toks []string
		var names []string
		for i, s := range sets {
			if mask&(1<<i) != 0 {
				toks = append(toks, s.toks...)
				names = append(names, s.name)
			}
		}
		if dropTokens(ref, toks) == dropTokens(got, toks) {
			return strings.Join(names, "+")
		}
	}
	return "other-unclassified"
}

func bitsSet(x int) int {
	n := 0
	for ; x != 0; x &= x - 1 {
		n++
	}
	return n
}

// ---- assets: the value obtained by importing a non-JavaScript file is exactly its bytes / text / JSON value

const assetRef = `
var fs = require("fs"), path = require("path");
function rd(n) { return fs.readFileSync(path.join(__dirname, n)); }
log("text", rd("a.txt").toString("utf8").replace(/^\uFEFF/, "")); // a UTF-8 signature is not part of the text (TextDecoder drops it too)
log("bin", Array.from(rd("a.bin")));
log("b64", rd("a.b64").toString("base64"));
log("durl-bytes", Array.from(rd("a.durl")));
log("json", JSON.parse(rd("a.json").toString("utf8").replace(/^\uFEFF/, "")));
`

const assetEntry = `
import t from "./a.txt"; import b from "./a.bin"; import s from "./a.b64"; import u from "./a.durl"; import j from "./a.json";
function decodeDataURL(u) {
  var m = /^data:([^,]*),(.*)$/s.exec(u); if (!m) return "not-a-data-url";
  var meta = m[1], body = m[2];
  if (/;base64$/.test(meta)) { var bin = atob(body), out = []; for (var i = 0; i < bin.length; i++) out.push(bin.charCodeAt(i)); return out; }
  var bytes = [], e = new TextEncoder();
  var cps = Array.from(body); // by code point, so that astral characters are encoded as themselves
  for (var i = 0; i < cps.length; i++) { if (cps[i] === "%" && /^[0-9a-fA-F]{2}$/.test(String(cps[i + 1]) + String(cps[i + 2]))) { bytes.push(parseInt(cps[i + 1] + cps[i + 2], 16)); i += 2; } else { var enc = e.encode(cps[i]); for (var k = 0; k < enc.length; k++) bytes.push(enc[k]); } }
  return bytes;
}
log("text", t);
log("bin", Array.from(b));
log("b64", s);
log("durl-bytes", decodeDataURL(u));
log("json", j);
`

func drawBytes(rt *rapid.T, label string) []byte {
	switch rapid.IntRange(0, 6).Draw(rt, label+"-class") {
	case 0:
		return []byte{}
	case 1:
		return rapid.SliceOfN(rapid.Byte(), 0, 64).Draw(rt, label)
	case 2:
		b := make([]byte, 256)
		for i := range b {
			b[i] = byte(i)
		}
		return b
	case 3:
		return append([]byte{0xEF, 0xBB, 0xBF}, []byte(rapid.StringN(0, 20, 40).Draw(rt, label))...)
	case 4:
		return []byte(rapid.SampledFrom([]string{"hello\r\nworld", "</script>", "`${x}`\\", "  ", "😀é", "\x00\x01", "a\xffb\xc0\x80", "\xed\xa0\x80", "%41%zz #?&", "'\"\n"}).Draw(rt, label))
	case 5:
		n := rapid.IntRange(1000, 70000).Draw(rt, label+"-len")
		b := make([]byte, n)
		for i := range b {
			b[i] = byte(i*7 + i/256)
		}
		return b
	default:
		return []byte(rapid.String().Draw(rt, label))
	}
}

func runAssets(t *testing.T) {
	H.Rule("assets", "rapid: byte strings (all 256 values, empty, invalid UTF-8, BOM, lone surrogates in WTF-8, 64 KB) imported through the text/binary/base64/dataurl/json loaders × format × minify; oracle: a reference script that reads the same files with fs and logs the bytes / UTF-8 decoding / base64 / JSON.parse value (the data URL is decoded back to bytes); non-trivial = any non-ASCII or >256-byte payload")
	H.SetupRapid("assets", H.N(800, 60000))
	rapid.Check(t, func(rt *rapid.T) {
		jsonVals := []string{`{"a":1,"b":[true,null,"x"],"c":{"d":1.5e3}}`, `[1,2,3]`, `"str "`, `123`, `null`, `{"__proto__":{"x":1},"é":"😀","":0}`, "\uFEFF{\"bom\":true}", `{"a":{"b":{"c":{"d":[[[[1]]]]}}}}`, `{"dup":1,"dup":2}`, `1e999`, `-0`, `{"constructor":1,"toString":2}`}
		c := Case{Entry: "entry.mjs", RefEntry: "ref.cjs", Files: map[string]string{"entry.mjs": assetEntry, "ref.cjs": assetRef},
			Loaders: map[string]string{".txt": "text", ".bin": "binary", ".b64": "base64", ".durl": "dataurl", ".json": "json"},
			// "the file's text" is only defined for valid UTF-8, so a.txt is made valid
			Binary: map[string][]byte{"a.txt": []byte(strings.ToValidUTF8(string(drawBytes(rt, "txt")), "?")), "a.bin": drawBytes(rt, "bin"), "a.b64": drawBytes(rt, "b64"), "a.durl": drawBytes(rt, "durl"), "a.json": []byte(rapid.SampledFrom(jsonVals).Draw(rt, "json"))}}
		c.Format = rapid.SampledFrom([]string{"esm", "cjs", "iife"}).Draw(rt, "format")
		c.Platform = "node"
		c.Minify = rapid.Bool().Draw(rt, "minify")
		c.Labels = []string{"assets"}
		H.Report(rt, "assets", key(c), c, judge(c))
	})
}

var subs = map[string]vdrv.ReplayFunc{"graphs": replay, "assets": replay, "stars": replay}

func setup(t *testing.T) {
	H = vdrv.New("C02")
	if noderun.NodePath() == "" {
		t.Fatalf("INFRA: node not found")
	}
	FW = noderun.NewFileWorker("")
}

func TestCheck(t *testing.T) {
	setup(t)
	complete := false
	defer func() { H.Finish(complete) }()
	H.RunReplays(t, subs)
	H.Sub(t, "stars", runStarFamilies)
	if os.Getenv("VERIF_C02_ONLY_STARS") == "" { // (set only when regenerating star_baseline.json)
		H.Sub(t, "graphs", runGraphs)
		H.Sub(t, "assets", runAssets)
	}
	complete = true
}

func TestReplay(t *testing.T) {
	setup(t)
	H.ReplayOne(t, subs)
}

package c16

import (
	"bytes"
	"encoding/base64"
	"fmt"
	"os"
	"strconv"
	"strings"
	"testing"

	"github.com/evanw/esbuild/verif/vdrv"
	"pgregory.net/rapid"
)

// scaled lets a test run of the thorough tier use a fraction of the case counts (VERIF_C16_THOROUGH_PCT).
func scaled(n int) int {
	if v := os.Getenv("VERIF_C16_THOROUGH_PCT"); v != "" {
		if p, err := strconv.Atoi(v); err == nil && p > 0 {
			return n * p / 100
		}
	}
	return n
}

func b64(b []byte) string { return base64.StdEncoding.EncodeToString(b) }

// ----------------------------------------------------------------------------- byte-level and structural mutations

// Nesting wrappers. maxDepth keeps generated inputs inside the nesting bound for which the time promise is
// asserted (see extremeNesting): plain expression brackets up to 5000 deep; wrappers whose printed form is
// indented per level (output grows quadratically) or that form left-deep operator chains up to 600; wrappers
// that open a scope up to 120 (esbuild's non-minifying renamer is cubic in the depth of same-named scopes).
type wrapper struct {
	open, close string
	maxDepth    int
	css         bool
}

var wrappers = []wrapper{
	{"(", ")", 5000, false}, {"[", "]", 5000, false}, {"(", "", 5000, false}, {"[", "", 5000, false}, {"", ")", 5000, false},
	{"{", "}", 600, false}, {"{", "", 5000, false}, {"x={a:", "}", 1500, false}, {"f(", ")", 1500, false}, {"`${", "}`", 1500, false},
	{"<a>", "</a>", 800, false}, {"<>", "</>", 800, false}, {"<a b={", "}/>", 800, false},
	{"!", "", 5000, false}, {"-", "", 3000, false}, {"typeof ", "", 1500, false}, {"await ", "", 1500, false}, {"new ", "", 1500, false}, {"...", "", 1500, false},
	{"a?", ":b", 600, false}, {"a+", "", 1500, false}, {"a=", "", 600, false}, {"a,", "", 600, false}, {"a??", "", 600, false}, {"a**", "", 600, false}, {"a.", "", 1500, false}, {"a?.", "", 1500, false},
	{"if(a)", "", 600, false}, {"if(a)b;else ", "", 600, false}, {"for(;;)", "", 600, false}, {"while(a)", "", 600, false}, {"do ", " while(a)", 300, false}, {"l:", "", 600, false},
	{"switch(a){case ", ":}", 300, false}, {"try{", "}finally{}", 300, false},
	{"function f(){", "}", 120, false}, {"()=>", "", 120, false}, {"a=>", "", 120, false}, {"class A{static{", "}}", 120, false}, {"class A extends ", "{}", 120, false},
	{"try{}catch(e){", "}", 120, false}, {"for(let a;;){", "}", 120, false}, {"{let a;", "}", 120, false}, {"async function*g(){yield ", "}", 120, false},
	{"let x:A<", ">", 1500, false}, {"let x:(", ")", 1500, false}, {"let x:[", "]", 1500, false}, {"let x:{a:", "}", 1500, false}, {"namespace N{", "}", 120, false}, {"x as ", "", 600, false}, {"<T>", "", 600, false}, {"enum E{A=", "}", 120, false},
	{"/*", "*/", 5000, false}, {"/", "/", 2000, false}, {"[", "", 5000, false},
	{"a{", "}", 600, true}, {"@media x{", "}", 400, true}, {"@supports (a:b){", "}", 400, true}, {"@layer a{", "}", 400, true}, {"&{", "}", 600, true},
	{":is(", ")", 1500, true}, {":not(", ")", 1500, true}, {"a{b:calc(", ")}", 1500, true}, {"a{b:(", ")}", 2000, true}, {"a{b:[", "]}", 3000, true}, {"a{b:{", "}}", 300, true},
	{"a{b:var(--x,", ")}", 1500, true}, {"a{b:url(", ")}", 1500, true}, {"@import url(", ");", 600, true}, {"a>", "{}", 1500, true}, {"a[", "]", 1500, true}, {":nth-child(", ")", 1500, true},
	{"{\"a\":", "}", 3000, false}, {"[{", "}]", 3000, false},
}

var hostile = []string{
	"\x00", "\xff", "\xfe\xff", "\xc0\x80", "\xed\xa0\x80", "\xed\xbf\xbf", "\xf4\x90\x80\x80", "\xf8\x88\x80\x80\x80", "\x80", "\xbf\xbf",
	"\xe2\x80\xa8", "\xe2\x80\xa9", "\xef\xbb\xbf", "\xc2\x85", "\xc2\xa0", "\xe1\x9a\x80", "\xf0\x9f\x98\x80", "\xf3\xa0\x80\x80", "\xef\xbf\xbe", "\xef\xbf\xbf",
	"\r", "\r\n", "\n", "\t", "\v", "\f", "\\", "\\\n", "\\\r\n", "\\u", "\\u{", "\\u{}", "\\u{110000}", "\\u{D800}", "\\uD800", "\\uDC00\\uD800", "\\x", "\\x4", "\\0", "\\08", "\\1", "\\8",
	"${", "`", "'", "\"", "/*", "*/", "//", "<!--", "-->", "</script>", "</style>", "#!", "#", "@", "\\u0061sync", "aw\\u0061it", "\\u{61}", "yield", "await", "let", "static", "async", "of", "get", "set", "accessor", "using", "defer", "source",
	"<", ">", "</", "/>", "{", "}", "(", ")", "[", "]", "=>", "?.", "??=", "**=", ">>>=", "...", "?", ":", ";", ",", "=", "==", "!", "~", "#x", "#constructor", "@dec", "<!", "<?", "]]>",
	"__proto__", "constructor", "prototype", "arguments", "eval", "new.target", "import.meta", "import(", "import defer", "super", "this", "null", "undefined", "NaN", "Infinity", "-0", "0n", "0x", "0b", "0o", "09", "08.5", "1_", "1__0", "1e", "1e+", ".e1", "0.0e-0", "1n", "1.5n", "0xfn",
	"/(?<a>)(?<a>)/v", "/[\\p{L}--[a]]/v", "/(?i:a)/", "/\\k<x>/u", "/[/", "/(/", "/a/gg", "/\\", "/(?<=a)*/", "/{1,}/u", "/[z-a]/",
	"//# sourceMappingURL=", "/*# sourceMappingURL=data:application/json;base64,e30= */", "//# sourceMappingURL=data:application/json;base64,!!!!", "//# sourceURL=x", "/* @__PURE__ */", "/* #__NO_SIDE_EFFECTS__ */", "/*! legal */", "//! legal", "/** @jsx h */", "/** @jsxImportSource x */", "/** @jsxRuntime automatic */", "// @ts-check",
	"\"use strict\";", "\"use asm\"", "'use client'", "export default", "export * as \"a b\" from 'x'", "import {\"a b\" as c} from 'y' with {type:'json'}", "export =", "import x = require('x')", "declare", "abstract", "satisfies", "as const", "infer U extends", "unique symbol", "asserts x is", "<const T,>", "accessor x", "override",
	"!important", "!ie", "\\9", "\\0", "\\\n", "u+0-7f", "U+1?????", "url(", "url(\"", "url( a b )", "#", "#0", "#00", "#00000", "#0000000g", "@charset \"x\";", "@import", "@namespace", "@media", "@keyframes", "@font-face", "@property", "@container", "@scope", "@starting-style", "@layer", "@nest", "@supports", "@-moz-document", "@page :first", "@", "@{", "@;", "&", "&&", "&a", "a&", ":global(", ":local(", ":global", ":local", "composes: a from global", "composes: a b from \"./x.css\"", "--x:", "--:", "--x:{", "--x:}", "<!--", "-->", "~=", "|=", "^=", "$=", "*=", "||", ">>>", "/deep/", "::", ":::", ":is()", ":not()", ":has(", ":where(", ":nth-child(2n+1 of a)", ":nth-child(n+", ":nth-child(-n", ":nth-child(+n-", ":host(", "::slotted(", "::part(", "calc(", "calc(1px+2px)", "calc(1px + )", "calc(1/0)", "calc(infinity*1px)", "min(", "clamp(", "rgb(", "rgb(0 0 0 / )", "hsl(from red h s l)", "color-mix(in srgb,", "color(display-p3 1 1)", "linear-gradient(", "1e3px", "1e", "+.5", "-.5e-3em", "+-1", "-+1", "1.", ".", "..", "1..2", "010", "1E3", "\\31 0", "-\\-", "--\\", "-", "--", "---", "-0", "-a", "-1a", "1a-", "e", "1e1e1",
	"null", "true", "false", "{}", "[]", "[,]", "{,}", "{\"\":\"\"}", "{\"__proto__\":1}", "{\"a\":1,\"a\":2}", "1e999", "-1e999", "-", "+1", "01", ".5", "5.", "'a'", "\"\\v\"", "\"\\u{61}\"", "\"\\ud800\"", "\"\n\"", "/**/", "//", "NaN", "undefined", "0x1", "1n",
}

// Compact token alphabets for the `tokens` mutation: 2–4 random tokens inserted in a row, so that every ordered
// pair of tokens of the language is reached a few times per quick run (the hostile list above is too long for that).
var jsTokens = strings.Fields("( ) [ ] { } ; , . ... ? ?. : = => == === ! != !== ~ + - * / % ** ++ -- << >> >>> & | ^ && || ?? += -= *= /= **= ??= ||= &&= <<= >>>= < > <= >= @ # ` ${ a b 0 1n .5 'c' /r/ if else for while do in of instanceof new delete typeof void await yield async function function* class extends static get set let const var using return throw break continue try catch finally switch case default: import export default from as null true this super with debugger enum interface type namespace declare abstract is keyof readonly satisfies <T> </a> <a />")
var cssTokens = strings.Fields("{ } ( ) [ ] ; : , . # @ & > + ~ * | || = ~= |= ^= $= *= ^ $ ! % / - -- a b 0 1px 1e3 50% #fff 'c' url(x) var(--x) calc( rgb( @media @import @supports @layer @keyframes @font-face @container @scope @nest @charset :is( :not( :has( :where( :hover ::before :global( :local( :root !important from to and not or only of inherit initial U+0-7F <!-- --> \\ /* */")

var truncTails = []string{"\xe0", "\xe0\xa0", "\xf0", "\xf0\x9f", "\xf0\x9f\x98", "\xc3", "\xdf", "\xef", "\xef\xbb", "\xf4\x8f\xbf", "\xe0A", "\xf0AB"}

func bigNumber(t *rapid.T, css bool) string {
	n := rapid.SampledFrom([]int{100, 1000, 10000, 20000}).Draw(t, "digits")
	d := strings.Repeat(rapid.SampledFrom([]string{"0", "1", "9", "7"}).Draw(t, "digit"), n)
	forms := []string{"1" + d, "0." + d + "1", "1e" + d, "1e-" + d, "." + d, d + "." + d, "0" + d, "1" + d + "e" + d[:n/10], "-" + d, "+" + d}
	if css {
		forms = append(forms, "1"+d+"px", "#"+d, "1"+d+"%", "1e"+d+"em", "u+"+d, d+"n+"+d, "\\"+d+" ")
	} else {
		forms = append(forms, "0x"+strings.Repeat("f", n), "0b"+strings.Repeat("1", n), "0o"+strings.Repeat("7", n), "1"+strings.Repeat("_0", n/2), "1"+d+"n", "0x"+strings.Repeat("f", n)+"n", d+".."+d, d+"e+"+d)
	}
	return rapid.SampledFrom(forms).Draw(t, "numform")
}

func hugeEscape(t *rapid.T, css bool) string {
	n := rapid.SampledFrom([]int{64, 1000, 5000, 10000}).Draw(t, "esclen")
	z := strings.Repeat("0", n)
	forms := []string{
		"\"\\u{" + z + "41}\"", "\\u{" + z + "61}", "`\\u{" + z + "41}`", "/\\u{" + z + "41}/u", "\"" + strings.Repeat("\\x41", n/2) + "\"", "\"" + strings.Repeat("\\u0041", n/2) + "\"",
		"\"" + strings.Repeat("\\", n) + "\"", "'" + strings.Repeat("\\\n", n/2) + "'", "`" + strings.Repeat("\\`", n/2) + "`", strings.Repeat("\\u0061", n/4), "\"\\u{" + strings.Repeat("f", n) + "}\"", "\"\\" + z + "\"",
		"\"" + strings.Repeat("\\ud83d", n/4) + "\"", "\"" + strings.Repeat("\\udc00", n/4) + "\"", "/" + strings.Repeat("\\/", n/2) + "/", "/a{" + z + "1," + z + "2}/", "/[" + strings.Repeat("\\]", n/2) + "]/",
		strings.Repeat("a", n*4), "\"" + strings.Repeat("a", n*4) + "\"", "/*" + strings.Repeat("*", n*4) + "*/", "//" + strings.Repeat("/", n*4), "`" + strings.Repeat("${a}", n/2) + "`", "<a " + strings.Repeat("b ", n) + "/>", "<a>" + strings.Repeat("&amp;", n/2) + "&#x" + z + "41;&#" + z + "65;</a>",
	}
	if css {
		forms = []string{
			"\\" + z + "41 ", "a{b:\"\\" + z + "41\"}", "\\" + strings.Repeat("f", n) + " ", strings.Repeat("\\31 ", n/2), "a{b:url(" + strings.Repeat("\\)", n/2) + ")}", "a{b:\"" + strings.Repeat("\\\n", n/2) + "\"}",
			strings.Repeat("a", n*4) + "{}", "a{" + strings.Repeat("b", n*4) + ":c}", "a{b:" + strings.Repeat("c", n*4) + "}", "/*" + strings.Repeat("*", n*4) + "*/", "#" + strings.Repeat("a", n*4) + "{}", "." + strings.Repeat("\\.", n) + "{}",
			"a{b:" + strings.Repeat("1 ", n) + "}", strings.Repeat("a,", n) + "a{}", strings.Repeat("a ", n) + "{}", strings.Repeat("a>", n) + "a{}", strings.Repeat(".a", n) + "{}", strings.Repeat(":hover", n/2) + "{}", "a{" + strings.Repeat("b:c;", n) + "}", strings.Repeat("@import 'a';", n/4), strings.Repeat("a{}", n),
		}
	}
	return rapid.SampledFrom(forms).Draw(t, "escform")
}

func pos(t *rapid.T, n int, label string) int {
	if n <= 0 {
		return 0
	}
	return rapid.IntRange(0, n).Draw(t, label)
}

func insertAt(b []byte, at int, s string) []byte {
	out := make([]byte, 0, len(b)+len(s))
	out = append(out, b[:at]...)
	out = append(out, s...)
	return append(out, b[at:]...)
}

// mutate applies one drawn mutation; returns the new bytes and the mutation's label.
func mutate(t *rapid.T, b []byte, pool []string, css bool, allowTrunc bool) ([]byte, string) {
	k := rapid.IntRange(0, 18).Draw(t, "mut")
	switch k {
	case 0: // truncate
		return b[:pos(t, len(b), "cut")], "truncate"
	case 1: // nest ×N
		var cand []wrapper
		for _, w := range wrappers {
			if w.css == css {
				cand = append(cand, w)
			}
		}
		w := rapid.SampledFrom(cand).Draw(t, "wrap")
		max := w.maxDepth
		if per := len(w.open) + len(w.close); per > 0 && max*per > maxInput-len(b) {
			max = (maxInput - len(b)) / per
		}
		if max < 1 {
			return b, "nest"
		}
		depth := rapid.SampledFrom([]int{2, 17, 100, 400, 1000, 5000}).Draw(t, "depth")
		if depth > max {
			depth = max
		}
		inner := b
		if rapid.IntRange(0, 2).Draw(t, "nestwhat") == 0 {
			// nest in the middle of the snippet instead of around it
			at := pos(t, len(b), "nestat")
			return []byte(string(b[:at]) + strings.Repeat(w.open, depth) + strings.Repeat(w.close, depth) + string(b[at:])), "nest"
		}
		return []byte(strings.Repeat(w.open, depth) + string(inner) + strings.Repeat(w.close, depth)), "nest"
	case 2: // splice with another snippet
		o := []byte(rapid.SampledFrom(pool).Draw(t, "other"))
		return append(append([]byte{}, b[:pos(t, len(b), "spl-a")]...), o[pos(t, len(o), "spl-b"):]...), "splice"
	case 3: // bit flips
		if len(b) == 0 {
			return b, "bitflip"
		}
		out := append([]byte{}, b...)
		for i, n := 0, rapid.IntRange(1, 4).Draw(t, "nflips"); i < n; i++ {
			out[rapid.IntRange(0, len(out)-1).Draw(t, "flipat")] ^= 1 << uint(rapid.IntRange(0, 7).Draw(t, "flipbit"))
		}
		return out, "bitflip"
	case 4, 5: // hostile token / byte injection
		out := b
		for i, n := 0, rapid.IntRange(1, 3).Draw(t, "ninj"); i < n; i++ {
			out = insertAt(out, pos(t, len(out), "injat"), rapid.SampledFrom(hostile).Draw(t, "inj"))
		}
		return out, "inject"
	case 6: // truncated multi-byte sequence at EOF
		if !allowTrunc {
			return b, "none"
		}
		return append(append([]byte{}, b...), rapid.SampledFrom(truncTails).Draw(t, "tail")...), "trunc-utf8-eof"
	case 7:
		return insertAt(b, pos(t, len(b), "numat"), bigNumber(t, css)), "bignum"
	case 8:
		return insertAt(b, pos(t, len(b), "escat"), hugeEscape(t, css)), "hugeescape"
	case 9: // repeat a slice (bounded: see wrappers)
		if len(b) == 0 {
			return b, "repeat"
		}
		lo := rapid.IntRange(0, len(b)-1).Draw(t, "replo")
		hi := lo + rapid.IntRange(1, 40).Draw(t, "replen")
		if hi > len(b) {
			hi = len(b)
		}
		n := rapid.IntRange(2, 120).Draw(t, "repn")
		return insertAt(b, hi, strings.Repeat(string(b[lo:hi]), n)), "repeat"
	case 10: // delete a range
		if len(b) == 0 {
			return b, "delete"
		}
		lo := rapid.IntRange(0, len(b)-1).Draw(t, "dello")
		hi := lo + rapid.IntRange(1, 16).Draw(t, "dellen")
		if hi > len(b) {
			hi = len(b)
		}
		return append(append([]byte{}, b[:lo]...), b[hi:]...), "delete"
	case 11: // concatenate many snippets (a large, shallow input)
		out := append([]byte{}, b...)
		sep := rapid.SampledFrom([]string{"\n", ";", " ", "", ",", "}"}).Draw(t, "sep")
		for i, n := 0, rapid.IntRange(2, 60).Draw(t, "ncat"); i < n && len(out) < maxInput; i++ {
			out = append(append(out, sep...), rapid.SampledFrom(pool).Draw(t, "cat")...)
		}
		return out, "concat"
	case 12: // random raw bytes
		raw := rapid.SliceOfN(rapid.Byte(), 1, 24).Draw(t, "raw")
		return insertAt(b, pos(t, len(b), "rawat"), string(raw)), "rawbytes"
	case 13: // swap two ranges / change case
		if len(b) < 4 {
			return b, "swap"
		}
		out := append([]byte{}, b...)
		i, j := rapid.IntRange(0, len(b)-1).Draw(t, "swi"), rapid.IntRange(0, len(b)-1).Draw(t, "swj")
		out[i], out[j] = out[j], out[i]
		return out, "swap"
	case 15, 16, 17: // a short run of random tokens, preferably where a statement / expression / rule can start
		alphabet := jsTokens
		if css {
			alphabet = cssTokens
		}
		var sb strings.Builder
		for i, n := 0, rapid.IntRange(2, 4).Draw(t, "ntok"); i < n; i++ {
			sb.WriteString(rapid.SampledFrom(alphabet).Draw(t, "tok"))
			if rapid.IntRange(0, 2).Draw(t, "tokspace") > 0 {
				sb.WriteByte(' ')
			}
		}
		at := pos(t, len(b), "tokat")
		if rapid.Bool().Draw(t, "atboundary") {
			for k := at; k < len(b) && k < at+24; k++ {
				if c := b[k]; c == ';' || c == '{' || c == '(' || c == '=' || c == ',' || c == '\n' || c == ':' || c == '[' {
					at = k + 1
					break
				}
			}
		}
		return insertAt(b, at, " "+sb.String()), "tokens"
	case 14: // NUL / invalid UTF-8 flood
		s := rapid.SampledFrom([]string{"\x00", "\xff", "\x80", "\xc0", "\xed\xa0\x80", "\xf5"}).Draw(t, "flood")
		return insertAt(b, pos(t, len(b), "floodat"), strings.Repeat(s, rapid.SampledFrom([]int{1, 7, 300}).Draw(t, "nflood"))), "badbytes"
	}
	return b, "none"
}

func genOpt(t *rapid.T) uint32 {
	// loader and the frequently relevant flags are drawn separately so that shrinking is meaningful
	loader := uint32(rapid.IntRange(0, 7).Draw(t, "loader"))
	minify := uint32(rapid.IntRange(0, 7).Draw(t, "minify"))
	target := uint32(rapid.IntRange(0, 7).Draw(t, "target"))
	format := uint32(rapid.IntRange(0, 3).Draw(t, "format"))
	sm := uint32(rapid.SampledFrom([]int{0, 0, 1, 2, 3}).Draw(t, "sourcemap"))
	rest := rapid.Uint32().Draw(t, "flags")
	if rapid.IntRange(0, 2).Draw(t, "fewflags") > 0 {
		rest &= rapid.Uint32().Draw(t, "flagmask")
	}
	opt := rest &^ (1<<13 - 1)
	opt |= loader | minify<<bMinWS | target<<bTarget | format<<bFormat | sm<<bSourcemap
	return opt
}

func poolFor(loader string) []string {
	p := theCorpus.For(loader)
	if len(p) == 0 {
		p = theCorpus.For("js")
	}
	return p
}

func genTCase(t *rapid.T) TCase {
	opt := genOpt(t)
	loader := loaderOf(opt)
	css := strings.Contains(loader, "css")
	pool := poolFor(loader)
	if rapid.IntRange(0, 9).Draw(t, "crossloader") == 0 {
		pool = poolFor(rapid.SampledFrom([]string{"js", "jsx", "ts", "tsx", "css", "json"}).Draw(t, "otherpool"))
	}
	data := []byte(rapid.SampledFrom(pool).Draw(t, "base"))
	var muts []string
	allowTrunc := true
	for i, n := 0, rapid.IntRange(1, 3).Draw(t, "nmut"); i < n; i++ {
		var m string
		data, m = mutate(t, data, pool, css, allowTrunc)
		if m != "none" {
			muts = append(muts, m)
		}
		if len(data) > maxInput {
			data = data[:maxInput]
		}
	}
	return mkTCase(opt, data, muts)
}

func sizeClass(n int) string {
	switch {
	case n == 0:
		return "size=0"
	case n < 256:
		return "size<256"
	case n < 4096:
		return "size<4K"
	case n < 32768:
		return "size<32K"
	}
	return "size<=64K"
}

func tClasses(c TCase) []string {
	cls := []string{"loader=" + c.Loader, sizeClass(len(c.Data)), validUTF8Ratio(c.Data)}
	for _, m := range c.Muts {
		cls = append(cls, "mut="+m)
	}
	if bits(c.Opt, bSourcemap, 2) != 0 {
		cls = append(cls, "sourcemap")
	}
	if bits(c.Opt, bMinWS, 3) != 0 {
		cls = append(cls, "minify")
	}
	if bits(c.Opt, bTarget, 3) != 0 {
		cls = append(cls, "target="+targetNames[bits(c.Opt, bTarget, 3)])
	}
	if truncatedTail(c.Data) {
		cls = append(cls, "trunc-utf8-tail")
	}
	return cls
}

func tKey(c TCase) string { return fmt.Sprintf("%d|%x", c.Opt, c.Data) }

func runTransform(t *testing.T) {
	H.Rule("transform", "rapid: a snippet harvested from the repository's own parser/printer/bundler tests (loader-matched, 10% cross-loader) put through 1–3 drawn mutations (truncate, nest ×N up to 5000 brackets, splice with another snippet, bit flips, hostile token / invalid UTF-8 / NUL injection, truncated multi-byte sequence at EOF, 100…20000-digit numbers, huge escapes and identifiers, slice repetition, concatenation up to 64 KB, raw bytes) × loader {js,jsx,ts,tsx,css,local-css,global-css,json} × drawn flag word (minify*, target es5…esnext, format, sourcemap inline/external/both ± sourcesContent, charset, jsx mode, mangle-props, tsconfigRaw incl. malformed, keep-names, drop, define, supported overrides …). Oracle: api.Transform returns (10 s watchdog; a suspected hang is re-run 3× in fresh processes under a 20 s CPU bound, minimised, and charged unless its minimal form is beyond the nesting bound); no escaping panic; no message/note starting with `panic:` or containing `Internal error`; after a failure a canary input still transforms to the start-up bytes. Non-trivial = at least one mutation was applied and the input is non-empty.")
	H.SetupRapid("transform", H.N(100000, scaled(750000)))
	rapid.Check(t, func(rt *rapid.T) {
		c := genTCase(rt)
		H.Report(rt, "transform", tKey(c), c, judge("transform", c, tClasses(c), len(c.Muts) > 0 && len(c.Data) > 0))
	})
}

// runCorpus replays unmodified corpus snippets (each shard its slice) under a flag word derived from the index
// and the seed: the baseline that the mutations start from.
func runCorpus(t *testing.T) {
	H.Rule("corpus", "enumerated: every harvested snippet, unmodified, under its own loader with a flag word derived from (index, seed); same oracle. Quick runs one slice of 6 chosen by the seed; thorough runs all.")
	idx := 0
	stride := uint64(6)
	if H.Thorough() {
		stride = 1
	}
	for li, l := range []string{"js", "jsx", "ts", "tsx", "css", "json"} {
		for _, s := range theCorpus.Snippets[l] {
			i := idx
			idx++
			if uint64(i)%stride != H.Seed%stride || !H.MySlice(i/int(stride)) {
				continue
			}
			h := uint32(i)*2654435761 ^ uint32(H.Seed)*40503
			opt := h&^7 | uint32(li)
			if l == "css" && h&8 != 0 {
				opt = h&^7 | 5
			}
			if l == "json" {
				opt = h&^7 | 6
			}
			c := mkTCase(opt, []byte(s), nil)
			H.Report(t, "corpus", tKey(c), c, judge("corpus", c, []string{"loader=" + c.Loader}, len(s) > 0))
		}
	}
	H.Exhaustive("corpus", H.Thorough())
}

// ----------------------------------------------------------------------------- source map payloads

var vlqChars = "ABCDEFGHIJKLMNOPQRSTUVWXYZabcdefghijklmnopqrstuvwxyz0123456789+/"

func vlq(v int) string {
	var u uint
	if v < 0 {
		u = uint(-v)<<1 | 1
	} else {
		u = uint(v) << 1
	}
	var sb strings.Builder
	for {
		d := u & 31
		u >>= 5
		if u != 0 {
			d |= 32
		}
		sb.WriteByte(vlqChars[d])
		if u == 0 {
			break
		}
	}
	return sb.String()
}

func genMappings(t *rapid.T) string {
	var sb strings.Builder
	segs := rapid.IntRange(0, 40).Draw(t, "segs")
	for i := 0; i < segs; i++ {
		switch rapid.IntRange(0, 19).Draw(t, "segkind") {
		case 0:
			sb.WriteByte(';')
			continue
		case 1: // huge VLQ: many continuation digits
			sb.WriteString(strings.Repeat("g", rapid.SampledFrom([]int{6, 7, 13, 14, 40, 3000}).Draw(t, "cont")) + "A")
		case 2: // truncated: continuation bit set at the end of the segment
			sb.WriteString(vlq(rapid.IntRange(0, 99).Draw(t, "v")) + "g")
		case 3: // invalid character
			sb.WriteString(rapid.SampledFrom([]string{"!", "=", "-", "_", " ", "\\", "\x00", "é", "A=", "~"}).Draw(t, "badch"))
		case 4: // large negative deltas
			sb.WriteString(vlq(0) + vlq(-rapid.IntRange(1, 1<<30).Draw(t, "neg")) + vlq(-rapid.IntRange(0, 1<<30).Draw(t, "neg2")) + vlq(-rapid.IntRange(0, 1<<30).Draw(t, "neg3")))
		case 5: // large positive deltas (indices far out of range)
			sb.WriteString(vlq(rapid.IntRange(0, 1<<30).Draw(t, "p0")) + vlq(rapid.IntRange(0, 1<<30).Draw(t, "p1")) + vlq(rapid.IntRange(0, 1<<30).Draw(t, "p2")) + vlq(rapid.IntRange(0, 1<<30).Draw(t, "p3")) + vlq(rapid.IntRange(0, 1<<30).Draw(t, "p4")))
		case 6: // wrong arity
			for k, n := 0, rapid.SampledFrom([]int{2, 3, 6, 9}).Draw(t, "arity"); k < n; k++ {
				sb.WriteString(vlq(rapid.IntRange(-3, 3).Draw(t, "f")))
			}
		case 7:
			sb.WriteString(vlq(rapid.IntRange(-5, 5).Draw(t, "c"))) // 1-field segment
		case 8: // overflow: 2^31, 2^32, 2^63 boundaries
			sb.WriteString(vlq(0) + vlq(0) + rapid.SampledFrom([]string{"+/////D", "g/////D", "//////////////D", "+////////////////////H", "ggggggE", "hgggggE"}).Draw(t, "ovf") + vlq(0))
		default:
			sb.WriteString(vlq(rapid.IntRange(0, 12).Draw(t, "col")) + vlq(rapid.IntRange(-1, 1).Draw(t, "src")) + vlq(rapid.IntRange(-2, 3).Draw(t, "line")) + vlq(rapid.IntRange(-8, 8).Draw(t, "ocol")))
			if rapid.IntRange(0, 3).Draw(t, "hasname") == 0 {
				sb.WriteString(vlq(rapid.IntRange(-1, 2).Draw(t, "name")))
			}
		}
		if rapid.IntRange(0, 5).Draw(t, "sepk") == 0 {
			sb.WriteByte(';')
		} else {
			sb.WriteByte(',')
		}
	}
	s := sb.String()
	if rapid.IntRange(0, 4).Draw(t, "cutmap") == 0 {
		s = s[:pos(t, len(s), "cutmapat")]
	}
	return s
}

var jsonJunk = []string{"null", "true", "false", "0", "-1", "1e999", "3", "3.5", "\"\"", "\"3\"", "[]", "{}", "[[]]", "[null]", "[1]", "[\"a\",null,1,{}]", "{\"a\":1}", "\"\\u0000\"", "\"\\ud800\"", "4294967296", "-0", "18446744073709551616"}

// genNearlyValidMap builds a map that esbuild accepts (so that its entries are really used while the
// code is printed): in-range source indices, non-negative original positions, mappings on the lines
// the code really has — and then at most two drawn irregularities of the kinds real tools produce
// or the format leaves open: non-string entries of `names`/`sources`/`sourcesContent`, a names index
// equal to the array length, arrays shorter or longer than the indices used, a null sourcesContent.
func genNearlyValidMap(t *rapid.T, codeLines int) []byte {
	q := func(s string) string { return strconv.Quote(s) }
	odd := []string{"null", "1", "{}", "[]", "true", "1.5"}
	nsrc := rapid.IntRange(1, 3).Draw(t, "nvsrc")
	nnames := rapid.IntRange(0, 4).Draw(t, "nvnames")
	var sources, contents, names []string
	for i := 0; i < nsrc; i++ {
		sources = append(sources, q(fmt.Sprintf("orig%d.js", i)))
		contents = append(contents, q(strings.Repeat("callee(arg); other\n", 4)))
	}
	for i := 0; i < nnames; i++ {
		names = append(names, q(rapid.SampledFrom([]string{"orig", "x", "", "a b", "__proto__"}).Draw(t, "nvname")))
	}
	for k, n := 0, rapid.IntRange(0, 2).Draw(t, "nvodd"); k < n; k++ {
		switch rapid.IntRange(0, 5).Draw(t, "nvoddkind") {
		case 0, 1, 2:
			if len(names) > 0 {
				names[rapid.IntRange(0, len(names)-1).Draw(t, "nvoddname")] = rapid.SampledFrom(odd).Draw(t, "nvoddv")
			}
		case 3:
			contents[rapid.IntRange(0, len(contents)-1).Draw(t, "nvoddcont")] = rapid.SampledFrom(odd).Draw(t, "nvoddv")
		case 4:
			contents = contents[:rapid.IntRange(0, len(contents)).Draw(t, "nvcontlen")]
		case 5:
			sources[rapid.IntRange(0, len(sources)-1).Draw(t, "nvoddsrc")] = rapid.SampledFrom(odd).Draw(t, "nvoddv")
		}
	}
	if codeLines < 1 {
		codeLines = 1
	}
	if codeLines > 30 {
		codeLines = 30
	}
	var sb strings.Builder
	pSrc, pLine, pCol, pName := 0, 0, 0, 0
	maxName := nnames - 1
	if rapid.IntRange(0, 3).Draw(t, "nvnameover") == 0 {
		maxName = nnames // one past the end
	}
	for line := 0; line < codeLines; line++ {
		if line > 0 {
			sb.WriteByte(';')
		}
		gcol := 0
		for k, n := 0, rapid.IntRange(0, 3).Draw(t, "nvsegs"); k < n; k++ {
			if k > 0 {
				sb.WriteByte(',')
			}
			d := rapid.IntRange(0, 6).Draw(t, "nvgcol")
			if k == 0 {
				d = rapid.IntRange(0, 2).Draw(t, "nvgcol0")
				sb.WriteString(vlq(d))
				gcol = d
			} else {
				sb.WriteString(vlq(d))
				gcol += d
			}
			src, ol, oc := rapid.IntRange(0, nsrc-1).Draw(t, "nvs"), rapid.IntRange(0, 3).Draw(t, "nvol"), rapid.IntRange(0, 12).Draw(t, "nvoc")
			sb.WriteString(vlq(src-pSrc) + vlq(ol-pLine) + vlq(oc-pCol))
			pSrc, pLine, pCol = src, ol, oc
			if maxName >= 0 && rapid.IntRange(0, 2).Draw(t, "nvhasname") > 0 {
				nm := rapid.IntRange(0, maxName).Draw(t, "nvnm")
				sb.WriteString(vlq(nm - pName))
				pName = nm
			}
		}
	}
	fields := []string{`"version":3`, `"sources":[` + strings.Join(sources, ",") + `]`, `"mappings":` + q(sb.String())}
	if rapid.IntRange(0, 3).Draw(t, "nvhascont") > 0 {
		fields = append(fields, `"sourcesContent":[`+strings.Join(contents, ",")+`]`)
	}
	if nnames > 0 || rapid.Bool().Draw(t, "nvemptynames") {
		fields = append(fields, `"names":[`+strings.Join(names, ",")+`]`)
	}
	if rapid.IntRange(0, 4).Draw(t, "nvroot") == 0 {
		fields = append(fields, `"sourceRoot":`+q(rapid.SampledFrom([]string{"", "src/", "/abs/", "http://h/r/"}).Draw(t, "nvrootv")))
	}
	return []byte("{" + strings.Join(rapid.Permutation(fields).Draw(t, "nvorder"), ",") + "}")
}

func genSourceMapJSON(t *rapid.T) []byte {
	junk := func(label string) string { return rapid.SampledFrom(jsonJunk).Draw(t, label) }
	maybe := func(label, normal string) string {
		if rapid.IntRange(0, 5).Draw(t, label+"?") == 0 {
			return junk(label)
		}
		return normal
	}
	q := func(s string) string { return strconv.Quote(s) }
	srcNames := []string{"a.js", "../../../b.ts", "/abs/c.js", "file:///d.js", "http://x/e.js", "", "\x00", "a\nb", "data:text/plain,x", strings.Repeat("../", 200) + "f", "é.js", "C:\\g.js", "webpack:///./h.js?x#y"}
	var sources, contents []string
	for i, n := 0, rapid.IntRange(0, 4).Draw(t, "nsrc"); i < n; i++ {
		sources = append(sources, maybe("srcitem", q(rapid.SampledFrom(srcNames).Draw(t, "srcname"))))
	}
	for i, n := 0, rapid.IntRange(0, 5).Draw(t, "ncont"); i < n; i++ {
		contents = append(contents, maybe("contitem", rapid.SampledFrom([]string{"null", q("x\ny\nz"), q(""), q(strings.Repeat("line\n", 50)), `"\ud800"`, q("a\r\nb\u2028c")}).Draw(t, "cont")))
	}
	var names []string
	for i, n := 0, rapid.IntRange(0, 3).Draw(t, "nnames"); i < n; i++ {
		names = append(names, maybe("nameitem", q(rapid.SampledFrom([]string{"x", "", "a b", "\u2028", "__proto__"}).Draw(t, "name"))))
	}
	fields := []string{
		`"version":` + maybe("version", "3"),
		`"sources":` + maybe("sources", "["+strings.Join(sources, ",")+"]"),
		`"mappings":` + maybe("mappings", q(genMappings(t))),
	}
	if rapid.Bool().Draw(t, "hasContent") {
		fields = append(fields, `"sourcesContent":`+maybe("sourcesContent", "["+strings.Join(contents, ",")+"]"))
	}
	if rapid.Bool().Draw(t, "hasNames") {
		fields = append(fields, `"names":`+maybe("names", "["+strings.Join(names, ",")+"]"))
	}
	if rapid.IntRange(0, 3).Draw(t, "hasRoot") == 0 {
		fields = append(fields, `"sourceRoot":`+maybe("sourceRoot", q(rapid.SampledFrom([]string{"", "/", "src/", "http://h/", "..", "\x00"}).Draw(t, "root"))))
	}
	if rapid.IntRange(0, 3).Draw(t, "hasFile") == 0 {
		fields = append(fields, `"file":`+maybe("file", `"out.js"`))
	}
	if rapid.IntRange(0, 3).Draw(t, "hasIgnore") == 0 {
		fields = append(fields, rapid.SampledFrom([]string{`"x_google_ignoreList":`, `"ignoreList":`}).Draw(t, "ignkey")+rapid.SampledFrom([]string{"[0]", "[-1]", "[99]", "[0,0,0]", "[\"0\"]", "[1.5]", "[null]", "{}", "0", "[4294967296]"}).Draw(t, "ign"))
	}
	if rapid.IntRange(0, 4).Draw(t, "hasSections") == 0 {
		fields = append(fields, `"sections":`+rapid.SampledFrom([]string{"[]", "null", "[{}]", `[{"offset":{"line":0,"column":0},"map":{"version":3,"sources":["s.js"],"mappings":"AAAA"}}]`, `[{"offset":{"line":-1,"column":"x"},"map":null}]`, `[{"offset":null,"url":"x"}]`}).Draw(t, "sections"))
	}
	// order of keys and duplicates
	perm := rapid.Permutation(fields).Draw(t, "order")
	if rapid.IntRange(0, 6).Draw(t, "dupkey") == 0 && len(perm) > 0 {
		perm = append(perm, perm[0])
	}
	doc := "{" + strings.Join(perm, ",") + "}"
	switch rapid.IntRange(0, 11).Draw(t, "docshape") {
	case 0:
		doc = junk("wholedoc")
	case 1:
		doc = doc[:pos(t, len(doc), "cutdoc")]
	case 2:
		doc = ")]}'\n" + doc
	case 3:
		doc = "[" + doc + "]"
	case 4:
		doc = "\xef\xbb\xbf" + doc
	}
	b := []byte(doc)
	if rapid.IntRange(0, 5).Draw(t, "bytemut") == 0 {
		b, _ = mutate(t, b, theCorpus.Snippets["json"], false, false)
	}
	if len(b) > maxInput/2 {
		b = b[:maxInput/2]
	}
	return b
}

var nearlyValid bool // set by genSCase for the class label (rapid runs properties on one goroutine)

func genSCase(t *rapid.T) SCase {
	loader := rapid.SampledFrom([]string{"js", "js", "ts", "css"}).Draw(t, "loader")
	pool := poolFor(loader)
	var src []byte
	for i, n := 0, rapid.IntRange(1, 4).Draw(t, "nsnip"); i < n; i++ {
		s := rapid.SampledFrom(pool).Draw(t, "snip")
		if len(s) > 4096 {
			continue
		}
		src = append(append(src, s...), '\n')
	}
	var m []byte
	if rapid.IntRange(0, 2).Draw(t, "nearlyvalid") == 0 {
		m = genNearlyValidMap(t, bytes.Count(src, []byte("\n")))
	} else {
		m = genSourceMapJSON(t)
	}
	nearlyValid = false
	if bytes.HasPrefix(m, []byte("{")) && bytes.Contains(m, []byte(`orig0.js`)) {
		nearlyValid = true
	}
	c := SCase{Loader: loader, Src: src, Map: m, Enc: rapid.SampledFrom([]string{"base64", "base64", "base64", "percent", "raw"}).Draw(t, "enc"),
		Build: rapid.Bool().Draw(t, "build"), Opt: genOpt(t)}
	c.MapText = preview(c.Map)
	return c
}

func runSrcmap(t *testing.T) {
	H.Rule("srcmap", "rapid: 1–4 corpus snippets (js/ts/css) followed by a `sourceMappingURL=data:application/json` comment whose payload (base64, percent-encoded or raw) is either (one third) a map esbuild accepts — in-range indices, mappings on the lines the code really has — with at most two irregularities (non-string entries of names/sources/sourcesContent, a names index one past the end, short sourcesContent), or a generated source-map document with drawn defects: wrong JSON types for version/sources/sourcesContent/names/mappings/sourceRoot/ignoreList/sections, arity mismatches, null entries, hostile source names, mappings with huge VLQs, 2^31/2^32/2^63 overflows, negative indices and columns, truncated or invalid segments, truncated/prefixed/byte-mutated documents; the file is transformed, or bundled from stdin, with source maps on (inline or external, ± sourcesContent, ± minify, any target/format). Same oracle as `transform`. Non-trivial = the payload is non-empty.")
	H.SetupRapid("srcmap", H.N(20000, scaled(150000)))
	rapid.Check(t, func(rt *rapid.T) {
		c := genSCase(rt)
		cls := []string{"loader=" + c.Loader, "enc=" + c.Enc}
		if nearlyValid {
			cls = append(cls, "map=nearly-valid")
		} else {
			cls = append(cls, "map=defective")
		}
		if c.Build {
			cls = append(cls, "api=build")
		} else {
			cls = append(cls, "api=transform")
		}
		H.Report(rt, "srcmap", fmt.Sprintf("%s|%x|%x|%s|%v|%d", c.Loader, c.Src, c.Map, c.Enc, c.Build, c.Opt), c, judge("srcmap", c, cls, len(c.Map) > 0))
	})
}

// ----------------------------------------------------------------------------- package.json / tsconfig.json trees

var cfgLeaves = []string{
	"null", "true", "false", "0", "1", "-1", "1.5", "\"\"", "\".\"", "\"./\"", "\"./index.js\"", "\"./lib/a.js\"", "\"./missing.js\"", "\"../escape.js\"", "\"/abs.js\"", "\"index\"", "\"./dir\"", "\"./dir/\"", "\"./*\"", "\"./*.js\"", "\"./lib/*/x/*.js\"", "\"#int\"", "\"pkg\"", "\"pkg/sub\"", "\"node_modules/x\"", "\"./node_modules/x\"", "\"./a%2fb.js\"", "\"./a\\\\b.js\"", "\"file:///x\"", "\"\\u0000\"",
	"[]", "{}", "[[]]", "[null]", "[\"./index.js\"]", "[\"./missing.js\",\"./index.js\"]", "[{\"import\":\"./module.mjs\"},\"./index.js\"]", "[1,true,null,{},[]]",
	"{\"import\":\"./module.mjs\",\"require\":\"./index.js\"}", "{\"default\":null}", "{\"default\":[]}", "{\"node\":{\"import\":{\"default\":{\"browser\":\"./browser.js\"}}}}", "{\"./sub\":\"./sub.js\",\"import\":\"./module.mjs\"}", "{\".\":\"./index.js\",\"./sub\":null,\"./sub/*\":\"./sub/*\",\"./*\":{\"default\":\"./lib/*.js\"}}", "{\"./\":\"./lib/\"}", "{\"\":\"./index.js\"}", "{\"*\":\"./index.js\"}", "{\"./a*b*c\":\"./x\"}", "{\"types\":1,\"default\":\"./index.js\"}", "{\"import\":{},\"default\":\"./index.js\"}",
}

// starKey cuts a `*` into a specifier the fixed entry really uses: prefix = spec[:i], suffix = spec[j:],
// where j may be smaller than i (prefix and suffix overlap in the requested name), equal, or larger.
func starKey(t *rapid.T, spec string) string {
	i := rapid.IntRange(0, len(spec)).Draw(t, "starpre")
	j := rapid.IntRange(0, len(spec)).Draw(t, "starsuf")
	return spec[:i] + "*" + spec[j:]
}

var pathSpecs = []string{"@alias/b", "alias-b", "pkg", "pkg/sub", "pkg/sub/x.js", "pkg/lib/a.js", "#int", "#int/y"}
var exportSpecs = []string{"./sub", "./sub/x.js", "./lib/a.js", "./package.json", "./style.css", "./img.png", "."}
var importSpecs = []string{"#int", "#int/y"}

func cfgValue(t *rapid.T, depth int) string {
	if depth <= 0 || rapid.IntRange(0, 3).Draw(t, "leaf") > 0 {
		return rapid.SampledFrom(cfgLeaves).Draw(t, "cfgleaf")
	}
	if rapid.Bool().Draw(t, "arr") {
		var el []string
		for i, n := 0, rapid.IntRange(0, 3).Draw(t, "nel"); i < n; i++ {
			el = append(el, cfgValue(t, depth-1))
		}
		return "[" + strings.Join(el, ",") + "]"
	}
	keys := []string{".", "./sub", "./sub/*", "./*", "./lib/", "import", "require", "default", "node", "browser", "custom", "types", "#int", "#int/*", "#", "#/", "pkg", "./index.js", "./lib/a.js", "module", "production", "*", ""}
	var el []string
	for i, n := 0, rapid.IntRange(0, 4).Draw(t, "nkeys"); i < n; i++ {
		k := rapid.SampledFrom(keys).Draw(t, "key")
		switch rapid.IntRange(0, 7).Draw(t, "keykind") {
		case 0:
			k = starKey(t, rapid.SampledFrom(exportSpecs).Draw(t, "espec"))
		case 1:
			k = starKey(t, rapid.SampledFrom(importSpecs).Draw(t, "ispec"))
		}
		el = append(el, strconv.Quote(k)+":"+cfgValue(t, depth-1))
	}
	return "{" + strings.Join(el, ",") + "}"
}

func genPkgJSON(t *rapid.T) []byte {
	if rapid.IntRange(0, 4).Draw(t, "fromcorpus") == 0 && len(theCorpus.PkgJSON) > 0 {
		b := []byte(rapid.SampledFrom(theCorpus.PkgJSON).Draw(t, "pj"))
		for i, n := 0, rapid.IntRange(0, 2).Draw(t, "npjmut"); i < n; i++ {
			b, _ = mutate(t, b, theCorpus.PkgJSON, false, false)
		}
		return b
	}
	fieldNames := []string{"name", "version", "type", "main", "module", "browser", "exports", "imports", "sideEffects", "types", "typings", "jsnext:main", "unpkg", "dependencies", "peerDependencies", "packageManager", "bin", "files"}
	var fields []string
	for i, n := 0, rapid.IntRange(0, 7).Draw(t, "nfields"); i < n; i++ {
		k := rapid.SampledFrom(fieldNames).Draw(t, "field")
		var v string
		switch {
		case k == "type" && rapid.Bool().Draw(t, "oktype"):
			v = rapid.SampledFrom([]string{`"module"`, `"commonjs"`, `"bogus"`}).Draw(t, "type")
		case k == "sideEffects" && rapid.Bool().Draw(t, "okse"):
			v = rapid.SampledFrom([]string{"false", "true", `["./lib/*.js"]`, `["**/*.css","*.js","[","{a,b}/**","./"]`, `"./index.js"`, `[1,null,"/abs/*"]`}).Draw(t, "se")
		case k == "browser" && rapid.Bool().Draw(t, "okbr"):
			v = rapid.SampledFrom([]string{`"./browser.js"`, `{"./index.js":"./browser.js","fs":false,"pkg":"./lib/a.js","./lib/a.js":false,"./lib":"./lib/a","path":true,"x":1,"":"","./":"./"}`, `{"./main.js":{"x":1}}`, `false`}).Draw(t, "br")
		default:
			v = cfgValue(t, 3)
		}
		fields = append(fields, strconv.Quote(k)+":"+v)
	}
	doc := "{" + strings.Join(fields, ",") + "}"
	switch rapid.IntRange(0, 14).Draw(t, "pjshape") {
	case 0:
		doc = cfgValue(t, 1)
	case 1:
		doc = doc[:pos(t, len(doc), "cutpj")]
	case 2:
		doc = "\xef\xbb\xbf" + doc
	case 3:
		doc = ""
	case 4:
		doc = "// c\n" + doc + "/* c */"
	}
	b := []byte(doc)
	if rapid.IntRange(0, 7).Draw(t, "pjbytes") == 0 {
		b, _ = mutate(t, b, theCorpus.Snippets["json"], false, false)
	}
	return b
}

func genTSConfig(t *rapid.T, self string, others []string) []byte {
	if rapid.IntRange(0, 4).Draw(t, "tsfromcorpus") == 0 && len(theCorpus.TSConfig) > 0 {
		b := []byte(rapid.SampledFrom(theCorpus.TSConfig).Draw(t, "tsc"))
		for i, n := 0, rapid.IntRange(0, 2).Draw(t, "ntscmut"); i < n; i++ {
			b, _ = mutate(t, b, theCorpus.TSConfig, false, false)
		}
		return b
	}
	var fields []string
	ext := append([]string{self, "./missing.json", "./missing", "pkg/tsconfig.json", "pkg", "missing-pkg", "@scope/missing/tsconfig", ".", "..", "./", "", "/abs/missing.json", "./tsconfig", "./dir"}, others...)
	switch rapid.IntRange(0, 5).Draw(t, "extendskind") {
	case 0:
	case 1:
		fields = append(fields, `"extends":`+cfgValue(t, 1))
	case 2:
		var l []string
		for i, n := 0, rapid.IntRange(0, 3).Draw(t, "nextends"); i < n; i++ {
			l = append(l, strconv.Quote(rapid.SampledFrom(ext).Draw(t, "ext")))
		}
		fields = append(fields, `"extends":[`+strings.Join(l, ",")+`]`)
	default:
		fields = append(fields, `"extends":`+strconv.Quote(rapid.SampledFrom(ext).Draw(t, "ext1")))
	}
	coNames := []string{"baseUrl", "paths", "jsx", "jsxFactory", "jsxFragmentFactory", "jsxImportSource", "target", "module", "moduleSuffixes", "useDefineForClassFields", "experimentalDecorators", "importsNotUsedAsValues", "preserveValueImports", "verbatimModuleSyntax", "alwaysStrict", "strict", "rootDirs", "moduleResolution", "allowJs", "esModuleInterop"}
	var co []string
	for i, n := 0, rapid.IntRange(0, 6).Draw(t, "nco"); i < n; i++ {
		k := rapid.SampledFrom(coNames).Draw(t, "co")
		var v string
		switch {
		case k == "paths" && rapid.Bool().Draw(t, "okpaths"):
			v = rapid.SampledFrom([]string{
				`{"@alias/*":["./lib/*"],"alias-b":["./lib/b.ts"]}`, `{"*":["./lib/*","*"]}`, `{"@alias/*":[]}`, `{"@alias/*":"./lib/*"}`, `{"@alias/*":[1,null,{}]}`, `{"@alias/*/*":["./lib/*/*"]}`, `{"":[""]}`, `{"*":["*"]}`, `{"@alias/*":["../escape/*"]}`, `{"@alias/*":["/abs/*"]}`, `{"pkg":["./node_modules/pkg/index.js"],"pkg/*":["pkg/*"]}`, `{"alias-b":["alias-b"]}`, `[]`, `null`, `{"@alias/*":["${configDir}/lib/*"]}`,
			}).Draw(t, "paths")
		case k == "paths":
			var el []string
			for i, n := 0, rapid.IntRange(1, 3).Draw(t, "npaths"); i < n; i++ {
				el = append(el, strconv.Quote(starKey(t, rapid.SampledFrom(pathSpecs).Draw(t, "pspec")))+":"+rapid.SampledFrom([]string{`["./lib/*"]`, `["./lib/b.ts"]`, `["*"]`, `["./lib/*/*"]`, `[]`, `["./lib/*.ts","./lib/b.ts"]`}).Draw(t, "ptarget"))
			}
			v = "{" + strings.Join(el, ",") + "}"
		case k == "baseUrl" && rapid.Bool().Draw(t, "okbase"):
			v = rapid.SampledFrom([]string{`"."`, `"./lib"`, `"./missing"`, `".."`, `"/"`, `""`, `"${configDir}"`, `"\u0000"`}).Draw(t, "base")
		case k == "jsx" && rapid.Bool().Draw(t, "okjsx"):
			v = rapid.SampledFrom([]string{`"react"`, `"react-jsx"`, `"react-jsxdev"`, `"preserve"`, `"react-native"`, `"REACT"`, `""`}).Draw(t, "jsxv")
		case k == "target" && rapid.Bool().Draw(t, "oktarget"):
			v = rapid.SampledFrom([]string{`"es5"`, `"ES2015"`, `"esnext"`, `"es3"`, `"es99"`, `"ES2022"`}).Draw(t, "tgt")
		default:
			v = cfgValue(t, 2)
		}
		co = append(co, strconv.Quote(k)+":"+v)
	}
	if rapid.IntRange(0, 5).Draw(t, "cokind") == 0 {
		fields = append(fields, `"compilerOptions":`+cfgValue(t, 1))
	} else {
		fields = append(fields, `"compilerOptions":{`+strings.Join(co, ",")+`}`)
	}
	if rapid.IntRange(0, 4).Draw(t, "refs") == 0 {
		fields = append(fields, `"references":`+cfgValue(t, 1), `"include":`+cfgValue(t, 1), `"files":`+cfgValue(t, 1))
	}
	doc := "{" + strings.Join(rapid.Permutation(fields).Draw(t, "tsorder"), ",") + "}"
	switch rapid.IntRange(0, 14).Draw(t, "tsshape") {
	case 0:
		doc = cfgValue(t, 1)
	case 1:
		doc = doc[:pos(t, len(doc), "cutts")]
	case 2:
		doc = "\xef\xbb\xbf// comment\n" + doc
	case 3:
		doc = ""
	case 4:
		doc = strings.Replace(doc, "}", ",}", 1) // trailing comma (allowed in tsconfig)
	}
	b := []byte(doc)
	if rapid.IntRange(0, 7).Draw(t, "tsbytes") == 0 {
		b, _ = mutate(t, b, theCorpus.Snippets["json"], false, false)
	}
	return b
}

const entrySrc = `import def, * as ns from 'pkg'
import sub from 'pkg/sub'
import subx from 'pkg/sub/x.js'
import liba from 'pkg/lib/a.js'
import i1 from '#int'
import i2 from '#int/y'
import a1 from '@alias/b'
import a2 from 'alias-b'
import data from './data.json'
import pj from 'pkg/package.json'
import './src'
import './style.css'
const r = require('pkg/sub'), d = import('pkg/lib/a.js')
export let x: number = [def, ns, sub, subx, liba, i1, i2, a1, a2, data, pj, r, d].length
export const el = <div>{x}</div>
`

// mkTree builds the project for a config case. pkgjson is used for the dependency `pkg` and (a second,
// independently generated one) for the project root; tsconfig likewise for the root and an extended file.
func mkTree(rootPkg, depPkg, tsconfig, base, src []byte) map[string][]byte {
	f := map[string][]byte{
		"entry.tsx":                        []byte(entrySrc),
		"src.ts":                           src,
		"style.css":                        []byte("@import 'pkg/style.css'; a { background: url(pkg/img.png) }"),
		"data.json":                        []byte(`{"a":1}`),
		"lib/b.ts":                         []byte("export default 'b'"),
		"lib/y.ts":                         []byte("export default 'y'"),
		"package.json":                     rootPkg,
		"tsconfig.json":                    tsconfig,
		"tsconfig.base.json":               base,
		"dir/tsconfig.json":                base,
		"node_modules/pkg/package.json":    depPkg,
		"node_modules/pkg/tsconfig.json":   base,
		"node_modules/pkg/index.js":        []byte("module.exports = 'index'"),
		"node_modules/pkg/main.js":         []byte("module.exports = 'main'"),
		"node_modules/pkg/module.mjs":      []byte("export default 'module'"),
		"node_modules/pkg/browser.js":      []byte("module.exports = 'browser'"),
		"node_modules/pkg/sub.js":          []byte("module.exports = 'sub'"),
		"node_modules/pkg/sub/x.js":        []byte("module.exports = 'subx'"),
		"node_modules/pkg/sub/index.js":    []byte("module.exports = 'subindex'"),
		"node_modules/pkg/lib/a.js":        []byte("export default 'a'; import '../index.js'"),
		"node_modules/pkg/lib/index.js":    []byte("export default 'libindex'"),
		"node_modules/pkg/dir/index.js":    []byte("export default 'dirindex'"),
		"node_modules/pkg/dir/package.json": depPkg,
		"node_modules/pkg/style.css":       []byte("b { color: red }"),
		"node_modules/pkg/img.png":         []byte("\x89PNG"),
	}
	return f
}

func genBCase(t *rapid.T) BCase {
	rootPkg := genPkgJSON(t)
	depPkg := genPkgJSON(t)
	base := genTSConfig(t, "./tsconfig.base.json", []string{"./tsconfig.json", "./dir/tsconfig.json", "../tsconfig.json", "./tsconfig.base"})
	ts := genTSConfig(t, "./tsconfig.json", []string{"./tsconfig.base.json", "./tsconfig.base", "./dir/tsconfig.json", "./dir", "pkg/tsconfig.json"})
	src := []byte("export {}")
	if rapid.IntRange(0, 3).Draw(t, "hassrc") == 0 {
		src = []byte(rapid.SampledFrom(poolFor("ts")).Draw(t, "src"))
	}
	c := BCase{Files: mkTree(rootPkg, depPkg, ts, base, src), Entry: "entry.tsx", Opt: genOpt(t)}
	c.Preview = map[string]string{"package.json": preview(rootPkg), "node_modules/pkg/package.json": preview(depPkg), "tsconfig.json": preview(ts), "tsconfig.base.json": preview(base)}
	return c
}

func bKey(c BCase) string {
	return fmt.Sprintf("%d|%x|%x|%x|%x|%x", c.Opt, c.Files["package.json"], c.Files["node_modules/pkg/package.json"], c.Files["tsconfig.json"], c.Files["tsconfig.base.json"], c.Files["src.ts"])
}

func runConfig(t *testing.T) {
	H.Rule("config", "rapid: a fixed project (entry importing a dependency by main/subpath/pattern/#imports/tsconfig-paths/alias specifiers, CSS with package imports) written to a temp dir with generated package.json (root and dependency) and tsconfig.json (+ an extended base): fields exports/imports/browser/main/module/sideEffects/type/… and compilerOptions paths/baseUrl/jsx/target/… filled with drawn values of the wrong JSON type, nested condition objects, odd subpath patterns, escaping targets; `extends` as string/array/junk pointing at itself, at each other (cycles), at missing files and packages; documents truncated, empty, BOM/commented, byte-mutated, or taken from the repository's bundler tests and mutated; bundled with api.Build (platform × format × minify × sourcemap × splitting × packages=external × tsconfig override × aliases). Same oracle as `transform`. Non-trivial = at least one of the four config documents is not valid strict JSON or has a field of an unexpected type (always true by construction unless taken unmodified from the corpus).")
	H.SetupRapid("config", H.N(16000, scaled(100000)))
	rapid.Check(t, func(rt *rapid.T) {
		c := genBCase(rt)
		cls := []string{"platform#" + strconv.Itoa(bits(c.Opt, bLoader, 3)%4)}
		if bits(c.Opt, bSourcemap, 2) != 0 {
			cls = append(cls, "sourcemap")
		}
		v := judge("config", c, cls, true)
		H.Report(rt, "config", bKey(c), c, v)
	})
}

var _ = vdrv.Pass

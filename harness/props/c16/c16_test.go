// C16 — no crash, hang or internal error. See DESIGN.md section 5 / C16.
//
// Process structure (one shard):
//
//	supervisor (TestCheck, no role)  ── spawns ──▶  worker (TestCheck, role=worker): replays + rapid sub-checks
//	                                                  │  every case is journaled to a file before it runs
//	                                                  └─ spawns ──▶ child (TestChild, role=child): judges ONE case
//	                                                                inline, under a CPU-time bound enforced by
//	                                                                its parent (hang confirmation, replays, ddmin)
//
// A worker that dies (fatal runtime error in a goroutine esbuild started, stack exhaustion, …) leaves
// the journal behind; the supervisor re-runs the journaled case three times in fresh children and
// reports a violation only if the death reproduces every time (otherwise: infrastructure, exit 2).
package c16

import (
	"bytes"
	"encoding/binary"
	"encoding/json"
	"fmt"
	"io"
	"os"
	"os/exec"
	"path/filepath"
	"regexp"
	"runtime/debug"
	"sort"
	"strconv"
	"strings"
	"sync"
	"syscall"
	"testing"
	"time"
	"unicode/utf8"

	"github.com/evanw/esbuild/pkg/api"
	"github.com/evanw/esbuild/verif/corpus"
	"github.com/evanw/esbuild/verif/vdrv"
)

var H *vdrv.H

const (
	maxInput       = 64 * 1024
	knownTruncID   = "C16-truncated-utf8-hang"
	knownNamesID   = "C16-truncated-utf8-hang-css-names"
	knownBrowserID = "C16-browser-map-recursion"
	knownSideFxID  = "C16-sideeffects-regexp-panic"
	knownStaticID  = "C16-static-block-in-object-literal"
	knownCSSEOFID  = "C16-css-identifier-at-eof-hang"
	knownDecoID    = "C16-decorator-export-default-internal-error"
	watchdogWall   = 10 * time.Second // in-process suspicion threshold (≥100× the normal time of a ≤64 KB input)
	hangCPU        = 20 * time.Second // CPU time of a fresh child after which the call counts as not terminating
	hangWall       = 600 * time.Second
	replayCPUQuick = 4 * time.Second // bound for replays inside TestCheck (a listed known hang must not cost 20 s per run)
	minimiseCPU    = 3 * time.Second
	extremeRepeat  = 500 // see extremeNesting
)

func role() string { return os.Getenv("VERIF_C16_ROLE") }

// ----------------------------------------------------------------------------- options from bits

var loaderNames = []string{"js", "jsx", "ts", "tsx", "css", "local-css", "json", "global-css"}
var loaderVals = []api.Loader{api.LoaderJS, api.LoaderJSX, api.LoaderTS, api.LoaderTSX, api.LoaderCSS, api.LoaderLocalCSS, api.LoaderJSON, api.LoaderGlobalCSS}
var targetNames = []string{"default", "es5", "es2015", "es2017", "es2019", "es2020", "es2022", "esnext"}
var targetVals = []api.Target{api.DefaultTarget, api.ES5, api.ES2015, api.ES2017, api.ES2019, api.ES2020, api.ES2022, api.ESNext}
var formatNames = []string{"", "iife", "cjs", "esm"}
var formatVals = []api.Format{api.FormatDefault, api.FormatIIFE, api.FormatCommonJS, api.FormatESModule}
var smNames = []string{"", "inline", "external", "both"}
var smVals = []api.SourceMap{api.SourceMapNone, api.SourceMapInline, api.SourceMapExternal, api.SourceMapInlineAndExternal}

var tsconfigRaws = []string{
	"",
	`{"compilerOptions":{"useDefineForClassFields":false,"experimentalDecorators":true,"jsx":"react-jsx","jsxImportSource":"p","verbatimModuleSyntax":true,"alwaysStrict":true,"target":"es2017"}}`,
	`{"compilerOptions":{"useDefineForClassFields":"x","experimentalDecorators":[],"jsx":1,"jsxFactory":"a b.","jsxFragmentFactory":"","jsxImportSource":null,"target":{},"paths":[],"baseUrl":0,"importsNotUsedAsValues":"bogus","preserveValueImports":"1","strict":2},"extends":["./x",3]}`,
	"{\"compilerOptions\":{\"jsx\":\"preserve\",,}/*\xff",
}

// Bit layout of optBits (shared by the rapid generators, the fuzz target and the replay files).
const (
	bLoader     = 0  // 3 bits
	bMinWS      = 3  //
	bMinIdent   = 4  //
	bMinSyntax  = 5  //
	bTarget     = 6  // 3 bits
	bFormat     = 9  // 2 bits
	bSourcemap  = 11 // 2 bits
	bNoSrcCont  = 13 // SourcesContentExclude
	bUTF8       = 14
	bJSX        = 15 // 2 bits: transform, preserve, automatic, automatic+dev
	bMangle     = 17
	bMangleQ    = 18
	bTsconfig   = 19 // 2 bits
	bKeepNames  = 21
	bTreeShake  = 22
	bPlatform   = 23
	bLineLimit  = 24
	bLegal      = 25
	bDrop       = 26
	bDefine     = 27
	bBanner     = 28
	bIgnoreAnn  = 29
	bSupported  = 30
	bSourcefile = 31
)

func bits(opt uint32, at, n uint) int { return int(opt>>at) & (1<<n - 1) }
func bit(opt uint32, at uint) bool   { return opt>>at&1 != 0 }

func loaderOf(opt uint32) string { return loaderNames[bits(opt, bLoader, 3)] }

func wantsSourcesContent(opt uint32) bool {
	return bits(opt, bSourcemap, 2) != 0 && !bit(opt, bNoSrcCont)
}

func transformOptions(opt uint32) api.TransformOptions {
	o := api.TransformOptions{LogLevel: api.LogLevelSilent, LogLimit: 20}
	o.Loader = loaderVals[bits(opt, bLoader, 3)]
	o.MinifyWhitespace, o.MinifyIdentifiers, o.MinifySyntax = bit(opt, bMinWS), bit(opt, bMinIdent), bit(opt, bMinSyntax)
	o.Target = targetVals[bits(opt, bTarget, 3)]
	o.Format = formatVals[bits(opt, bFormat, 2)]
	o.Sourcemap = smVals[bits(opt, bSourcemap, 2)]
	if bit(opt, bNoSrcCont) {
		o.SourcesContent = api.SourcesContentExclude
	}
	if bit(opt, bUTF8) {
		o.Charset = api.CharsetUTF8
	} else {
		o.Charset = api.CharsetASCII
	}
	switch bits(opt, bJSX, 2) {
	case 1:
		o.JSX = api.JSXPreserve
	case 2:
		o.JSX = api.JSXAutomatic
	case 3:
		o.JSX = api.JSXAutomatic
		o.JSXDev = true
		o.JSXImportSource = "@x/y"
	}
	if bit(opt, bMangle) {
		o.MangleProps = "_$|^x"
		o.ReserveProps = "^keep_$"
		o.MangleCache = map[string]interface{}{"a_": "q", "b_": false}
	}
	if bit(opt, bMangleQ) {
		o.MangleQuoted = api.MangleQuotedTrue
	}
	o.TsconfigRaw = tsconfigRaws[bits(opt, bTsconfig, 2)]
	o.KeepNames = bit(opt, bKeepNames)
	if bit(opt, bTreeShake) {
		o.TreeShaking = api.TreeShakingTrue
	}
	if bit(opt, bPlatform) {
		o.Platform = api.PlatformNode
	}
	if bit(opt, bLineLimit) {
		o.LineLimit = 40
	}
	if bit(opt, bLegal) {
		o.LegalComments = api.LegalCommentsEndOfFile
	}
	if bit(opt, bDrop) {
		o.Drop = api.DropConsole | api.DropDebugger
		o.DropLabels = []string{"DEV", "a"}
	}
	if bit(opt, bDefine) {
		o.Define = map[string]string{"process.env.NODE_ENV": `"production"`, "DEBUG": "false", "a.b": "c.d", "x": "1"}
		o.Pure = []string{"console.log", "f"}
	}
	if bit(opt, bBanner) {
		o.Banner = "/* banner   */"
		o.Footer = "// footer"
		o.GlobalName = "a.b['c']"
	}
	o.IgnoreAnnotations = bit(opt, bIgnoreAnn)
	if bit(opt, bSupported) {
		o.Supported = map[string]bool{"arrow": false, "bigint": false, "nesting": false, "class-field": false, "template-literal": false, "destructuring": false, "async-await": false, "hex-rgba": false, "inset-property": false}
	}
	if bit(opt, bSourcefile) {
		o.Sourcefile = "dir with space/é \"x\\.ts"
		o.SourceRoot = "https://example.com/\"root\"/"
	}
	return o
}

func flagList(opt uint32) []string {
	var f []string
	add := func(c bool, s string) {
		if c {
			f = append(f, s)
		}
	}
	add(bit(opt, bMinWS), "minify-whitespace")
	add(bit(opt, bMinIdent), "minify-identifiers")
	add(bit(opt, bMinSyntax), "minify-syntax")
	add(bits(opt, bTarget, 3) != 0, "target="+targetNames[bits(opt, bTarget, 3)])
	add(bits(opt, bFormat, 2) != 0, "format="+formatNames[bits(opt, bFormat, 2)])
	add(bits(opt, bSourcemap, 2) != 0, "sourcemap="+smNames[bits(opt, bSourcemap, 2)])
	add(bit(opt, bNoSrcCont), "sources-content=false")
	add(bit(opt, bUTF8), "charset=utf8")
	add(bits(opt, bJSX, 2) != 0, "jsx="+[]string{"", "preserve", "automatic", "automatic-dev"}[bits(opt, bJSX, 2)])
	add(bit(opt, bMangle), "mangle-props")
	add(bit(opt, bMangleQ), "mangle-quoted")
	add(bits(opt, bTsconfig, 2) != 0, "tsconfig-raw#"+strconv.Itoa(bits(opt, bTsconfig, 2)))
	add(bit(opt, bKeepNames), "keep-names")
	add(bit(opt, bTreeShake), "tree-shaking")
	add(bit(opt, bPlatform), "platform=node")
	add(bit(opt, bLineLimit), "line-limit=40")
	add(bit(opt, bLegal), "legal-comments=eof")
	add(bit(opt, bDrop), "drop")
	add(bit(opt, bDefine), "define+pure")
	add(bit(opt, bBanner), "banner+footer+global-name")
	add(bit(opt, bIgnoreAnn), "ignore-annotations")
	add(bit(opt, bSupported), "supported-overrides")
	add(bit(opt, bSourcefile), "sourcefile+source-root")
	return f
}

// ----------------------------------------------------------------------------- cases

// TCase: one api.Transform call. `opt` and `data` are authoritative; loader/flags/preview document them.
type TCase struct {
	Loader  string   `json:"loader"`
	Flags   []string `json:"flags"`
	Opt     uint32   `json:"opt"`
	Data    []byte   `json:"data"` // base64 in JSON
	Muts    []string `json:"muts,omitempty"`
	Preview string   `json:"preview,omitempty"`
}

func mkTCase(opt uint32, data []byte, muts []string) TCase {
	if len(data) > maxInput {
		data = data[:maxInput]
	}
	return TCase{Loader: loaderOf(opt), Flags: flagList(opt), Opt: opt, Data: data, Muts: muts, Preview: preview(data)}
}

func preview(b []byte) string {
	if len(b) > 160 {
		return strconv.QuoteToASCII(string(b[:120])) + "…" + strconv.QuoteToASCII(string(b[len(b)-30:])) + fmt.Sprintf(" (%d bytes)", len(b))
	}
	return strconv.QuoteToASCII(string(b))
}

// SCase: a source file that carries an inline source map payload, bundled (or transformed) with source maps on.
type SCase struct {
	Loader  string `json:"loader"` // js | ts | css
	Src     []byte `json:"src"`
	Map     []byte `json:"map"`      // the (mutated) JSON payload
	Enc     string `json:"encoding"` // base64 | percent | raw
	Build   bool   `json:"build"`    // api.Build with stdin + Bundle, else api.Transform
	Opt     uint32 `json:"opt"`
	MapText string `json:"map_preview,omitempty"`
}

// BCase: a project tree on disk with (malformed) package.json / tsconfig.json, bundled with api.Build.
type BCase struct {
	Files   map[string][]byte `json:"files"` // relative path → bytes
	Entry   string            `json:"entry"`
	Opt     uint32            `json:"opt"`
	Preview map[string]string `json:"preview,omitempty"`
}

// ----------------------------------------------------------------------------- known finding #9

// truncatedTail reports whether b ends in a truncated multi-byte UTF-8 sequence in the sense of
// helpers.DecodeWTF8Rune: one of the last three bytes is a lead byte whose sequence would extend past
// the end of the input. This is exactly the condition under which that decoder returns width 0.
func truncatedTail(b []byte) bool {
	n := len(b)
	for k := 1; k <= 3 && k <= n; k++ {
		c := b[n-k]
		sz := 0
		switch {
		case c&0xE0 == 0xC0:
			sz = 2
		case c&0xF0 == 0xE0:
			sz = 3
		case c&0xF8 == 0xF0:
			sz = 4
		}
		if sz > k {
			return true
		}
	}
	return false
}

var (
	knownOnce   sync.Once
	knownStatus = map[string]string{}
)

// knownActive: the finding is listed with status "known" (not yet fixed): its class is excluded and counted.
func knownActive(id string) bool {
	knownOnce.Do(func() {
		for _, k := range vdrv.KnownFindings() {
			if k.Property == "C16" {
				knownStatus[k.ID] = k.Status
			}
		}
	})
	return knownStatus[id] == "known"
}

func knownVerdict(id, what string) vdrv.Verdict {
	v := vdrv.Fail("case belongs to the class of listed known finding "+id+" ("+what+"); not executed", "", "")
	v.Known = id
	return v
}

// cssNameTruncated: the input contains a lead byte of an n-byte UTF-8 sequence that is followed by fewer than
// n-1 bytes before a byte that cannot be part of a CSS name (or before EOF). A CSS name token that ends in such
// bytes reaches QuoteForJSON unchanged when it is a local name recorded in the `names` of a source map.
func cssNameTruncated(b []byte) bool {
	isName := func(c byte) bool {
		return c >= 0x80 || c == '-' || c == '_' || c == '\\' || c >= 'a' && c <= 'z' || c >= 'A' && c <= 'Z' || c >= '0' && c <= '9'
	}
	for i, c := range b {
		if c < 0xC0 {
			continue
		}
		sz := 0
		switch {
		case c&0xE0 == 0xC0:
			sz = 2
		case c&0xF0 == 0xE0:
			sz = 3
		case c&0xF8 == 0xF0:
			sz = 4
		}
		for k := 1; k < sz; k++ {
			if i+k >= len(b) || !isName(b[i+k]) {
				return true
			}
		}
	}
	return false
}

// tcaseKnownID applies the signatures of the listed findings to a transform case.
func tcaseKnownID(c TCase) string {
	if truncatedTail(c.Data) && wantsSourcesContent(c.Opt) {
		return knownTruncID
	}
	if l := loaderOf(c.Opt); (l == "local-css" || l == "global-css") && bits(c.Opt, bSourcemap, 2) != 0 && cssNameTruncated(c.Data) {
		return knownNamesID
	}
	if strings.Contains(loaderOf(c.Opt), "css") && cssIdentAtEOF(c.Data) {
		return knownCSSEOFID
	}
	return ""
}

// cssIdentAtEOF: the last byte of the input can be the last byte of a CSS identifier (css_lexer.RangeOfIdentifier
// does not stop at the end of the file).
func cssIdentAtEOF(b []byte) bool {
	if len(b) == 0 {
		return false
	}
	c := b[len(b)-1]
	return c >= 0x80 || c == '-' || c == '_' || c >= 'a' && c <= 'z' || c >= 'A' && c <= 'Z' || c >= '0' && c <= '9'
}

// ----------------------------------------------------------------------------- core: run esbuild, apply the message oracle

type coreResult struct {
	Panic    string   `json:"panic,omitempty"`    // a panic escaped the API call (recovered by the harness)
	BadMsg   string   `json:"bad_msg,omitempty"`  // a message that starts with "panic:" or contains "Internal error"
	Infra    string   `json:"infra,omitempty"`    // harness could not set the case up
	Errors   int      `json:"errors"`
	Warnings int      `json:"warnings"`
	OutBytes int      `json:"out_bytes"`
	Classes  []string `json:"classes,omitempty"`
	First    string   `json:"first_message,omitempty"`
}

func scanMsgs(res *coreResult, errs, warns []api.Message) {
	res.Errors, res.Warnings = len(errs), len(warns)
	check := func(kind, s string) {
		if res.BadMsg == "" && (strings.HasPrefix(s, "panic:") || strings.Contains(s, "Internal error") || strings.Contains(s, "internal error")) {
			res.BadMsg = kind + ": " + clip(s, 1500)
		}
	}
	for _, list := range [][]api.Message{errs, warns} {
		for _, m := range list {
			if res.First == "" {
				res.First = clip(m.Text, 200)
			}
			check("message", m.Text)
			for _, n := range m.Notes {
				check("note", n.Text)
			}
		}
	}
}

// clip shortens a text and makes it valid UTF-8 (messages may quote raw input bytes; the shard logs are read as text).
func clip(s string, n int) string {
	if len(s) > n {
		s = s[:n] + "…"
	}
	return strings.ToValidUTF8(s, "\uFFFD")
}

// protect runs f and converts an escaping panic into a result.
func protect(f func(res *coreResult)) (res coreResult) {
	defer func() {
		if r := recover(); r != nil {
			res.Panic = clip(fmt.Sprintf("%v", r), 600) + "\n" + clip(string(debug.Stack()), 3500)
		}
	}()
	f(&res)
	return
}

func coreTransform(c TCase) coreResult {
	return protect(func(res *coreResult) {
		r := api.Transform(string(c.Data), transformOptions(c.Opt))
		scanMsgs(res, r.Errors, r.Warnings)
		res.OutBytes = len(r.Code) + len(r.Map)
	})
}

func (c SCase) source() string {
	var payload string
	switch c.Enc {
	case "percent":
		var sb strings.Builder
		for _, b := range c.Map {
			if b >= 'a' && b <= 'z' || b >= 'A' && b <= 'Z' || b >= '0' && b <= '9' {
				sb.WriteByte(b)
			} else {
				fmt.Fprintf(&sb, "%%%02X", b)
			}
		}
		payload = "data:application/json;charset=utf-8," + sb.String()
	case "raw":
		payload = "data:application/json," + strings.NewReplacer("\n", " ", "\r", " ", "*/", "* /").Replace(string(c.Map))
	default:
		payload = "data:application/json;base64," + b64(c.Map)
	}
	if c.Loader == "css" {
		return string(c.Src) + "\n/*# sourceMappingURL=" + payload + " */\n"
	}
	return string(c.Src) + "\n//# sourceMappingURL=" + payload + "\n"
}

func coreSrcmap(c SCase) coreResult {
	return protect(func(res *coreResult) {
		opt := c.Opt
		if bits(opt, bSourcemap, 2) == 0 {
			opt |= 2 << bSourcemap // the payload is only read with source maps on
		}
		loader := api.LoaderJS
		switch c.Loader {
		case "ts":
			loader = api.LoaderTS
		case "css":
			loader = api.LoaderCSS
		}
		src := c.source()
		if !c.Build {
			o := transformOptions(opt)
			o.Loader = loader
			o.Sourcefile = "in." + c.Loader
			r := api.Transform(src, o)
			scanMsgs(res, r.Errors, r.Warnings)
			res.OutBytes = len(r.Code) + len(r.Map)
			return
		}
		t := transformOptions(opt)
		o := api.BuildOptions{LogLevel: api.LogLevelSilent, LogLimit: 20, Bundle: true, Write: false, Outdir: "/out",
			Stdin:     &api.StdinOptions{Contents: src, Loader: loader, Sourcefile: "in." + c.Loader, ResolveDir: "/nonexistent-c16"},
			Sourcemap: api.SourceMapExternal, SourcesContent: t.SourcesContent, SourceRoot: t.SourceRoot,
			MinifyWhitespace: t.MinifyWhitespace, MinifyIdentifiers: t.MinifyIdentifiers, MinifySyntax: t.MinifySyntax,
			Target: t.Target, Format: t.Format, Charset: t.Charset, Metafile: bit(opt, bDrop), LegalComments: t.LegalComments,
			External: []string{"*"}}
		if bits(opt, bSourcemap, 2) == 1 {
			o.Sourcemap = api.SourceMapInline
		}
		r := api.Build(o)
		scanMsgs(res, r.Errors, r.Warnings)
		for _, f := range r.OutputFiles {
			res.OutBytes += len(f.Contents)
		}
	})
}

func buildOptions(opt uint32, dir, entry string) api.BuildOptions {
	t := transformOptions(opt)
	o := api.BuildOptions{LogLevel: api.LogLevelSilent, LogLimit: 20, Bundle: true, Write: false, AbsWorkingDir: dir, Outdir: filepath.Join(dir, "out"),
		EntryPoints:      []string{entry},
		MinifyWhitespace: t.MinifyWhitespace, MinifyIdentifiers: t.MinifyIdentifiers, MinifySyntax: t.MinifySyntax,
		Target: t.Target, Format: t.Format, Charset: t.Charset, Sourcemap: t.Sourcemap, SourcesContent: t.SourcesContent,
		JSX: t.JSX, JSXDev: t.JSXDev, KeepNames: t.KeepNames, TreeShaking: t.TreeShaking, LegalComments: api.LegalCommentsNone,
		Metafile: bit(opt, bDrop), IgnoreAnnotations: t.IgnoreAnnotations,
		Loader: map[string]api.Loader{".png": api.LoaderDataURL, ".txt": api.LoaderText}}
	if o.Sourcemap == api.SourceMapInlineAndExternal {
		o.Sourcemap = api.SourceMapLinked
	}
	switch bits(opt, bLoader, 3) % 4 { // the loader bits select the platform for a build
	case 1:
		o.Platform = api.PlatformNode
	case 2:
		o.Platform = api.PlatformNeutral
		o.MainFields = []string{"module", "browser", "main", "types"}
	case 3:
		o.Platform = api.PlatformBrowser
		o.Conditions = []string{"custom", "production", "import"}
	}
	if bit(opt, bSourcefile) {
		o.Tsconfig = "tsconfig.json"
	}
	if bit(opt, bBanner) {
		o.Splitting = o.Format == api.FormatESModule
		o.PreserveSymlinks = true
	}
	if bit(opt, bDefine) {
		o.Packages = api.PackagesExternal
	}
	if bit(opt, bLineLimit) {
		o.Alias = map[string]string{"alias-b": "./lib/b.ts", "pkg/aliased": "pkg"}
		o.ResolveExtensions = []string{".ts", ".js", ".json", ".mjs", ""}
	}
	return o
}

// The project of a config case lives in one directory per process; between cases only the files whose
// bytes differ are rewritten (api.Build starts from fresh caches on every call, so nothing stale is seen).
var (
	treeMu   sync.Mutex
	treeDir  string
	treeHave map[string]string
)

func syncTree(files map[string][]byte) (string, error) {
	if treeDir == "" {
		dir, err := os.MkdirTemp("", "c16-tree-")
		if err != nil {
			return "", err
		}
		if real, err := filepath.EvalSymlinks(dir); err == nil {
			dir = real
		}
		treeDir, treeHave = dir, map[string]string{}
	}
	want := map[string]string{}
	for p, b := range files {
		want[filepath.Clean("/"+p)] = string(b)
	}
	for p := range treeHave {
		if _, ok := want[p]; !ok {
			os.Remove(filepath.Join(treeDir, p))
			delete(treeHave, p)
		}
	}
	names := make([]string, 0, len(want))
	for p := range want {
		names = append(names, p)
	}
	sort.Strings(names)
	for _, p := range names {
		if old, ok := treeHave[p]; ok && old == want[p] {
			continue
		}
		full := filepath.Join(treeDir, p)
		if err := os.MkdirAll(filepath.Dir(full), 0o755); err != nil {
			return "", err
		}
		if err := os.WriteFile(full, []byte(want[p]), 0o644); err != nil {
			return "", err
		}
		treeHave[p] = want[p]
	}
	return treeDir, nil
}

func coreBuild(c BCase) coreResult {
	treeMu.Lock()
	defer treeMu.Unlock()
	dir, err := syncTree(c.Files)
	if err != nil {
		treeDir = ""
		return coreResult{Infra: "tree: " + err.Error()}
	}
	return protect(func(res *coreResult) {
		r := api.Build(buildOptions(c.Opt, dir, c.Entry))
		scanMsgs(res, r.Errors, r.Warnings)
		for _, f := range r.OutputFiles {
			res.OutBytes += len(f.Contents)
		}
	})
}

// runCore dispatches on the sub-check name; raw is the JSON of the case.
func runCore(sub string, raw []byte) coreResult {
	switch sub {
	case "transform", "fuzztransform", "corpus":
		var c TCase
		if err := json.Unmarshal(raw, &c); err != nil {
			return coreResult{Infra: "bad case: " + err.Error()}
		}
		return coreTransform(c)
	case "srcmap":
		var c SCase
		if err := json.Unmarshal(raw, &c); err != nil {
			return coreResult{Infra: "bad case: " + err.Error()}
		}
		return coreSrcmap(c)
	case "config", "fuzzconfig":
		var c BCase
		if err := json.Unmarshal(raw, &c); err != nil {
			return coreResult{Infra: "bad case: " + err.Error()}
		}
		return coreBuild(c)
	}
	return coreResult{Infra: "unknown sub " + sub}
}

// inKnownClass applies the signatures of the listed known findings to a stored case.
func inKnownClass(sub string, raw []byte) string {
	switch sub {
	case "transform", "fuzztransform", "corpus":
		var c TCase
		if json.Unmarshal(raw, &c) == nil {
			return tcaseKnownID(c)
		}
	case "srcmap":
		var c SCase
		if json.Unmarshal(raw, &c) == nil && scaseKnown(c) {
			return knownTruncID
		}
	case "config", "fuzzconfig":
		var c BCase
		if json.Unmarshal(raw, &c) == nil {
			return bcaseKnownID(c)
		}
	}
	return ""
}

func scaseKnown(c SCase) bool {
	// the generated source always ends in "\n" after the comment, so only the sources named by the payload could
	// end in a truncated sequence; those come out of the JSON decoder as valid strings. Nothing to exclude.
	return false
}

var browserSelfRe = regexp.MustCompile(`:\s*"pkg(/[^"]*)?"`)

// browserMapSelfReference: a package.json of the dependency `pkg` has a "browser" field and some string value
// that is a package path into `pkg` itself: the shape that makes the resolver remap pkg/x -> pkg/x forever.
func browserMapSelfReference(c BCase) bool {
	for p, b := range c.Files {
		if strings.HasPrefix(p, "node_modules/pkg/") && strings.HasSuffix(p, "package.json") && bytes.Contains(b, []byte(`"browser"`)) && browserSelfRe.Match(b) {
			return true
		}
	}
	return false
}

var loneSurrogateRe = regexp.MustCompile(`(?i)\\ud[89a-f][0-9a-f]{2}`)

// sideEffectsNotUTF8: a package.json mentions "sideEffects" and contains a lone-surrogate escape or bytes that are
// not valid UTF-8: such a string becomes a glob pattern that regexp.MustCompile refuses.
func sideEffectsNotUTF8(c BCase) bool {
	for p, b := range c.Files {
		if strings.HasSuffix(p, "package.json") && bytes.Contains(b, []byte(`sideEffects`)) && (!utf8.Valid(b) || loneSurrogateRe.Match(b)) {
			return true
		}
	}
	return false
}

func bcaseKnownID(c BCase) string {
	if browserMapSelfReference(c) {
		return knownBrowserID
	}
	if sideEffectsNotUTF8(c) {
		return knownSideFxID
	}
	if bits(c.Opt, bSourcemap, 2) == 0 || bit(c.Opt, bNoSrcCont) {
		return ""
	}
	for _, b := range c.Files {
		if truncatedTail(b) {
			return knownTruncID
		}
	}
	return ""
}

var staticBlockRe = regexp.MustCompile(`\bstatic\s*\{`)

// knownAfterTheFact matches a failure that did happen against the signatures of listed findings that are
// recognised by (input shape, message) rather than excluded before execution.
func knownAfterTheFact(sub string, raw []byte, res coreResult) string {
	if strings.Contains(res.BadMsg, "Unexpected expression of type <nil>") || strings.Contains(res.Panic, "Unexpected expression of type <nil>") {
		b := caseBytes(sub, raw)
		if sub == "config" || sub == "fuzzconfig" {
			var c BCase
			if json.Unmarshal(raw, &c) == nil {
				b = c.Files["src.ts"]
			}
		}
		if staticBlockRe.Match(b) {
			return knownStaticID
		}
	}
	if strings.Contains(res.BadMsg, "panic: Internal error") && exportDefaultAtRe.Match(caseBytes(sub, raw)) {
		return knownDecoID
	}
	return ""
}

var exportDefaultAtRe = regexp.MustCompile(`export\s+default\s*@`)

// ----------------------------------------------------------------------------- canary

const canarySrc = "const canary = (a, b) => a ** b + `${a}`; export { canary }; class K { static #p = 1; static q = K.#p ?? 2 }"

var canaryWant string

func canaryRun() (string, string) {
	type out struct{ code, err string }
	ch := make(chan out, 1)
	go func() {
		defer func() {
			if r := recover(); r != nil {
				ch <- out{"", fmt.Sprintf("panic: %v", r)}
			}
		}()
		r := api.Transform(canarySrc, api.TransformOptions{MinifyWhitespace: true, MinifySyntax: true, Target: api.ES2015, Sourcemap: api.SourceMapInline, LogLevel: api.LogLevelSilent})
		if len(r.Errors) > 0 {
			ch <- out{"", "errors: " + r.Errors[0].Text}
			return
		}
		ch <- out{string(r.Code), ""}
	}()
	select {
	case o := <-ch:
		return o.code, o.err
	case <-time.After(60 * time.Second):
		return "", "canary transform did not return within 60 s"
	}
}

// canaryCheck: the process still transforms the canary input to the bytes it produced at start-up.
func canaryCheck() string {
	code, err := canaryRun()
	if err != "" {
		return err
	}
	if canaryWant == "" {
		if !strings.Contains(code, "Math.pow") || !strings.Contains(code, "sourceMappingURL") {
			return "canary output is wrong at start-up: " + clip(code, 300)
		}
		canaryWant = code
		return ""
	}
	if code != canaryWant {
		return "canary output changed: " + clip(code, 300)
	}
	return ""
}

// ----------------------------------------------------------------------------- verdicts

func verdictOf(sub string, res coreResult, classes []string, nontrivial bool) vdrv.Verdict {
	switch {
	case res.Infra != "":
		return vdrv.Skip("harness-io")
	case res.Panic != "":
		v := vdrv.Fail("a panic escaped the API call", "the call returns with ordinary diagnostics or output", res.Panic)
		if msg := canaryCheck(); msg != "" {
			v.Detail += "; afterwards the process is unusable: " + msg
		}
		return v
	case res.BadMsg != "":
		v := vdrv.Fail("esbuild reported a recovered panic / internal error as a diagnostic", "no message starts with `panic:` or contains `Internal error`", res.BadMsg)
		if msg := canaryCheck(); msg != "" {
			v.Detail += "; afterwards the process is unusable: " + msg
		}
		return v
	}
	if res.Errors > 0 {
		classes = append(classes, "outcome=diagnostics")
	} else {
		classes = append(classes, "outcome=output")
	}
	v := vdrv.Pass(nontrivial, classes...)
	v.Observed = fmt.Sprintf("errors=%d warnings=%d output=%dB first=%q", res.Errors, res.Warnings, res.OutBytes, res.First)
	return v
}

// ----------------------------------------------------------------------------- journal, watchdog, children

func journalPath() string {
	return filepath.Join(H.OutDir, fmt.Sprintf("journal-shard-%d.json", H.Shard))
}

type journalEntry struct {
	Sub  string          `json:"sub"`
	Case json.RawMessage `json:"case"`
}

var journalOn = true
var journalFile *os.File

// journal records the case about to run: one positioned write of [8-byte length][payload] into a file kept
// open for the life of the process (the page cache survives the death of the process).
func journal(sub string, raw []byte) {
	if !journalOn {
		return
	}
	if journalFile == nil {
		f, err := os.OpenFile(journalPath(), os.O_CREATE|os.O_RDWR|os.O_TRUNC, 0o644)
		if err != nil {
			journalOn = false
			return
		}
		journalFile = f
	}
	b, _ := json.Marshal(journalEntry{Sub: sub, Case: raw})
	buf := make([]byte, 8, 8+len(b))
	binary.LittleEndian.PutUint64(buf, uint64(len(b)))
	journalFile.WriteAt(append(buf, b...), 0)
}

func readJournal() (journalEntry, bool) {
	var j journalEntry
	b, err := os.ReadFile(journalPath())
	if err != nil || len(b) < 8 {
		return j, false
	}
	n := binary.LittleEndian.Uint64(b)
	if n == 0 || n > uint64(len(b)-8) {
		return j, false
	}
	if json.Unmarshal(b[8:8+n], &j) != nil || len(j.Case) == 0 {
		return j, false
	}
	return j, true
}

// watched runs the core of one case in its own goroutine under the in-process watchdog.
// done=false means the goroutine is still running (suspected hang); wait() can be used to join it later.
func watched(sub string, raw []byte, limit time.Duration) (res coreResult, done bool, wait func(time.Duration) bool) {
	ch := make(chan coreResult, 1)
	go func() { ch <- runCore(sub, raw) }()
	tm := time.NewTimer(limit)
	defer tm.Stop()
	select {
	case r := <-ch:
		return r, true, nil
	case <-tm.C:
	}
	return coreResult{}, false, func(d time.Duration) bool {
		select {
		case <-ch:
			return true
		case <-time.After(d):
			return false
		}
	}
}

type childOutcome struct {
	Kind   string // verdict | hang | crash | inconclusive
	Res    coreResult
	CPU    time.Duration
	Output string // tail of the child's combined output (crash only)
}

const childMarker = "C16-CHILD-RESULT "

var clkTck = 100.0

func procCPU(pid int) (time.Duration, bool) {
	b, err := os.ReadFile(fmt.Sprintf("/proc/%d/stat", pid))
	if err != nil {
		return 0, false
	}
	s := string(b)
	i := strings.LastIndexByte(s, ')')
	if i < 0 {
		return 0, false
	}
	f := strings.Fields(s[i+1:])
	if len(f) < 13 {
		return 0, false
	}
	ut, _ := strconv.ParseFloat(f[11], 64)
	st, _ := strconv.ParseFloat(f[12], 64)
	return time.Duration((ut + st) / clkTck * float64(time.Second)), true
}

// runChild judges one case in a fresh process. The child is killed once it has used cpuBound of CPU time
// (⇒ "hang") or wallBound of wall time without having used that much CPU (⇒ "inconclusive": machine too busy).
func runChild(sub string, raw []byte, cpuBound, wallBound time.Duration) childOutcome {
	dir, err := os.MkdirTemp("", "c16-child-")
	if err != nil {
		return childOutcome{Kind: "inconclusive", Output: err.Error()}
	}
	defer os.RemoveAll(dir)
	cf := filepath.Join(dir, "case.json")
	b, _ := json.Marshal(journalEntry{Sub: sub, Case: raw})
	if err := os.WriteFile(cf, b, 0o644); err != nil {
		return childOutcome{Kind: "inconclusive", Output: err.Error()}
	}
	cmd := exec.Command(os.Args[0], "-test.run", "^TestChild$", "-test.timeout", "0")
	cmd.Env = append(os.Environ(), "VERIF_C16_ROLE=child", "VERIF_C16_CASEFILE="+cf, "TMPDIR="+dir)
	var out bytes.Buffer
	cmd.Stdout, cmd.Stderr = &out, &out
	// The child stays in the process group of the shard (the driver kills that group when it gives up), gets
	// SIGKILL when this process dies, and limits its own CPU time (see TestChild): a child that spins inside
	// esbuild must never outlive the run, whatever happens to its parent.
	cmd.SysProcAttr = &syscall.SysProcAttr{Pdeathsig: syscall.SIGKILL}
	if err := cmd.Start(); err != nil {
		return childOutcome{Kind: "inconclusive", Output: err.Error()}
	}
	waitCh := make(chan error, 1)
	go func() { waitCh <- cmd.Wait() }()
	reaped := false
	defer func() {
		if !reaped {
			cmd.Process.Kill()
			<-waitCh
		}
	}()
	start := time.Now()
	tick := time.NewTicker(50 * time.Millisecond)
	defer tick.Stop()
	var cpu time.Duration
	for {
		select {
		case werr := <-waitCh:
			reaped = true
			if ps := cmd.ProcessState; ps != nil {
				cpu = ps.UserTime() + ps.SystemTime()
			}
			s := out.String()
			if i := strings.LastIndex(s, childMarker); i >= 0 {
				line := s[i+len(childMarker):]
				if j := strings.IndexByte(line, '\n'); j >= 0 {
					line = line[:j]
				}
				var res coreResult
				if json.Unmarshal([]byte(line), &res) == nil {
					return childOutcome{Kind: "verdict", Res: res, CPU: cpu}
				}
			}
			tail := s
			if len(tail) > 6000 {
				tail = tail[:2500] + "\n…\n" + tail[len(tail)-3000:]
			}
			return childOutcome{Kind: "crash", CPU: cpu, Output: fmt.Sprintf("child ended without a result (%v)\n%s", werr, tail)}
		case <-tick.C:
			if c, ok := procCPU(cmd.Process.Pid); ok {
				cpu = c
			}
			if cpu >= cpuBound || time.Since(start) >= wallBound {
				cmd.Process.Kill()
				<-waitCh
				reaped = true
				if cpu >= cpuBound {
					return childOutcome{Kind: "hang", CPU: cpu}
				}
				return childOutcome{Kind: "inconclusive", CPU: cpu, Output: "wall bound reached before the CPU bound (machine busy)"}
			}
		}
	}
}

// TestChild is the entry point of the child role.
func TestChild(t *testing.T) {
	if role() != "child" {
		t.Skip("child role only")
	}
	// Self-destruct: the kernel kills this process after 90 s of CPU time, and a timer after 15 minutes of wall
	// time, even if the parent that is supposed to enforce the (much smaller) bounds has been killed.
	syscall.Setrlimit(syscall.RLIMIT_CPU, &syscall.Rlimit{Cur: 90, Max: 95})
	time.AfterFunc(15*time.Minute, func() { os.Exit(3) })
	b, err := os.ReadFile(os.Getenv("VERIF_C16_CASEFILE"))
	if err != nil {
		t.Fatalf("INFRA: %v", err)
	}
	var j journalEntry
	if err := json.Unmarshal(b, &j); err != nil {
		t.Fatalf("INFRA: %v", err)
	}
	res := runCore(j.Sub, j.Case)
	out, _ := json.Marshal(res)
	fmt.Printf("\n%s%s\n", childMarker, out)
}

// ----------------------------------------------------------------------------- slow cases: confirm, minimise, classify

// caseBytes / withBytes give the minimiser access to the byte payload of a case.
func caseBytes(sub string, raw []byte) []byte {
	switch sub {
	case "transform", "fuzztransform", "corpus":
		var c TCase
		json.Unmarshal(raw, &c)
		return c.Data
	case "srcmap":
		var c SCase
		json.Unmarshal(raw, &c)
		return []byte(c.source())
	case "config", "fuzzconfig":
		var c BCase
		json.Unmarshal(raw, &c)
		var all []byte
		names := make([]string, 0, len(c.Files))
		for p := range c.Files {
			names = append(names, p)
		}
		sort.Strings(names)
		for _, p := range names {
			all = append(all, c.Files[p]...)
		}
		return all
	}
	return nil
}

func withBytes(sub string, raw []byte, data []byte) []byte {
	switch sub {
	case "transform", "fuzztransform", "corpus":
		var c TCase
		json.Unmarshal(raw, &c)
		n := mkTCase(c.Opt, data, c.Muts)
		b, _ := json.Marshal(n)
		return b
	}
	return nil // only transform cases are minimised bytewise
}

// extremeNesting: the input shows ≥ extremeRepeat-fold nesting or repetition by a purely lexical measure:
// bracket depth of a context-free scan, a run of ≥ extremeRepeat repetitions of a period ≤ 24 bytes, or that
// many arrows / `function` / `class` keywords. esbuild's running time is super-linear in nesting depth
// (measured on the pinned tree: 2000 nested arrow functions 11 s CPU, 5000 take minutes; 5000 nested blocks
// print 50 MB of indentation); the property bounds nesting, so a slow input is only charged as a hang when
// its *minimised* form is not of this kind. True non-termination does not depend on repetition and
// minimises to a few bytes.
func extremeNesting(b []byte) (bool, string) {
	depth, maxDepth := 0, 0
	for _, c := range b {
		switch c {
		case '(', '[', '{':
			depth++
			if depth > maxDepth {
				maxDepth = depth
			}
		case ')', ']', '}':
			if depth > 0 {
				depth--
			}
		}
	}
	if maxDepth >= extremeRepeat {
		return true, fmt.Sprintf("bracket depth %d", maxDepth)
	}
	for _, kw := range []string{"=>", "function", "class", "?", ",", "<", "!", "~", "-", "+", "${", ":", "="} {
		if n := bytes.Count(b, []byte(kw)); n >= extremeRepeat*2 {
			return true, fmt.Sprintf("%d × %q", n, kw)
		}
	}
	for p := 1; p <= 24; p++ {
		run := 0
		for i := p; i < len(b); i++ {
			if b[i] == b[i-p] {
				run++
				if run >= p*extremeRepeat {
					return true, fmt.Sprintf("period-%d run of %d repetitions", p, run/p)
				}
			} else {
				run = 0
			}
		}
	}
	return false, ""
}

type slowVerdict struct {
	Kind    string // unconfirmed | hang | extreme
	Path    string // replay file already written and announced (hang)
	Raw     []byte // (minimised) case
	Detail  string
	Observe string
}

// confirmSlow re-runs a suspected non-terminating case in three fresh children (side by side) under the full bound.
func confirmSlow(sub string, raw []byte) (confirmed bool, note string) {
	var outs [3]childOutcome
	var wg sync.WaitGroup
	for i := range outs {
		wg.Add(1)
		go func(i int) { defer wg.Done(); outs[i] = runChild(sub, raw, hangCPU, hangWall) }(i)
	}
	wg.Wait()
	for i, o := range outs {
		if o.Kind != "hang" {
			return false, fmt.Sprintf("run %d in a fresh process: %s after %.1fs CPU", i+1, o.Kind, o.CPU.Seconds())
		}
	}
	return true, ""
}

// hangReplayPath: where the replay of a confirmed hang is written (named after the original case, so that the
// minimised case can replace the preliminary one).
func hangReplayPath(sub string, raw []byte) string {
	dir := filepath.Join(vdrv.EvidenceDir(), "failures", "C16")
	os.MkdirAll(dir, 0o755)
	return filepath.Join(dir, fmt.Sprintf("%s-hang-%s-seed%d-shard%d-%08x.json", sub, H.Tier, H.Seed, H.Shard, hash32(raw)))
}

func hangDetail(n int) string {
	return fmt.Sprintf("the call does not terminate: a fresh process used more than %.0f s of CPU time on this input of %d bytes, three times out of three", hangCPU.Seconds(), n)
}

// writeHang stores the replay of a confirmed hang and announces it to the driver. Announcing early (before the
// input is minimised) keeps the verdict even if the check runs out of time while minimising.
func writeHang(path, sub string, raw []byte, note string, announce bool) {
	f := vdrv.Failure{Property: "C16", Sub: sub, Case: json.RawMessage(raw), Expected: "the call returns within seconds", Detail: hangDetail(len(caseBytes(sub, raw))),
		Observed: "killed after the CPU bound; normal time for an input of this size is a few milliseconds", Note: note,
		FoundBy: map[string]interface{}{"tier": H.Tier, "seed": H.Seed, "shard": H.Shard}}
	b, _ := json.MarshalIndent(f, "", " ")
	tmp := path + ".tmp"
	if os.WriteFile(tmp, b, 0o644) == nil {
		os.Rename(tmp, path)
	}
	if announce {
		fmt.Printf("SHARD-VIOLATION property=C16 replay=%s\n", path)
		os.Stdout.Sync()
	}
}

// minimiseSlow: delta debugging over the bytes of a transform case; the predicate "still uses more than
// minimiseCPU in a fresh child" is evaluated for up to `par` candidates at a time; time-boxed.
func minimiseSlow(sub string, raw []byte, box time.Duration) []byte {
	data := caseBytes(sub, raw)
	if withBytes(sub, raw, data) == nil {
		return raw
	}
	deadline := time.Now().Add(box)
	slow := func(d []byte) bool {
		o := runChild(sub, withBytes(sub, raw, d), minimiseCPU, 60*time.Second)
		return o.Kind == "hang"
	}
	const par = 6
	n := 2
	for len(data) >= 2 && time.Now().Before(deadline) {
		chunk := (len(data) + n - 1) / n
		type cand struct {
			d  []byte
			ok bool
		}
		var cands []cand
		for lo := 0; lo < len(data); lo += chunk {
			hi := lo + chunk
			if hi > len(data) {
				hi = len(data)
			}
			// complement (remove one chunk); for the tail keep the last 4 bytes attached to what precedes them
			d := append(append([]byte{}, data[:lo]...), data[hi:]...)
			cands = append(cands, cand{d: d})
		}
		found := -1
		for base := 0; base < len(cands) && found < 0 && time.Now().Before(deadline); base += par {
			var wg sync.WaitGroup
			for k := base; k < base+par && k < len(cands); k++ {
				wg.Add(1)
				go func(k int) { defer wg.Done(); cands[k].ok = slow(cands[k].d) }(k)
			}
			wg.Wait()
			for k := base; k < base+par && k < len(cands); k++ {
				if cands[k].ok {
					found = k
					break
				}
			}
		}
		if found >= 0 {
			data = cands[found].d
			if n > 2 {
				n--
			}
			continue
		}
		if chunk == 1 {
			break
		}
		n *= 2
		if n > len(data) {
			n = len(data)
		}
	}
	return withBytes(sub, raw, data)
}

// Hang triage is serialised across the shards of a run (they share $TMPDIR): a defect that every shard runs into
// would otherwise start dozens of spinning children at once and starve the confirmation runs of CPU time. Once
// one shard has announced a hang, the others only save their suspect and leave.
func triageLock() (unlock func(), alreadyAnnounced bool) {
	dir := os.Getenv("TMPDIR")
	if dir == "" {
		dir = os.TempDir()
	}
	f, err := os.OpenFile(filepath.Join(dir, "c16-triage.lock"), os.O_CREATE|os.O_RDWR, 0o644)
	if err != nil {
		return func() {}, false
	}
	syscall.Flock(int(f.Fd()), syscall.LOCK_EX)
	_, serr := os.Stat(filepath.Join(dir, "c16-hang-announced"))
	return func() { syscall.Flock(int(f.Fd()), syscall.LOCK_UN); f.Close() }, serr == nil
}

func markHangAnnounced() {
	dir := os.Getenv("TMPDIR")
	if dir == "" {
		dir = os.TempDir()
	}
	os.WriteFile(filepath.Join(dir, "c16-hang-announced"), []byte("1"), 0o644)
}

func triageSlow(sub string, raw []byte) slowVerdict {
	unlock, announced := triageLock()
	defer unlock()
	if announced {
		p := strings.Replace(hangReplayPath(sub, raw), "-hang-", "-suspect-", 1)
		writeHang(p, sub, raw, "suspected hang, not confirmed: another shard of the same run had already reported a hang", false)
		return slowVerdict{Kind: "deferred", Raw: raw, Path: p}
	}
	ok, note := confirmSlow(sub, raw)
	if !ok {
		return slowVerdict{Kind: "unconfirmed", Raw: raw, Detail: note}
	}
	path := hangReplayPath(sub, raw)
	// the nesting exemption only makes sense where the case IS one input text; a project tree or a source-map
	// payload has no business being slow
	origExtreme := false
	if withBytes(sub, raw, nil) != nil {
		origExtreme, _ = extremeNesting(caseBytes(sub, raw))
	}
	if !origExtreme {
		writeHang(path, sub, raw, "not yet minimised", true)
		markHangAnnounced()
	}
	min := minimiseSlow(sub, raw, 60*time.Second)
	if !bytes.Equal(min, raw) {
		if o := runChild(sub, min, hangCPU, hangWall); o.Kind != "hang" {
			min = raw // the small bound used while minimising was not enough evidence for this one
		}
	}
	if origExtreme {
		if ext, why := extremeNesting(caseBytes(sub, min)); ext {
			return slowVerdict{Kind: "extreme", Raw: min, Detail: why}
		}
		writeHang(path, sub, min, "minimised by delta debugging in fresh processes", true)
		markHangAnnounced()
	} else {
		writeHang(path, sub, min, "minimised by delta debugging in fresh processes", false)
	}
	return slowVerdict{Kind: "hang", Raw: min, Path: path, Detail: hangDetail(len(caseBytes(sub, min))),
		Observe: "killed after the CPU bound; normal time for an input of this size is a few milliseconds"}
}

// silentTB lets H.Report record a failure without unwinding (used when the failure was already minimised
// outside rapid and the process must exit afterwards).
type silentTB struct{ msgs []string }

func (s *silentTB) Fatalf(format string, args ...interface{}) {
	s.msgs = append(s.msgs, fmt.Sprintf(format, args...))
}
func (s *silentTB) Logf(format string, args ...interface{}) {}

// reportFatal records a violation found outside rapid's control, writes the evidence of this shard and
// leaves the process (a goroutine may still be spinning inside esbuild).
func reportFatal(sub string, raw []byte, v vdrv.Verdict) {
	var c interface{}
	json.Unmarshal(raw, &c)
	tb := &silentTB{}
	H.Report(tb, sub, string(raw), c, v)
	H.FlushFailure(sub)
	for _, m := range tb.msgs {
		fmt.Println(clip(m, 3000))
	}
	H.Finish(false)
	os.Exit(1)
}

// judge is the entry point of the search: known-class exclusion, journal, watchdog, triage.
func judge(sub string, c interface{}, classes []string, nontrivial bool) vdrv.Verdict {
	raw, err := json.Marshal(c)
	if err != nil {
		return vdrv.Skip("harness-json")
	}
	if id := inKnownClass(sub, raw); id != "" && knownActive(id) {
		return knownVerdict(id, "a truncated UTF-8 sequence reaches QuoteForJSON")
	}
	journal(sub, raw)
	res, done, wait := watched(sub, raw, watchdogWall)
	if done {
		v := verdictOf(sub, res, classes, nontrivial)
		if !v.OK {
			if id := knownAfterTheFact(sub, raw, res); id != "" && knownActive(id) {
				v.Known = id
			}
		}
		return v
	}
	fmt.Printf("C16: case of sub %s still running after %v; re-running it in fresh processes: %s\n", sub, watchdogWall, clip(string(raw), 700))
	sv := triageSlow(sub, raw)
	switch sv.Kind {
	case "unconfirmed":
		if wait(180 * time.Second) {
			H.Note("%s: a case exceeded the %v in-process watchdog but finished in a fresh process (%s)", sub, watchdogWall, sv.Detail)
			return vdrv.Skip("slow-unconfirmed")
		}
		// finishes in fresh processes, never here: cannot be judged; the process is no longer trustworthy
		fmt.Printf("INFRA: case neither finishes in-process nor hangs in a fresh process (%s)\n", sv.Detail)
		H.Finish(false)
		os.Exit(3)
	case "deferred":
		fmt.Printf("C16: another shard has already reported a hang; suspect saved as %s\n", sv.Path)
		H.Finish(false)
		os.Exit(1)
	case "extreme":
		saveObservation(sub, sv.Raw, sv.Detail)
		H.Note("%s: slow input beyond the nesting bound (%s): not charged as a hang; saved under evidence/observations/C16", sub, sv.Detail)
		return vdrv.Skip("slow-beyond-nesting-bound")
	}
	// the replay is written and announced; a goroutine is still spinning inside esbuild: leave
	fmt.Printf("C16: %s\n", sv.Detail)
	H.Finish(false)
	os.Exit(1)
	return vdrv.Fail(sv.Detail, "the call returns within seconds", sv.Observe) // not reached
}

func saveObservation(sub string, raw []byte, why string) {
	dir := filepath.Join(vdrv.EvidenceDir(), "observations", "C16")
	os.MkdirAll(dir, 0o755)
	b, _ := json.MarshalIndent(map[string]interface{}{"property": "C16", "sub": sub, "case": json.RawMessage(raw), "note": "super-linear running time beyond the nesting bound: " + why}, "", " ")
	os.WriteFile(filepath.Join(dir, fmt.Sprintf("slow-%s-%08x.json", sub, hash32(raw))), b, 0o644)
}

func hash32(b []byte) uint32 {
	h := uint32(2166136261)
	for _, c := range b {
		h = (h ^ uint32(c)) * 16777619
	}
	return h
}

// ----------------------------------------------------------------------------- replays

var (
	fullReplayBound bool // TestReplay: always the full bound
	knownCaseOnce   sync.Once
	knownCases      = map[string]bool{}
)

// replayBound: the replay of a finding that is listed as `known` (not yet fixed) is expected to fail, possibly by
// not terminating; inside TestCheck it gets a short CPU bound so that a listed hang does not cost 20 s of every
// quick run. Every other replay must pass and gets the full bound.
func replayBound(raw []byte) time.Duration {
	if fullReplayBound {
		return hangCPU
	}
	knownCaseOnce.Do(func() {
		for _, k := range vdrv.KnownFindings() {
			if k.Property == "C16" && k.Status == "known" && k.Replay != "" {
				if r, err := vdrv.LoadReplay(filepath.Join(vdrv.Root(), k.Replay)); err == nil {
					var buf bytes.Buffer
					if json.Compact(&buf, r.Case) == nil {
						knownCases[buf.String()] = true
					}
				}
			}
		}
	})
	var buf bytes.Buffer
	if json.Compact(&buf, raw) == nil && knownCases[buf.String()] {
		return replayCPUQuick
	}
	return hangCPU
}

// replayInChild judges a stored case in a fresh process (a stored case may be a hang).
func replayInChild(sub string) vdrv.ReplayFunc {
	return func(raw json.RawMessage) vdrv.Verdict {
		replayCPU := replayBound(raw)
		o := runChild(sub, raw, replayCPU, hangWall)
		switch o.Kind {
		case "verdict":
			v := verdictOf(sub, o.Res, nil, true)
			return v
		case "hang":
			return vdrv.Fail(fmt.Sprintf("the call does not terminate (fresh process killed after %.0f s of CPU time)", replayCPU.Seconds()), "the call returns within seconds", "no return")
		case "crash":
			return vdrv.Fail("the process died while handling this input", "the call returns", o.Output)
		}
		return vdrv.Skip("child-inconclusive")
	}
}

var subs = map[string]vdrv.ReplayFunc{
	"transform": replayInChild("transform"), "corpus": replayInChild("corpus"), "fuzztransform": replayInChild("fuzztransform"),
	"srcmap": replayInChild("srcmap"), "config": replayInChild("config"), "fuzzconfig": replayInChild("fuzzconfig"),
}

// ----------------------------------------------------------------------------- supervisor

type tailWriter struct {
	mu  sync.Mutex
	buf []byte
}

func (w *tailWriter) Write(p []byte) (int, error) {
	w.mu.Lock()
	defer w.mu.Unlock()
	w.buf = append(w.buf, p...)
	if len(w.buf) > 64*1024 {
		w.buf = w.buf[len(w.buf)-48*1024:]
	}
	return len(p), nil
}

func supervise(t *testing.T) {
	h := vdrv.New("C16")
	H = h
	shardJSON := filepath.Join(h.OutDir, fmt.Sprintf("shard-%d.json", h.Shard))
	os.Remove(shardJSON)
	os.Remove(journalPath())
	cmd := exec.Command(os.Args[0], "-test.run", "^TestCheck$", "-test.timeout", "0")
	cmd.Env = append(os.Environ(), "VERIF_C16_ROLE=worker")
	tail := &tailWriter{}
	cmd.Stdout = io.MultiWriter(os.Stdout, tail)
	cmd.Stderr = cmd.Stdout
	err := cmd.Run()
	if _, serr := os.Stat(shardJSON); serr == nil {
		if err != nil {
			t.Fail()
		}
		return
	}
	// The worker died without writing evidence. Is the journaled case responsible?
	j, jok := readJournal()
	if !jok {
		t.Fatalf("INFRA: worker ended (%v) without evidence and without a journaled case", err)
	}
	crashes := 0
	var last childOutcome
	for i := 0; i < 3; i++ {
		last = runChild(j.Sub, j.Case, hangCPU, hangWall)
		if last.Kind == "crash" {
			crashes++
		}
	}
	if crashes < 3 {
		t.Fatalf("INFRA: worker ended (%v) without evidence; the journaled case does not kill a fresh process (%d/3, last: %s)", err, crashes, last.Kind)
	}
	if ext, why := extremeNesting(caseBytes(j.Sub, j.Case)); ext && strings.Contains(last.Output, "stack") {
		t.Fatalf("INFRA: worker died of stack exhaustion on an input beyond the nesting bound (%s); not a verdict", why)
	}
	v := vdrv.Fail("the process dies while handling this input (reproduced in 3 of 3 fresh processes)", "the call returns with diagnostics or output", last.Output)
	reportFatal(j.Sub, j.Case, v)
}

// ----------------------------------------------------------------------------- entry points

var theCorpus *corpus.Corpus

func loadCorpus(t testing.TB) *corpus.Corpus {
	if theCorpus == nil {
		c, err := corpus.Load(vdrv.RepoDir(), vdrv.Root())
		if err != nil {
			t.Fatalf("INFRA: %v", err)
		}
		theCorpus = c
	}
	return theCorpus
}

func TestCheck(t *testing.T) {
	switch role() {
	case "":
		supervise(t)
		return
	case "worker":
	default:
		t.Skip("not for this role")
	}
	H = vdrv.New("C16")
	complete := false
	defer func() { H.Finish(complete) }()
	if msg := canaryCheck(); msg != "" {
		t.Fatalf("INFRA: %s", msg)
	}
	c := loadCorpus(t)
	if H.Shard == 0 {
		H.Note("corpus: %d snippets (js %d, jsx %d, ts %d, tsx %d, css %d, json %d), %d bundler trees, %d package.json, %d tsconfig.json from %d test files of %s (cache hit: %v)",
			c.Count(), len(c.Snippets["js"]), len(c.Snippets["jsx"]), len(c.Snippets["ts"]), len(c.Snippets["tsx"]), len(c.Snippets["css"]), len(c.Snippets["json"]),
			len(c.Trees), len(c.PkgJSON), len(c.TSConfig), c.Files, c.Repo, c.FromDisk)
	}
	timed := func(name string, f func()) {
		t0 := time.Now()
		var r0, r1 syscall.Rusage
		syscall.Getrusage(syscall.RUSAGE_SELF, &r0)
		f()
		syscall.Getrusage(syscall.RUSAGE_SELF, &r1)
		tv := func(a, b syscall.Timeval) float64 { return float64(b.Sec-a.Sec) + float64(b.Usec-a.Usec)/1e6 }
		fmt.Printf("C16: shard %d %s took %.1fs wall, %.1fs user, %.1fs sys\n", H.Shard, name, time.Since(t0).Seconds(), tv(r0.Utime, r1.Utime), tv(r0.Stime, r1.Stime))
	}
	timed("replays", func() { H.RunReplays(t, subs) })
	timed("corpus", func() { H.Sub(t, "corpus", runCorpus) })
	timed("transform", func() { H.Sub(t, "transform", runTransform) })
	timed("srcmap", func() { H.Sub(t, "srcmap", runSrcmap) })
	timed("config", func() { H.Sub(t, "config", runConfig) })
	if msg := canaryCheck(); msg != "" {
		t.Errorf("after the run the process no longer transforms the canary input: %s", msg)
		v := vdrv.Fail("after the run the process no longer transforms the canary input: "+msg, canaryWant, msg)
		H.Report(&silentTB{}, "transform", "canary", map[string]string{"canary": canarySrc}, v)
		H.FlushFailure("transform")
	}
	if H.Thorough() && H.Shard == 0 && !t.Failed() {
		runFuzzCampaigns(t)
	}
	complete = true
}

func TestReplay(t *testing.T) {
	H = vdrv.New("C16")
	fullReplayBound = true
	H.ReplayOne(t, subs)
}

func validUTF8Ratio(b []byte) string {
	if utf8.Valid(b) {
		return "utf8=valid"
	}
	return "utf8=invalid"
}

package c16

import (
	"encoding/json"
	"fmt"
	"os"
	"testing"
	"time"

	"github.com/evanw/esbuild/verif/vdrv"
)

func TestBenchOverhead(t *testing.T) {
	if os.Getenv("VERIF_C16_BENCH") == "" {
		t.Skip()
	}
	H = vdrv.New("C16")
	c := mkTCase(0, []byte("let x = 1 + 2; console.log(x)"), nil)
	for _, name := range []string{"core", "judge", "journal", "watched", "marshal"} {
		t0, c0 := time.Now(), cpuNow()
		for i := 0; i < 2000; i++ {
			switch name {
			case "core":
				coreTransform(c)
			case "judge":
				judge("transform", c, nil, true)
			case "journal":
				journal("transform", []byte(`{"a":1}`))
			case "watched":
				raw, _ := json.Marshal(c)
				watched("transform", raw, watchdogWall)
			case "marshal":
				json.Marshal(c)
			case "core-sm":
				coreTransform(mkTCase(1<<bSourcemap, c.Data, nil))
			case "core-allflags":
				coreTransform(mkTCase(0xfffffff8, c.Data, nil))
			}
		}
		fmt.Printf("%s: %.3f ms wall, %.3f ms cpu per call\n", name, time.Since(t0).Seconds()/2, (cpuNow()-c0)/2)
	}
}

func TestBenchSeeds(t *testing.T) {
	if os.Getenv("VERIF_C16_BENCH") == "" {
		t.Skip()
	}
	c := loadCorpus(t)
	i := uint32(0)
	t0, c0 := time.Now(), cpuNow()
	n := 0
	for _, s := range c.Snippets["js"][:1500] {
		i++
		opt := i * 2654435761 &^ 7
		if i%3 != 0 {
			opt &= 0x00007ff8
		}
		raw, _ := json.Marshal(mkTCase(opt, []byte(s), nil))
		watched("fuzztransform", raw, watchdogWall)
		n++
		if n%500 == 0 {
			fmt.Printf("seeds %d: %.3f ms wall, %.3f ms cpu per call\n", n, time.Since(t0).Seconds()*1000/500, (cpuNow()-c0)*1000/500)
			t0, c0 = time.Now(), cpuNow()
		}
	}
}

package c16

import (
	"fmt"
	"os"
	"strings"
	"syscall"
	"testing"
)

func cpuNow() float64 {
	var ru syscall.Rusage
	syscall.Getrusage(syscall.RUSAGE_SELF, &ru)
	return float64(ru.Utime.Sec+ru.Stime.Sec) + float64(ru.Utime.Usec+ru.Stime.Usec)/1e6
}

// TestCalibrate prints the CPU time of every nesting wrapper at its maximal depth (VERIF_C16_CALIBRATE=1 only).
func TestCalibrate(t *testing.T) {
	if os.Getenv("VERIF_C16_CALIBRATE") == "" {
		t.Skip("set VERIF_C16_CALIBRATE=1")
	}
	coreTransform(mkTCase(0, []byte("x"), nil))
	for _, w := range wrappers {
		depth := w.maxDepth
		if per := len(w.open) + len(w.close); per*depth > maxInput-8 {
			depth = (maxInput - 8) / per
		}
		loaders := []uint32{0, 1, 3}
		if w.css {
			loaders = []uint32{4, 5}
		}
		worst, worstOpt := 0.0, uint32(0)
		for _, l := range loaders {
			for _, o := range []uint32{1 << bSourcemap, 1<<bSourcemap | 2<<bTarget, 7 << bMinWS, 1<<bMinSyntax | 1<<bTarget, 1<<bMinIdent | 1<<bSourcemap | 2<<bFormat} {
				src := strings.Repeat(w.open, depth) + "a" + strings.Repeat(w.close, depth)
				c0 := cpuNow()
				coreTransform(mkTCase(o|l, []byte(src), nil))
				if d := cpuNow() - c0; d > worst {
					worst, worstOpt = d, o|l
				}
			}
		}
		flag := ""
		if worst > 1.0 {
			flag = "  <<<<<< SLOW"
		}
		fmt.Printf("%-28q depth=%-5d worst cpu=%6.2fs opt=%v%s\n", w.open+"…"+w.close, depth, worst, flagList(worstOpt), flag)
	}
}

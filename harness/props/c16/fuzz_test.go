package c16

import (
	"bufio"
	"bytes"
	"encoding/json"
	"fmt"
	"hash/crc32"
	"io"
	"os"
	"os/exec"
	"path/filepath"
	"regexp"
	"sort"
	"strconv"
	"strings"
	"sync/atomic"
	"testing"
	"time"

	"github.com/evanw/esbuild/verif/corpus"
	"github.com/evanw/esbuild/verif/vdrv"
)

// Thorough tier: Go native fuzzing. The two targets carry the full oracle (recover, message scan, 10 s
// watchdog). A failing input is written by the target itself as a vdrv replay file into $VERIF_C16_FUZZ_OUT
// before the target fails, so nothing depends on what the fuzzing engine saves (its minimiser stores a
// non-failing input when the failure is a hang; campaigns therefore run with -fuzzminimizetime=0 and
// hangs are minimised here, by delta debugging in child processes).

var (
	fzExecs    atomic.Int64
	fzExcluded atomic.Int64
	fzSkipped  atomic.Int64
	fzErrors   atomic.Int64
	fzOutput   atomic.Int64
	fzNanos    atomic.Int64
)

func fuzzOutDir() string   { return os.Getenv("VERIF_C16_FUZZ_OUT") }
func fuzzStatsDir() string { return os.Getenv("VERIF_C16_FUZZ_STATS") }

func flushFuzzStats() {
	d := fuzzStatsDir()
	if d == "" || fzExecs.Load() == 0 {
		return
	}
	b, _ := json.Marshal(map[string]int64{"execs": fzExecs.Load(), "excluded_known": fzExcluded.Load(), "skipped": fzSkipped.Load(), "diagnostics": fzErrors.Load(), "output": fzOutput.Load(), "target_ms": fzNanos.Load() / 1e6})
	tmp := filepath.Join(d, fmt.Sprintf(".%d.tmp", os.Getpid()))
	if os.WriteFile(tmp, b, 0o644) == nil {
		os.Rename(tmp, filepath.Join(d, fmt.Sprintf("%d.json", os.Getpid())))
	}
}

func TestMain(m *testing.M) {
	code := m.Run()
	flushFuzzStats()
	os.Exit(code)
}

func fuzzCount(res coreResult) {
	n := fzExecs.Add(1)
	if res.Errors > 0 {
		fzErrors.Add(1)
	} else {
		fzOutput.Add(1)
	}
	if n%2000 == 0 {
		flushFuzzStats()
	}
}

// fuzzFail stores the failing case as a replay file and fails the target.
func fuzzFail(t *testing.T, sub string, c interface{}, kind, detail, observed string) {
	raw, _ := json.Marshal(c)
	if d := fuzzOutDir(); d != "" {
		f := vdrv.Failure{Property: "C16", Sub: sub, Case: json.RawMessage(raw), Detail: detail, Observed: observed, Expected: "the call returns with ordinary diagnostics or output",
			FoundBy: map[string]interface{}{"tier": "thorough", "engine": "go native fuzzing", "kind": kind}}
		b, _ := json.MarshalIndent(f, "", " ")
		os.WriteFile(filepath.Join(d, fmt.Sprintf("%s-%s-%08x.json", kind, sub, hash32(raw))), b, 0o644)
	}
	flushFuzzStats()
	t.Fatalf("C16 %s: %s\n%s", kind, detail, clip(observed, 3000))
}

func fuzzJudge(t *testing.T, sub string, c interface{}) {
	raw, err := json.Marshal(c)
	if err != nil {
		return
	}
	if id := inKnownClass(sub, raw); id != "" && knownActive(id) {
		fzExcluded.Add(1)
		return
	}
	t0 := time.Now()
	res, done, _ := watched(sub, raw, watchdogWall)
	fzNanos.Add(int64(time.Since(t0)))
	if !done {
		// the goroutine keeps spinning; this worker process ends with the campaign
		fuzzFail(t, sub, c, "slow", fmt.Sprintf("no return after %v (suspected hang; to be confirmed in fresh processes)", watchdogWall), "")
		return
	}
	fuzzCount(res)
	if id := knownAfterTheFact(sub, raw, res); id != "" && knownActive(id) {
		fzExcluded.Add(1)
		return
	}
	switch {
	case res.Infra != "":
		fzSkipped.Add(1)
	case res.Panic != "":
		fuzzFail(t, sub, c, "panic", "a panic escaped the API call", res.Panic)
	case res.BadMsg != "":
		fuzzFail(t, sub, c, "internal", "esbuild reported a recovered panic / internal error as a diagnostic", res.BadMsg)
	}
}

var hostileSeeds = []string{
	"", "\x00", "\xff", "\xe0", "x=1//\xe0", "a{}/*\xf0\x9f*/", "\xef\xbb\xbf", "#!/usr/bin/env node\n", "<!-- x\n--> y", "a\u2028b", "`${`${`${1}`}`}`", "/(?<a>.)\\k<a>/v", "class A{static #a=1;static{A.#a}}",
	"for await(using x of y);", "@dec export class A{@dec accessor x}", "import defer * as x from 'y'", "export * as 'a b' from 'c' with {type:'json'}", "<a b={...c}>{/**/}</a>", "enum E{A=1<<31,B=A*2,C=`${B}`}", "let x:A<B<C<D>>>=<T,>(y)=>y as unknown as T",
	"a{&:is(b,c)>d{color:rgb(from red r g b / 50%)}}", "@media (width>=1px) and (not (color)){a{inset:0 0 0 0}}", ".a{composes:b c from './x.css';animation:d}", "@import url(x) layer(a) supports(b:c) screen;", "a{b:calc(1px*(2 + 3)/0)}", "@font-face{unicode-range:U+0-7F,u+1??}", "@container a (min-width:1px){@layer b{c{d:e}}}",
	"{\"a\":[1,2,{\"b\":null}],\"__proto__\":1e999}", "[1,]", "{\"a\":1,}", "\"\\ud800\"", "-0", "//c\n1", "1" + strings.Repeat("0", 400), "\"" + strings.Repeat("\\u0041", 200) + "\"", strings.Repeat("(", 300) + strings.Repeat(")", 300), strings.Repeat("a{", 100) + strings.Repeat("}", 100),
	"x\n//# sourceMappingURL=data:application/json;base64,eyJ2ZXJzaW9uIjozLCJzb3VyY2VzIjpbImEuanMiXSwibWFwcGluZ3MiOiJBQUFBLGdnZ2dnZ2dnZ2dnZ0EifQ==", "x\n//# sourceMappingURL=data:application/json;base64,bnVsbA==", "a{}\n/*# sourceMappingURL=data:application/json;base64,eyJ2ZXJzaW9uIjozLCJzb3VyY2VzIjpbMV0sIm1hcHBpbmdzIjoiOzs7In0= */",
}

// The engine gathers baseline coverage for every seed through its single coordinator (≈50 inputs/s for a
// binary of this size), so the seed set is a sample: ~60 snippets per loader (every k-th, k derived from the
// pool size) plus the hostile constants; the cached corpus of earlier campaigns is pruned to the newest
// entries before a campaign starts (see pruneFuzzCache).
func addTransformSeeds(f *testing.F) {
	c, err := corpus.Load(vdrv.RepoDir(), vdrv.Root())
	if err != nil {
		f.Fatalf("INFRA: %v", err)
	}
	i := uint32(0)
	for li, l := range []string{"js", "jsx", "ts", "tsx", "css", "json"} {
		pool := c.Snippets[l]
		step := len(pool) / 60
		if step < 1 {
			step = 1
		}
		for k := 0; k < len(pool); k += step {
			s := pool[k]
			if len(s) > 2048 {
				continue
			}
			i++
			opt := i * 2654435761 &^ 7
			if i%3 != 0 {
				opt &= 0x00007ff8 // mostly only the common flags
			}
			ld := uint32(li)
			if l == "json" {
				ld = 6
			} else if l == "css" {
				ld = 4 + i%2
			}
			f.Add([]byte(s), opt|ld)
		}
	}
	for k, s := range hostileSeeds {
		f.Add([]byte(s), uint32(k)*40503<<3|uint32(k%7))
		f.Add([]byte(s), 1<<bSourcemap|uint32((k+3)%7))
	}
}

// pruneFuzzCache keeps the newest `keep` corpus entries of a target.
func pruneFuzzCache(cacheDir, target string, keep int) {
	files, _ := filepath.Glob(filepath.Join(cacheDir, target, "*"))
	if len(files) <= keep {
		return
	}
	type fi struct {
		p string
		t time.Time
	}
	var l []fi
	for _, p := range files {
		if st, err := os.Stat(p); err == nil {
			l = append(l, fi{p, st.ModTime()})
		}
	}
	sort.Slice(l, func(a, b int) bool { return l[a].t.After(l[b].t) })
	for _, e := range l[keep:] {
		os.Remove(e.p)
	}
}

// FuzzTransform: api.Transform on arbitrary bytes; optBits is the flag word of transformOptions.
func FuzzTransform(f *testing.F) {
	if role() != "fuzz" {
		f.Skip("run through ./check C16 --tier thorough (VERIF_C16_ROLE=fuzz)")
	}
	addTransformSeeds(f)
	f.Fuzz(func(t *testing.T, data []byte, optBits uint32) {
		if len(data) > maxInput {
			fzSkipped.Add(1)
			return
		}
		fuzzJudge(t, "fuzztransform", mkTCase(optBits, data, nil))
	})
}

// FuzzBuildConfig: api.Build of the fixed project of the `config` sub-check with fuzzed package.json
// (used for the root and for the dependency), tsconfig.json (root, and as the extended base) and one source file.
func FuzzBuildConfig(f *testing.F) {
	if role() != "fuzz" {
		f.Skip("run through ./check C16 --tier thorough (VERIF_C16_ROLE=fuzz)")
	}
	c, err := corpus.Load(vdrv.RepoDir(), vdrv.Root())
	if err != nil {
		f.Fatalf("INFRA: %v", err)
	}
	ts := append([]string{`{}`, `{"extends":"./tsconfig.json"}`, `{"extends":["./tsconfig.base.json","./missing"],"compilerOptions":{"paths":{"@alias/*":["./lib/*"]},"baseUrl":"."}}`, `{"compilerOptions":{"paths":{"*":[]},"jsx":1}}`}, c.TSConfig...)
	pj := append([]string{`{}`, `{"exports":[]}`, `{"exports":{".":[]},"imports":{"#int":null,"#int/*":"./lib/*.ts"}}`, `{"browser":{"./index.js":false},"main":[],"sideEffects":[1]}`, `{"exports":{"./*":{"import":["./lib/*.js",null]}},"type":"module"}`, `{"main":"./main","module":"./module.mjs","browser":"./browser.js"}`}, c.PkgJSON...)
	for i, p := range pj {
		if i < 6 || i%2 == 0 {
			f.Add([]byte(p), []byte(ts[i%len(ts)]), []byte("export {}"), uint32(i)*2654435761)
		}
	}
	for i, tcfg := range ts {
		if i < 4 || i%2 == 0 {
			f.Add([]byte(pj[i%len(pj)]), []byte(tcfg), []byte("import 'pkg/dir'"), uint32(i)*40503)
		}
	}
	f.Fuzz(func(t *testing.T, pkgjson, tsconfig, src []byte, optBits uint32) {
		if len(pkgjson)+len(tsconfig)+len(src) > maxInput {
			fzSkipped.Add(1)
			return
		}
		c := BCase{Files: mkTree(pkgjson, pkgjson, tsconfig, tsconfig, src), Entry: "entry.tsx", Opt: optBits}
		c.Preview = map[string]string{"package.json": preview(pkgjson), "tsconfig.json": preview(tsconfig), "src.ts": preview(src)}
		fuzzJudge(t, "fuzzconfig", c)
	})
}

// ----------------------------------------------------------------------------- campaign runner (worker of shard 0, thorough tier)

func altTag() string {
	repo, _ := filepath.Abs(vdrv.RepoDir())
	if repo == "/repo" {
		return ""
	}
	return fmt.Sprintf("alt-%08x", crc32.ChecksumIEEE([]byte(repo)))
}

var execsRe = regexp.MustCompile(`execs: (\d+) \((\d+)/sec\), new interesting: (\d+) \(total: (\d+)\)`)

type campaign struct {
	Target  string
	Budget  time.Duration
	Sub     string
	Execs   int64
	NewInt  int64
	Total   int64
	Rounds  int
	Elapsed time.Duration
}

func fuzzBudget() time.Duration {
	if v := os.Getenv("VERIF_C16_FUZZTIME_S"); v != "" {
		if n, err := strconv.Atoi(v); err == nil {
			return time.Duration(n) * time.Second
		}
	}
	return 450 * time.Second
}

func runFuzzCampaigns(t *testing.T) {
	H.Rule("fuzz", "Go native fuzzing (coverage-guided byte mutation, 16 workers, -fuzzminimizetime=0): FuzzTransform(data, optBits) seeded with every harvested snippet ≤2 KB under index-derived flag words plus hostile constants under every loader, and FuzzBuildConfig(pkgjson, tsconfig, src, optBits) seeded with the package.json/tsconfig.json documents of the bundler tests plus hand-made malformed ones; the oracle of `transform` runs inside the target. A failing input is stored by the target as a replay file; a suspected hang is confirmed 3× in fresh processes (20 s CPU), minimised by delta debugging and charged unless its minimal form is beyond the nesting bound. Evidence: executions, new interesting inputs and corpus size from the engine's log; the interesting inputs found are replayed through the in-process oracle and counted per class.")
	harness := os.Getenv("VERIF_HARNESS")
	if harness == "" {
		harness = filepath.Join(vdrv.Root(), "harness")
	}
	cacheDir := filepath.Join(vdrv.Root(), ".cache", "fuzz", "C16"+altTag())
	if err := os.MkdirAll(cacheDir, 0o755); err != nil {
		t.Fatalf("INFRA: %v", err)
	}
	budget := fuzzBudget()
	for _, c := range []*campaign{{Target: "FuzzTransform", Budget: budget, Sub: "fuzztransform"}, {Target: "FuzzBuildConfig", Budget: budget, Sub: "fuzzconfig"}} {
		violated := runCampaign(t, harness, cacheDir, c)
		H.Note("fuzz %s: %d executions in %.0f s (%d round(s)), %d new interesting inputs, corpus size %d (cache %s)", c.Target, c.Execs, c.Elapsed.Seconds(), c.Rounds, c.NewInt, c.Total, cacheDir)
		if violated {
			return
		}
		replayFuzzCorpus(t, cacheDir, c)
	}
}

// runCampaign runs `go test -fuzz` until the budget is used up; returns true when a violation was recorded.
func runCampaign(t *testing.T, harness, cacheDir string, c *campaign) bool {
	outDir, err := os.MkdirTemp("", "c16-fuzz-out-")
	if err != nil {
		t.Fatalf("INFRA: %v", err)
	}
	statsDir, _ := os.MkdirTemp("", "c16-fuzz-stats-")
	defer os.RemoveAll(outDir)
	defer os.RemoveAll(statsDir)
	pkgDir := filepath.Join(harness, "props", "c16")
	engineDir := filepath.Join(pkgDir, "testdata", "fuzz", c.Target)
	pruneFuzzCache(cacheDir, c.Target, 1200)
	deadline := time.Now().Add(c.Budget)
	start := time.Now()
	defer func() { c.Elapsed = time.Since(start) }()
	for time.Until(deadline) > 20*time.Second {
		c.Rounds++
		os.RemoveAll(engineDir) // a crasher left by the engine would fail the next baseline run
		args := []string{"test"}
		if tag := altTag(); tag != "" {
			args = append(args, "-modfile="+filepath.Join(vdrv.Root(), ".out", "alt", tag, "go.mod"))
		}
		args = append(args, "-tags", "verif", "-run", "^$", "-fuzz", "^"+c.Target+"$", "-fuzztime", fmt.Sprintf("%ds", int(time.Until(deadline).Seconds())),
			"-fuzzminimizetime", "0", "-parallel", "16", "./props/c16", "-test.fuzzcachedir="+cacheDir)
		cmd := exec.Command("go", args...)
		cmd.Dir = harness
		env := []string{}
		for _, e := range os.Environ() {
			if !strings.HasPrefix(e, "GOMAXPROCS=") && !strings.HasPrefix(e, "VERIF_C16_ROLE=") {
				env = append(env, e)
			}
		}
		cmd.Env = append(env, "GOMAXPROCS=2", "VERIF_C16_ROLE=fuzz", "VERIF_C16_FUZZ_OUT="+outDir, "VERIF_C16_FUZZ_STATS="+statsDir)
		pr, pw := io.Pipe()
		cmd.Stdout, cmd.Stderr = pw, pw
		var log bytes.Buffer
		doneScan := make(chan struct{})
		var lastExecs, lastNew, lastTotal int64
		go func() {
			sc := bufio.NewScanner(pr)
			sc.Buffer(make([]byte, 1<<20), 1<<20)
			for sc.Scan() {
				line := sc.Text()
				if log.Len() < 1<<20 {
					log.WriteString(line + "\n")
				}
				if m := execsRe.FindStringSubmatch(line); m != nil {
					lastExecs, _ = strconv.ParseInt(m[1], 10, 64)
					lastNew, _ = strconv.ParseInt(m[3], 10, 64)
					lastTotal, _ = strconv.ParseInt(m[4], 10, 64)
				}
			}
			close(doneScan)
		}()
		runErr := cmd.Run()
		pw.Close()
		<-doneScan
		c.Execs += lastExecs
		c.NewInt += lastNew
		if lastTotal > 0 {
			c.Total = lastTotal
		}
		fails, _ := filepath.Glob(filepath.Join(outDir, "*.json"))
		sort.Strings(fails)
		engineFiles, _ := filepath.Glob(filepath.Join(engineDir, "*"))
		if runErr == nil && len(fails) == 0 {
			break // budget used, nothing found
		}
		if len(fails) == 0 && len(engineFiles) == 0 {
			os.RemoveAll(engineDir)
			fmt.Println(clip(log.String(), 6000))
			t.Fatalf("INFRA: `go %s` failed without a failing input: %v", strings.Join(args, " "), runErr)
		}
		// failures stored by the target
		for _, f := range fails {
			r, err := vdrv.LoadReplay(f)
			os.Remove(f)
			if err != nil {
				continue
			}
			if triageFuzzFailure(t, r.Sub, r.Case, filepath.Base(f)) {
				os.RemoveAll(engineDir)
				return true
			}
		}
		// a worker that died: only the engine knows the input
		if len(fails) == 0 {
			for _, ef := range engineFiles {
				raw := engineFileToCase(c.Target, ef)
				if raw == nil {
					continue
				}
				if triageFuzzFailure(t, c.Sub, raw, "crash-"+filepath.Base(ef)) {
					os.RemoveAll(engineDir)
					return true
				}
			}
		}
		os.RemoveAll(engineDir)
	}
	os.RemoveAll(filepath.Join(pkgDir, "testdata", "fuzz"))
	os.Remove(filepath.Join(pkgDir, "testdata"))
	// counters of the workers
	var excluded, execs int64
	if files, _ := filepath.Glob(filepath.Join(statsDir, "*.json")); len(files) > 0 {
		for _, f := range files {
			var m map[string]int64
			if b, err := os.ReadFile(f); err == nil && json.Unmarshal(b, &m) == nil {
				excluded += m["excluded_known"]
				execs += m["execs"]
			}
		}
	}
	H.Note("fuzz %s: workers judged %d inputs; %d inputs in the class of known finding %s were skipped", c.Target, execs, excluded, knownTruncID)
	return false
}

// triageFuzzFailure re-establishes a failure reported by a fuzz worker in fresh processes and records a violation.
func triageFuzzFailure(t *testing.T, sub string, raw json.RawMessage, name string) bool {
	if strings.HasPrefix(name, "slow-") {
		sv := triageSlow(sub, raw)
		switch sv.Kind {
		case "unconfirmed":
			H.Note("fuzz: %s exceeded the in-process watchdog but finished in a fresh process (%s)", name, sv.Detail)
			return false
		case "deferred":
			return true
		case "extreme":
			saveObservation(sub, sv.Raw, sv.Detail)
			H.Note("fuzz: %s is slow beyond the nesting bound (%s): not charged", name, sv.Detail)
			return false
		}
		H.Note("fuzz: confirmed hang, replay %s", sv.Path)
		return true
	}
	fails := 0
	var last vdrv.Verdict
	for i := 0; i < 3; i++ {
		o := runChild(sub, raw, hangCPU, hangWall)
		switch o.Kind {
		case "verdict":
			last = verdictOf(sub, o.Res, nil, true)
			if !last.OK {
				fails++
			}
		case "crash":
			last = vdrv.Fail("the process dies while handling this input", "the call returns", o.Output)
			fails++
		case "hang":
			last = vdrv.Fail("the call does not terminate", "the call returns within seconds", "")
			fails++
		}
	}
	if fails < 3 {
		H.Note("fuzz: %s did not reproduce in fresh processes (%d/3)", name, fails)
		return false
	}
	recordViolation(sub, raw, last)
	return true
}

func recordViolation(sub string, raw []byte, v vdrv.Verdict) {
	var c interface{}
	json.Unmarshal(raw, &c)
	tb := &silentTB{}
	H.Report(tb, sub, string(raw), c, v)
	H.FlushFailure(sub)
	for _, m := range tb.msgs {
		fmt.Println(clip(m, 3000))
	}
}

// parseGoFuzzFile decodes the "go test fuzz v1" corpus encoding for the value kinds used here.
func parseGoFuzzFile(path string) ([]interface{}, bool) {
	b, err := os.ReadFile(path)
	if err != nil {
		return nil, false
	}
	lines := strings.Split(strings.TrimRight(string(b), "\n"), "\n")
	if len(lines) < 2 || !strings.HasPrefix(lines[0], "go test fuzz v1") {
		return nil, false
	}
	var vals []interface{}
	for _, l := range lines[1:] {
		l = strings.TrimSpace(l)
		switch {
		case strings.HasPrefix(l, "[]byte(") && strings.HasSuffix(l, ")"):
			s, err := strconv.Unquote(l[len("[]byte(") : len(l)-1])
			if err != nil {
				return nil, false
			}
			vals = append(vals, []byte(s))
		case strings.HasPrefix(l, "uint32(") && strings.HasSuffix(l, ")"):
			n, err := strconv.ParseUint(l[len("uint32("):len(l)-1], 0, 32)
			if err != nil {
				return nil, false
			}
			vals = append(vals, uint32(n))
		default:
			return nil, false
		}
	}
	return vals, true
}

func engineFileToCase(target, path string) json.RawMessage {
	vals, ok := parseGoFuzzFile(path)
	if !ok {
		return nil
	}
	switch target {
	case "FuzzTransform":
		if len(vals) == 2 {
			d, ok1 := vals[0].([]byte)
			o, ok2 := vals[1].(uint32)
			if ok1 && ok2 {
				b, _ := json.Marshal(mkTCase(o, d, nil))
				return b
			}
		}
	case "FuzzBuildConfig":
		if len(vals) == 4 {
			p, ok1 := vals[0].([]byte)
			ts, ok2 := vals[1].([]byte)
			s, ok3 := vals[2].([]byte)
			o, ok4 := vals[3].(uint32)
			if ok1 && ok2 && ok3 && ok4 {
				b, _ := json.Marshal(BCase{Files: mkTree(p, p, ts, ts, s), Entry: "entry.tsx", Opt: o})
				return b
			}
		}
	}
	return nil
}

// replayFuzzCorpus runs the interesting inputs the engine has accumulated through the in-process oracle
// (watchdog, journal), which both double-checks them and gives the evidence a class histogram.
func replayFuzzCorpus(t *testing.T, cacheDir string, c *campaign) {
	files, _ := filepath.Glob(filepath.Join(cacheDir, c.Target, "*"))
	if more, _ := filepath.Glob(filepath.Join(cacheDir, "*", c.Target, "*")); len(more) > 0 {
		files = append(files, more...)
	}
	sort.Strings(files)
	const limit = 20000
	if len(files) > limit {
		files = files[len(files)-limit:]
	}
	n := 0
	for _, f := range files {
		raw := engineFileToCase(c.Target, f)
		if raw == nil {
			continue
		}
		n++
		switch c.Target {
		case "FuzzTransform":
			var tc TCase
			json.Unmarshal(raw, &tc)
			if len(tc.Data) > maxInput {
				continue
			}
			H.Report(t, c.Sub, tKey(tc), tc, judge(c.Sub, tc, append(tClasses(tc), "fuzz-corpus"), len(tc.Data) > 0))
		case "FuzzBuildConfig":
			var bc BCase
			json.Unmarshal(raw, &bc)
			H.Report(t, c.Sub, bKey(bc), bc, judge(c.Sub, bc, []string{"fuzz-corpus"}, true))
		}
	}
	H.FlushFailure(c.Sub)
	H.Note("fuzz %s: %d interesting inputs from the engine's corpus re-judged in-process", c.Target, n)
}

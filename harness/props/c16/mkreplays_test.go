package c16

import (
	"encoding/json"
	"os"
	"path/filepath"
	"strings"
	"testing"

	"github.com/evanw/esbuild/verif/vdrv"
)

// TestMakeReplays (re)writes the hand-made regression replays under replays/C16 (VERIF_C16_MAKE_REPLAYS=1 only).
func TestMakeReplays(t *testing.T) {
	if os.Getenv("VERIF_C16_MAKE_REPLAYS") == "" {
		t.Skip("set VERIF_C16_MAKE_REPLAYS=1")
	}
	dir := filepath.Join(vdrv.Root(), "replays", "C16")
	os.MkdirAll(dir, 0o755)
	write := func(name, sub, note string, c interface{}) {
		b, _ := json.MarshalIndent(vdrv.Failure{Property: "C16", Sub: sub, Case: c, Note: note}, "", " ")
		if err := os.WriteFile(filepath.Join(dir, name+".json"), b, 0o644); err != nil {
			t.Fatal(err)
		}
	}
	sm := func(k int) uint32 { return uint32(k) << bSourcemap }
	write("trunc-utf8-sourcescontent", "transform", "finding #9: hangs in QuoteForJSON until helpers.DecodeWTF8Rune advances over a truncated sequence", mkTCase(sm(1), []byte("x=1//\xe0"), nil))
	write("trunc-utf8-css-local-name", "transform", "finding #9, second route: a local CSS name that ends in a truncated sequence is quoted for the `names` of the source map (found by the quick tier, seed 1)", mkTCase(5|sm(2)|1<<bNoSrcCont, []byte(".b\xc0 { color: blue }"), nil))
	write("static-block-in-object-literal", "transform", "an object literal with a `static {}` member is parsed as a class static block and the visitor panics (`panic: Unexpected expression of type <nil>`); found by the thorough tier (rapid `transform`, seed 1)", mkTCase(0, []byte("({ static {} })"), nil))
	write("css-identifier-at-eof", "transform", "css_lexer.RangeOfIdentifier never stops when the identifier it is asked about is the last thing in the file (here: the warning about the `composes` location); found by the thorough tier (rapid `transform`, seed 2), minimised by delta debugging", mkTCase(5, []byte(".f{composes:from u"), nil))
	write("decorator-export-default-not-a-class", "transform", "after `@x export default @y` the statement that follows is not a class: reported as `panic: Internal error`; found by native fuzzing (FuzzTransform, thorough tier, seed 2)", mkTCase(2, []byte("@x export default @y {}"), nil))
	write("hazard-trunc-utf8-no-sourcescontent", "transform", "the same input without sourcesContent returns", mkTCase(sm(1)|1<<bNoSrcCont, []byte("x=1//\xe0"), nil))
	write("hazard-invalid-utf8-middle", "transform", "invalid UTF-8 in the middle with sourcesContent returns", mkTCase(sm(1), []byte("x=1//\xe0\xfd\nlet y = '\xff\xc0\x80\xed\xa0\x80'"), nil))
	write("hazard-nul-bytes", "transform", "", mkTCase(2|1<<bMinSyntax, []byte("let \x00x = `\x00${\x00}`\x00"), nil))
	write("hazard-deep-parens-5000", "transform", "", mkTCase(1<<bMinSyntax|2<<bTarget, []byte(strings.Repeat("(", 5000)+"1"+strings.Repeat(")", 5000)), nil))
	write("hazard-deep-css-is-1500", "transform", "", mkTCase(4|1<<bMinSyntax, []byte(strings.Repeat(":is(", 1500)+"a"+strings.Repeat(")", 1500)+"{}"), nil))
	write("hazard-10k-digit-number", "transform", "", mkTCase(1<<bMinSyntax|1<<bMinWS, []byte("x=1"+strings.Repeat("0", 10000)+"+0."+strings.Repeat("0", 10000)+"1+0x"+strings.Repeat("f", 10000)+"n"), nil))
	write("hazard-huge-escape", "transform", "", mkTCase(0, []byte("x=\"\\u{"+strings.Repeat("0", 10000)+"41}\"+/\\u{"+strings.Repeat("0", 5000)+"41}/u"), nil))
	write("hazard-json-deep", "transform", "", mkTCase(6, []byte(strings.Repeat("[", 3000)+strings.Repeat("]", 3000)), nil))
	write("hazard-srcmap-huge-vlq", "srcmap", "", SCase{Loader: "js", Src: []byte("let a = 1\nlet b = 2"), Map: []byte(`{"version":3,"sources":["a.js",null,1],"sourcesContent":[null,3],"names":[1],"mappings":"AAAA,`+strings.Repeat("g", 3000)+`A;+/////D,AAAAg;;;AADDDDDDD"}`), Enc: "base64", Build: true, Opt: sm(2)})
	files := map[string][]byte{"entry.js": []byte("import 'pkg/sub'"), "node_modules/pkg/package.json": []byte(`{"browser":{"./sub":"pkg/sub"}}`), "node_modules/pkg/sub.js": []byte("module.exports = 1")}
	write("browser-map-self-reference", "config", "a `browser` map that remaps ./sub to pkg/sub inside pkg: the resolver recurses until the stack overflows (process crash); found by the config sub-check, seed 2", BCase{Entry: "entry.js", Opt: 0, Files: files})
	files2 := map[string][]byte{"entry.js": []byte("import 'pkg'"), "node_modules/pkg/package.json": []byte(`{"sideEffects":["\ud800*.css"]}`), "node_modules/pkg/index.js": []byte("module.exports = 1")}
	write("sideeffects-lone-surrogate-pattern", "config", "a sideEffects glob with a lone surrogate escape makes regexp.MustCompile panic (recovered as a `panic:` diagnostic); found by the config sub-check, seed 4", BCase{Entry: "entry.js", Opt: 0, Files: files2})
	files3 := map[string][]byte{"entry.ts": []byte("import 'aba'"), "tsconfig.json": []byte(`{"compilerOptions":{"paths":{"ab*ba":["./lib/*"]}}}`), "lib/b.ts": []byte("export default 1")}
	write("tsconfig-paths-overlap", "config", "a tsconfig `paths` key whose prefix and suffix overlap in the import path (\"ab*ba\" for \"aba\") made matchTSConfigPaths slice [2:1] (recovered as a `panic:` diagnostic); pointed out by a seeding sub-agent, then found by the config sub-check (quick tier, every shard) once pattern keys were cut from the specifiers the entry imports", BCase{Entry: "entry.ts", Opt: 0, Files: files3})
	write("hazard-srcmap-names-nonstring", "srcmap", "non-string entries of `names` with a 5-field mapping that points behind them", SCase{Loader: "js", Src: []byte("foo(bar);\n"), Map: []byte(`{"version":3,"sources":["orig.js"],"sourcesContent":["callee(arg);"],"names":[null,1,{},"orig"],"mappings":"AAAAG"}`), Enc: "base64", Build: false, Opt: sm(2)})
	write("hazard-pkgjson-exports-empty-array", "config", "", BCase{Entry: "entry.tsx", Opt: 1,
		Files: mkTree([]byte(`{"imports":{"#int":[],"#int/*":[]}}`), []byte(`{"exports":[],"browser":[],"main":[],"sideEffects":[[]]}`), []byte(`{"extends":"./tsconfig.base.json"}`), []byte(`{"extends":["./tsconfig.json","./missing"],"compilerOptions":{"paths":{"@alias/*":[]}}}`), []byte("export {}"))})
}

// C19 — the metafile describes exactly what was read and what was emitted. See DESIGN.md section 5 / C19.
package c19

import (
	"bytes"
	"encoding/base64"
	"encoding/json"
	"fmt"
	"os"
	"path"
	"path/filepath"
	"regexp"
	"runtime/debug"
	"sort"
	"strings"
	"sync"
	"testing"

	"github.com/evanw/esbuild/pkg/api"
	"github.com/evanw/esbuild/verif/projgen"
	"github.com/evanw/esbuild/verif/vdrv"
	"pgregory.net/rapid"
)

var H *vdrv.H

// Lengthen is the metamorphic edit: K ASCII bytes are inserted right after the first occurrence of
// Anchor (which lies inside a string literal) in file Path.
type Lengthen struct {
	Path   string `json:"path"`
	Anchor string `json:"anchor"`
	K      int    `json:"k"`
}

type Case struct {
	Project  projgen.Project `json:"project"`
	Lengthen *Lengthen       `json:"lengthen,omitempty"`
}

type mfImport struct {
	Path     string `json:"path"`
	Kind     string `json:"kind"`
	Original string `json:"original"`
	External bool   `json:"external"`
}
type mfInput struct {
	Bytes   int        `json:"bytes"`
	Imports []mfImport `json:"imports"`
	Format  string     `json:"format"`
}
type mfOutIn struct {
	BytesInOutput int `json:"bytesInOutput"`
}
type mfOutput struct {
	Bytes      int                `json:"bytes"`
	Inputs     map[string]mfOutIn `json:"inputs"`
	Imports    []mfImport         `json:"imports"`
	Exports    []string           `json:"exports"`
	EntryPoint string             `json:"entryPoint"`
	CSSBundle  string             `json:"cssBundle"`
}
type metafile struct {
	Inputs  map[string]mfInput  `json:"inputs"`
	Outputs map[string]mfOutput `json:"outputs"`
}

type resolveObs struct {
	importer string // root-relative, or "<stdin>", or "" for entry points
	spec     string
	kind     string
	path     string // root-relative when inside the project, else as returned
	external bool
	failed   bool
}

type observer struct {
	mu       sync.Mutex
	loaded   map[string]bool
	resolves []resolveObs
}

var sentinel = &struct{ x int }{1}

func kindString(k api.ResolveKind) string {
	switch k {
	case api.ResolveEntryPoint:
		return "entry-point"
	case api.ResolveJSImportStatement:
		return "import-statement"
	case api.ResolveJSRequireCall:
		return "require-call"
	case api.ResolveJSDynamicImport:
		return "dynamic-import"
	case api.ResolveJSRequireResolve:
		return "require-resolve"
	case api.ResolveCSSImportRule:
		return "import-rule"
	case api.ResolveCSSComposesFrom:
		return "composes-from"
	case api.ResolveCSSURLToken:
		return "url-token"
	}
	return "?"
}

func relTo(root, p string) string {
	if r, err := filepath.Rel(root, p); err == nil && !strings.HasPrefix(r, "..") {
		return filepath.ToSlash(r)
	}
	return p
}

// observePlugin records every load and every resolution without influencing either (empty results).
func observePlugin(root string, obs *observer) api.Plugin {
	return api.Plugin{Name: "observe", Setup: func(b api.PluginBuild) {
		b.OnResolve(api.OnResolveOptions{Filter: ".*"}, func(a api.OnResolveArgs) (api.OnResolveResult, error) {
			if a.PluginData == sentinel {
				return api.OnResolveResult{}, nil
			}
			r := b.Resolve(a.Path, api.ResolveOptions{Importer: a.Importer, Namespace: a.Namespace, ResolveDir: a.ResolveDir, Kind: a.Kind, PluginData: sentinel, With: a.With})
			o := resolveObs{spec: a.Path, kind: kindString(a.Kind), external: r.External, failed: len(r.Errors) > 0}
			if a.Importer != "" {
				o.importer = relTo(root, a.Importer)
			}
			if r.External {
				o.path = r.Path
			} else {
				o.path = relTo(root, r.Path)
			}
			obs.mu.Lock()
			obs.resolves = append(obs.resolves, o)
			obs.mu.Unlock()
			return api.OnResolveResult{}, nil
		})
		b.OnLoad(api.OnLoadOptions{Filter: ".*"}, func(a api.OnLoadArgs) (api.OnLoadResult, error) {
			obs.mu.Lock()
			obs.loaded[relTo(root, a.Path)] = true
			obs.mu.Unlock()
			return api.OnLoadResult{}, nil
		})
	}}
}

type built struct {
	outs []projgen.Out
	byP  map[string][]byte
	mf   metafile
	raw  string
}

func buildMeta(p *projgen.Project, root string, plugins ...api.Plugin) (*built, string) {
	q := p.Clone()
	q.Opts.Metafile = true
	r := api.Build(q.BuildOptions(root, plugins...))
	if len(r.Errors) > 0 {
		return nil, "build-refused"
	}
	outs, err := projgen.RelOutputs(root, r)
	if err != nil {
		return nil, "outputs-outside-root"
	}
	b := &built{outs: outs, byP: map[string][]byte{}, raw: r.Metafile}
	for _, o := range outs {
		b.byP[o.Path] = o.Contents
	}
	dec := json.NewDecoder(strings.NewReader(r.Metafile))
	if err := dec.Decode(&b.mf); err != nil {
		return b, "metafile-json:" + err.Error()
	}
	return b, ""
}

var hashRe = regexp.MustCompile(`[A-Z2-7]{8}`)

func stripInlineMap(b []byte) []byte {
	const tag = "# sourceMappingURL=data:application/json;base64,"
	for {
		i := bytes.Index(b, []byte(tag))
		if i < 0 {
			return b
		}
		k := i + len(tag)
		for k < len(b) && b[k] != '\n' && b[k] != ' ' && b[k] != '*' {
			k++
		}
		b = append(append([]byte(nil), b[:i]...), b[k:]...)
	}
}

func isExternalSpec(p *projgen.Project, spec string) bool {
	if strings.HasPrefix(spec, "https://ext.example/") {
		return true
	}
	for _, e := range p.Opts.External {
		if strings.HasSuffix(e, "*") && strings.HasPrefix(spec, strings.TrimSuffix(e, "*")) {
			return true
		}
	}
	return false
}

func resolveRef(p *projgen.Project, from, spec string) (string, bool) {
	if pp := p.Opts.PublicPath; pp != "" {
		prefix := pp
		if !strings.HasSuffix(prefix, "/") {
			prefix += "/"
		}
		if !strings.HasPrefix(spec, prefix) {
			return "", false
		}
		return path.Join(p.Opts.Outdir, spec[len(prefix):]), true
	}
	if strings.HasPrefix(spec, "./") || strings.HasPrefix(spec, "../") {
		return path.Join(path.Dir(from), spec), true
	}
	return "", false
}

func impKey(pth, kind string, ext bool) string { return fmt.Sprintf("%s|%s|ext=%v", kind, pth, ext) }

func sortedCopy(s []string) []string {
	c := append([]string(nil), s...)
	sort.Strings(c)
	return c
}

func fail(detail string, exp, obs interface{}) *vdrv.Verdict {
	v := vdrv.Fail(detail, fmt.Sprint(exp), fmt.Sprint(obs))
	return &v
}

type section struct {
	input string
	size  int
	last  bool
}

// pathSections splits an unminified bundle into the per-input sections delimited by "// path" (JS) or
// "/* path */" (CSS) comment lines. Only inputs known to the metafile count as delimiters.
func pathSections(body []byte, css bool, known map[string]mfInput) []section {
	lines := bytes.SplitAfter(body, []byte("\n"))
	type mark struct {
		input      string
		start, end int // offsets of the comment line
	}
	var marks []mark
	off := 0
	for _, l := range lines {
		t := strings.TrimSuffix(string(l), "\n")
		var name string
		if css && len(t) >= 7 && strings.HasPrefix(t, "/* ") && strings.HasSuffix(t, " */") {
			name = t[3 : len(t)-3]
		} else if !css && strings.HasPrefix(t, "// ") {
			name = t[3:]
		}
		if name != "" {
			if _, ok := known[name]; ok {
				marks = append(marks, mark{name, off, off + len(l)})
			}
		}
		off += len(l)
	}
	var secs []section
	for i, m := range marks {
		if i+1 < len(marks) {
			// the next comment is preceded by one blank line
			secs = append(secs, section{input: m.input, size: marks[i+1].start - 1 - m.end})
		} else {
			secs = append(secs, section{input: m.input, size: len(body) - m.end, last: true})
		}
	}
	return secs
}

// staticCSSReach returns the CSS files that an entry reaches through static JS imports (not passing through
// sideEffects:false files) and CSS @import.
func staticCSSReach(p *projgen.Project, entry string, inputImports map[string][]projgen.ImportRec) map[string]bool {
	seen := map[string]bool{}
	css := map[string]bool{}
	var walk func(f string)
	walk = func(f string) {
		if seen[f] {
			return
		}
		seen[f] = true
		i := p.FileIndex(f)
		if i < 0 {
			return
		}
		if p.Files[i].Kind == projgen.KCSS {
			css[f] = true
		} else if p.Files[i].Kind != projgen.KJS || strings.HasPrefix(f, "src/pkg/") {
			return
		}
		for _, im := range inputImports[f] {
			if im.Kind != "import-statement" && im.Kind != "import-rule" {
				continue
			}
			if strings.HasPrefix(im.Spec, "./") || strings.HasPrefix(im.Spec, "../") {
				t := path.Join(path.Dir(f), im.Spec)
				if j := p.FileIndex(t); j >= 0 && (p.Files[j].Kind == projgen.KCSS || (p.Files[j].Kind == projgen.KJS && p.Files[i].Kind == projgen.KJS)) {
					walk(t)
				}
			}
		}
	}
	walk(entry)
	return css
}

// checkBuild runs every non-metamorphic oracle. It returns a failing verdict, or nil plus class labels.
func checkBuild(p *projgen.Project, root string, b *built, obs *observer) (*vdrv.Verdict, []string, *vdrv.Verdict) {
	var cls []string
	var knownV *vdrv.Verdict
	mf := &b.mf
	o := p.Opts

	// A. outputs keys == emitted paths; B. bytes == len
	var emitted, listed []string
	for _, f := range b.outs {
		emitted = append(emitted, f.Path)
	}
	for k := range mf.Outputs {
		listed = append(listed, k)
	}
	sort.Strings(emitted)
	sort.Strings(listed)
	if strings.Join(emitted, "\n") != strings.Join(listed, "\n") {
		return fail("metafile outputs differ from the emitted files", strings.Join(emitted, "\n"), strings.Join(listed, "\n")), nil, nil
	}
	for _, f := range b.outs {
		if mf.Outputs[f.Path].Bytes != len(f.Contents) {
			return fail("outputs["+f.Path+"].bytes is not the length of the emitted file", len(f.Contents), mf.Outputs[f.Path].Bytes), nil, nil
		}
	}

	// G. inputs keys == files read; bytes == size on disk
	var want, got []string
	for k := range obs.loaded {
		if _, listed := mf.Inputs[k]; !listed && k == "node_modules/dual/module.esm.js" && obs.loaded["node_modules/dual/main.cjs.js"] {
			// dual-package hazard: the "module" file was read, then abandoned in favour of the "main" file that
			// a require() elsewhere needs anyway; it was not read *into the bundle* and is rightly not an input
			continue
		}
		want = append(want, k)
	}
	if p.Stdin != nil {
		want = append(want, p.Stdin.Sourcefile)
	}
	for k := range mf.Inputs {
		got = append(got, k)
	}
	sort.Strings(want)
	sort.Strings(got)
	if strings.Join(want, "\n") != strings.Join(got, "\n") {
		return fail("metafile inputs differ from the files the build loaded (observed by a pass-through OnLoad plugin)", strings.Join(want, "\n"), strings.Join(got, "\n")), nil, nil
	}
	for k, in := range mf.Inputs {
		size := -1
		if p.Stdin != nil && k == p.Stdin.Sourcefile {
			size = len(p.Stdin.Contents)
		} else if st, err := os.Stat(filepath.Join(root, filepath.FromSlash(k))); err == nil {
			size = int(st.Size())
		} else {
			v := vdrv.Skip("stat-failed")
			return &v, nil, nil
		}
		if in.Bytes != size {
			return fail("inputs["+k+"].bytes is not the size of the file", size, in.Bytes), nil, nil
		}
	}

	// inputs[*].imports == what the text says (own scanner) and what the resolver answered (observed)
	inputImports := map[string][]projgen.ImportRec{}
	dualRedirect := false
	_ = dualRedirect
	injectAbs := ""
	if len(o.Inject) > 0 {
		injectAbs = filepath.Join(root, filepath.FromSlash(o.Inject[0]))
	}
	for k, in := range mf.Inputs {
		var text []byte
		kind := ""
		if p.Stdin != nil && k == p.Stdin.Sourcefile {
			text, kind = []byte(p.Stdin.Contents), projgen.KJS
		} else if i := p.FileIndex(k); i >= 0 {
			text, kind = p.Files[i].Bytes(), p.Files[i].Kind
		}
		var recs []projgen.ImportRec
		switch kind {
		case projgen.KJS:
			info, err := projgen.ScanJS(text)
			if err != nil {
				v := vdrv.Skip("jsscan-failed-on-input")
				return &v, nil, nil
			}
			recs = info.Imports
		case projgen.KCSS:
			info, err := projgen.ScanCSS(text)
			if err != nil {
				v := vdrv.Skip("cssscan-failed-on-input")
				return &v, nil, nil
			}
			recs = info.Imports
		}
		inputImports[k] = recs
		wantSet := map[string]bool{}
		for _, r := range recs {
			if strings.HasPrefix(r.Spec, "data:") {
				continue
			}
			wantSet[r.Kind+"|"+r.Spec] = true
		}
		gotSet := map[string]bool{}
		for _, im := range in.Imports {
			spec := im.Original
			if im.External && spec == "" {
				spec = im.Path
			}
			if injectAbs != "" && im.Path == injectAbs && im.External {
				// known finding C19-inject-import-abs-external
				if knownV == nil {
					knownV = fail("inputs["+k+"].imports lists the injected file with an absolute path and \"external\": true", "path "+o.Inject[0]+" (relative, not external) or no entry", fmt.Sprintf("%+v", im))
					knownV.Known = "C19-inject-import-abs-external"
				}
				continue
			}
			if injectAbs != "" && im.Path == o.Inject[0] && !im.External && im.Original == "" {
				continue // the implicit import of the injected file, listed as an internal import
			}
			gotSet[im.Kind+"|"+spec] = true
			if filepath.IsAbs(im.Path) && !im.External {
				return fail("inputs["+k+"].imports contains an absolute path", "paths relative to the working directory", im.Path), nil, nil
			}
			// compare with the observed resolution
			found, matched := false, false
			for _, ro := range obs.resolves {
				if ro.importer == k && ro.spec == spec && ro.kind == im.Kind {
					found = true
					if ro.external == im.External && (ro.path == im.Path || (ro.external && ro.path == spec)) {
						matched = true
					}
				}
			}
			if found && !matched && strings.HasPrefix(im.Path, "node_modules/dual/") {
				// dual-package hazard: when a package with "module" and "main" is both imported and required,
				// esbuild deliberately redirects the ESM import to the "main" file; PluginBuild.Resolve reports
				// the "module" file for the same query. Either answer is a file of that package; which one the
				// bundle really uses is settled by the next check (the path must be an input of the build).
				matched = true
				dualRedirect = true
			}
			if !im.External && !strings.HasPrefix(im.Path, "(disabled):") {
				if _, ok := mf.Inputs[im.Path]; !ok {
					return fail(fmt.Sprintf("inputs[%s].imports says that %q resolves to %s, which is not an input of the build", k, spec, im.Path), "a key of metafile.inputs", im.Path), nil, nil
				}
			}
			if found && !matched {
				return fail(fmt.Sprintf("inputs[%s].imports entry %+v disagrees with what PluginBuild.Resolve returned for the same importer/specifier/kind", k, im), "the observed resolution", fmt.Sprintf("%+v", obsFor(obs, k, spec))), nil, nil
			}
			if !found {
				return fail(fmt.Sprintf("inputs[%s].imports entry %+v was never resolved during the build (no OnResolve event for it)", k, im), "an observed resolution", "none"), nil, nil
			}
		}
		for w := range wantSet {
			if !gotSet[w] {
				return fail("inputs["+k+"].imports misses an import that is in the file's text", w, keys(gotSet)), nil, nil
			}
		}
		for g := range gotSet {
			if !wantSet[g] {
				return fail("inputs["+k+"].imports lists an import that is not in the file's text", keys(wantSet), g), nil, nil
			}
		}
	}

	// Lazy wrappers (__esm/__commonJS closures around required or, without splitting, dynamically imported
	// files and around whatever they import) are generated code attributed to an input that may carry none of
	// its markers. "non-zero ⇒ marker present" is therefore asserted only for builds without such edges.
	strict := true
	for k, recs := range inputImports {
		for _, r := range recs {
			internal := strings.HasPrefix(r.Spec, "./") || strings.HasPrefix(r.Spec, "../") || r.Spec == "dual"
			if internal && (r.Kind == "require-call" || (r.Kind == "dynamic-import" && !o.Splitting)) {
				strict = false
			}
		}
		_ = k
	}
	if strict {
		cls = append(cls, "strict-attribution")
	} else {
		cls = append(cls, "lazy-wrappers")
	}

	// per-output checks
	entrySeen := map[string]string{}
	nSections, nImports, nExports := 0, 0, 0
	for _, f := range b.outs {
		mo := mf.Outputs[f.Path]
		isJS, isCSS := strings.HasSuffix(f.Path, ".js"), strings.HasSuffix(f.Path, ".css")
		body := stripInlineMap(f.Contents)
		sum := 0
		for in, x := range mo.Inputs {
			if _, ok := mf.Inputs[in]; !ok {
				return fail("outputs["+f.Path+"].inputs names "+in+", which is not in metafile.inputs", "a listed input", in), nil, nil
			}
			if x.BytesInOutput < 0 {
				return fail("negative bytesInOutput", ">= 0", x.BytesInOutput), nil, nil
			}
			sum += x.BytesInOutput
		}
		if sum > mo.Bytes {
			return fail("sum of bytesInOutput exceeds the size of "+f.Path, fmt.Sprintf("<= %d", mo.Bytes), sum), nil, nil
		}
		if !isJS && !isCSS {
			if len(mo.Imports) != 0 || len(mo.Exports) != 0 || mo.EntryPoint != "" {
				return fail("a non-code output has imports/exports/entryPoint: "+f.Path, "none", fmt.Sprintf("%+v", mo)), nil, nil
			}
			if !strings.HasSuffix(f.Path, ".map") && !strings.HasSuffix(f.Path, ".LEGAL.txt") {
				// an asset: exactly one input, contributing every byte
				if len(mo.Inputs) != 1 || sum != len(f.Contents) {
					return fail("asset output "+f.Path+" is not attributed entirely to one input", len(f.Contents), fmt.Sprintf("%+v", mo.Inputs)), nil, nil
				}
			}
			continue
		}

		// C. imports
		wantImp := map[string]int{}
		var requireLike []string
		if isJS {
			info, err := projgen.ScanJS(f.Contents)
			if err != nil {
				v := vdrv.Skip("jsscan-failed")
				return &v, nil, nil
			}
			for _, im := range info.Imports {
				if isExternalSpec(p, im.Spec) {
					wantImp[impKey(im.Spec, im.Kind, true)]++
					continue
				}
				t, ok := resolveRef(p, f.Path, im.Spec)
				if !ok {
					return fail("unexpected import specifier in "+f.Path, "relative/public-path/external", im.Spec), nil, nil
				}
				wantImp[impKey(t, im.Kind, false)]++
			}
			fileLoader := map[string]bool{}
			for _, s := range info.Strings {
				if strings.HasSuffix(s, ".png") && p.FileIndex(s) < 0 {
					if t, ok := resolveRef(p, f.Path, s); ok {
						if _, emitted := b.byP[t]; emitted {
							fileLoader[t] = true
						}
					}
				}
			}
			gotFL := map[string]bool{}
			for _, im := range mo.Imports {
				if im.Kind == "file-loader" {
					gotFL[im.Path] = true
				}
			}
			if strings.Join(keys(fileLoader), " ") != strings.Join(keys(gotFL), " ") {
				return fail("file-loader imports of "+f.Path+" differ from the asset paths written into the file", keys(fileLoader), keys(gotFL)), nil, nil
			}
			requireLike = info.RequireLike
			// D. exports
			if o.Format == "esm" {
				if info.StarExports == 0 {
					we, ge := sortedCopy(info.Exports), sortedCopy(mo.Exports)
					if strings.Join(we, ",") != strings.Join(ge, ",") {
						return fail("exports of "+f.Path+" differ from the export names in the file", we, ge), nil, nil
					}
					nExports += len(we)
				} else {
					// `export * from "external"`: the names in the text must at least all be listed
					set := map[string]bool{}
					for _, e := range mo.Exports {
						set[e] = true
					}
					for _, e := range info.Exports {
						if !set[e] {
							return fail("export "+e+" of "+f.Path+" is missing from the metafile", e, mo.Exports), nil, nil
						}
					}
				}
			}
		} else {
			info, err := projgen.ScanCSS(f.Contents)
			if err != nil {
				v := vdrv.Skip("cssscan-failed")
				return &v, nil, nil
			}
			for _, im := range info.Imports {
				switch {
				case strings.HasPrefix(im.Spec, "data:"):
					wantImp[impKey("data:…", im.Kind, false)]++ // payloads are compared by count only (escaping differs between CSS and JSON)
				case isExternalSpec(p, im.Spec):
					wantImp[impKey(im.Spec, im.Kind, true)]++
				default:
					t, ok := resolveRef(p, f.Path, im.Spec)
					if !ok {
						return fail("unexpected url()/@import in "+f.Path, "relative/public-path/external/data", im.Spec), nil, nil
					}
					wantImp[impKey(t, im.Kind, false)]++
				}
			}
			if len(mo.Exports) != 0 {
				return fail("a CSS output lists exports", "none", mo.Exports), nil, nil
			}
		}
		gotImp := map[string]int{}
		for _, im := range mo.Imports {
			if im.Kind == "file-loader" {
				continue
			}
			if im.Kind == "require-call" && im.External {
				if wantImp[impKey(im.Path, im.Kind, true)] == 0 {
					// minified output: __require has been renamed; accept a call f("path") of a plain identifier
					ok := false
					for _, r := range requireLike {
						if r == im.Path {
							ok = true
						}
					}
					if !ok {
						return fail("require-call import of "+f.Path+" has no call with that string literal in the file", im.Path, requireLike), nil, nil
					}
					continue
				}
			}
			if strings.HasPrefix(im.Path, "data:") && !im.External {
				gotImp[impKey("data:…", im.Kind, false)]++
				continue
			}
			gotImp[impKey(im.Path, im.Kind, im.External)]++
		}
		for k, n := range wantImp {
			if gotImp[k] != n {
				return fail(fmt.Sprintf("imports of %s: the file contains %d × %s, the metafile lists %d", f.Path, n, k, gotImp[k]), fmtCounts(wantImp), fmtCounts(gotImp)), nil, nil
			}
		}
		for k, n := range gotImp {
			if wantImp[k] != n {
				return fail(fmt.Sprintf("imports of %s: the metafile lists %d × %s, the file contains %d", f.Path, n, k, wantImp[k]), fmtCounts(wantImp), fmtCounts(gotImp)), nil, nil
			}
		}
		nImports += len(mo.Imports)

		// E/F. entryPoint and cssBundle
		if mo.EntryPoint != "" {
			if _, ok := mf.Inputs[mo.EntryPoint]; !ok {
				return fail("entryPoint of "+f.Path+" is not an input", "an input", mo.EntryPoint), nil, nil
			}
			if prev, dup := entrySeen[mo.EntryPoint]; dup {
				return fail("two outputs claim the entry point "+mo.EntryPoint, prev, f.Path), nil, nil
			}
			entrySeen[mo.EntryPoint] = f.Path
		}
		if mo.CSSBundle != "" {
			cssBody, ok := b.byP[mo.CSSBundle]
			if !ok || !strings.HasSuffix(mo.CSSBundle, ".css") {
				return fail("cssBundle of "+f.Path+" is not an emitted CSS file", "an emitted .css", mo.CSSBundle), nil, nil
			}
			if mo.EntryPoint == "" {
				return fail("cssBundle on an output without entryPoint: "+f.Path, "entryPoint", "none"), nil, nil
			}
			for cf := range staticCSSReach(p, mo.EntryPoint, inputImports) {
				i := p.FileIndex(cf)
				if !bytes.Contains(cssBody, []byte(p.Files[i].Mark+".shared")) {
					return fail(fmt.Sprintf("cssBundle %s of entry %s lacks the rules of %s, which the entry imports statically", mo.CSSBundle, mo.EntryPoint, cf), p.Files[i].Mark+".shared", "absent"), nil, nil
				}
			}
		}

		// H. attribution: markers ⇔ non-zero entries
		for i := range p.Files {
			fl := &p.Files[i]
			if fl.Mark == "" {
				continue
			}
			present := bytes.Contains(body, []byte(fl.Mark+"."))
			n := mo.Inputs[fl.Path].BytesInOutput
			if present && n == 0 && !(isCSS && fl.Kind == projgen.KDataURL) {
				// (a data: URL inlined into a CSS rule is counted with the CSS file that contains the url() token)
				return fail(fmt.Sprintf("%s contains the marker %s. of input %s but bytesInOutput for it is 0/absent", f.Path, fl.Mark, fl.Path), "> 0", n), nil, nil
			}
			if n > 0 && !present && strict {
				switch {
				case fl.Kind == projgen.KFile || fl.Kind == projgen.KCopy || fl.Kind == projgen.KDataURL:
					// the JS/CSS side of an asset is a path or an encoded payload, not the marker
				case fl.Kind == projgen.KCSS && isJS:
					// the JS stub of a CSS file imported from JS
				default:
					return fail(fmt.Sprintf("bytesInOutput[%s] in %s is %d but nothing of that input (no %s. marker) is in the file", fl.Path, f.Path, n, fl.Mark), "marker present", "absent"), nil, nil
				}
			}
			if fl.PureUnused && (n > 0 || present) {
				return fail(fmt.Sprintf("input %s is an unused sideEffects:false module but contributes to %s", fl.Path, f.Path), 0, n), nil, nil
			}
		}
		if p.Stdin != nil {
			present := bytes.Contains(body, []byte("MARK_stdin."))
			n := mo.Inputs[p.Stdin.Sourcefile].BytesInOutput
			if present != (n > 0) {
				return fail("attribution of <stdin> in "+f.Path+" disagrees with its marker", present, n), nil, nil
			}
		}

		// exact sections of unminified bundles
		if o.Bundle && !o.MinifyWS && o.Format == "esm" {
			secs := pathSections(body, isCSS, mf.Inputs)
			interior := map[string]int{}
			lastOf := ""
			lastSize := 0
			for _, s := range secs {
				if s.last {
					lastOf, lastSize = s.input, s.size
				} else {
					interior[s.input] += s.size
				}
			}
			for in, x := range mo.Inputs {
				if in == lastOf {
					if x.BytesInOutput < interior[in] || x.BytesInOutput > interior[in]+lastSize {
						return fail(fmt.Sprintf("bytesInOutput[%s] in %s is outside the range given by its sections", in, f.Path), fmt.Sprintf("%d..%d", interior[in], interior[in]+lastSize), x.BytesInOutput), nil, nil
					}
					continue
				}
				if x.BytesInOutput != interior[in] {
					return fail(fmt.Sprintf("bytesInOutput[%s] in %s differs from the text between its path comments", in, f.Path), interior[in], x.BytesInOutput), nil, nil
				}
				if x.BytesInOutput > 0 {
					nSections++
				}
			}
			for in, n := range interior {
				if _, ok := mo.Inputs[in]; !ok && n > 0 {
					return fail(fmt.Sprintf("%s has a section for %s that the metafile does not attribute", f.Path, in), n, "absent"), nil, nil
				}
			}
		}
	}
	for _, e := range p.Entries {
		out, ok := entrySeen[e]
		if !ok {
			return fail("no output has entryPoint "+e, e, keys2(entrySeen)), nil, nil
		}
		stem := strings.TrimSuffix(path.Base(e), path.Ext(e))
		if !strings.Contains(path.Base(out), stem) && !strings.Contains(out, "/"+stem) {
			return fail("the output for entry "+e+" is not named after it", stem, out), nil, nil
		}
	}
	if p.Stdin != nil {
		if _, ok := entrySeen[p.Stdin.Sourcefile]; !ok {
			return fail("no output has entryPoint "+p.Stdin.Sourcefile+" (stdin)", p.Stdin.Sourcefile, keys2(entrySeen)), nil, nil
		}
	}
	if nSections > 0 {
		cls = append(cls, "exact-sections")
	}
	if nImports > 0 {
		cls = append(cls, "output-imports")
	}
	if nExports > 0 {
		cls = append(cls, "output-exports")
	}
	return nil, cls, knownV
}

func obsFor(obs *observer, importer, spec string) []resolveObs {
	var r []resolveObs
	for _, o := range obs.resolves {
		if o.importer == importer && o.spec == spec {
			r = append(r, o)
		}
	}
	return r
}

func keys(m map[string]bool) []string {
	var r []string
	for k := range m {
		r = append(r, k)
	}
	sort.Strings(r)
	return r
}
func keys2(m map[string]string) []string {
	var r []string
	for k := range m {
		r = append(r, k)
	}
	sort.Strings(r)
	return r
}
func fmtCounts(m map[string]int) string {
	var r []string
	for k, n := range m {
		r = append(r, fmt.Sprintf("%d×%s", n, k))
	}
	sort.Strings(r)
	return strings.Join(r, "\n")
}

func applyLengthen(p projgen.Project, l *Lengthen) *projgen.Project {
	q := p.Clone()
	i := q.FileIndex(l.Path)
	if i < 0 || l.K <= 0 {
		return nil
	}
	b := q.Files[i].Bytes()
	k := bytes.Index(b, []byte(l.Anchor))
	if k < 0 {
		return nil
	}
	k += len(l.Anchor)
	nb := append(append(append([]byte(nil), b[:k]...), bytes.Repeat([]byte("x"), l.K)...), b[k:]...)
	q.Files[i].SetBytes(nb)
	return &q
}

// outIdentity identifies an output across the lengthening edit: path with hashes masked + its input keys.
func outIdentity(pth string, mo mfOutput) string {
	var ins []string
	for k := range mo.Inputs {
		ins = append(ins, k)
	}
	sort.Strings(ins)
	return hashRe.ReplaceAllString(pth, "*") + "|" + strings.Join(ins, ",") + "|" + mo.EntryPoint
}

func checkMetamorphic(c Case, b1, b2 *built) (*vdrv.Verdict, string) {
	l := c.Lengthen
	id1, id2 := map[string]string{}, map[string]string{}
	for pth, mo := range b1.mf.Outputs {
		if strings.HasSuffix(pth, ".map") {
			continue
		}
		k := outIdentity(pth, mo)
		if _, dup := id1[k]; dup {
			return nil, "metamorphic-ambiguous-outputs"
		}
		id1[k] = pth
	}
	for pth, mo := range b2.mf.Outputs {
		if strings.HasSuffix(pth, ".map") {
			continue
		}
		k := outIdentity(pth, mo)
		if _, dup := id2[k]; dup {
			return nil, "metamorphic-ambiguous-outputs"
		}
		id2[k] = pth
	}
	if len(id1) != len(id2) {
		return fail("lengthening a string literal changed the set of outputs or their input sets", keys2(id1), keys2(id2)), ""
	}
	grew := 0
	for k, p1 := range id1 {
		p2, ok := id2[k]
		if !ok {
			return fail("lengthening a string literal changed the set of outputs or their input sets", keys2(id1), keys2(id2)), ""
		}
		m1, m2 := b1.mf.Outputs[p1], b2.mf.Outputs[p2]
		for in, x1 := range m1.Inputs {
			x2 := m2.Inputs[in]
			d := x2.BytesInOutput - x1.BytesInOutput
			if in == l.Path {
				if d != 0 && d != l.K {
					return fail(fmt.Sprintf("lengthening one string literal of %s by %d bytes changed its bytesInOutput in %s by %d", in, l.K, p1, d), fmt.Sprintf("0 or +%d", l.K), d), ""
				}
				if d == l.K {
					grew++
				}
				if m2.Bytes-m1.Bytes != d {
					return fail(fmt.Sprintf("bytes of %s changed by %d while bytesInOutput[%s] changed by %d", p1, m2.Bytes-m1.Bytes, in, d), d, m2.Bytes-m1.Bytes), ""
				}
			} else if d != 0 {
				return fail(fmt.Sprintf("lengthening a string literal of %s changed bytesInOutput[%s] in %s by %d", l.Path, in, p1, d), 0, d), ""
			}
		}
		if _, has := m1.Inputs[l.Path]; !has && m2.Bytes != m1.Bytes {
			return fail(fmt.Sprintf("bytes of %s changed by %d although it does not contain %s", p1, m2.Bytes-m1.Bytes, l.Path), 0, m2.Bytes-m1.Bytes), ""
		}
	}
	// the literal is in the outputs ⇔ some output grew
	inOut := false
	for _, o := range b1.outs {
		if (strings.HasSuffix(o.Path, ".js") || strings.HasSuffix(o.Path, ".css")) && bytes.Contains(stripInlineMap(o.Contents), []byte(l.Anchor)) {
			inOut = true
		}
	}
	if inOut && grew == 0 {
		return fail("the lengthened literal is in the outputs but no bytesInOutput grew", fmt.Sprintf("+%d somewhere", l.K), "no change"), ""
	}
	if grew > 0 {
		return nil, "metamorphic-grew"
	}
	return nil, "metamorphic-literal-not-emitted"
}

// harness panics must never pass silently nor become verdicts: they are counted and turn the run into an INFRA error.
var harnessPanics []string

func judge(c Case) (v vdrv.Verdict) {
	defer func() {
		if r := recover(); r != nil {
			harnessPanics = append(harnessPanics, fmt.Sprintf("%v\n%s", r, debug.Stack()))
			v = vdrv.Skip("harness-panic")
		}
	}()
	return judgeCase(c)
}

func judgeCase(c Case) vdrv.Verdict {
	p := c.Project
	base, err := os.MkdirTemp("", "c19-")
	if err != nil {
		return vdrv.Skip("tempdir-io")
	}
	defer os.RemoveAll(base)
	root := filepath.Join(base, "p1")
	if err := os.MkdirAll(root, 0o755); err != nil {
		return vdrv.Skip("tempdir-io")
	}
	if err := p.WriteTo(root); err != nil {
		return vdrv.Skip("tempdir-io")
	}
	obs := &observer{loaded: map[string]bool{}}
	b1, why := buildMeta(&p, root, observePlugin(root, obs))
	if why != "" {
		if strings.HasPrefix(why, "metafile-json") {
			return vdrv.Fail("the metafile is not valid JSON: "+why, "valid JSON", clipS(b1.raw, 2000))
		}
		return vdrv.Skip(why)
	}
	fv, cls, knownV := checkBuild(&p, root, b1, obs)
	if fv != nil {
		return *fv
	}
	o := p.Opts
	cls = append(cls, fmt.Sprintf("splitting=%v", o.Splitting), fmt.Sprintf("minify=%v%v%v", b2i(o.MinifyWS), b2i(o.MinifyIDs), b2i(o.MinifySyntax)),
		"sourcemap="+o.Sourcemap, "legal="+o.LegalComments, fmt.Sprintf("publicpath=%v", o.PublicPath != ""),
		fmt.Sprintf("hashed-entry=%v", strings.Contains(o.EntryNames, "[hash]")))
	if len(o.Inject) > 0 {
		cls = append(cls, "inject")
	}
	if p.Stdin != nil {
		cls = append(cls, "stdin")
	}
	if len(o.External) > 0 {
		cls = append(cls, "externals")
	}
	hasCSS, hasAsset, shaken := false, false, false
	for _, f := range b1.outs {
		if strings.HasSuffix(f.Path, ".css") {
			hasCSS = true
		}
		if strings.HasSuffix(f.Path, ".png") || strings.HasSuffix(f.Path, ".bin") {
			hasAsset = true
		}
	}
	for _, f := range p.Files {
		if f.PureUnused {
			if _, ok := b1.mf.Inputs[f.Path]; ok {
				shaken = true
			}
		}
	}
	if hasCSS {
		cls = append(cls, "css-output")
	}
	if hasAsset {
		cls = append(cls, "asset-output")
	}
	if shaken {
		cls = append(cls, "tree-shaken-input")
	}
	if c.Lengthen != nil {
		p2 := applyLengthen(p, c.Lengthen)
		if p2 == nil {
			cls = append(cls, "metamorphic-not-applicable")
		} else if o.Sourcemap == "inline" || o.Sourcemap == "both" || o.MinifyIDs || o.MangleProps {
			cls = append(cls, "metamorphic-skipped-inline-map-or-charfreq")
		} else {
			root2 := filepath.Join(base, "p2")
			if err := os.MkdirAll(root2, 0o755); err != nil {
				return vdrv.Skip("tempdir-io")
			}
			if err := p2.WriteTo(root2); err != nil {
				return vdrv.Skip("tempdir-io")
			}
			b2, why := buildMeta(p2, root2)
			if why != "" {
				return vdrv.Skip("second-" + why)
			}
			mv, label := checkMetamorphic(c, b1, b2)
			if mv != nil {
				return *mv
			}
			cls = append(cls, label)
		}
	}
	if knownV != nil {
		return *knownV
	}
	v := vdrv.Pass(len(b1.outs) >= 2 && len(b1.mf.Inputs) >= 5, cls...)
	v.Observed = fmt.Sprintf("%d inputs, %d outputs, %d resolutions observed, %d loads observed", len(b1.mf.Inputs), len(b1.outs), len(obs.resolves), len(obs.loaded))
	return v
}

func clipS(s string, n int) string {
	if len(s) > n {
		return s[:n] + "…"
	}
	return s
}

func b2i(b bool) int {
	if b {
		return 1
	}
	return 0
}

func genCase(t *rapid.T) Case {
	var c Case
	c.Project = projgen.Gen(t, projgen.Config{MinFiles: 8, MaxFiles: 40, ForceBundle: true, ForceESM: true, ForceMetafile: true, AllowRequire: true, InputMaps: true, Placeholders: true})
	if rapid.IntRange(0, 2).Draw(t, "dualpkg") == 0 {
		addDualPackage(t, &c.Project)
	}
	if rapid.IntRange(0, 2).Draw(t, "lengthen") != 0 {
		var cands []projgen.File
		reach := projgen.Reachable(&c.Project)
		anyFile := rapid.IntRange(0, 9).Draw(t, "anyfile") == 9
		for _, f := range c.Project.Files {
			switch f.Kind {
			case projgen.KJS, projgen.KCSS, projgen.KText, projgen.KJSON:
				if f.Mark != "" && (reach[f.Path] || anyFile) {
					cands = append(cands, f)
				}
			}
		}
		f := cands[rapid.IntRange(0, len(cands)-1).Draw(t, "lenfile")]
		anchor := f.Mark + ".se"
		switch f.Kind {
		case projgen.KJS:
			anchor = f.Mark + rapid.SampledFrom([]string{".se", ".a", ".shared", ".fn", ".default"}).Draw(t, "lenanchor")
			if f.Inject {
				anchor = f.Mark + ".a"
			}
		case projgen.KCSS:
			anchor = f.Mark + ".shared"
		case projgen.KText:
			anchor = f.Mark + ".text"
		case projgen.KJSON:
			anchor = f.Mark + rapid.SampledFrom([]string{".m", ".k"}).Draw(t, "lenanchorj")
		}
		c.Lengthen = &Lengthen{Path: f.Path, Anchor: anchor, K: rapid.IntRange(1, 40).Draw(t, "lenk")}
		if c.Project.Opts.Sourcemap == "inline" || c.Project.Opts.Sourcemap == "both" {
			c.Project.Opts.Sourcemap = "linked" // an inline map embeds (base64) the lengthened source
		}
		// Minified identifiers and mangled properties are assigned by character frequency over the whole source
		// text *including string contents*, so a longer string legitimately reshuffles names (and with them the
		// need for `x as y` aliases). The exact relation is only promised/asserted without those two options.
		c.Project.Opts.MinifyIDs = false
		c.Project.Opts.MangleProps, c.Project.Opts.UseCache, c.Project.Opts.MangleCache = false, false, nil
	}
	return c
}

// addDualPackage installs node_modules/dual (package.json with different "main" and "module" files) and makes
// one or two reachable JS inputs use it by `import`, by `require`, or both (the dual-package hazard, in
// which esbuild redirects the import to the "main" file).
func addDualPackage(t *rapid.T, p *projgen.Project) {
	reach := projgen.Reachable(p)
	var js []int
	for i, f := range p.Files {
		if f.Kind == projgen.KJS && reach[f.Path] && !f.Inject && !f.PureUnused && !strings.HasPrefix(f.Path, "node_modules/") {
			js = append(js, i)
		}
	}
	if len(js) == 0 {
		return
	}
	mode := rapid.SampledFrom([]string{"import", "require", "both", "both", "both-dynamic"}).Draw(t, "dualmode")
	a := js[rapid.IntRange(0, len(js)-1).Draw(t, "dualA")]
	b := js[rapid.IntRange(0, len(js)-1).Draw(t, "dualB")]
	prepend := func(i int, line string) {
		p.Files[i].SetBytes(append([]byte(line), p.Files[i].Bytes()...))
	}
	switch mode {
	case "import":
		prepend(a, "import { which as dualWhichA } from \"dual\"; globalThis.__dualA = dualWhichA;\n")
	case "require":
		prepend(b, "globalThis.__dualB = require(\"dual\").which;\n")
	case "both":
		prepend(a, "import { which as dualWhichA } from \"dual\"; globalThis.__dualA = dualWhichA;\n")
		prepend(b, "globalThis.__dualB = require(\"dual\").which;\n")
	default:
		prepend(a, "import(\"dual\").then(function (ns) { globalThis.__dualA = ns.which; });\n")
		prepend(b, "globalThis.__dualB = require(\"dual\").which;\n")
	}
	p.Files = append(p.Files,
		projgen.File{Path: "node_modules/dual/package.json", Kind: projgen.KMeta, Text: "{\"name\": \"dual\", \"main\": \"./main.cjs.js\", \"module\": \"./module.esm.js\"}\n"},
		projgen.File{Path: "node_modules/dual/main.cjs.js", Kind: projgen.KJS, Text: "exports.which = \"dual.main\";\n"},
		projgen.File{Path: "node_modules/dual/module.esm.js", Kind: projgen.KJS, Text: "export const which = \"dual.module\";\n"})
}

func replayMeta(raw json.RawMessage) vdrv.Verdict {
	var c Case
	if err := json.Unmarshal(raw, &c); err != nil {
		return vdrv.Skip("bad-replay")
	}
	v := judge(c)
	v.Known = ""
	return v
}

func runMeta(t *testing.T) {
	H.Rule("meta", "rapid: projgen bundles (ESM output, 8–40 files: static/dynamic/re-export/require edges, shared chunks, sideEffects:false package, CSS @import/url(), file/copy/dataurl/text/json assets, externals, inject, stdin) × minify subsets × splitting × source maps × legal comments × name templates with and without [hash] × public path; Metafile on. Oracles: outputs keys = emitted paths; bytes = len; imports = records parsed from the emitted JS/CSS (path, kind incl. file-loader, external flag; multiset); exports = parsed export names; entryPoint/cssBundle consistent; inputs keys = files seen by a pass-through OnLoad plugin (+ <stdin>), bytes = size on disk, inputs[*].imports = import records scanned from the input text and = what PluginBuild.Resolve answered; Σ bytesInOutput ≤ bytes; marker present ⇔ non-zero bytesInOutput; unused sideEffects:false inputs contribute nothing; in unminified bundles bytesInOutput = exact length of the text between path comments; metamorphic: inserting k ASCII bytes into one string literal raises bytesInOutput of that input and the file's bytes by exactly k in the outputs that carry it and changes nothing else. Non-trivial = ≥2 outputs and ≥5 inputs.")
	H.SetupRapid("meta", H.N(2400, 20000))
	rapid.Check(t, func(rt *rapid.T) {
		c := genCase(rt)
		kb, _ := json.Marshal(c)
		H.Report(rt, "meta", string(kb), c, judge(c))
	})
}

var subs = map[string]vdrv.ReplayFunc{"meta": replayMeta}

func TestCheck(t *testing.T) {
	H = vdrv.New("C19")
	complete := false
	defer func() { H.Finish(complete) }()
	H.RunReplays(t, subs)
	H.Sub(t, "meta", runMeta)
	if len(harnessPanics) > 0 {
		t.Fatalf("INFRA: the harness panicked %d time(s); first: %s", len(harnessPanics), harnessPanics[0])
	}
	complete = true
}

func TestReplay(t *testing.T) {
	H = vdrv.New("C19")
	H.ReplayOne(t, subs)
}

var _ = base64.StdEncoding

// TestDump prints the outputs and the metafile of the case in $VERIF_REPLAY (a debugging aid, not part of the check).
func TestDump(t *testing.T) {
	pth := os.Getenv("VERIF_REPLAY")
	if pth == "" || os.Getenv("VERIF_DUMP") == "" {
		t.Skip("VERIF_REPLAY/VERIF_DUMP not set")
	}
	r, err := vdrv.LoadReplay(pth)
	if err != nil {
		t.Fatal(err)
	}
	var c Case
	if err := json.Unmarshal(r.Case, &c); err != nil {
		t.Fatal(err)
	}
	root := t.TempDir()
	c.Project.WriteTo(root)
	b, why := buildMeta(&c.Project, root)
	fmt.Println("why:", why)
	for _, f := range c.Project.Files {
		fmt.Printf("--- input %s (%s)\n%s\n", f.Path, f.Kind, f.Bytes())
	}
	if b != nil {
		for _, o := range b.outs {
			if strings.HasSuffix(o.Path, ".map") {
				continue
			}
			fmt.Printf("=== %s (%d)\n%s\n", o.Path, len(o.Contents), o.Contents)
		}
		fmt.Println(b.raw)
	}
	if c.Lengthen != nil {
		p2 := applyLengthen(c.Project, c.Lengthen)
		root2 := t.TempDir()
		p2.WriteTo(root2)
		b2, _ := buildMeta(p2, root2)
		for _, o := range b2.outs {
			if strings.HasSuffix(o.Path, ".map") {
				continue
			}
			fmt.Printf("=== B2 %s (%d)\n%s\n", o.Path, len(o.Contents), o.Contents)
		}
	}
}

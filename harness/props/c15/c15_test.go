// C15 — renaming never changes which declaration a name refers to. See DESIGN.md section 5 / C15.
package c15

import (
	"encoding/json"
	"fmt"
	"sort"
	"strings"
	"testing"

	"github.com/evanw/esbuild/pkg/api"
	"github.com/evanw/esbuild/verif/noderun"
	"github.com/evanw/esbuild/verif/vdrv"
	"pgregory.net/rapid"
)

var H *vdrv.H
var W *noderun.Worker

// names the minifier likes, numbered suffixes the bundler generates, and a few ordinary ones
// (names of the host-defined free globals below are never declared by the program: a later declaration
// of the same name in an enclosing scope would make the free reference a TDZ error, which is excluded)
var pool = []string{"b", "c", "d", "n", "r", "i", "o", "s", "u", "l", "f", "_", "x", "x3", "a2", "e2", "t2", "_b", "$2", "foo", "bar", "foo2", "exports2", "module2", "require2", "arguments2", "default2"}

// free (host-defined) globals with the same kind of names
var freeGlobals = []string{"g", "h", "a", "e", "t", "x2", "_a", "$"}

type sg struct {
	t      *rapid.T
	sb     *strings.Builder
	nextID int
	scopes [][]decl // visible declarations, innermost last
	// passed[i] = names of references written so far that resolve OUTSIDE frame i although their text lies
	// inside it (in the frame itself or in a nested one). Declaring such a name in frame i later would
	// capture those references (let/const/class: temporal dead zone, and an earlier `x = …` becomes an
	// assignment to a constant, which esbuild refuses when bundling — documented; function: hoisted over
	// them), so the scope model of this generator would no longer describe the program. Declarations
	// written after the start of a frame therefore never take a name from this set (freshName).
	passed []map[string]bool
	fnDepth int
	allowEval, allowWith bool
	props  bool // use mangle-able property names
	sloppy bool
	file   int
}

type decl struct {
	name     string
	constant bool
}

func (g *sg) intn(n int, l string) int {
	if n <= 1 {
		return 0
	}
	return rapid.IntRange(0, n-1).Draw(g.t, l)
}
func (g *sg) chance(p int, l string) bool { return rapid.IntRange(0, 99).Draw(g.t, l) < p }
func (g *sg) id() int                    { g.nextID++; return g.nextID }
func (g *sg) w(f string, a ...interface{}) { fmt.Fprintf(g.sb, f, a...) }

func (g *sg) visible() []decl {
	seen := map[string]bool{}
	var out []decl
	for i := len(g.scopes) - 1; i >= 0; i-- {
		for j := len(g.scopes[i]) - 1; j >= 0; j-- {
			d := g.scopes[i][j]
			if !seen[d.name] {
				seen[d.name] = true
				out = append(out, d)
			}
		}
	}
	return out
}

func (g *sg) declaredHere(name string) bool {
	for _, d := range g.scopes[len(g.scopes)-1] {
		if d.name == name {
			return true
		}
	}
	return false
}

func (g *sg) freshName() string {
	for tries := 0; tries < 6; tries++ {
		n := pool[g.intn(len(pool), "name")]
		if !g.declaredHere(n) && !g.passed[len(g.passed)-1][n] {
			return n
		}
	}
	return fmt.Sprintf("v%d", g.id())
}

// use records a reference to name written at the current position: every frame between the current one
// and the frame that declares the name (exclusive) is passed through by it.
func (g *sg) use(name string) string {
	for i := len(g.scopes) - 1; i >= 0; i-- {
		for _, d := range g.scopes[i] {
			if d.name == name {
				return name
			}
		}
		g.passed[i][name] = true
	}
	return name
}

func (g *sg) val() string { return fmt.Sprintf("\"D%d_f%d\"", g.id(), g.file) }

// prologue declares 1-3 names at the start of the current scope (before any reference in it)
func (g *sg) prologue(kinds []string) {
	n := 1 + g.intn(3, "ndecl")
	for i := 0; i < n; i++ {
		name := g.freshName()
		kw := kinds[g.intn(len(kinds), "kw")]
		g.w("%s %s = %s; ", kw, name, g.val())
		g.scopes[len(g.scopes)-1] = append(g.scopes[len(g.scopes)-1], decl{name, kw == "const"})
	}
}

func (g *sg) refs() {
	n := 1 + g.intn(3, "nrefs")
	for i := 0; i < n; i++ {
		vis := g.visible()
		switch {
		case len(vis) > 0 && g.chance(70, "local"):
			d := vis[g.intn(len(vis), "ref")]
			g.w("log(\"r%d\", %s); ", g.id(), g.use(d.name))
		default:
			fg := freeGlobals[g.intn(len(freeGlobals), "free")]
			shadowed := false
			for _, d := range vis {
				if d.name == fg {
					shadowed = true
				}
			}
			if !shadowed {
				g.w("log(\"g%d\", typeof %s === \"undefined\" ? \"undef\" : %s); ", g.id(), fg, fg)
			}
		}
	}
	if vis := g.visible(); len(vis) > 0 && g.chance(30, "assign") {
		d := vis[g.intn(len(vis), "assignee")]
		if !d.constant {
			g.w("%s = \"A%d\"; ", g.use(d.name), g.id())
		}
	}
}

func (g *sg) push() {
	g.scopes = append(g.scopes, nil)
	g.passed = append(g.passed, map[string]bool{})
}
func (g *sg) pop() {
	g.scopes = g.scopes[:len(g.scopes)-1]
	g.passed = g.passed[:len(g.passed)-1]
}

func (g *sg) body(depth int, fnBody bool) {
	kinds := []string{"let", "const"}
	if fnBody {
		kinds = []string{"var", "let", "const"}
	}
	g.prologue(kinds)
	g.refs()
	if depth <= 0 {
		return
	}
	n := 1 + g.intn(3, "nnested")
	for i := 0; i < n; i++ {
		switch g.intn(12, "nest") {
		case 0: // function declaration, called after or (hoisting) before its text
			if !fnBody && g.sloppy {
				// a function declaration inside a block of sloppy code has Annex B hoisting semantics that
				// depend on what else is named like it; that is C13's subject (two known findings there)
				continue
			}
			name := g.freshName()
			g.scopes[len(g.scopes)-1] = append(g.scopes[len(g.scopes)-1], decl{name, false})
			g.push()
			p1 := g.freshName()
			g.scopes[len(g.scopes)-1] = append(g.scopes[len(g.scopes)-1], decl{p1, false})
			// the declaration is hoisted to the start of its scope: some calls are written BEFORE the
			// declaration's text (everything the body can see is declared and initialised before that point
			// too; no earlier reference in this scope uses the name — see passed)
			// While the body of such an early-called function is written, its own name is not assignable:
			// keep-names writes `__name(f, "f")` AFTER the declaration's text, so `f(); function f() { f = "A" }`
			// ends in `__name("A", "f")` (TypeError: Object.defineProperty called on non-object) — a change of
			// behaviour by keep-names that exists without any renaming and in which every reference still binds
			// correctly, i.e. not what this property states (reported separately, not a C15 finding).
			early := g.chance(30, "callbefore")
			ownIdx := len(g.scopes[len(g.scopes)-2]) - 1
			g.scopes[len(g.scopes)-2][ownIdx].constant = early
			outer := g.sb
			g.sb = &strings.Builder{}
			g.w("function %s(%s) { ", name, p1)
			g.fnDepth++
			g.body(depth-1, true)
			g.fnDepth--
			g.w("} ")
			g.pop()
			g.scopes[len(g.scopes)-1][ownIdx].constant = false
			text := g.sb.String()
			g.sb = outer
			if early {
				g.w("%s(\"P%d\"); %s", name, g.id(), text)
			} else {
				g.w("%s%s(\"P%d\"); ", text, name, g.id())
			}
		case 1: // arrow IIFE with default-parameter closure
			g.push()
			p1, p2 := g.freshName(), ""
			g.scopes[len(g.scopes)-1] = append(g.scopes[len(g.scopes)-1], decl{p1, false})
			p2 = g.freshName()
			g.scopes[len(g.scopes)-1] = append(g.scopes[len(g.scopes)-1], decl{p2, false})
			g.w("((%s, %s = () => %s) => { log(\"d%d\", %s()); ", p1, p2, p1, g.id(), p2)
			g.fnDepth++
			g.body(depth-1, false)
			g.fnDepth--
			g.w("})(\"P%d\"); ", g.id())
			g.pop()
		case 2: // block
			g.push()
			g.w("{ ")
			g.body(depth-1, false)
			g.w("} ")
			g.pop()
		case 3: // for-let with closure capture
			g.push()
			iv := g.freshName()
			g.scopes[len(g.scopes)-1] = append(g.scopes[len(g.scopes)-1], decl{iv, false})
			g.w("for (let %s = 0; %s < 2; %s++) { ", iv, iv, iv)
			g.push()
			g.body(depth-1, false)
			g.pop()
			g.w("} ")
			g.pop()
		case 4: // try/catch binding
			g.push()
			ev := g.freshName()
			g.w("try { throw \"T%d\"; } catch (%s) { ", g.id(), ev)
			g.scopes[len(g.scopes)-1] = append(g.scopes[len(g.scopes)-1], decl{ev, false})
			g.body(depth-1, false)
			g.w("} ")
			g.pop()
		case 5: // class with method and a name used inside
			cn := g.freshName()
			g.scopes[len(g.scopes)-1] = append(g.scopes[len(g.scopes)-1], decl{cn, true}) // never assigned: inside the body the class binding is immutable
			g.w("class %s { m() { ", cn)
			g.push()
			g.fnDepth++
			g.body(depth-1, true)
			g.fnDepth--
			g.pop()
			g.w("return typeof %s; } } log(\"c%d\", new %s().m()); ", cn, g.id(), cn)
		case 6: // named function expression: self binding shadows outer name
			fn := g.freshName()
			outer := g.freshName()
			g.scopes[len(g.scopes)-1] = append(g.scopes[len(g.scopes)-1], decl{outer, true})
			g.w("const %s = function %s(k) { return k ? typeof %s : %s(1); }; log(\"n%d\", %s(0)); ", outer, fn, fn, fn, g.id(), outer)
		case 7: // closure created now, called later
			cl := g.freshName()
			g.scopes[len(g.scopes)-1] = append(g.scopes[len(g.scopes)-1], decl{cl, true})
			vis := g.visible()
			var parts []string
			for k := 0; k < len(vis) && k < 3; k++ {
				if vis[k].name != cl {
					parts = append(parts, g.use(vis[k].name))
				}
			}
			g.w("const %s = () => [%s]; ", cl, strings.Join(parts, ", "))
			g.refs()
			g.w("log(\"k%d\", %s()); ", g.id(), cl)
		case 8: // label with the same spelling as a variable
			vis := g.visible()
			if len(vis) > 0 {
				l := g.use(vis[g.intn(len(vis), "label")].name)
				g.w("%s: { log(\"l%d\", %s); break %s; } ", l, g.id(), l, l)
			}
		case 9: // direct eval pins every visible name
			if g.allowEval {
				vis := g.visible()
				if len(vis) > 0 {
					d := vis[g.intn(len(vis), "evalname")]
					g.w("log(\"ev%d\", eval(\"%s\")); ", g.id(), g.use(d.name))
				}
			}
		case 10: // with statement
			if g.allowWith && g.fnDepth >= 0 {
				vis := g.visible()
				if len(vis) > 0 {
					d := vis[g.intn(len(vis), "withname")]
					prop := pool[g.intn(len(pool), "withprop")]
					if strings.HasSuffix(prop, "_") {
						prop = "wp" // a with-object key that matches the mangle-props pattern would be reflected on by name
					}
					g.w("with ({ %s: \"W%d\" }) { log(\"w%d\", %s, typeof %s); } ", prop, g.id(), g.id(), g.use(d.name), g.use(prop))
				}
			}
		case 11: // mangle-able properties
			if g.props {
				// the object is not made visible to later references: logging it would reflect on key strings
				o := fmt.Sprintf("mp%d", g.id())
				g.w("const %s = { foo_: \"F%d\", bar_: { baz_: \"B%d\" }, keep: \"K%d\", m_() { return this.foo_; } }; log(\"p%d\", %s.foo_, %s.bar_.baz_, %s.keep, %s.m_(), %s?.bar_?.baz_); ", o, g.id(), g.id(), g.id(), g.id(), o, o, o, o, o)
				g.w("{ const { foo_, bar_: { baz_ } } = %s; log(\"q%d\", foo_, baz_); } ", o, g.id())
				g.w("class K%d { foo_ = 1; static bar_ = 2; get baz_() { return this.foo_; } } log(\"s%d\", new K%d().baz_, K%d.bar_); ", g.id(), g.id(), g.nextID-1, g.nextID-1)
			}
		}
	}
	g.refs()
}

type Case struct {
	Files      map[string]string `json:"files"` // file name -> source; "f0.js" is the entry
	Bundle     bool              `json:"bundle"`
	Format     string            `json:"format"` // "", iife, cjs, esm
	MinifyIDs  bool              `json:"minify_identifiers"`
	MinifyAll  bool              `json:"minify_all,omitempty"`
	KeepNames  bool              `json:"keep_names,omitempty"`
	MangleProp bool              `json:"mangle_props,omitempty"`
	Cache      map[string]string `json:"mangle_cache,omitempty"`
	TopNames   []string          `json:"top_names,omitempty"` // top-level var names of a wrapper-less script (must stay globals)
	Sloppy     bool              `json:"sloppy,omitempty"`
}

func globalsReq() map[string]string {
	m := map[string]string{}
	for _, n := range freeGlobals {
		m[n] = fmt.Sprintf("\"GLOBAL_%s\"", n)
	}
	return m
}

func run(code, goal string, readBack []string) (*noderun.Resp, error) {
	req := noderun.Req{Code: code, Globals: globalsReq(), ReadBack: readBack}
	switch goal {
	case "module":
		req.Kind = "module"
	case "cjs":
		req.Kind = "cjs"
	default:
		req.Kind = "script"
	}
	return W.Call(req)
}

func (c Case) build() (string, map[string]interface{}, []api.Message) {
	o := api.BuildOptions{LogLevel: api.LogLevelSilent, Write: false, Outfile: "/out/out.js", AbsWorkingDir: "/in", EntryPoints: []string{"/in/f0.js"}, Bundle: c.Bundle}
	switch c.Format {
	case "iife":
		o.Format = api.FormatIIFE
	case "cjs":
		o.Format = api.FormatCommonJS
	case "esm":
		o.Format = api.FormatESModule
	}
	o.MinifyIdentifiers = c.MinifyIDs
	if c.MinifyAll {
		o.MinifyIdentifiers, o.MinifySyntax, o.MinifyWhitespace = true, true, true
	}
	o.KeepNames = c.KeepNames
	if c.MangleProp {
		o.MangleProps = "_$"
		if c.Cache != nil {
			o.MangleCache = map[string]interface{}{}
			for k, v := range c.Cache {
				o.MangleCache[k] = v
			}
		}
	}
	files := c.Files
	o.Plugins = []api.Plugin{{Name: "mem", Setup: func(b api.PluginBuild) {
		b.OnResolve(api.OnResolveOptions{Filter: ".*"}, func(a api.OnResolveArgs) (api.OnResolveResult, error) {
			p := a.Path
			if strings.HasPrefix(p, "./") {
				p = "/in/" + p[2:]
			}
			return api.OnResolveResult{Path: p, Namespace: "mem"}, nil
		})
		b.OnLoad(api.OnLoadOptions{Filter: ".*", Namespace: "mem"}, func(a api.OnLoadArgs) (api.OnLoadResult, error) {
			s, ok := files[strings.TrimPrefix(a.Path, "/in/")]
			if !ok {
				return api.OnLoadResult{}, fmt.Errorf("no such file %s", a.Path)
			}
			return api.OnLoadResult{Contents: &s, Loader: api.LoaderJS, ResolveDir: "/in"}, nil
		})
	}}}
	r := api.Build(o)
	if len(r.Errors) > 0 || len(r.OutputFiles) == 0 {
		return "", nil, r.Errors
	}
	return string(r.OutputFiles[0].Contents), r.MangleCache, nil
}

// reference: the same files concatenated the way the bundle linearises them is NOT used; instead the
// reference is the UNRENAMED build of the same configuration (no minify-identifiers, no mangle-props,
// one file at a time cannot collide), executed by V8. For a single file the reference is the source itself.
func judge(c Case) vdrv.Verdict {
	goal := "script"
	switch c.Format {
	case "esm":
		goal = "module"
	case "cjs":
		goal = "cjs"
	}
	var refCode string
	if len(c.Files) == 1 && !c.Bundle {
		refCode = c.Files["f0.js"]
		if c.Format == "esm" {
			goal = "module"
		}
	} else {
		// reference for multi-file bundles: every file wrapped in its own function scope by hand (an
		// obviously-correct linker: no renaming needed because nothing shares a scope)
		refCode = handLink(c.Files)
		goalRef := "script"
		_ = goalRef
	}
	refGoal := goal
	if len(c.Files) > 1 || c.Bundle {
		refGoal = "script"
	}
	var rb []string
	if c.Format == "" && !c.Bundle {
		rb = c.TopNames
	}
	ref, err := run(refCode, refGoal, rb)
	if err != nil {
		return vdrv.Skip("node-infra")
	}
	if ref.ParseError != "" {
		return vdrv.Skip("generator-invalid:" + ref.ParseMessage)
	}
	if ref.Timeout || ref.Overflow {
		return vdrv.Skip("reference-timeout")
	}
	if strings.Contains(ref.Trace(), "err:ReferenceError") {
		return vdrv.Skip("tdz-dependent")
	}
	out, cache, errs := c.build()
	if errs != nil {
		return vdrv.Fail("esbuild rejects: "+errs[0].Text, "accepted", fmt.Sprint(errs))
	}
	got, err := run(out, goal, rb)
	if err != nil {
		return vdrv.Skip("node-infra")
	}
	cls := []string{"format=" + c.Format, fmt.Sprintf("files=%d", len(c.Files))}
	if c.MinifyIDs || c.MinifyAll {
		cls = append(cls, "minify-identifiers")
	}
	if c.MangleProp {
		cls = append(cls, "mangle-props")
	}
	rt, gt := ref.Trace(), got.Trace()
	if refGoal != goal {
		rt, gt = stripExports(rt), stripExports(gt)
	}
	if rt != gt {
		return vdrv.Fail("a reference binds differently after renaming (trace differs)", rt, gt+"\n--- output\n"+out)
	}
	// mangle cache: bijection on mapped names, contains the supplied cache
	if c.MangleProp && cache != nil {
		inv := map[string]string{}
		for k, v := range cache {
			s, ok := v.(string)
			if !ok {
				continue // false = "do not mangle"
			}
			if prev, dup := inv[s]; dup {
				return vdrv.Fail(fmt.Sprintf("mangle cache maps both %q and %q to %q", prev, k, s), "bijection", fmt.Sprint(cache))
			}
			inv[s] = k
		}
		for k, v := range c.Cache {
			if cache[k] != v {
				return vdrv.Fail(fmt.Sprintf("returned mangle cache changes supplied entry %q: %v -> %v", k, v, cache[k]), "supplied cache preserved", fmt.Sprint(cache))
			}
		}
	}
	v := vdrv.Pass(len(ref.Events) >= 4 && out != refCode, cls...)
	v.Observed = fmt.Sprintf("%d events", len(ref.Events))
	return v
}

func stripExports(tr string) string {
	var keep []string
	for _, l := range strings.Split(tr, "\n") {
		if strings.HasPrefix(l, "EXPORTS ") {
			continue
		}
		keep = append(keep, l)
	}
	return strings.Join(keep, "\n")
}

// handLink evaluates dependency files first (f1, f2, … are leaves imported by f0 through
// `import { shared<i> } from "./f<i>.js"`), each in its own function scope, handing the exported
// binding over explicitly.
func handLink(files map[string]string) string {
	var names []string
	for n := range files {
		names = append(names, n)
	}
	sort.Strings(names)
	var sb strings.Builder
	for i := 1; i < len(names); i++ { // ESM evaluates dependencies in import order
		src := files[names[i]]
		src = strings.Replace(src, "export function shared", "function shared", 1)
		fmt.Fprintf(&sb, "var __dep%d = (function () { \"use strict\"; %s\nreturn shared%d; })();\n", i, src, i) // modules are strict
	}
	entry := files["f0.js"]
	var body []string
	for _, l := range strings.Split(entry, "\n") {
		if strings.HasPrefix(l, "import ") {
			continue
		}
		body = append(body, l)
	}
	sb.WriteString("(function () {\n\"use strict\";\n")
	for i := 1; i < len(names); i++ {
		fmt.Fprintf(&sb, "var shared%d = __dep%d;\n", i, i)
	}
	sb.WriteString(strings.Join(body, "\n"))
	sb.WriteString("\n})();\n")
	return sb.String()
}

func replay(raw json.RawMessage) vdrv.Verdict {
	var c Case
	if json.Unmarshal(raw, &c) != nil {
		return vdrv.Skip("bad-replay")
	}
	return judge(c)
}

func genFile(rt *rapid.T, file int, depth int, eval, with, props bool) (string, []string) {
	var sb strings.Builder
	g := &sg{t: rt, sb: &sb, allowEval: eval, allowWith: with, props: props, file: file, sloppy: eval || with}
	g.push()
	g.body(depth, true)
	var top []string
	for _, d := range g.scopes[0] {
		top = append(top, d.name)
	}
	return sb.String(), top
}

func runSingle(t *testing.T) {
	H.Rule("single", "rapid: one file of nested scopes (functions with default-parameter closures, arrows, blocks, for-let with captured closures, catch bindings, classes, named function expression self-bindings, labels spelled like variables, deferred closures, direct eval and with in sloppy files, mangle-able properties) whose declared names come from a pool built to collide (the minifier's first names a b e t n r i o $ _, numbered suffixes x2 _a, free globals with the same spellings defined by the host); every declaration holds a unique value, every reference is logged; a declaration written in the middle of a scope (function — sometimes called before its text, and then not assigning to its own name: keep-names puts `__name(f, \"f\")` after the text, which throws on the reassigned value although every reference binds correctly —, class, const closure) never takes a name that an earlier reference lying in that scope resolved further out: it would capture that reference (temporal dead zone; an earlier assignment becomes an assignment to a constant, which esbuild documents as a build error when bundling, not a renaming matter), so the generator's scope model would no longer describe the program × format {none, iife, cjs, esm} × minify-identifiers / full minify / keep-names × mangle-props with and without a supplied cache. Oracle: V8 is the resolver — trace of the source == trace of the renamed output; for wrapper-less scripts the top-level names are read back from the global object; mangle cache is a bijection containing the supplied cache. Non-trivial = ≥4 events and the output differs from the input")
	H.SetupRapid("single", H.N(8000, 300000))
	rapid.Check(t, func(rt *rapid.T) {
		c := Case{}
		c.Sloppy = rapid.Bool().Draw(rt, "sloppy")
		c.Format = rapid.SampledFrom([]string{"", "iife", "cjs", "esm"}).Draw(rt, "format")
		if c.Format == "esm" {
			c.Sloppy = false
		}
		c.MangleProp = rapid.IntRange(0, 2).Draw(rt, "mangle") == 0
		src, top := genFile(rt, 0, rapid.IntRange(1, 3).Draw(rt, "depth"), c.Sloppy, c.Sloppy, c.MangleProp)
		if !c.Sloppy {
			src = "\"use strict\";\n" + src
		}
		c.Files = map[string]string{"f0.js": src}
		c.TopNames = top
		switch rapid.IntRange(0, 3).Draw(rt, "minify") {
		case 0:
			c.MinifyIDs = true
		case 1:
			c.MinifyAll = true
		case 2:
			c.MinifyIDs, c.KeepNames = true, true
		}
		if c.MangleProp && rapid.Bool().Draw(rt, "cache") {
			c.Cache = map[string]string{"foo_": rapid.SampledFrom([]string{"a", "b", "zz", "q_"}).Draw(rt, "cachedname")}
		}
		H.Report(rt, "single", fmt.Sprint(c), c, judge(c))
	})
}

func runBundle(t *testing.T) {
	H.Rule("bundle", "rapid: 2–4 files with identical top-level names (each file declares the same pool names and a function shared<i> that the entry imports and calls) bundled into one scope × format × minify; files come from the generator of `single` and obey its rule that a declaration in the middle of a scope never captures an earlier reference (otherwise `x = …; const x = …` appears, which esbuild refuses when bundling — \"Cannot assign to x because it is a constant\", documented behaviour that has nothing to do with renaming — even in code the reference run never reaches); reference = a hand-written linker that gives every file its own function scope (no renaming needed); oracle: identical traces")
	H.SetupRapid("bundle", H.N(4000, 150000))
	rapid.Check(t, func(rt *rapid.T) {
		n := rapid.IntRange(2, 4).Draw(rt, "nfiles")
		c := Case{Bundle: true, Files: map[string]string{}}
		c.Format = rapid.SampledFrom([]string{"iife", "cjs", "esm"}).Draw(rt, "format")
		c.MangleProp = rapid.IntRange(0, 3).Draw(rt, "mangle") == 0
		var entry strings.Builder
		for i := 1; i < n; i++ {
			fmt.Fprintf(&entry, "import { shared%d } from \"./f%d.js\";\n", i, i)
			src, _ := genFile(rt, i, rapid.IntRange(1, 2).Draw(rt, "depth"), false, false, c.MangleProp)
			// the shared function closes over this file's top-level names
			c.Files[fmt.Sprintf("f%d.js", i)] = src + fmt.Sprintf("\nexport function shared%d() { log(\"shared%d\"); %s }\n", i, i, closeOver(src))
		}
		src, _ := genFile(rt, 0, rapid.IntRange(1, 2).Draw(rt, "depth"), false, false, c.MangleProp)
		entry.WriteString(src + "\n")
		for i := 1; i < n; i++ {
			fmt.Fprintf(&entry, "shared%d();\n", i)
		}
		c.Files["f0.js"] = entry.String()
		switch rapid.IntRange(0, 2).Draw(rt, "minify") {
		case 0:
			c.MinifyIDs = true
		case 1:
			c.MinifyAll = true
		}
		H.Report(rt, "bundle", fmt.Sprint(c), c, judge(c))
	})
}

// closeOver returns statements that log the first top-level names declared by src (var/let/const at depth 0 start)
func closeOver(src string) string {
	var out []string
	fields := strings.Fields(src)
	for i := 0; i+1 < len(fields) && len(out) < 3; i++ {
		if (fields[i] == "var" || fields[i] == "let" || fields[i] == "const") && i+2 < len(fields) && fields[i+2] == "=" {
			out = append(out, fmt.Sprintf("log(\"top\", %s);", fields[i+1]))
		} else if fields[i] != "var" && fields[i] != "let" && fields[i] != "const" && !strings.HasPrefix(fields[i], "\"D") && fields[i] != "=" && !strings.HasSuffix(fields[i], ";") {
			break
		}
	}
	return strings.Join(out, " ")
}

var subs = map[string]vdrv.ReplayFunc{"single": replay, "bundle": replay, "chunks": replayChunks}

func setup(t *testing.T) {
	H = vdrv.New("C15")
	var err error
	W, err = noderun.Start("")
	if err != nil {
		t.Fatalf("INFRA: %v", err)
	}
	FW = noderun.NewFileWorker("")
}

func TestCheck(t *testing.T) {
	setup(t)
	defer W.Close()
	complete := false
	defer func() { H.Finish(complete) }()
	H.RunReplays(t, subs)
	H.Sub(t, "single", runSingle)
	H.Sub(t, "bundle", runBundle)
	H.Sub(t, "chunks", runChunks)
	complete = true
}

func TestReplay(t *testing.T) {
	setup(t)
	defer W.Close()
	H.ReplayOne(t, subs)
}

package c15

import (
	"encoding/json"
	"fmt"
	"os"
	"path"
	"path/filepath"
	"sort"
	"strings"
	"testing"

	"github.com/evanw/esbuild/pkg/api"
	"github.com/evanw/esbuild/verif/noderun"
	"github.com/evanw/esbuild/verif/vdrv"
	"pgregory.net/rapid"
)

// chunks: code splitting puts top-level symbols of several files into shared chunks and exports them
// to other chunks under generated aliases. Symbols with identical names (and names that look like the
// aliases the renamer generates: x2, x3 …) must stay distinct.

var FW *noderun.FileWorker

type ChunkCase struct {
	Files     map[string]string `json:"files"`
	Entries   []string          `json:"entries"`
	MinifyIDs bool              `json:"minify_identifiers"`
}

func judgeChunks(c ChunkCase) vdrv.Verdict {
	dir, err := os.MkdirTemp("", "c15-")
	if err != nil {
		return vdrv.Skip("tmpdir")
	}
	defer os.RemoveAll(dir)
	src := filepath.Join(dir, "src")
	os.MkdirAll(src, 0o755)
	for n, s := range c.Files {
		if os.WriteFile(filepath.Join(src, n), []byte(s), 0o644) != nil {
			return vdrv.Skip("tmpdir-write")
		}
	}
	var steps []noderun.Step
	for _, e := range c.Entries {
		steps = append(steps, noderun.Step{Kind: "import", File: filepath.Join(src, e), Label: e})
	}
	ref, err := FW.Run(steps)
	if err != nil {
		return vdrv.Skip("node-infra")
	}
	for _, s := range ref.Steps {
		if s.LoadError != "" {
			return vdrv.Skip("native-load-error")
		}
	}
	o := api.BuildOptions{LogLevel: api.LogLevelSilent, Write: false, Bundle: true, Splitting: true, Format: api.FormatESModule, AbsWorkingDir: src, Outdir: filepath.Join(dir, "out"),
		OutExtension: map[string]string{".js": ".mjs"}, MinifyIdentifiers: c.MinifyIDs}
	for _, e := range c.Entries {
		o.EntryPoints = append(o.EntryPoints, "./"+e)
	}
	r := api.Build(o)
	if len(r.Errors) > 0 {
		return vdrv.Fail("esbuild refuses: "+r.Errors[0].Text, "", fmt.Sprint(r.Errors))
	}
	var dump strings.Builder
	outs := map[string]bool{}
	for _, f := range r.OutputFiles {
		os.MkdirAll(filepath.Dir(f.Path), 0o755)
		os.WriteFile(f.Path, f.Contents, 0o644)
		outs[f.Path] = true
		fmt.Fprintf(&dump, "=== %s\n%s\n", path.Base(f.Path), f.Contents)
	}
	var osteps []noderun.Step
	for _, e := range c.Entries {
		osteps = append(osteps, noderun.Step{Kind: "import", File: filepath.Join(dir, "out", e), Label: e})
	}
	got, err := FW.Run(osteps)
	if err != nil {
		return vdrv.Skip("node-infra")
	}
	// per-entry events are order-independent of other modules here: every module only logs from its entry
	a, b := append([]string{}, ref.Events...), append([]string{}, got.Events...)
	sort.Strings(a)
	sort.Strings(b)
	rt := strings.Join(a, "\n")
	gt := strings.Join(b, "\n")
	for i := range ref.Steps {
		rt += "\n" + ref.Steps[i].End
		if i < len(got.Steps) {
			gt += "\n" + got.Steps[i].End
		}
	}
	if rt != gt {
		return vdrv.Fail("after splitting, an imported name refers to a different declaration (or the chunks do not link)", rt, gt+"\n"+dump.String())
	}
	v := vdrv.Pass(len(outs) > len(c.Entries), fmt.Sprintf("entries=%d", len(c.Entries)), fmt.Sprintf("chunks=%d", len(outs)), fmt.Sprintf("minify-ids=%v", c.MinifyIDs))
	v.Observed = fmt.Sprintf("%d events, %d output files", len(ref.Events), len(outs))
	return v
}

func replayChunks(raw json.RawMessage) vdrv.Verdict {
	var c ChunkCase
	if json.Unmarshal(raw, &c) != nil {
		return vdrv.Skip("bad-replay")
	}
	return judgeChunks(c)
}

func runChunks(t *testing.T) {
	H.Rule("chunks", "rapid: 2–5 shared ES modules, each exporting 1–3 top-level bindings whose names are drawn from a colliding pool (x, x, x2, x3, y, y2, a, e, t, default-like names) in a drawn order, imported under aliases by 2–3 entry points that log every imported value (unique per declaration) × minify-identifiers; built with splitting; oracle: native Node loading of the sources vs the emitted chunks loaded in the same order — the multiset of logged (label, value) pairs and each entry's termination must be equal (a collision of generated export aliases shows as a link error or a swapped value)")
	H.SetupRapid("chunks", H.N(1500, 60000))
	names := []string{"x", "x", "x", "x2", "x3", "x22", "y", "y2", "a", "e", "t", "x", "x2", "_", "$"}
	rapid.Check(t, func(rt *rapid.T) {
		c := ChunkCase{Files: map[string]string{}}
		n := rapid.IntRange(2, 5).Draw(rt, "nshared")
		type exp struct{ file, name string }
		var all []exp
		for i := 0; i < n; i++ {
			var sb strings.Builder
			k := rapid.IntRange(1, 3).Draw(rt, "nexports")
			used := map[string]bool{}
			for j := 0; j < k; j++ {
				nm := rapid.SampledFrom(names).Draw(rt, "name")
				if used[nm] {
					continue
				}
				used[nm] = true
				kind := rapid.SampledFrom([]string{"var", "let", "const", "function", "class"}).Draw(rt, "kind")
				switch kind {
				case "function":
					fmt.Fprintf(&sb, "export function %s() { return \"V_s%d_%s\"; }\n", nm, i, nm)
				case "class":
					fmt.Fprintf(&sb, "export class %s { static v = \"V_s%d_%s\"; }\n", nm, i, nm)
				default:
					fmt.Fprintf(&sb, "export %s %s = \"V_s%d_%s\";\n", kind, nm, i, nm)
				}
				all = append(all, exp{fmt.Sprintf("s%d.mjs", i), nm})
			}
			c.Files[fmt.Sprintf("s%d.mjs", i)] = sb.String()
		}
		if len(all) == 0 {
			return
		}
		ne := rapid.IntRange(2, 3).Draw(rt, "nentries")
		for e := 0; e < ne; e++ {
			var sb strings.Builder
			var logs []string
			for k, x := range all {
				if e > 0 && rapid.IntRange(0, 2).Draw(rt, "skip") == 0 {
					continue
				}
				alias := fmt.Sprintf("i%d_%d", e, k)
				fmt.Fprintf(&sb, "import { %s as %s } from \"./%s\";\n", x.name, alias, x.file)
				logs = append(logs, fmt.Sprintf("log(\"e%d %s %s\", typeof %s === \"function\" ? (%s.v || %s()) : %s);", e, x.file, x.name, alias, alias, alias, alias))
			}
			sb.WriteString(strings.Join(logs, "\n") + "\n")
			name := fmt.Sprintf("e%d.mjs", e)
			c.Files[name] = sb.String()
			c.Entries = append(c.Entries, name)
		}
		c.MinifyIDs = rapid.IntRange(0, 3).Draw(rt, "minify") == 0
		b, _ := json.Marshal(c)
		H.Report(rt, "chunks", string(b), c, judgeChunks(c))
	})
}

// C09 — incremental rebuilds and watch mode are equivalent to clean builds. See DESIGN.md section 5 / C09.
package c09

import (
	"encoding/json"
	"flag"
	"fmt"
	"os"
	"path/filepath"
	"runtime/debug"
	"sort"
	"strings"
	"testing"
	"time"

	"github.com/evanw/esbuild/pkg/api"
	"github.com/evanw/esbuild/verif/fsgen"
	"github.com/evanw/esbuild/verif/vdrv"
	"pgregory.net/rapid"
)

var H *vdrv.H

// ------------------------------------------------------------------------------------ case

type Opts struct {
	Entries           []string `json:"entries"`
	Bundle            bool     `json:"bundle,omitempty"`
	Splitting         bool     `json:"splitting,omitempty"`
	MinifyWhitespace  bool     `json:"minify_whitespace,omitempty"`
	MinifyIdentifiers bool     `json:"minify_identifiers,omitempty"`
	MinifySyntax      bool     `json:"minify_syntax,omitempty"`
	Sourcemap         string   `json:"sourcemap,omitempty"` // linked | inline | external | both
	Format            string   `json:"format,omitempty"`    // esm | cjs | iife
	Platform          string   `json:"platform,omitempty"`  // node | neutral
	Metafile          bool     `json:"metafile,omitempty"`
}

type Action struct {
	Kind string     `json:"kind"`
	Ops  []fsgen.Op `json:"ops"`
}

type Case struct {
	Opts    Opts       `json:"opts"`
	Watch   bool       `json:"watch"` // rebuild through the H1 hook (watch data collected) or through plain Rebuild()
	Init    []fsgen.Op `json:"init"`
	Actions []Action   `json:"actions"`
}

func buildOptions(root string, o Opts) api.BuildOptions {
	b := api.BuildOptions{
		AbsWorkingDir: root, EntryPoints: o.Entries, Outdir: "out", Write: false, LogLevel: api.LogLevelSilent,
		Bundle: o.Bundle, Splitting: o.Splitting, Metafile: o.Metafile,
		MinifyWhitespace: o.MinifyWhitespace, MinifyIdentifiers: o.MinifyIdentifiers, MinifySyntax: o.MinifySyntax,
	}
	switch o.Sourcemap {
	case "linked":
		b.Sourcemap = api.SourceMapLinked
	case "inline":
		b.Sourcemap = api.SourceMapInline
	case "external":
		b.Sourcemap = api.SourceMapExternal
	case "both":
		b.Sourcemap = api.SourceMapInlineAndExternal
	}
	switch o.Format {
	case "esm":
		b.Format = api.FormatESModule
	case "cjs":
		b.Format = api.FormatCommonJS
	case "iife":
		b.Format = api.FormatIIFE
	}
	switch o.Platform {
	case "node":
		b.Platform = api.PlatformNode
	case "neutral":
		b.Platform = api.PlatformNeutral
	}
	return b
}

// ------------------------------------------------------------------------------------ canonical result

type canonResult struct {
	Outputs  map[string]string // path relative to root → bytes
	Order    []string
	Metafile string
	Errors   []string
	Warnings []string
}

func canonLoc(l *api.Location) string {
	if l == nil {
		return "-"
	}
	return fmt.Sprintf("%s|%s:%d:%d+%d|%q|%q", l.Namespace, l.File, l.Line, l.Column, l.Length, l.LineText, l.Suggestion)
}

// canonMsgs renders diagnostics. esbuild orders messages by location; messages without a location (for example
// "Could not resolve" for entry points, which are resolved by parallel goroutines) stay in arrival order, which is not
// deterministic even between two fresh builds. The order among location-less messages is therefore not compared
// (determinism of the order is C08's subject): they are sorted by text and placed first.
func canonMsgs(ms []api.Message) []string {
	var noLoc, withLoc []string
	for _, m := range ms {
		var b strings.Builder
		fmt.Fprintf(&b, "[%s][%s] %s @ %s", m.ID, m.PluginName, m.Text, canonLoc(m.Location))
		for _, n := range m.Notes {
			fmt.Fprintf(&b, "\n    note: %s @ %s", n.Text, canonLoc(n.Location))
		}
		if m.Location == nil {
			noLoc = append(noLoc, b.String())
		} else {
			withLoc = append(withLoc, b.String())
		}
	}
	sort.Strings(noLoc)
	return append(noLoc, withLoc...)
}

func canon(root string, r api.BuildResult) canonResult {
	c := canonResult{Outputs: map[string]string{}, Metafile: r.Metafile, Errors: canonMsgs(r.Errors), Warnings: canonMsgs(r.Warnings)}
	for _, f := range r.OutputFiles {
		rel, err := filepath.Rel(root, f.Path)
		if err != nil {
			rel = f.Path
		}
		rel = filepath.ToSlash(rel)
		c.Order = append(c.Order, rel)
		c.Outputs[rel] = string(f.Contents)
	}
	return c
}

func (c canonResult) text() string {
	var b strings.Builder
	fmt.Fprintf(&b, "errors (%d):\n", len(c.Errors))
	for _, e := range c.Errors {
		b.WriteString("  " + e + "\n")
	}
	fmt.Fprintf(&b, "warnings (%d):\n", len(c.Warnings))
	for _, e := range c.Warnings {
		b.WriteString("  " + e + "\n")
	}
	for _, p := range c.Order {
		fmt.Fprintf(&b, "=== %s (%d bytes)\n%s\n", p, len(c.Outputs[p]), c.Outputs[p])
	}
	if c.Metafile != "" {
		b.WriteString("=== metafile\n" + c.Metafile + "\n")
	}
	return b.String()
}

// diffSummary lists what differs between two results (a = expected/fresh, b = observed/rebuild).
type resultDiff struct {
	Outputs  []string // output paths whose presence or bytes differ
	Order    bool
	Metafile bool
	Errors   bool
	Warnings bool
}

func (d resultDiff) any() bool {
	return len(d.Outputs) > 0 || d.Order || d.Metafile || d.Errors || d.Warnings
}

func (d resultDiff) String() string {
	var parts []string
	if len(d.Outputs) > 0 {
		parts = append(parts, "output files "+strings.Join(d.Outputs, ","))
	}
	if d.Order {
		parts = append(parts, "order of output files")
	}
	if d.Metafile {
		parts = append(parts, "metafile")
	}
	if d.Errors {
		parts = append(parts, "errors")
	}
	if d.Warnings {
		parts = append(parts, "warnings")
	}
	return strings.Join(parts, "; ")
}

func strsEqual(a, b []string) bool {
	if len(a) != len(b) {
		return false
	}
	for i := range a {
		if a[i] != b[i] {
			return false
		}
	}
	return true
}

func diffResults(a, b canonResult) resultDiff {
	var d resultDiff
	seen := map[string]bool{}
	for _, p := range append(append([]string{}, a.Order...), b.Order...) {
		if seen[p] {
			continue
		}
		seen[p] = true
		x, okx := a.Outputs[p]
		y, oky := b.Outputs[p]
		if okx != oky || x != y {
			d.Outputs = append(d.Outputs, p)
		}
	}
	sort.Strings(d.Outputs)
	d.Order = len(d.Outputs) == 0 && !strsEqual(a.Order, b.Order)
	d.Metafile = a.Metafile != b.Metafile
	d.Errors = !strsEqual(a.Errors, b.Errors)
	d.Warnings = !strsEqual(a.Warnings, b.Warnings)
	return d
}

// ------------------------------------------------------------------------------------ known finding: stale JSX options
//
// Finding C09-jsx-runtime-stale (DESIGN.md section 6 #2). js_parser.Options.Equal compares only jsx.Parse, jsx.Factory and
// jsx.Fragment; AutomaticRuntime, Development and ImportSource — the three JSX settings that tsconfig.json "jsx" and
// "jsxImportSource" control — are ignored, so the cached AST of an unchanged .jsx/.tsx file is reused after such an edit.
//
// Signature (a predicate over the case and the observed divergence at step k; all three parts must hold):
//  1. some step j ≤ k changes the effective JSX runtime selected by tsconfig.json (classic, or automatic with its
//     development flag and import source), whether by editing, breaking, deleting or re-creating tsconfig.json;
//  2. a .jsx/.tsx file exists at step k whose bytes were not changed by any operation of steps j..k (a touch does not count);
//  3. every output file whose bytes differ lists such a file among its metafile inputs, or is connected to one that does
//     by chunk import edges through differing outputs (hashed chunk names propagate to importers; the automatic runtime's
//     module moves between shared chunks); checked when the case asks for a metafile and both results have one. Every
//     diagnostic that differs is located in such a file.
const knownJSX = "C09-jsx-runtime-stale"

type jsxRuntime struct {
	Auto bool
	Dev  bool
	Src  string
}

func effectiveJSX(tsconfig string, present bool) jsxRuntime {
	if !present {
		return jsxRuntime{}
	}
	var doc struct {
		CompilerOptions struct {
			Jsx             string `json:"jsx"`
			JsxImportSource string `json:"jsxImportSource"`
		} `json:"compilerOptions"`
	}
	if json.Unmarshal([]byte(tsconfig), &doc) != nil {
		// esbuild ignores a tsconfig.json it cannot parse; so the defaults apply
		return jsxRuntime{}
	}
	r := jsxRuntime{}
	switch strings.ToLower(doc.CompilerOptions.Jsx) {
	case "react-jsx":
		r.Auto = true
	case "react-jsxdev":
		r.Auto, r.Dev = true, true
	}
	if r.Auto {
		r.Src = doc.CompilerOptions.JsxImportSource
	}
	return r
}

// tracker follows the ops of a case: which regular files exist and at which step their bytes last changed.
type tracker struct {
	lastChange map[string]int
	links      map[string]string // symbolic links: path → target text
	ts         string
	tsPresent  bool
}

func (t *tracker) apply(step int, ops []fsgen.Op) {
	for _, o := range ops {
		switch o.Op {
		case "write", "replace", "symlink":
			t.lastChange[o.Path] = step
			if o.Op == "symlink" {
				t.links[o.Path] = o.Content
			} else {
				delete(t.links, o.Path)
			}
			if o.Path == tsPath {
				t.ts, t.tsPresent = o.Content, true
			}
		case "remove":
			for p := range t.lastChange {
				if p == o.Path || strings.HasPrefix(p, o.Path+"/") {
					delete(t.lastChange, p)
					delete(t.links, p)
				}
			}
			if o.Path == tsPath {
				t.ts, t.tsPresent = "", false
			}
		case "rename":
			delete(t.lastChange, o.Path)
			t.lastChange[o.To] = step
			if l, ok := t.links[o.Path]; ok {
				delete(t.links, o.Path)
				t.links[o.To] = l
			}
		}
	}
}

func isJSXFile(p string) bool { return strings.HasSuffix(p, ".jsx") || strings.HasSuffix(p, ".tsx") }

// staleJSXFiles returns the .jsx/.tsx files unchanged since step j (inclusive).
func (t *tracker) staleJSXFiles(j int) map[string]bool {
	out := map[string]bool{}
	for p, s := range t.lastChange {
		if isJSXFile(p) && s < j {
			out[p] = true
		}
	}
	return out
}

type metafileDoc struct {
	Outputs map[string]struct {
		Inputs  map[string]json.RawMessage `json:"inputs"`
		Imports []struct {
			Path string `json:"path"`
		} `json:"imports"`
	} `json:"outputs"`
}

// explainedByStaleInputs reports whether every output in differing (names of either side) is explained by a stale input:
// it lists one of files among its metafile inputs, or it is connected to such an output by import edges (of either
// metafile, in either direction) that run through differing outputs only. A chunk whose bytes changed gets a new hash in
// its name, which changes the bytes of every chunk that imports it; and a file whose transform changed imports other
// modules (the automatic JSX runtime), which changes what the shared chunks contain.
func explainedByStaleInputs(metas []string, differing []string, files map[string]bool) bool {
	var docs []metafileDoc
	for _, m := range metas {
		var doc metafileDoc
		if json.Unmarshal([]byte(m), &doc) != nil {
			return false
		}
		docs = append(docs, doc)
	}
	isDiffering := map[string]bool{}
	for _, out := range differing {
		isDiffering[out] = true
	}
	explained := map[string]bool{}
	for changed := true; changed; {
		changed = false
		for _, out := range differing {
			if explained[out] {
				continue
			}
			hit := false
			for _, doc := range docs {
				if o, found := doc.Outputs[out]; found {
					for in := range o.Inputs {
						hit = hit || files[in]
					}
					for _, im := range o.Imports {
						hit = hit || explained[im.Path] // imports an explained output: its hashed name changed
					}
				}
				// is imported by an explained output: changing the transform of a file changes which modules it imports
				// (the automatic runtime), hence which modules are shared between chunks and what the shared chunks contain
				for name, o := range doc.Outputs {
					if explained[name] && isDiffering[name] {
						for _, im := range o.Imports {
							hit = hit || im.Path == out
						}
					}
				}
			}
			if hit {
				explained[out] = true
				changed = true
			}
		}
	}
	for _, out := range differing {
		if !explained[out] {
			return false
		}
	}
	return true
}

func msgFile(line string) string {
	// canonMsgs: "[id][plugin] text @ ns|file:line:col+len|..."
	i := strings.Index(line, " @ ")
	if i < 0 {
		return ""
	}
	rest := line[i+3:]
	if nl := strings.IndexByte(rest, '\n'); nl >= 0 {
		rest = rest[:nl]
	}
	parts := strings.SplitN(rest, "|", 3)
	if len(parts) < 2 {
		return ""
	}
	f := parts[1]
	if c := strings.Index(f, ":"); c >= 0 {
		f = f[:c]
	}
	return f
}

func onlyIn(a, b []string) []string {
	set := map[string]int{}
	for _, x := range b {
		set[x]++
	}
	var out []string
	for _, x := range a {
		if set[x] > 0 {
			set[x]--
		} else {
			out = append(out, x)
		}
	}
	return out
}

func matchesKnownJSX(c Case, lastJSXChange int, tr *tracker, fresh, rebuilt canonResult, d resultDiff) bool {
	if lastJSXChange < 1 {
		return false // (1) no step changed the effective JSX runtime
	}
	stale := tr.staleJSXFiles(lastJSXChange)
	if len(stale) == 0 {
		return false // (2)
	}
	// (3)
	if c.Opts.Metafile && fresh.Metafile != "" && rebuilt.Metafile != "" {
		var differing []string
		for _, out := range d.Outputs {
			if !strings.HasSuffix(out, ".map") { // a linked/external source map differs together with its JS file
				differing = append(differing, out)
			}
		}
		if !explainedByStaleInputs([]string{fresh.Metafile, rebuilt.Metafile}, differing, stale) {
			return false
		}
	}
	for _, pair := range [][2][]string{{fresh.Errors, rebuilt.Errors}, {fresh.Warnings, rebuilt.Warnings}} {
		for _, m := range append(onlyIn(pair[0], pair[1]), onlyIn(pair[1], pair[0])...) {
			if !stale[msgFile(m)] {
				return false
			}
		}
	}
	return true
}

// Finding C09-entry-path-sticky. bundler.ScanBundle rewrites an entry point "src/a.js" (no leading "./") to "./src/a.js" *in
// place* in the entry-point slice that the context keeps for all its rebuilds, when the file exists. Once the file has existed
// the context keeps resolving "./src/a.js" (a relative path, with the extension rewriting that applies to relative paths)
// where a fresh build resolves "src/a.js" (a package path) — visible as soon as the file is gone.
//
// Signature (both parts must hold):
//  1. some entry point E is spelled without a leading "./", "../" or "/", was a regular file at an earlier build of this
//     context, and is not a regular file now;
//  2. the rebuild result is exactly what a fresh build returns when those entry points are spelled "./E".
const knownEntry = "C09-entry-path-sticky"

func isBare(e string) bool {
	return !strings.HasPrefix(e, "./") && !strings.HasPrefix(e, "../") && !strings.HasPrefix(e, "/")
}

func isRegular(root, rel string) bool {
	info, err := os.Stat(filepath.Join(root, rel))
	return err == nil && info.Mode().IsRegular()
}

func matchesKnownEntry(root string, c Case, sticky map[string]bool, rebuilt canonResult, classify func(fresh, rebuilt canonResult) string) bool {
	alt := c.Opts
	alt.Entries = append([]string{}, c.Opts.Entries...)
	n := 0
	for i, e := range alt.Entries {
		if isBare(e) && sticky[e] && !isRegular(root, e) {
			alt.Entries[i] = "./" + e
			n++
		}
	}
	if n == 0 {
		return false
	}
	altFresh := canon(root, api.Build(buildOptions(root, alt)))
	// what remains may be another listed finding (they are independent and can coincide at one step)
	return !diffResults(altFresh, rebuilt).any() || classify(altFresh, rebuilt) != ""
}

// Finding C09-metafile-css-stub-duplicate. When a JavaScript file imports a CSS file the bundler creates a JavaScript stub
// with its own source index. In a fresh build the stub is appended behind the slice that the "process scanned files" loop
// ranges over and gets no metafile entry; in a rebuild the stub's index comes from the context's source-index cache and can
// lie inside the range, and then the stub also emits an entry: the metafile of the rebuild lists the CSS file twice under
// "inputs" (a duplicate JSON key).
//
// Signature: output files, errors and warnings agree; the metafiles differ; and the rebuild's metafile becomes structurally
// equal to the fresh one once every repeated "inputs" key that names a .css file is reduced to its first occurrence.
const knownMetaDup = "C09-metafile-css-stub-duplicate"

type orderedEntry struct {
	Key string
	Raw string
}

// orderedObject decodes a JSON object keeping key order and duplicates.
func orderedObject(raw []byte) ([]orderedEntry, bool) {
	dec := json.NewDecoder(strings.NewReader(string(raw)))
	tok, err := dec.Token()
	if err != nil || tok != json.Delim('{') {
		return nil, false
	}
	var out []orderedEntry
	for dec.More() {
		k, err := dec.Token()
		if err != nil {
			return nil, false
		}
		key, ok := k.(string)
		if !ok {
			return nil, false
		}
		var v json.RawMessage
		if dec.Decode(&v) != nil {
			return nil, false
		}
		out = append(out, orderedEntry{key, string(v)})
	}
	return out, true
}

func matchesKnownMetaDup(fresh, rebuilt canonResult, d resultDiff) bool {
	if !d.Metafile || d.Errors || d.Warnings || d.Order || len(d.Outputs) > 0 || fresh.Metafile == "" || rebuilt.Metafile == "" {
		return false
	}
	a, okA := orderedObject([]byte(fresh.Metafile))
	b, okB := orderedObject([]byte(rebuilt.Metafile))
	if !okA || !okB || len(a) != len(b) {
		return false
	}
	removed := 0
	for i := range a {
		if a[i].Key != b[i].Key {
			return false
		}
		if a[i].Key != "inputs" {
			if a[i].Raw != b[i].Raw {
				return false
			}
			continue
		}
		ia, ok1 := orderedObject([]byte(a[i].Raw))
		ib, ok2 := orderedObject([]byte(b[i].Raw))
		if !ok1 || !ok2 {
			return false
		}
		seen := map[string]bool{}
		var dedup []orderedEntry
		for _, e := range ib {
			if seen[e.Key] && strings.HasSuffix(e.Key, ".css") {
				removed++
				continue
			}
			seen[e.Key] = true
			dedup = append(dedup, e)
		}
		if len(dedup) != len(ia) {
			return false
		}
		for j := range ia {
			if ia[j] != dedup[j] {
				return false
			}
		}
	}
	return removed > 0
}

// Finding C09-watch-symlink-unwatched. The real file system resolves a directory entry that is a symbolic link with
// lstat + evalSymlinks (fs_real.go kind()) without recording anything for the watcher. A build that reached a module through
// a link therefore watches the link's *name* (directory entry) and the *target file it read*, but not what the link points
// to: re-pointing the link, or removing/creating a link target that the build only stat'ed, changes the result of a fresh
// build while every watch predicate stays clean.
//
// Signature (a predicate over the case): no predicate of the previous build is dirty although the fresh result changed,
// the tree contains symbolic links before the step, and an operation of the step re-points one of them (a "symlink"
// operation on an existing link) or creates/removes/renames exactly the path that one of them (transitively) points to.
const knownSymlinkWatch = "C09-watch-symlink-unwatched"

func linkTargets(links map[string]string) map[string]bool {
	out := map[string]bool{}
	for p, t := range links {
		cur, target := p, t
		for depth := 0; depth < 5; depth++ {
			res := target
			if !strings.HasPrefix(target, "/") {
				res = filepath.ToSlash(filepath.Join(filepath.Dir(cur), target))
			}
			out[res] = true
			next, ok := links[res]
			if !ok {
				break
			}
			cur, target = res, next
		}
	}
	return out
}

func matchesKnownSymlinkWatch(linksBefore map[string]string, ops []fsgen.Op) bool {
	if len(linksBefore) == 0 {
		return false
	}
	targets := linkTargets(linksBefore)
	for _, o := range ops {
		switch o.Op {
		case "symlink":
			if _, ok := linksBefore[o.Path]; ok {
				return true
			}
			if targets[o.Path] { // creates (as a link) exactly the path an existing link points to
				return true
			}
		case "write", "replace", "remove":
			if targets[o.Path] {
				return true
			}
		case "rename":
			if targets[o.Path] || targets[o.To] {
				return true
			}
		}
	}
	return false
}

// ------------------------------------------------------------------------------------ judge

// hangLimit guards against a rebuild that never returns (for example a cycle in symbol links after the linker mutated a
// cached AST). Builds of these projects take milliseconds, so the limit is four to five orders of magnitude above the
// expected time even on a busy machine; it is a guard, not part of the oracle.
const hangLimit = 120 * time.Second
const hangPrefix = "HANG: "

func rebuild(ctx api.BuildContext, watch bool) (api.BuildResult, func() []string, string) {
	type out struct {
		r        api.BuildResult
		f        func() []string
		panicked string
	}
	ch := make(chan out, 1)
	go func() {
		// a panic inside the rebuild must fail the case (in the caller's goroutine), not kill the shard
		defer func() {
			if p := recover(); p != nil {
				ch <- out{panicked: fmt.Sprintf("%v\n%s", p, debug.Stack())}
			}
		}()
		if watch {
			r, f := api.VerifRebuildWithWatchData(ctx)
			ch <- out{r: r, f: f}
		} else {
			ch <- out{r: ctx.Rebuild()}
		}
	}()
	select {
	case o := <-ch:
		if o.panicked != "" {
			return api.BuildResult{}, nil, "panicked: " + o.panicked
		}
		return o.r, o.f, ""
	case <-time.After(hangLimit):
		return api.BuildResult{}, nil, "hang"
	}
}

func clipText(s string, n int) string {
	if len(s) > n {
		return s[:n] + "…"
	}
	return s
}

type nopTB struct{}

func (nopTB) Fatalf(format string, args ...interface{}) {}
func (nopTB) Logf(format string, args ...interface{})   {}

// report forwards a verdict to the harness. A rebuild that hangs leaves a goroutine spinning inside esbuild, so shrinking
// (which would re-run the case many times) is not possible: the case is written as it is and the shard stops.
func report(t vdrv.TB, sub string, key string, c Case, v vdrv.Verdict) {
	if !v.OK && strings.HasPrefix(v.Detail, hangPrefix) {
		H.Report(nopTB{}, sub, key, c, v)
		H.FlushFailure(sub)
		H.Finish(false)
		fsgen.RemoveScratch()
		os.Exit(1)
	}
	H.Report(t, sub, key, c, v)
}

// nopContext replaces a context whose build is stuck, so that the deferred Dispose() does not block.
type nopContext struct{ api.BuildContext }

func (nopContext) Dispose() {}

func describe(c Case, upto int) string {
	var b strings.Builder
	for i := 0; i < upto && i < len(c.Actions); i++ {
		fmt.Fprintf(&b, "step %d %s:", i+1, c.Actions[i].Kind)
		for _, o := range c.Actions[i].Ops {
			fmt.Fprintf(&b, " [%s]", o.String())
		}
		b.WriteString("\n")
	}
	return b.String()
}

// trace (VERIF_C09_TRACE=1) prints one line per step of a history; meant for --replay runs.
var trace = os.Getenv("VERIF_C09_TRACE") != ""

func judge(c Case) vdrv.Verdict {
	root, err := fsgen.MkdirScratch("c09-")
	if err != nil {
		return vdrv.Skip("tempdir")
	}
	defer os.RemoveAll(root)
	if r, err := filepath.EvalSymlinks(root); err == nil {
		root = r
	}
	if err := fsgen.ApplyAll(root, c.Init); err != nil {
		return vdrv.Skip("infra-apply-init")
	}
	opts := buildOptions(root, c.Opts)
	ctx, cerr := api.Context(opts)
	if cerr != nil {
		return vdrv.Skip("context-refused: " + cerr.Error())
	}
	defer func() { ctx.Dispose() }()

	tr := &tracker{lastChange: map[string]int{}, links: map[string]string{}}
	tr.apply(0, c.Init)
	prevJSX := effectiveJSX(tr.ts, tr.tsPresent)
	lastJSXChange := 0

	classes := map[string]bool{}
	var prevFresh canonResult
	var dirtyFn func() []string
	knownHits := map[string]int{}
	linksBefore := map[string]string{}
	sticky := map[string]bool{} // bare entry points that were regular files at an earlier build of the current context
	var firstKnown *vdrv.Verdict
	configEdit, resolutionChange := false, false
	changedSteps, errorSteps := 0, 0

	for k := 0; k <= len(c.Actions); k++ {
		kind := "initial"
		if k > 0 {
			a := c.Actions[k-1]
			kind = a.Kind
			if err := fsgen.ApplyAll(root, a.Ops); err != nil {
				return vdrv.Skip("infra-apply-action")
			}
			linksBefore = map[string]string{}
			for p, t := range tr.links {
				linksBefore[p] = t
			}
			tr.apply(k, a.Ops)
			if cur := effectiveJSX(tr.ts, tr.tsPresent); cur != prevJSX {
				prevJSX, lastJSXChange = cur, k
			}
			classes["action="+kind] = true
			for _, o := range a.Ops {
				if o.Op == "write" || o.Op == "replace" || o.Op == "touch" {
					if o.Fresh {
						classes["mtime=fresh"] = true
					} else {
						classes["mtime=old"] = true
					}
				}
			}
		}
		var dirty []string
		if dirtyFn != nil {
			dirty = dirtyFn()
		}
		nowRegular := map[string]bool{}
		for _, e := range c.Opts.Entries {
			if isBare(e) && isRegular(root, e) {
				nowRegular[e] = true
			}
		}
		fresh := canon(root, api.Build(opts))
		res, fn, trouble := rebuild(ctx, c.Watch)
		if strings.HasPrefix(trouble, "panicked") {
			ctx = nopContext{} // the context still believes a build is active; Dispose() would wait for it
			return vdrv.Fail(fmt.Sprintf("after step %d (%s) Rebuild() %s\n%s", k, kind, clipText(trouble, 1500), describe(c, k)), fresh.text(), trouble)
		}
		if trouble == "hang" {
			ctx = nopContext{} // Dispose() of the stuck context would wait for the build
			return vdrv.Fail(fmt.Sprintf(hangPrefix+"after step %d (%s) Rebuild() did not return within %v; a fresh build of the same tree returned normally\n%s", k, kind, hangLimit, describe(c, k)), fresh.text(), "no result")
		}
		rebuilt := canon(root, res)
		dirtyFn = fn

		if trace {
			fmt.Printf("TRACE step %d %s: fresh errors=%d outputs=%d; rebuild vs fresh: %q; dirty=%d jsx=%+v lastJSXChange=%d\n", k, kind, len(fresh.Errors), len(fresh.Order), diffResults(fresh, rebuilt).String(), len(dirty), prevJSX, lastJSXChange)
		}
		if d := diffResults(fresh, rebuilt); d.any() {
			// guard: the reference itself must be reproducible
			if diffResults(fresh, canon(root, api.Build(opts))).any() {
				return vdrv.Skip("nondeterministic-fresh-build")
			}
			detail := fmt.Sprintf("after step %d (%s) Rebuild() differs from a fresh build of the same tree in: %s\n%s", k, kind, d.String(), describe(c, k))
			v := vdrv.Fail(detail, fresh.text(), rebuilt.text())
			classify := func(fresh, rebuilt canonResult) string {
				d := diffResults(fresh, rebuilt)
				switch {
				case matchesKnownMetaDup(fresh, rebuilt, d):
					return knownMetaDup
				case matchesKnownJSX(c, lastJSXChange, tr, fresh, rebuilt, d):
					return knownJSX
				}
				return ""
			}
			id := classify(fresh, rebuilt)
			if id == "" && matchesKnownEntry(root, c, sticky, rebuilt, classify) {
				id = knownEntry
			}
			if id == "" {
				return v
			}
			// Known finding: count it, then continue the history on a new context so that the search goes on behind it.
			knownHits[id]++
			if firstKnown == nil {
				firstKnown = &v
			}
			ctx.Dispose()
			ctx, cerr = api.Context(opts)
			if cerr != nil {
				return vdrv.Skip("context-refused-after-known")
			}
			res, fn, trouble = rebuild(ctx, c.Watch)
			if strings.HasPrefix(trouble, "panicked") {
				ctx = nopContext{}
				return vdrv.Fail(fmt.Sprintf("after step %d (%s) Rebuild() on a new context %s\n%s", k, kind, clipText(trouble, 1500), describe(c, k)), fresh.text(), trouble)
			}
			if trouble == "hang" {
				ctx = nopContext{}
				return vdrv.Fail(fmt.Sprintf(hangPrefix+"after step %d (%s) Rebuild() on a new context did not return within %v\n%s", k, kind, hangLimit, describe(c, k)), fresh.text(), "no result")
			}
			dirtyFn = fn
			if d2 := diffResults(fresh, canon(root, res)); d2.any() {
				return vdrv.Fail(fmt.Sprintf("after step %d (%s) even a new context differs from a fresh build in: %s\n%s", k, kind, d2.String(), describe(c, k)), fresh.text(), canon(root, res).text())
			}
			lastJSXChange = 0 // the new context has no stale entries
			sticky = map[string]bool{}
		}
		for e := range nowRegular {
			sticky[e] = true // this build of the context has rewritten the entry point
		}

		if k > 0 {
			changed := diffResults(prevFresh, fresh).any()
			if changed {
				changedSteps++
				classes["changed:"+kind] = true
				if resolutionKinds[kind] {
					resolutionChange = true
				}
				if c.Watch && len(dirty) == 0 && matchesKnownSymlinkWatch(linksBefore, c.Actions[k-1].Ops) {
					knownHits[knownSymlinkWatch]++
					if firstKnown == nil {
						v := vdrv.Fail("", "at least one dirty path", "no dirty path")
						firstKnown = &v
					}
				} else if c.Watch && len(dirty) == 0 {
					return vdrv.Fail(fmt.Sprintf("watch: step %d (%s) changes the result of a fresh build, but no watch predicate captured by the previous build reports a change\n%s", k, kind, describe(c, k)),
						"at least one dirty path", "no dirty path; result before:\n"+prevFresh.text()+"\n--- result after:\n"+fresh.text())
				}
			} else if len(dirty) > 0 {
				classes["watch-dirty-without-result-change"] = true
			}
			if configKinds[kind] {
				configEdit = true
			}
		}
		if len(fresh.Errors) > 0 {
			errorSteps++
		}
		prevFresh = fresh
	}

	// classes
	var cls []string
	for k := range classes {
		cls = append(cls, k)
	}
	if c.Opts.Bundle {
		cls = append(cls, "opt=bundle")
	} else {
		cls = append(cls, "opt=no-bundle")
	}
	if c.Opts.Splitting {
		cls = append(cls, "opt=splitting")
	}
	if c.Opts.MinifyWhitespace || c.Opts.MinifyIdentifiers || c.Opts.MinifySyntax {
		cls = append(cls, "opt=minify")
	}
	if c.Opts.Sourcemap != "" {
		cls = append(cls, "opt=sourcemap")
	}
	if c.Opts.Format != "" {
		cls = append(cls, "opt=format-"+c.Opts.Format)
	}
	if c.Watch {
		cls = append(cls, "rebuild=with-watch-data")
	} else {
		cls = append(cls, "rebuild=plain")
	}
	if errorSteps > 0 {
		cls = append(cls, "some-step-has-errors")
	}
	if errorSteps == len(c.Actions)+1 {
		cls = append(cls, "every-step-has-errors")
	}
	if changedSteps > 0 {
		cls = append(cls, "some-step-changes-result")
	}
	switch n := len(c.Actions); {
	case n < 3:
		cls = append(cls, "steps<3")
	case n < 8:
		cls = append(cls, "steps=3..7")
	default:
		cls = append(cls, "steps>=8")
	}
	sort.Strings(cls)
	nontrivial := len(c.Actions) >= 3 && (configEdit || resolutionChange)

	for _, id := range []string{knownJSX, knownMetaDup, knownEntry, knownSymlinkWatch} {
		if n := knownHits[id]; n > 0 {
			v := vdrv.Fail(fmt.Sprintf("known finding %s at %d step(s); nothing else diverged in this history\n%s", id, n, describe(c, len(c.Actions))), firstKnown.Expected, firstKnown.Observed)
			v.Known = id
			v.Classes = cls
			return v
		}
	}
	v := vdrv.Pass(nontrivial, cls...)
	v.Observed = fmt.Sprintf("%d steps, %d changed the fresh result, %d builds with errors", len(c.Actions), changedSteps, errorSteps)
	return v
}

func replayHist(raw json.RawMessage) vdrv.Verdict {
	var c Case
	if err := json.Unmarshal(raw, &c); err != nil {
		return vdrv.Skip("bad-replay")
	}
	v := judge(c)
	v.Known = "" // a replay is judged on its own; the driver knows whether it is a listed finding
	return v
}

// ------------------------------------------------------------------------------------ generation

func genOpts(rt *rapid.T, m *model) Opts {
	o := Opts{Metafile: rapid.IntRange(0, 9).Draw(rt, "metafile") > 0}
	o.Bundle = rapid.IntRange(0, 3).Draw(rt, "bundle") > 0
	if o.Bundle {
		o.Entries = []string{m.mods[0].path()}
		if rapid.IntRange(0, 2).Draw(rt, "two-entries") == 0 {
			o.Entries = append(o.Entries, m.mods[1].path())
		}
		o.Format = pick(rt, "format", []string{"", "esm", "esm", "cjs", "iife"})
		if o.Format == "esm" && rapid.IntRange(0, 1).Draw(rt, "splitting") == 0 {
			o.Splitting = true
		}
	} else {
		for _, x := range m.mods {
			o.Entries = append(o.Entries, x.path())
		}
		o.Format = pick(rt, "format", []string{"", "", "esm", "cjs"})
	}
	switch rapid.IntRange(0, 5).Draw(rt, "minify") {
	case 0:
		o.MinifyWhitespace, o.MinifyIdentifiers, o.MinifySyntax = true, true, true
	case 1:
		o.MinifySyntax = true
	case 2:
		o.MinifyIdentifiers = true
	}
	// entry points are normally written "./src/x.js"; the bare spelling "src/x.js" (which esbuild rewrites when the file
	// exists) is kept in a minority of histories because of known finding C09-entry-path-sticky
	if rapid.IntRange(0, 4).Draw(rt, "bare-entries") > 0 {
		for i := range o.Entries {
			o.Entries[i] = "./" + o.Entries[i]
		}
	}
	o.Sourcemap = pick(rt, "sourcemap", []string{"", "", "linked", "inline", "external", "both"})
	o.Platform = pick(rt, "platform", []string{"", "", "node", "neutral"})
	return o
}

func genCase(rt *rapid.T) Case {
	m := genProject(rt)
	c := Case{Init: m.takeOps(), Watch: rapid.IntRange(0, 4).Draw(rt, "watch") > 0}
	c.Opts = genOpts(rt, m)
	acts := m.actions(func(kind string) {
		c.Actions = append(c.Actions, Action{Kind: kind, Ops: m.takeOps()})
	})
	// rapid's Repeat samples the (sorted) action keys with a bias towards the first ones; a permutation drawn per history
	// decides which kinds those are.
	kinds := make([]string, 0, len(acts))
	for k := range acts {
		kinds = append(kinds, k)
	}
	sort.Strings(kinds)
	table := map[string]func(*rapid.T){}
	for i, k := range rapid.Permutation(kinds).Draw(rt, "order") {
		table[fmt.Sprintf("%02d %s", i, k)] = acts[k]
	}
	for tries := 0; tries < 4 && len(c.Actions) < 3; tries++ {
		rt.Repeat(table)
	}
	return c
}

func caseKey(c Case) string {
	b, _ := json.Marshal(c)
	return string(b)
}

func runHist(t *testing.T) {
	H.Rule("hist", "rapid state machine (Repeat) over a real temp project of 3–8 modules (.js/.jsx/.ts/.tsx/.css, ≥1 JSX file, node_modules/pkg, react+preact JSX runtimes, "+
		"package.json, tsconfig.json): ≈45 action kinds (content edits of different and equal length, create/delete/rename, extension and node_modules shadowing, file↔directory, "+
		"symlink, syntax errors and repairs, touch, one action per package.json field and per tsconfig compilerOptions field); explicit strictly increasing old mtimes with a sticky "+
		"drawn subset of fresh files; options bundle/splitting/minify/sourcemap/format/platform/metafile, Write:false. After every action: Rebuild() on one long-lived context "+
		"(through hook H1 in 80% of histories) must equal a fresh api.Build (output paths+bytes, metafile, errors/warnings with locations and notes); the watch predicates "+
		"captured by the previous rebuild must report a change whenever the fresh result changed. Non-trivial = ≥3 actions including a config-file edit or a create/delete/rename/shadow "+
		"that changed the fresh result.")
	H.SetupRapid("hist", H.N(1600, 60000))
	flag.Set("rapid.steps", "6")
	rapid.Check(t, func(rt *rapid.T) {
		c := genCase(rt)
		report(rt, "hist", caseKey(c), c, judge(c))
	})
}

var subs = map[string]vdrv.ReplayFunc{"hist": replayHist, "flip": replayHist}

func TestCheck(t *testing.T) {
	H = vdrv.New("C09")
	complete := false
	defer func() { H.Finish(complete) }()
	defer fsgen.RemoveScratch()
	H.RunReplays(t, subs)
	H.Sub(t, "flip", runFlip)
	H.Sub(t, "hist", runHist)
	complete = true
}

func TestReplay(t *testing.T) {
	H = vdrv.New("C09")
	defer fsgen.RemoveScratch()
	H.ReplayOne(t, subs)
}

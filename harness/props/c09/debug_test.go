package c09

import (
	"fmt"
	"os"
	"sort"
	"testing"

	"github.com/evanw/esbuild/pkg/api"
	"github.com/evanw/esbuild/verif/fsgen"
	"pgregory.net/rapid"
)

func TestDebugErrors(t *testing.T) {
	if os.Getenv("C09_DEBUG") == "" {
		t.Skip()
	}
	tally := map[string]int{}
	n, bad := 0, 0
	rapid.Check(t, func(rt *rapid.T) {
		m := genProject(rt)
		init := m.takeOps()
		o := genOpts(rt, m)
		root, _ := fsgen.MkdirScratch("dbg")
		defer os.RemoveAll(root)
		fsgen.ApplyAll(root, init)
		r := api.Build(buildOptions(root, o))
		n++
		if len(r.Errors) > 0 {
			bad++
		}
		for _, e := range r.Errors {
			txt := e.Text
			if len(txt) > 60 {
				txt = txt[:60]
			}
			tally[fmt.Sprint(o.Bundle)+" "+txt]++
		}
	})
	var keys []string
	for k := range tally {
		keys = append(keys, k)
	}
	sort.Slice(keys, func(i, j int) bool { return tally[keys[i]] > tally[keys[j]] })
	fmt.Println("projects", n, "with errors", bad)
	for _, k := range keys {
		fmt.Println(tally[k], k)
	}
}

package c09

// Generator side of C09: a model of the project tree (what files exist, what the structured state of
// each module / config file is) from which every action derives concrete file-system operations.
// The judge never sees the model: a case is only the initial operations plus the per-action
// operation lists, so a replay is self-contained.

import (
	"fmt"
	"path"
	"sort"
	"strings"

	"github.com/evanw/esbuild/verif/fsgen"
	"pgregory.net/rapid"
)

// ------------------------------------------------------------------------------------ modules

type imp struct {
	Form string // named | side | ns | default | dynamic | type | require
	Spec string
}

type mod struct {
	Dir      string // src | src/lib
	Base     string // index, m0 … m7
	Ext      string // .js .jsx .ts .tsx .css
	Kind     string // esm | cjs | script | css
	TS       bool   // rendered with TypeScript-only syntax (needs .ts/.tsx)
	JSX      bool   // rendered with a JSX element (needs .jsx/.tsx)
	Val      int
	Imports  []imp
	Broken   bool
	DirIndex bool // lives at Dir/Base/index<Ext>
	JSONForm int  // how this module imports src/data.json: 0 not, 1 default+named, 2 named only, 3 default only, 4 namespace, 5 require
}

func (m *mod) path() string {
	if m.DirIndex {
		return m.Dir + "/" + m.Base + "/index" + m.Ext
	}
	return m.Dir + "/" + m.Base + m.Ext
}

func (m *mod) render() string {
	var b strings.Builder
	if m.Kind == "css" {
		fmt.Fprintf(&b, ".%s { width: %dpx }\n", m.Base, m.Val)
		if m.Broken {
			b.WriteString("}}} {\n")
		}
		return b.String()
	}
	var uses []string
	for i, im := range m.Imports {
		switch im.Form {
		case "named":
			fmt.Fprintf(&b, "import { v as v_%d } from %q;\n", i, im.Spec)
			uses = append(uses, fmt.Sprintf("v_%d", i))
		case "side":
			fmt.Fprintf(&b, "import %q;\n", im.Spec)
		case "ns":
			fmt.Fprintf(&b, "import * as ns_%d from %q;\n", i, im.Spec)
			uses = append(uses, fmt.Sprintf("ns_%d.v", i))
		case "default":
			fmt.Fprintf(&b, "import d_%d from %q;\n", i, im.Spec)
			uses = append(uses, fmt.Sprintf("d_%d", i))
		case "type":
			fmt.Fprintf(&b, "import { T as T_%d } from %q;\n", i, im.Spec)
		case "dynamic", "require":
		}
	}
	// a JSON file whose default export and named properties can both be live (the linker rewrites the
	// lazily exported object literal; its cached AST must stay untouched between rebuilds)
	jsonSpec := "./data.json"
	if m.Dir != "src" {
		jsonSpec = "../data.json"
		if strings.Count(m.Dir, "/") >= 2 {
			jsonSpec = "../../data.json"
		}
	}
	if m.DirIndex {
		jsonSpec = "../" + jsonSpec
	}
	switch m.JSONForm {
	case 1:
		fmt.Fprintf(&b, "import jdata, { list as jlist, name as jname } from %q;\n", jsonSpec)
		uses = append(uses, "JSON.stringify(jdata)", "jlist.length", "jname", "jdata.list === jlist")
	case 2:
		fmt.Fprintf(&b, "import { list as jlist, nested as jnested } from %q;\n", jsonSpec)
		uses = append(uses, "jlist.length", "jnested.k")
	case 3:
		fmt.Fprintf(&b, "import jdata from %q;\n", jsonSpec)
		uses = append(uses, "JSON.stringify(jdata)")
	case 4:
		fmt.Fprintf(&b, "import * as jns from %q;\n", jsonSpec)
		uses = append(uses, "jns.list.length", "JSON.stringify(jns.default)")
	}
	switch m.Kind {
	case "esm":
		fmt.Fprintf(&b, "export const v = %d;\nexport function f() { return v + 1; }\nexport default v;\n", m.Val)
		for i, im := range m.Imports {
			switch im.Form {
			case "dynamic":
				fmt.Fprintf(&b, "export const lazy_%d = () => import(%q);\n", i, im.Spec)
			case "type":
				fmt.Fprintf(&b, "export let t_%d: T_%d | undefined;\n", i, i)
			}
		}
		if m.TS {
			fmt.Fprintf(&b, "export type T = number;\nexport enum E { A = %d, B }\n", m.Val)
			fmt.Fprintf(&b, "function dec(x: any, y?: any): any { return x; }\n")
			fmt.Fprintf(&b, "export class C { x: number = %d; y; static s = \"s\"; }\n@dec export class D { @dec m() { return E.B; } }\n", m.Val)
		}
		if m.JSX {
			fmt.Fprintf(&b, "export const el = <div id=%q n={v}><>{\"t\"}{f()}</></div>;\n", m.Base)
		}
		fmt.Fprintf(&b, "console.log(%q, v%s);\n", m.Base, joinUses(uses))
	case "cjs":
		for i, im := range m.Imports {
			if im.Form == "require" {
				fmt.Fprintf(&b, "const r_%d = require(%q);\n", i, im.Spec)
				uses = append(uses, fmt.Sprintf("r_%d.v", i))
			}
		}
		fmt.Fprintf(&b, "exports.v = %d;\nexports.f = function () { return %d + 1; };\nconsole.log(%q%s);\n", m.Val, m.Val, m.Base, joinUses(uses))
	case "script":
		// a file without import/export: sloppy unless tsconfig alwaysStrict/strict says otherwise (TS only)
		fmt.Fprintf(&b, "var legacy_%s = 010 + %d;\nconsole.log(%q, legacy_%s);\n", m.Base, m.Val, m.Base, m.Base)
	}
	if m.Broken {
		b.WriteString("export const = ;\n")
	}
	return b.String()
}

func joinUses(u []string) string {
	if len(u) == 0 {
		return ""
	}
	return ", " + strings.Join(u, ", ")
}

// ------------------------------------------------------------------------------------ config files

type tsState struct {
	Present, Broken                                    bool
	Jsx, JsxFactory, JsxFragment, JsxImportSource, Tgt string
	Paths                                              int // 0 absent, 1 → ./src/*, 2 → ./src/lib/*
	UseDefine, Verbatim, ExpDec, AlwaysStrict, Strict  int // 0 absent, 1 true, 2 false
	PreserveValueImports                               int
}

func tri(b *strings.Builder, first *bool, key string, v int) {
	if v == 0 {
		return
	}
	kv(b, first, key, map[int]string{1: "true", 2: "false"}[v])
}

func kv(b *strings.Builder, first *bool, key, raw string) {
	if !*first {
		b.WriteString(",\n")
	}
	*first = false
	fmt.Fprintf(b, "    %q: %s", key, raw)
}

func (s tsState) render() string {
	var b strings.Builder
	b.WriteString("{\n  \"compilerOptions\": {\n")
	first := true
	str := func(key, v string) {
		if v != "" {
			kv(&b, &first, key, fmt.Sprintf("%q", v))
		}
	}
	str("jsx", s.Jsx)
	str("jsxFactory", s.JsxFactory)
	str("jsxFragmentFactory", s.JsxFragment)
	str("jsxImportSource", s.JsxImportSource)
	str("target", s.Tgt)
	switch s.Paths {
	case 1:
		kv(&b, &first, "paths", `{ "@lib/*": ["./src/*"] }`)
	case 2:
		kv(&b, &first, "paths", `{ "@lib/*": ["./src/lib/*"] }`)
	}
	tri(&b, &first, "useDefineForClassFields", s.UseDefine)
	tri(&b, &first, "verbatimModuleSyntax", s.Verbatim)
	tri(&b, &first, "experimentalDecorators", s.ExpDec)
	tri(&b, &first, "alwaysStrict", s.AlwaysStrict)
	tri(&b, &first, "strict", s.Strict)
	tri(&b, &first, "preserveValueImports", s.PreserveValueImports)
	b.WriteString("\n  }\n}\n")
	if s.Broken {
		return strings.Replace(b.String(), "\"compilerOptions\": {", "\"compilerOptions\": {{", 1)
	}
	return b.String()
}

type pkgState struct {
	Name        string
	Type        string // "" | module | commonjs
	SideEffects int    // 0 absent 1 true 2 false 3 array
	Main        string // "" | ./a.js | ./b.js
	Module      string
	Exports     int // 0 absent, 1 {".":"./b.js"}, 2 conditions import→a require→b, 3 {".":"./a.js"}
	Broken      bool
}

func (p pkgState) render() string {
	var parts []string
	parts = append(parts, fmt.Sprintf("%q: %q", "name", p.Name))
	if p.Type != "" {
		parts = append(parts, fmt.Sprintf("%q: %q", "type", p.Type))
	}
	switch p.SideEffects {
	case 1:
		parts = append(parts, `"sideEffects": true`)
	case 2:
		parts = append(parts, `"sideEffects": false`)
	case 3:
		parts = append(parts, `"sideEffects": ["./src/index.*", "./a.js"]`)
	}
	if p.Main != "" {
		parts = append(parts, fmt.Sprintf("%q: %q", "main", p.Main))
	}
	if p.Module != "" {
		parts = append(parts, fmt.Sprintf("%q: %q", "module", p.Module))
	}
	switch p.Exports {
	case 1:
		parts = append(parts, `"exports": { ".": "./b.js" }`)
	case 2:
		parts = append(parts, `"exports": { ".": { "import": "./a.js", "require": "./b.js", "default": "./index.js" } }`)
	case 3:
		parts = append(parts, `"exports": { ".": "./a.js" }`)
	}
	s := "{\n  " + strings.Join(parts, ",\n  ") + "\n}\n"
	if p.Broken {
		s = strings.Replace(s, "{", "{,", 1)
	}
	return s
}

// ------------------------------------------------------------------------------------ model

type model struct {
	files map[string]string // every regular file of the tree
	fresh map[string]bool   // sticky: this path carries an OS ("now") mtime
	tick  int
	mods  []*mod
	ts    tsState
	pj    pkgState // package.json of the project
	dep   pkgState // node_modules/pkg/package.json
	depV  [3]int   // literal in node_modules/pkg/{a,b,index}.js
	nearV int      // >0: src/node_modules/pkg exists with this value
	ops   []fsgen.Op
}

const (
	tsPath  = "tsconfig.json"
	pjPath  = "package.json"
	depDir  = "node_modules/pkg"
	nearDir = "src/node_modules/pkg"
)

var depFiles = [3]string{"a.js", "b.js", "index.js"}

func depContent(i, v int) string {
	switch i {
	case 0:
		return fmt.Sprintf("export const v = %d;\nexport function f() { return \"pkg-a\"; }\nexport default f;\n", v)
	case 1:
		return fmt.Sprintf("exports.v = %d;\nexports.f = function () { return \"pkg-b\"; };\n", v)
	}
	return fmt.Sprintf("export const v = %d;\nexport const f = () => \"pkg-index\";\nexport default f;\nconsole.log(\"pkg-index side effect\");\n", v)
}

func (m *model) takeOps() []fsgen.Op {
	o := m.ops
	m.ops = nil
	return o
}

// write emits a write (or atomic replace) of path. Freshness is sticky per path.
func (m *model) write(rt *rapid.T, p, content string) {
	fresh := m.fresh[p]
	if !fresh {
		fresh = rapid.IntRange(0, 5).Draw(rt, "fresh") == 5
	}
	atomic := false
	if _, exists := m.files[p]; exists {
		atomic = rapid.IntRange(0, 5).Draw(rt, "atomic") == 5
	}
	m.put(p, content, fresh, atomic)
}

func (m *model) put(p, content string, fresh, atomic bool) {
	op := "write"
	if atomic {
		op = "replace"
	}
	fresh = fresh || m.fresh[p]
	m.tick++
	m.ops = append(m.ops, fsgen.Op{Op: op, Path: p, Content: content, Fresh: fresh, Tick: m.tick})
	m.files[p] = content
	if fresh {
		m.fresh[p] = true
	}
}

func (m *model) remove(p string) {
	m.tick++
	m.ops = append(m.ops, fsgen.Op{Op: "remove", Path: p})
	for f := range m.files {
		if f == p || strings.HasPrefix(f, p+"/") {
			delete(m.files, f)
			delete(m.fresh, f)
		}
	}
}

func (m *model) rename(from, to string) {
	m.tick++
	m.ops = append(m.ops, fsgen.Op{Op: "rename", Path: from, To: to})
	m.files[to] = m.files[from]
	delete(m.files, from)
	if m.fresh[from] {
		m.fresh[to] = true
	}
	delete(m.fresh, from)
}

func (m *model) touch(p string) {
	m.tick++
	m.ops = append(m.ops, fsgen.Op{Op: "touch", Path: p, Fresh: m.fresh[p], Tick: m.tick})
}

func (m *model) modAt(p string) *mod {
	for _, x := range m.mods {
		if x.path() == p {
			return x
		}
	}
	return nil
}

func (m *model) dropMod(x *mod) {
	for i, y := range m.mods {
		if y == x {
			m.mods = append(m.mods[:i], m.mods[i+1:]...)
			return
		}
	}
}

// slot = (dir, base) a specifier can point at
type slot struct{ Dir, Base string }

var slots = []slot{
	{"src", "m0"}, {"src", "m1"}, {"src", "m2"}, {"src", "m3"}, {"src", "m4"}, {"src", "m5"}, {"src", "m6"}, {"src", "m7"},
	{"src/lib", "m0"}, {"src/lib", "m1"}, {"src/lib", "m2"},
}

func specFor(fromDir string, to slot, alias bool) string {
	if alias {
		return "@lib/" + to.Base
	}
	rel := ""
	switch {
	case fromDir == to.Dir:
		rel = "./" + to.Base
	case fromDir == "src" && to.Dir == "src/lib":
		rel = "./lib/" + to.Base
	case fromDir == "src/lib" && to.Dir == "src":
		rel = "../" + to.Base
	default:
		rel = "./" + to.Base
	}
	return rel
}

// slotTaken: some file or directory occupies dir/base with any resolvable extension.
func (m *model) slotFiles(s slot) []string {
	var out []string
	prefix := s.Dir + "/" + s.Base
	for f := range m.files {
		if strings.HasPrefix(f, prefix+".") && !strings.Contains(f[len(prefix)+1:], "/") || strings.HasPrefix(f, prefix+"/index.") {
			out = append(out, f)
		}
	}
	sort.Strings(out)
	return out
}

func pick[T any](rt *rapid.T, label string, xs []T) T {
	return xs[rapid.IntRange(0, len(xs)-1).Draw(rt, label)]
}

// other draws a value from xs different from cur (xs has ≥2 distinct values).
func other(rt *rapid.T, label string, xs []string, cur string) string {
	var alt []string
	for _, x := range xs {
		if x != cur {
			alt = append(alt, x)
		}
	}
	return pick(rt, label, alt)
}

func otherInt(rt *rapid.T, label string, n int, cur int) int {
	v := rapid.IntRange(0, n-2).Draw(rt, label)
	if v >= cur {
		v++
	}
	return v
}

var exts = []string{".js", ".jsx", ".ts", ".tsx"}

// resolution order of esbuild's default ResolveExtensions (earlier wins)
var extRank = map[string]int{".tsx": 0, ".ts": 1, ".jsx": 2, ".js": 3, ".css": 4}

func (m *model) onlyCSS(s slot) bool {
	fs := m.slotFiles(s)
	if len(fs) == 0 {
		return false
	}
	for _, f := range fs {
		if !strings.HasSuffix(f, ".css") {
			return false
		}
	}
	return true
}

func (m *model) genImports(rt *rapid.T, x *mod, n int) {
	for i := 0; i < n; i++ {
		var to slot
		// mostly point at modules that exist, sometimes at an empty slot (a lookup that fails until the file appears)
		var existing []slot
		for _, s := range slots {
			if len(m.slotFiles(s)) > 0 && !(s.Dir == x.Dir && s.Base == x.Base) {
				existing = append(existing, s)
			}
		}
		if len(existing) > 0 && rapid.IntRange(0, 19).Draw(rt, "imp-missing") < 19 {
			to = pick(rt, "imp-to", existing)
		} else {
			to = pick(rt, "imp-slot", slots)
			if to.Dir == x.Dir && to.Base == x.Base {
				continue
			}
		}
		// the tsconfig "paths" alias, mostly when it currently resolves
		aliasWorks := m.ts.Present && !m.ts.Broken && ((m.ts.Paths == 1 && to.Dir == "src") || (m.ts.Paths == 2 && to.Dir == "src/lib"))
		alias := false
		if a := rapid.IntRange(0, 29).Draw(rt, "imp-alias"); (aliasWorks && a >= 24) || a == 29 {
			alias = true
		}
		forms := []string{"named", "named", "side", "ns", "default", "dynamic"}
		if x.Kind == "cjs" {
			forms = []string{"require"}
		} else if m.onlyCSS(to) {
			forms = []string{"side"}
		} else if x.TS {
			forms = append(forms, "type")
		}
		x.Imports = append(x.Imports, imp{Form: pick(rt, "imp-form", forms), Spec: specFor(x.Dir, to, alias)})
	}
	if x.Kind == "esm" && rapid.IntRange(0, 3).Draw(rt, "imp-pkg") >= 2 {
		x.Imports = append(x.Imports, imp{Form: pick(rt, "imp-pkg-form", []string{"named", "ns", "side", "default"}), Spec: "pkg"})
	}
}

func (m *model) newMod(rt *rapid.T, s slot, ext string, kindHint string) *mod {
	x := &mod{Dir: s.Dir, Base: s.Base, Ext: ext, Val: rapid.IntRange(1, 9).Draw(rt, "val")}
	x.TS = ext == ".ts" || ext == ".tsx"
	x.JSX = ext == ".jsx" || ext == ".tsx"
	switch {
	case ext == ".css":
		x.Kind, x.TS, x.JSX = "css", false, false
	case kindHint != "":
		x.Kind = kindHint
	default:
		k := rapid.IntRange(0, 9).Draw(rt, "kind")
		switch {
		case k == 9 && !x.JSX:
			x.Kind = "script"
		case k >= 7 && ext == ".js":
			x.Kind = "cjs"
		default:
			x.Kind = "esm"
		}
	}
	if x.Kind != "esm" {
		x.TS, x.JSX = x.TS && x.Kind == "script", false
	}
	return x
}

func genProject(rt *rapid.T) *model {
	m := &model{files: map[string]string{}, fresh: map[string]bool{}}
	m.ts = tsState{Present: true,
		Jsx:             pick(rt, "ts-jsx", []string{"", "react", "react-jsx", "preserve"}),
		Paths:           rapid.IntRange(0, 2).Draw(rt, "ts-paths"),
		UseDefine:       rapid.IntRange(0, 2).Draw(rt, "ts-usedefine"),
		Tgt:             pick(rt, "ts-target", []string{"", "", "ES2020", "ESNext"}),
		JsxImportSource: pick(rt, "ts-jsxis", []string{"", "", "preact"}),
	}
	m.pj = pkgState{Name: "proj", Type: pick(rt, "pj-type", []string{"", "module", "commonjs"}), SideEffects: pick(rt, "pj-se", []int{0, 0, 1, 2})}
	m.dep = pkgState{Name: "pkg", Main: pick(rt, "dep-main", []string{"", "./a.js", "./b.js"}), Exports: pick(rt, "dep-exports", []int{0, 0, 1, 2}),
		Type: pick(rt, "dep-type", []string{"", "module"}), SideEffects: pick(rt, "dep-se", []int{0, 2})}
	n := rapid.IntRange(3, 8).Draw(rt, "nmods")
	// the entry and one JSX module always exist
	index := m.newMod(rt, slot{"src", "index"}, pick(rt, "index-ext", exts), "esm")
	jsx := m.newMod(rt, slot{"src", "m1"}, pick(rt, "jsx-ext", []string{".jsx", ".tsx"}), "esm")
	m.mods = []*mod{index, jsx}
	free := append([]slot{}, slots...)
	for len(m.mods) < n {
		i := rapid.IntRange(0, len(free)-1).Draw(rt, "slot")
		s := free[i]
		free = append(free[:i], free[i+1:]...)
		if s.Dir == "src" && s.Base == "m1" {
			continue
		}
		ext := pick(rt, "ext", []string{".js", ".js", ".jsx", ".ts", ".ts", ".tsx", ".css"})
		m.mods = append(m.mods, m.newMod(rt, s, ext, ""))
	}
	// files must exist in the model before imports are drawn (so they mostly point at real modules)
	for _, x := range m.mods {
		m.files[x.path()] = ""
	}
	for i, x := range m.mods {
		if x.Kind == "css" || x.Kind == "script" {
			continue
		}
		k := rapid.IntRange(0, 2).Draw(rt, "nimports")
		if i == 0 {
			k = rapid.IntRange(2, 4).Draw(rt, "nimports-index")
			x.Imports = append(x.Imports, imp{Form: pick(rt, "jsx-imp-form", []string{"named", "ns", "side"}), Spec: "./m1"})
		}
		m.genImports(rt, x, k)
	}
	m.files = map[string]string{}
	for _, x := range m.mods {
		if x.Kind == "esm" && !x.DirIndex && (x.Dir == "src" || strings.HasPrefix(x.Dir, "src/")) && rapid.IntRange(0, 2).Draw(rt, "json-import") == 0 {
			x.JSONForm = rapid.IntRange(1, 4).Draw(rt, "json-form")
		}
	}
	if m.mods[0].JSONForm == 0 && rapid.Bool().Draw(rt, "index-json") {
		m.mods[0].JSONForm = 1
	}
	for _, x := range m.mods {
		m.write(rt, x.path(), x.render())
	}
	m.write(rt, "src/data.json", "{\"list\": [1, 2, 3], \"name\": \"demo\", \"nested\": {\"k\": true}, \"unused\": [null]}\n")

	m.write(rt, tsPath, m.ts.render())
	m.write(rt, pjPath, m.pj.render())
	m.writeDeps(func(p, c string) { m.write(rt, p, c) })
	return m
}

// writeDeps emits node_modules: the dependency "pkg" and the two JSX runtimes (bundled builds must be able
// to resolve "<source>/jsx-runtime" for the automatic transform).
func (m *model) writeDeps(w func(p, content string)) {
	w(depDir+"/package.json", m.dep.render())
	for i, f := range depFiles {
		m.depV[i] = i + 1
		w(depDir+"/"+f, depContent(i, m.depV[i]))
	}
	for _, p := range []string{"react", "preact"} {
		w("node_modules/"+p+"/package.json", fmt.Sprintf("{ \"name\": %q, \"main\": \"./index.js\" }\n", p))
		w("node_modules/"+p+"/index.js", fmt.Sprintf("export function createElement() { return %q; }\nexport const Fragment = %q;\nexport default { createElement, Fragment };\n", p, p+"-frag"))
		w("node_modules/"+p+"/jsx-runtime.js", fmt.Sprintf("export function jsx() { return %q; }\nexport function jsxs() { return %q; }\nexport const Fragment = %q;\n", p+"-jsx", p+"-jsxs", p+"-frag"))
		w("node_modules/"+p+"/jsx-dev-runtime.js", fmt.Sprintf("export function jsxDEV() { return %q; }\nexport const Fragment = %q;\n", p+"-jsxdev", p+"-frag"))
	}
}

// ------------------------------------------------------------------------------------ actions

// actionKinds is every label that can appear in Classes (for the evidence histogram).
// config: edits of package.json / tsconfig.json files. resolution: create/delete that may change what a specifier resolves to.
var configKinds = map[string]bool{}
var resolutionKinds = map[string]bool{"create-module": true, "delete-module": true, "rename-ext": true, "rename-base": true, "shadow-ext": true,
	"shadow-node-modules": true, "unshadow-node-modules": true, "file-to-dir": true, "dir-to-file": true, "delete-tsconfig": true, "create-tsconfig": true,
	"delete-dep-file": true, "symlink-module": true, "retarget-symlink": true}

func init() {
	for _, k := range []string{"pkg-type", "pkg-sideEffects", "dep-main", "dep-exports", "dep-type", "dep-sideEffects", "dep-module", "pkg-syntax-error", "pkg-repair",
		"tsconfig-jsx", "tsconfig-jsxFactory", "tsconfig-jsxFragmentFactory", "tsconfig-jsxImportSource", "tsconfig-paths", "tsconfig-useDefineForClassFields",
		"tsconfig-target", "tsconfig-verbatimModuleSyntax", "tsconfig-experimentalDecorators", "tsconfig-alwaysStrict", "tsconfig-strict", "tsconfig-preserveValueImports",
		"tsconfig-syntax-error", "tsconfig-repair", "delete-tsconfig", "create-tsconfig", "tsconfig-two-fields"} {
		configKinds[k] = true
	}
}

func (m *model) editable(includeBroken bool) []*mod {
	var out []*mod
	for _, x := range m.mods {
		if includeBroken || !x.Broken {
			out = append(out, x)
		}
	}
	return out
}

func sameLenVal(rt *rapid.T, v int) int {
	// another value with the same number of decimal digits
	lo, hi := 1, 9
	if v >= 10 {
		lo, hi = 10, 99
	}
	if v >= 100 {
		lo, hi = 100, 999
	}
	n := rapid.IntRange(lo, hi-1).Draw(rt, "same-len-val")
	if n >= v {
		n++
	}
	return n
}

func diffLenVal(rt *rapid.T, v int) int {
	switch {
	case v < 10:
		return rapid.IntRange(10, 999).Draw(rt, "diff-len-val")
	case v < 100:
		if rapid.Bool().Draw(rt, "shorter") {
			return rapid.IntRange(1, 9).Draw(rt, "diff-len-val")
		}
		return rapid.IntRange(100, 999).Draw(rt, "diff-len-val")
	}
	return rapid.IntRange(1, 99).Draw(rt, "diff-len-val")
}

func (m *model) tsAction(name string, f func(rt *rapid.T)) (string, func(rt *rapid.T)) {
	return "tsconfig-" + name, func(rt *rapid.T) {
		if !m.ts.Present || m.ts.Broken {
			rt.Skip()
		}
		f(rt)
		m.write(rt, tsPath, m.ts.render())
	}
}

// tsField describes one compilerOptions field: how many values it can take and accessors by value index.
type tsField struct {
	name string
	n    int
	get  func(s *tsState) int
	set  func(s *tsState, i int)
}

func strField(name string, vals []string, ptr func(s *tsState) *string) tsField {
	return tsField{name: name, n: len(vals),
		get: func(s *tsState) int {
			for i, v := range vals {
				if v == *ptr(s) {
					return i
				}
			}
			return 0
		},
		set: func(s *tsState, i int) { *ptr(s) = vals[i] }}
}

func triField(name string, ptr func(s *tsState) *int, n int) tsField {
	return tsField{name: name, n: n, get: func(s *tsState) int { return *ptr(s) }, set: func(s *tsState, i int) { *ptr(s) = i }}
}

var tsFields = []tsField{
	strField("jsx", []string{"", "react", "react-jsx", "react-jsxdev", "preserve"}, func(s *tsState) *string { return &s.Jsx }),
	strField("jsxFactory", []string{"", "h", "Preact.h"}, func(s *tsState) *string { return &s.JsxFactory }),
	strField("jsxFragmentFactory", []string{"", "Frag", "Preact.Fragment"}, func(s *tsState) *string { return &s.JsxFragment }),
	strField("jsxImportSource", []string{"", "preact", "react"}, func(s *tsState) *string { return &s.JsxImportSource }),
	strField("target", []string{"", "ES5", "ES2020", "ES2022", "ESNext"}, func(s *tsState) *string { return &s.Tgt }),
	triField("paths", func(s *tsState) *int { return &s.Paths }, 3),
	triField("useDefineForClassFields", func(s *tsState) *int { return &s.UseDefine }, 3),
	triField("verbatimModuleSyntax", func(s *tsState) *int { return &s.Verbatim }, 3),
	triField("experimentalDecorators", func(s *tsState) *int { return &s.ExpDec }, 3),
	triField("alwaysStrict", func(s *tsState) *int { return &s.AlwaysStrict }, 3),
	triField("strict", func(s *tsState) *int { return &s.Strict }, 3),
	triField("preserveValueImports", func(s *tsState) *int { return &s.PreserveValueImports }, 3),
}

// tsFieldMutators changes exactly one field of the tsconfig state to a different value.
func (m *model) tsFieldMutators() map[string]func(rt *rapid.T) {
	out := map[string]func(rt *rapid.T){}
	for _, f := range tsFields {
		f := f
		out[f.name] = func(rt *rapid.T) { f.set(&m.ts, otherInt(rt, "v", f.n, f.get(&m.ts))) }
	}
	return out
}

// actions returns the action table for rapid's Repeat. Every action appends its operations to m.ops;
// record(kind) is called by the wrapper after a successful (non-skipped) action.
func (m *model) actions(record func(kind string)) map[string]func(*rapid.T) {
	acts := map[string]func(*rapid.T){}
	add := func(kind string, f func(rt *rapid.T)) {
		acts[kind] = func(rt *rapid.T) {
			m.ops = nil
			f(rt)
			if len(m.ops) == 0 {
				rt.Skip()
			}
			record(kind)
		}
	}

	add("edit-diff-len", func(rt *rapid.T) {
		x := pick(rt, "mod", m.mods)
		x.Val = diffLenVal(rt, x.Val)
		m.write(rt, x.path(), x.render())
	})
	add("edit-same-len", func(rt *rapid.T) {
		x := pick(rt, "mod", m.mods)
		x.Val = sameLenVal(rt, x.Val)
		m.write(rt, x.path(), x.render())
	})
	add("edit-dep-file", func(rt *rapid.T) {
		i := rapid.IntRange(0, 2).Draw(rt, "dep-file")
		if _, ok := m.files[depDir+"/"+depFiles[i]]; !ok {
			rt.Skip()
		}
		if rapid.Bool().Draw(rt, "same-len") {
			m.depV[i] = sameLenVal(rt, m.depV[i])
		} else {
			m.depV[i] = diffLenVal(rt, m.depV[i])
		}
		m.write(rt, depDir+"/"+depFiles[i], depContent(i, m.depV[i]))
	})
	add("delete-dep-file", func(rt *rapid.T) {
		i := rapid.IntRange(0, 2).Draw(rt, "dep-file")
		p := depDir + "/" + depFiles[i]
		if _, ok := m.files[p]; ok {
			m.remove(p)
		} else {
			m.write(rt, p, depContent(i, m.depV[i]))
		}
	})
	add("edit-imports", func(rt *rapid.T) {
		var cands []*mod
		for _, x := range m.mods {
			if x.Kind == "esm" || x.Kind == "cjs" {
				cands = append(cands, x)
			}
		}
		if len(cands) == 0 {
			rt.Skip()
		}
		x := pick(rt, "mod", cands)
		if len(x.Imports) > 1 && rapid.Bool().Draw(rt, "drop") {
			i := rapid.IntRange(0, len(x.Imports)-1).Draw(rt, "which")
			if x == m.mods[0] && x.Imports[i].Spec == "./m1" {
				rt.Skip()
			}
			x.Imports = append(x.Imports[:i:i], x.Imports[i+1:]...)
		} else {
			m.genImports(rt, x, 1)
		}
		m.write(rt, x.path(), x.render())
	})
	add("create-module", func(rt *rapid.T) {
		// prefer a slot that some module imports and that is empty (a lookup that failed earlier)
		var wanted, empty []slot
		for _, s := range slots {
			if len(m.slotFiles(s)) > 0 {
				continue
			}
			empty = append(empty, s)
			for _, x := range m.mods {
				for _, im := range x.Imports {
					if im.Spec == specFor(x.Dir, s, false) || (im.Spec == "@lib/"+s.Base && ((m.ts.Paths == 1 && s.Dir == "src") || (m.ts.Paths == 2 && s.Dir == "src/lib"))) {
						wanted = append(wanted, s)
					}
				}
			}
		}
		if len(empty) == 0 {
			rt.Skip()
		}
		s := pick(rt, "slot", empty)
		if len(wanted) > 0 && rapid.IntRange(0, 3).Draw(rt, "wanted") < 3 {
			s = pick(rt, "wanted-slot", wanted)
		}
		x := m.newMod(rt, s, pick(rt, "ext", []string{".js", ".js", ".jsx", ".ts", ".tsx", ".css"}), "")
		m.mods = append(m.mods, x)
		m.files[x.path()] = ""
		if x.Kind == "esm" || x.Kind == "cjs" {
			m.genImports(rt, x, rapid.IntRange(0, 1).Draw(rt, "nimports"))
		}
		delete(m.files, x.path())
		m.write(rt, x.path(), x.render())
	})
	deletable := func() []*mod {
		var out []*mod
		for _, x := range m.mods[1:] {
			out = append(out, x)
		}
		return out
	}
	add("delete-module", func(rt *rapid.T) {
		c := deletable()
		if len(c) == 0 {
			rt.Skip()
		}
		x := pick(rt, "mod", c)
		if x.DirIndex {
			m.remove(x.Dir + "/" + x.Base)
		} else {
			m.remove(x.path())
		}
		m.dropMod(x)
	})
	add("rename-ext", func(rt *rapid.T) {
		// a pure rename that keeps the content valid: .js→.jsx/.ts/.tsx, .jsx→.tsx, .ts→.tsx
		var c []*mod
		for _, x := range m.mods {
			if !x.DirIndex && (x.Ext == ".js" || x.Ext == ".jsx" || x.Ext == ".ts") && x.Kind != "css" {
				c = append(c, x)
			}
		}
		if len(c) == 0 {
			rt.Skip()
		}
		x := pick(rt, "mod", c)
		to := map[string][]string{".js": {".jsx", ".ts", ".tsx"}, ".jsx": {".tsx"}, ".ts": {".tsx"}}[x.Ext]
		ext := pick(rt, "ext", to)
		np := x.Dir + "/" + x.Base + ext
		if _, exists := m.files[np]; exists {
			rt.Skip()
		}
		old := x.path()
		x.Ext = ext // TS/JSX flags describe the rendered content and stay as they are
		m.rename(old, np)
	})
	add("rename-base", func(rt *rapid.T) {
		var c []*mod
		for _, x := range m.mods[1:] {
			if !x.DirIndex {
				c = append(c, x)
			}
		}
		var empty []slot
		for _, s := range slots {
			if len(m.slotFiles(s)) == 0 {
				empty = append(empty, s)
			}
		}
		if len(c) == 0 || len(empty) == 0 {
			rt.Skip()
		}
		x := pick(rt, "mod", c)
		s := pick(rt, "slot", empty)
		old := x.path()
		x.Dir, x.Base = s.Dir, s.Base
		m.rename(old, x.path())
	})
	add("shadow-ext", func(rt *rapid.T) {
		// add a file with an extension that wins the resolution against an existing module of the same base
		var c []*mod
		for _, x := range m.mods[1:] {
			if !x.DirIndex && x.Kind != "css" && x.Ext != ".tsx" {
				c = append(c, x)
			}
		}
		if len(c) == 0 {
			rt.Skip()
		}
		x := pick(rt, "mod", c)
		var better []string
		for _, e := range exts {
			if extRank[e] < extRank[x.Ext] {
				if _, exists := m.files[x.Dir+"/"+x.Base+e]; !exists {
					better = append(better, e)
				}
			}
		}
		if len(better) == 0 {
			rt.Skip()
		}
		y := m.newMod(rt, slot{x.Dir, x.Base}, pick(rt, "ext", better), "esm")
		y.Val = x.Val + 100
		m.mods = append(m.mods, y)
		m.write(rt, y.path(), y.render())
	})
	add("shadow-node-modules", func(rt *rapid.T) {
		if m.nearV > 0 {
			rt.Skip()
		}
		m.nearV = rapid.IntRange(50, 59).Draw(rt, "val")
		m.write(rt, nearDir+"/package.json", "{ \"name\": \"pkg\", \"main\": \"./near.js\" }\n")
		m.write(rt, nearDir+"/near.js", fmt.Sprintf("export const v = %d;\nexport function f() { return \"pkg-near\"; }\nexport default v;\n", m.nearV))
	})
	add("unshadow-node-modules", func(rt *rapid.T) {
		if m.nearV == 0 {
			rt.Skip()
		}
		m.nearV = 0
		if rapid.Bool().Draw(rt, "whole-dir") {
			m.remove("src/node_modules")
		} else {
			m.remove(nearDir)
		}
	})
	add("file-to-dir", func(rt *rapid.T) {
		var c []*mod
		for _, x := range m.mods[1:] {
			if !x.DirIndex && x.Kind != "css" && len(m.slotFiles(slot{x.Dir, x.Base})) == 1 {
				c = append(c, x)
			}
		}
		if len(c) == 0 {
			rt.Skip()
		}
		x := pick(rt, "mod", c)
		m.remove(x.path())
		x.DirIndex = true
		x.Imports = nil // relative specifiers would change meaning one level down
		m.write(rt, x.path(), x.render())
	})
	add("dir-to-file", func(rt *rapid.T) {
		var c []*mod
		for _, x := range m.mods[1:] {
			if x.DirIndex {
				c = append(c, x)
			}
		}
		if len(c) == 0 {
			rt.Skip()
		}
		x := pick(rt, "mod", c)
		m.remove(x.Dir + "/" + x.Base)
		x.DirIndex = false
		m.write(rt, x.path(), x.render())
	})
	add("symlink-module", func(rt *rapid.T) {
		// an empty slot becomes a symbolic link to an existing module file
		var empty []slot
		for _, s := range slots {
			if len(m.slotFiles(s)) == 0 {
				empty = append(empty, s)
			}
		}
		var c []*mod
		for _, x := range m.mods[1:] {
			if !x.DirIndex && x.Kind == "esm" {
				c = append(c, x)
			}
		}
		if len(empty) == 0 || len(c) == 0 {
			rt.Skip()
		}
		s := pick(rt, "slot", empty)
		x := pick(rt, "target", c)
		link := s.Dir + "/" + s.Base + x.Ext
		rel := path.Base(x.path())
		if s.Dir != x.Dir {
			if s.Dir == "src" {
				rel = "lib/" + rel
			} else {
				rel = "../" + rel
			}
		}
		m.tick++
		m.ops = append(m.ops, fsgen.Op{Op: "symlink", Path: link, Content: rel})
		m.files[link] = "<symlink>"
		m.fresh[link] = true // never written through by later actions, but keep it out of "old" stamping
		// the link is not a module of the model: later actions never edit it; delete-by-slot is not offered either
	})
	add("retarget-symlink", func(rt *rapid.T) {
		// an existing link is re-pointed at another module (the directory entry keeps its name)
		var links []string
		for f, c := range m.files {
			if c == "<symlink>" {
				links = append(links, f)
			}
		}
		sort.Strings(links)
		var c []*mod
		for _, x := range m.mods[1:] {
			if !x.DirIndex && x.Kind == "esm" {
				c = append(c, x)
			}
		}
		if len(links) == 0 || len(c) == 0 {
			rt.Skip()
		}
		link := pick(rt, "link", links)
		x := pick(rt, "target", c)
		rel := path.Base(x.path())
		if path.Dir(link) != x.Dir {
			if path.Dir(link) == "src" {
				rel = "lib/" + rel
			} else {
				rel = "../" + rel
			}
		}
		m.tick++
		m.ops = append(m.ops, fsgen.Op{Op: "symlink", Path: link, Content: rel})
	})
	add("syntax-break", func(rt *rapid.T) {
		c := m.editable(false)
		if len(c) == 0 {
			rt.Skip()
		}
		x := pick(rt, "mod", c)
		x.Broken = true
		m.write(rt, x.path(), x.render())
	})
	add("syntax-repair", func(rt *rapid.T) {
		var c []*mod
		for _, x := range m.mods {
			if x.Broken {
				c = append(c, x)
			}
		}
		if len(c) == 0 {
			rt.Skip()
		}
		x := pick(rt, "mod", c)
		x.Broken = false
		m.write(rt, x.path(), x.render())
	})
	add("touch", func(rt *rapid.T) {
		var all []string
		for f, c := range m.files {
			if c != "<symlink>" {
				all = append(all, f)
			}
		}
		sort.Strings(all)
		m.touch(pick(rt, "file", all))
	})

	// package.json of the project and of the dependency
	add("pkg-type", func(rt *rapid.T) {
		if m.pj.Broken {
			rt.Skip()
		}
		m.pj.Type = other(rt, "v", []string{"", "module", "commonjs"}, m.pj.Type)
		m.write(rt, pjPath, m.pj.render())
	})
	add("pkg-sideEffects", func(rt *rapid.T) {
		if m.pj.Broken {
			rt.Skip()
		}
		m.pj.SideEffects = otherInt(rt, "v", 4, m.pj.SideEffects)
		m.write(rt, pjPath, m.pj.render())
	})
	add("pkg-syntax-error", func(rt *rapid.T) {
		which := rapid.Bool().Draw(rt, "dep")
		if which {
			if m.dep.Broken {
				rt.Skip()
			}
			m.dep.Broken = true
			m.write(rt, depDir+"/package.json", m.dep.render())
		} else {
			if m.pj.Broken {
				rt.Skip()
			}
			m.pj.Broken = true
			m.write(rt, pjPath, m.pj.render())
		}
	})
	add("pkg-repair", func(rt *rapid.T) {
		switch {
		case m.pj.Broken:
			m.pj.Broken = false
			m.write(rt, pjPath, m.pj.render())
		case m.dep.Broken:
			m.dep.Broken = false
			m.write(rt, depDir+"/package.json", m.dep.render())
		default:
			rt.Skip()
		}
	})
	depEdit := func(kind string, f func(rt *rapid.T)) {
		add(kind, func(rt *rapid.T) {
			if m.dep.Broken {
				rt.Skip()
			}
			f(rt)
			m.write(rt, depDir+"/package.json", m.dep.render())
		})
	}
	depEdit("dep-main", func(rt *rapid.T) { m.dep.Main = other(rt, "v", []string{"", "./a.js", "./b.js"}, m.dep.Main) })
	depEdit("dep-module", func(rt *rapid.T) { m.dep.Module = other(rt, "v", []string{"", "./a.js", "./index.js"}, m.dep.Module) })
	depEdit("dep-exports", func(rt *rapid.T) { m.dep.Exports = otherInt(rt, "v", 4, m.dep.Exports) })
	depEdit("dep-type", func(rt *rapid.T) { m.dep.Type = other(rt, "v", []string{"", "module", "commonjs"}, m.dep.Type) })
	depEdit("dep-sideEffects", func(rt *rapid.T) { m.dep.SideEffects = otherInt(rt, "v", 4, m.dep.SideEffects) })

	// tsconfig.json: one action per field
	muts := m.tsFieldMutators()
	names := make([]string, 0, len(muts))
	for k := range muts {
		names = append(names, k)
	}
	sort.Strings(names)
	for _, name := range names {
		k, f := m.tsAction(name, muts[name])
		add(k, f)
	}
	add("tsconfig-two-fields", func(rt *rapid.T) {
		if !m.ts.Present || m.ts.Broken {
			rt.Skip()
		}
		a := rapid.IntRange(0, len(names)-1).Draw(rt, "field-a")
		b := rapid.IntRange(0, len(names)-2).Draw(rt, "field-b")
		if b >= a {
			b++
		}
		muts[names[a]](rt)
		muts[names[b]](rt)
		m.write(rt, tsPath, m.ts.render())
	})
	add("tsconfig-syntax-error", func(rt *rapid.T) {
		if !m.ts.Present || m.ts.Broken {
			rt.Skip()
		}
		m.ts.Broken = true
		m.write(rt, tsPath, m.ts.render())
	})
	add("tsconfig-repair", func(rt *rapid.T) {
		if !m.ts.Present || !m.ts.Broken {
			rt.Skip()
		}
		m.ts.Broken = false
		m.write(rt, tsPath, m.ts.render())
	})
	add("delete-tsconfig", func(rt *rapid.T) {
		if !m.ts.Present {
			rt.Skip()
		}
		m.ts.Present = false
		m.remove(tsPath)
	})
	add("create-tsconfig", func(rt *rapid.T) {
		if m.ts.Present {
			rt.Skip()
		}
		m.ts.Present, m.ts.Broken = true, false
		m.write(rt, tsPath, m.ts.render())
	})
	return acts
}

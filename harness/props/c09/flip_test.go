package c09

// C09.flip — bounded-exhaustive sweep: on one fixed project that uses every construct a config-file option can
// influence, flip each package.json / tsconfig.json field from every value to every other value and back
// (initial build, A→B, B→A on one context), under a few option sets. Same oracle as the histories.

import (
	"fmt"
	"testing"

	"github.com/evanw/esbuild/verif/fsgen"
)

func flipProject() *model {
	m := &model{files: map[string]string{}, fresh: map[string]bool{}}
	index := &mod{Dir: "src", Base: "index", Ext: ".tsx", Kind: "esm", TS: true, JSX: true, Val: 1, Imports: []imp{
		{"named", "./m1"}, {"named", "./m2"}, {"type", "./m2"}, {"side", "./legacy"}, {"side", "./m3"}, {"default", "./cj"}, {"named", "pkg"}, {"named", "@lib/m0"}, {"dynamic", "./m4"},
	}}
	m.mods = []*mod{index,
		{Dir: "src", Base: "m1", Ext: ".jsx", Kind: "esm", JSX: true, Val: 2},
		{Dir: "src", Base: "m2", Ext: ".ts", Kind: "esm", TS: true, Val: 3},
		{Dir: "src", Base: "legacy", Ext: ".ts", Kind: "script", TS: true, Val: 4},
		{Dir: "src", Base: "m3", Ext: ".js", Kind: "esm", Val: 5},
		{Dir: "src", Base: "cj", Ext: ".js", Kind: "cjs", Val: 6},
		{Dir: "src", Base: "m0", Ext: ".js", Kind: "esm", Val: 7},
		{Dir: "src/lib", Base: "m0", Ext: ".ts", Kind: "esm", TS: true, Val: 8},
		{Dir: "src", Base: "m4", Ext: ".tsx", Kind: "esm", TS: true, JSX: true, Val: 9},
	}
	for _, x := range m.mods {
		m.put(x.path(), x.render(), false, false)
	}
	m.ts = tsState{Present: true, Paths: 1}
	m.pj = pkgState{Name: "proj"}
	m.dep = pkgState{Name: "pkg", Main: "./a.js"}
	m.put(tsPath, m.ts.render(), false, false)
	m.put(pjPath, m.pj.render(), false, false)
	m.writeDeps(func(p, c string) { m.put(p, c, false, false) })
	return m
}

type flipSpec struct {
	kind string
	base func(m *model)        // extra base state
	a, b func(m *model) string // set value A / B, return the file to rewrite
}

func enumerateFlips() []flipSpec {
	var out []flipSpec
	bases := []struct {
		name string
		f    func(m *model)
	}{
		{"default", func(m *model) {}},
		{"automatic", func(m *model) { m.ts.Jsx = "react-jsx"; m.ts.ExpDec = 1; m.ts.Tgt = "ES2022" }},
	}
	for _, base := range bases {
		for _, f := range tsFields {
			f := f
			for i := 0; i < f.n; i++ {
				for j := 0; j < f.n; j++ {
					if i == j {
						continue
					}
					i, j := i, j
					out = append(out, flipSpec{kind: "tsconfig-" + f.name, base: base.f,
						a: func(m *model) string { f.set(&m.ts, i); return tsPath },
						b: func(m *model) string { f.set(&m.ts, j); return tsPath }})
				}
			}
		}
	}
	pk := func(kind string, n int, set func(m *model, i int) string) {
		for i := 0; i < n; i++ {
			for j := 0; j < n; j++ {
				if i == j {
					continue
				}
				i, j := i, j
				out = append(out, flipSpec{kind: kind, base: func(m *model) {},
					a: func(m *model) string { return set(m, i) }, b: func(m *model) string { return set(m, j) }})
			}
		}
	}
	types := []string{"", "module", "commonjs"}
	pk("pkg-type", 3, func(m *model, i int) string { m.pj.Type = types[i]; return pjPath })
	pk("pkg-sideEffects", 4, func(m *model, i int) string { m.pj.SideEffects = i; return pjPath })
	mains := []string{"", "./a.js", "./b.js"}
	pk("dep-main", 3, func(m *model, i int) string { m.dep.Main = mains[i]; return depDir + "/package.json" })
	pk("dep-exports", 4, func(m *model, i int) string { m.dep.Exports = i; return depDir + "/package.json" })
	pk("dep-type", 3, func(m *model, i int) string { m.dep.Type = types[i]; return depDir + "/package.json" })
	pk("dep-sideEffects", 4, func(m *model, i int) string { m.dep.SideEffects = i; return depDir + "/package.json" })
	return out
}

var flipOpts = []Opts{
	{Entries: []string{"./src/index.tsx"}, Bundle: true, Format: "esm", Metafile: true},
	{Entries: []string{"./src/index.tsx", "./src/m1.jsx", "./src/m2.ts", "./src/legacy.ts", "./src/cj.js", "./src/m4.tsx"}, Format: "cjs", Metafile: true, Sourcemap: "linked"},
	{Entries: []string{"./src/index.tsx"}, Bundle: true, Format: "iife", MinifyWhitespace: true, MinifyIdentifiers: true, MinifySyntax: true, Platform: "node"},
}

func (m *model) content(p string) string {
	switch p {
	case tsPath:
		return m.ts.render()
	case pjPath:
		return m.pj.render()
	}
	return m.dep.render()
}

func flipCase(f flipSpec, o Opts, fresh bool) Case {
	m := flipProject()
	f.base(m)
	p := f.a(m)
	m.put(tsPath, m.ts.render(), fresh, false)
	m.put(pjPath, m.pj.render(), fresh, false)
	m.put(depDir+"/package.json", m.dep.render(), fresh, false)
	c := Case{Opts: o, Watch: true, Init: m.takeOps()}
	step := func(set func(m *model) string) {
		p = set(m)
		m.put(p, m.content(p), fresh, false)
		c.Actions = append(c.Actions, Action{Kind: f.kind, Ops: m.takeOps()})
	}
	step(f.b)
	step(f.a)
	step(f.b)
	return c
}

func runFlip(t *testing.T) {
	H.Rule("flip", "bounded-exhaustive: one fixed 9-module project using every construct a config-file option influences (JSX, class fields, decorators, enums, type-only imports, "+
		"a sloppy TS script, CJS/ESM interop, side-effect imports, tsconfig paths, a dependency with main/exports); every ordered pair of distinct values of each of 12 tsconfig compilerOptions "+
		"fields (under two base configurations) and of 6 package.json fields, flipped A→B→A→B on one context × 3 option sets × {old, fresh} mtimes; same oracle as hist; every case is non-trivial (3 config edits). The quick tier runs the fresh-mtime variant under one option set only and one half of the sweep (chosen by the seed).")
	specs := enumerateFlips()
	i := 0
	for _, f := range specs {
		for oi, o := range flipOpts {
			for _, fresh := range []bool{false, true} {
				i++
				if !H.MySlice(i) {
					continue
				}
				if !H.Thorough() && fresh && oi != 0 {
					continue // quick tier: fresh-mtime variant only under the first option set
				}
				if !H.Thorough() && (i/H.NShards+int(H.Seed%2))%2 != 0 {
					continue // quick tier: one of two halves of the sweep, chosen by the seed
				}
				c := flipCase(f, o, fresh)
				v := judge(c)
				report(t, "flip", fmt.Sprintf("%d|%s", i, caseKey(c)), c, v)
			}
		}
	}
	H.Exhaustive("flip", H.Thorough())
}

var _ = fsgen.Base

package noderun

import (
	"bytes"
	"context"
	"encoding/json"
	"fmt"
	"os"
	"os/exec"
	"path/filepath"
	"strings"
	"time"
)

// Step is one entry loaded by the file runner.
type Step struct {
	Kind       string `json:"kind"` // import | require | script
	File       string `json:"file"`
	GlobalName string `json:"globalName,omitempty"`
	Label      string `json:"label,omitempty"`
}

// StepResult is the outcome of one step.
type StepResult struct {
	End       string `json:"end"`
	Exports   string `json:"exports"`
	LoadError string `json:"loadError"`
}

// FileRun is the observation of a file-based execution with Node's real loaders.
type FileRun struct {
	Events   []string     `json:"events"`
	Steps    []StepResult `json:"steps"`
	Overflow bool         `json:"overflow"`
	TimedOut bool         `json:"-"`
	Stderr   string       `json:"-"`
}

// Trace renders the comparable observation.
func (r *FileRun) Trace() string {
	var sb strings.Builder
	for _, e := range r.Events {
		sb.WriteString(e)
		sb.WriteByte('\n')
	}
	for i, s := range r.Steps {
		fmt.Fprintf(&sb, "STEP %d END %s\n", i, s.End)
		if s.Exports != "" {
			fmt.Fprintf(&sb, "STEP %d EXPORTS %s\n", i, s.Exports)
		}
	}
	return sb.String()
}

// RunFiles executes the steps in one fresh node process (node = "" for the default binary) with cwd dir.
func RunFiles(node, dir string, steps []Step) (*FileRun, error) {
	if node == "" {
		node = NodePath()
	}
	if node == "" {
		return nil, fmt.Errorf("%w: node not found", ErrInfra)
	}
	plan, _ := json.Marshal(map[string]interface{}{"steps": steps})
	planFile := filepath.Join(dir, fmt.Sprintf(".plan-%d.json", time.Now().UnixNano()))
	if err := os.WriteFile(planFile, plan, 0o644); err != nil {
		return nil, fmt.Errorf("%w: %v", ErrInfra, err)
	}
	defer os.Remove(planFile)
	var last error
	for attempt := 0; attempt < 2; attempt++ {
		ctx, cancel := context.WithTimeout(context.Background(), 60*time.Second)
		cmd := exec.CommandContext(ctx, node, "--no-warnings", "--stack-size=2000", filepath.Join(HarnessDir(), "node", "runner.cjs"), planFile)
		cmd.Dir = dir
		var out, errb bytes.Buffer
		cmd.Stdout, cmd.Stderr = &out, &errb
		err := cmd.Run()
		timedOut := ctx.Err() != nil
		cancel()
		if timedOut {
			last = fmt.Errorf("runner timed out")
			if attempt == 1 {
				return &FileRun{TimedOut: true, Stderr: errb.String()}, nil
			}
			continue
		}
		line := bytes.TrimSpace(out.Bytes())
		if i := bytes.LastIndexByte(line, '\n'); i >= 0 {
			line = line[i+1:]
		}
		var r FileRun
		if jerr := json.Unmarshal(line, &r); jerr != nil {
			last = fmt.Errorf("runner produced no result (err=%v, stderr=%s)", err, clipStr(errb.String(), 400))
			continue
		}
		r.Stderr = errb.String()
		return &r, nil
	}
	return nil, fmt.Errorf("%w: %v", ErrInfra, last)
}

func clipStr(s string, n int) string {
	if len(s) > n {
		return s[:n]
	}
	return s
}

package noderun

import (
	"bufio"
	"bytes"
	"context"
	"encoding/json"
	"fmt"
	"io"
	"os"
	"os/exec"
	"path/filepath"
	"strings"
	"sync"
	"time"
)

// Step is one entry loaded by the file runner.
type Step struct {
	Kind       string `json:"kind"` // import | require | script
	File       string `json:"file"`
	GlobalName string `json:"globalName,omitempty"`
	Label      string `json:"label,omitempty"`
}

// StepResult is the outcome of one step.
type StepResult struct {
	End       string `json:"end"`
	Exports   string `json:"exports"`
	LoadError string `json:"loadError"`
}

// FileRun is the observation of a file-based execution with Node's real loaders.
type FileRun struct {
	Events   []string     `json:"events"`
	Steps    []StepResult `json:"steps"`
	Overflow bool         `json:"overflow"`
	TimedOut bool         `json:"-"`
	Stderr   string       `json:"-"`
}

// Trace renders the comparable observation.
func (r *FileRun) Trace() string {
	var sb strings.Builder
	for _, e := range r.Events {
		sb.WriteString(e)
		sb.WriteByte('\n')
	}
	for i, s := range r.Steps {
		fmt.Fprintf(&sb, "STEP %d END %s\n", i, s.End)
		if s.Exports != "" {
			fmt.Fprintf(&sb, "STEP %d EXPORTS %s\n", i, s.Exports)
		}
	}
	return sb.String()
}

// FileWorker is a persistent runner process ("runner.cjs --serve") that executes many plans one after
// the other. Every plan must use files in its own fresh directory.
type FileWorker struct {
	mu    sync.Mutex
	node  string
	cmd   *exec.Cmd
	in    io.WriteCloser
	out   *bufio.Reader
	calls int
}

// NewFileWorker creates a worker for the given node binary ("" = default). The process starts lazily.
func NewFileWorker(node string) *FileWorker {
	if node == "" {
		node = NodePath()
	}
	return &FileWorker{node: node}
}

func (w *FileWorker) stop() {
	if w.cmd != nil && w.cmd.Process != nil {
		w.in.Close()
		w.cmd.Process.Kill()
		w.cmd.Wait()
	}
	w.cmd = nil
}

// Close stops the process.
func (w *FileWorker) Close() {
	w.mu.Lock()
	defer w.mu.Unlock()
	w.stop()
}

func (w *FileWorker) start() error {
	if w.node == "" {
		return fmt.Errorf("%w: node not found", ErrInfra)
	}
	cmd := exec.Command(w.node, "--no-warnings", "--stack-size=2000", filepath.Join(HarnessDir(), "node", "runner.cjs"), "--serve")
	cmd.Stderr = io.Discard
	in, err := cmd.StdinPipe()
	if err != nil {
		return err
	}
	out, err := cmd.StdoutPipe()
	if err != nil {
		return err
	}
	if err := cmd.Start(); err != nil {
		return fmt.Errorf("%w: %v", ErrInfra, err)
	}
	w.cmd, w.in, w.out, w.calls = cmd, in, bufio.NewReaderSize(out, 1<<20), 0
	return nil
}

// Run executes one plan. A timeout (60 s) yields TimedOut and restarts the process.
func (w *FileWorker) Run(steps []Step) (*FileRun, error) {
	w.mu.Lock()
	defer w.mu.Unlock()
	plan, _ := json.Marshal(map[string]interface{}{"steps": steps})
	plan = append(plan, '\n')
	var last error
	for attempt := 0; attempt < 2; attempt++ {
		if w.cmd == nil || w.calls >= 150 {
			w.stop()
			if err := w.start(); err != nil {
				return nil, err
			}
		}
		w.calls++
		type res struct {
			line []byte
			err  error
		}
		ch := make(chan res, 1)
		go func() {
			if _, err := w.in.Write(plan); err != nil {
				ch <- res{nil, err}
				return
			}
			l, err := w.out.ReadBytes('\n')
			ch <- res{l, err}
		}()
		select {
		case r := <-ch:
			if r.err != nil {
				last = r.err
				w.stop()
				continue
			}
			var fr FileRun
			if err := json.Unmarshal(r.line, &fr); err != nil {
				last = err
				w.stop()
				continue
			}
			return &fr, nil
		case <-time.After(60 * time.Second):
			w.stop()
			if attempt == 1 {
				return &FileRun{TimedOut: true}, nil
			}
			last = fmt.Errorf("runner timed out")
		}
	}
	return nil, fmt.Errorf("%w: %v", ErrInfra, last)
}

// RunFiles executes the steps in one fresh node process (node = "" for the default binary) with cwd dir.
func RunFiles(node, dir string, steps []Step) (*FileRun, error) {
	if node == "" {
		node = NodePath()
	}
	if node == "" {
		return nil, fmt.Errorf("%w: node not found", ErrInfra)
	}
	plan, _ := json.Marshal(map[string]interface{}{"steps": steps})
	planFile := filepath.Join(dir, fmt.Sprintf(".plan-%d.json", time.Now().UnixNano()))
	if err := os.WriteFile(planFile, plan, 0o644); err != nil {
		return nil, fmt.Errorf("%w: %v", ErrInfra, err)
	}
	defer os.Remove(planFile)
	var last error
	for attempt := 0; attempt < 2; attempt++ {
		ctx, cancel := context.WithTimeout(context.Background(), 60*time.Second)
		cmd := exec.CommandContext(ctx, node, "--no-warnings", "--stack-size=2000", filepath.Join(HarnessDir(), "node", "runner.cjs"), planFile)
		cmd.Dir = dir
		var out, errb bytes.Buffer
		cmd.Stdout, cmd.Stderr = &out, &errb
		err := cmd.Run()
		timedOut := ctx.Err() != nil
		cancel()
		if timedOut {
			last = fmt.Errorf("runner timed out")
			if attempt == 1 {
				return &FileRun{TimedOut: true, Stderr: errb.String()}, nil
			}
			continue
		}
		line := bytes.TrimSpace(out.Bytes())
		if i := bytes.LastIndexByte(line, '\n'); i >= 0 {
			line = line[i+1:]
		}
		var r FileRun
		if jerr := json.Unmarshal(line, &r); jerr != nil {
			last = fmt.Errorf("runner produced no result (err=%v, stderr=%s)", err, clipStr(errb.String(), 400))
			continue
		}
		r.Stderr = errb.String()
		return &r, nil
	}
	return nil, fmt.Errorf("%w: %v", ErrInfra, last)
}

func clipStr(s string, n int) string {
	if len(s) > n {
		return s[:n]
	}
	return s
}

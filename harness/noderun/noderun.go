// Package noderun runs reference executions in long-lived Node workers (S3 in DESIGN.md).
package noderun

import (
	"bufio"
	"encoding/json"
	"errors"
	"fmt"
	"io"
	"os"
	"os/exec"
	"path/filepath"
	"runtime"
	"strings"
	"sync"
	"time"
)

// Req is one request to the worker. See node/worker.js for semantics.
type Req struct {
	ID         int               `json:"id"`
	Kind       string            `json:"kind"` // script | module | cjs | batch | parse | ping
	Goal       string            `json:"goal,omitempty"`
	Strict     bool              `json:"strict,omitempty"`
	Code       string            `json:"code,omitempty"`
	Codes      []string          `json:"codes,omitempty"`
	Externals  map[string]string `json:"externals,omitempty"` // spec -> JS object-literal source
	Globals    map[string]string `json:"globals,omitempty"`   // name -> JS expression source
	Prelude    string            `json:"prelude,omitempty"`
	TimeoutMs  int               `json:"timeoutMs,omitempty"`
	ReadBack   []string          `json:"readBack,omitempty"`
	GlobalName string            `json:"globalName,omitempty"`
	Completion bool              `json:"completion,omitempty"`
}

// Resp is the worker's answer.
type Resp struct {
	ID           int               `json:"id"`
	Events       []string          `json:"events"`
	End          string            `json:"end"`
	Exports      string            `json:"exports"`
	ParseError   string            `json:"parseError"`
	ParseMessage string            `json:"parseMessage"`
	LinkError    string            `json:"linkError"`
	Timeout      bool              `json:"timeout"`
	Overflow     bool              `json:"overflow"`
	Unsupported  string            `json:"unsupported"`
	HarnessError string            `json:"harnessError"`
	Results      []string          `json:"results"`
	ReadBack     map[string]string `json:"readBack"`
	Completion   string            `json:"completion"`
	Pong         string            `json:"pong"`
}

// Trace is the comparable observation of an execution: events, termination, exports.
func (r *Resp) Trace() string {
	var sb strings.Builder
	if r.ParseError != "" {
		return "PARSE-ERROR:" + r.ParseError
	}
	if r.LinkError != "" {
		return "LINK-ERROR:" + r.LinkError
	}
	if r.Timeout {
		return "TIMEOUT"
	}
	for _, e := range r.Events {
		sb.WriteString(e)
		sb.WriteByte('\n')
	}
	sb.WriteString("END " + r.End + "\n")
	if r.Exports != "" {
		sb.WriteString("EXPORTS " + r.Exports + "\n")
	}
	if len(r.ReadBack) > 0 {
		b, _ := json.Marshal(r.ReadBack) // map keys are sorted by encoding/json
		sb.WriteString("READBACK " + string(b) + "\n")
	}
	if r.Completion != "" {
		sb.WriteString("COMPLETION " + r.Completion + "\n")
	}
	return sb.String()
}

// ErrInfra marks failures of the harness itself (never a verdict about esbuild).
var ErrInfra = errors.New("noderun: infrastructure failure")

// Worker is one node process.
type Worker struct {
	mu     sync.Mutex
	node   string
	script string
	cmd    *exec.Cmd
	in     io.WriteCloser
	out    *bufio.Reader
	nextID int
	calls  int
}

// HarnessDir returns /verif/harness (located from this source file, or VERIF_HARNESS).
func HarnessDir() string {
	if d := os.Getenv("VERIF_HARNESS"); d != "" {
		return d
	}
	_, file, _, _ := runtime.Caller(0)
	return filepath.Dir(filepath.Dir(file))
}

// NodePath returns the default node binary ("" if none).
func NodePath() string {
	if p := os.Getenv("VERIF_NODE"); p != "" {
		return p
	}
	for _, p := range []string{"/usr/bin/node", "/usr/local/bin/node"} {
		if _, err := os.Stat(p); err == nil {
			return p
		}
	}
	if p, err := exec.LookPath("node"); err == nil {
		return p
	}
	return ""
}

// NodeVersions lists the extra Node binaries found under nvm: major -> path.
func NodeVersions() map[int]string {
	out := map[int]string{}
	matches, _ := filepath.Glob("/root/.nvm/versions/node/v*/bin/node")
	for _, m := range matches {
		var maj, min, pat int
		v := filepath.Base(filepath.Dir(filepath.Dir(m)))
		if n, _ := fmt.Sscanf(v, "v%d.%d.%d", &maj, &min, &pat); n == 3 {
			out[maj] = m
		}
	}
	return out
}

// NodeVersionString returns e.g. "10.24.1" for a path under nvm, or asks the binary.
func NodeVersionString(path string) string {
	out, err := exec.Command(path, "--version").Output()
	if err != nil {
		return ""
	}
	return strings.TrimPrefix(strings.TrimSpace(string(out)), "v")
}

// Start launches a worker with the given node binary ("" = default).
func Start(node string) (*Worker, error) {
	if node == "" {
		node = NodePath()
	}
	if node == "" {
		return nil, fmt.Errorf("%w: node not found", ErrInfra)
	}
	w := &Worker{node: node, script: filepath.Join(HarnessDir(), "node", "worker.js")}
	if err := w.spawn(); err != nil {
		return nil, err
	}
	return w, nil
}

func (w *Worker) spawn() error {
	args := []string{"--experimental-vm-modules", "--no-warnings", "--stack-size=2000", w.script}
	cmd := exec.Command(w.node, args...)
	cmd.Stderr = os.Stderr
	in, err := cmd.StdinPipe()
	if err != nil {
		return fmt.Errorf("%w: %v", ErrInfra, err)
	}
	out, err := cmd.StdoutPipe()
	if err != nil {
		return fmt.Errorf("%w: %v", ErrInfra, err)
	}
	if err := cmd.Start(); err != nil {
		return fmt.Errorf("%w: %v", ErrInfra, err)
	}
	w.cmd, w.in, w.out = cmd, in, bufio.NewReaderSize(out, 1<<20)
	w.calls = 0
	return nil
}

func (w *Worker) kill() {
	if w.cmd != nil && w.cmd.Process != nil {
		w.in.Close()
		w.cmd.Process.Kill()
		w.cmd.Wait()
	}
	w.cmd = nil
}

// Close stops the worker.
func (w *Worker) Close() {
	w.mu.Lock()
	defer w.mu.Unlock()
	w.kill()
}

// Call executes one request. A dead or hung worker is restarted once; a second failure is ErrInfra.
// An execution timeout of a script/module/cjs request is retried twice with a 10 s limit, because
// on a busy machine millisecond programs occasionally exceed the default 2 s limit.
func (w *Worker) Call(req Req) (*Resp, error) {
	r, err := w.call1(req)
	if err == nil && r.Timeout && req.TimeoutMs < 10000 && (req.Kind == "script" || req.Kind == "module" || req.Kind == "cjs") {
		for attempt := 0; attempt < 2 && err == nil && r.Timeout; attempt++ {
			req.TimeoutMs = 10000
			r, err = w.call1(req)
		}
	}
	return r, err
}

func (w *Worker) call1(req Req) (*Resp, error) {
	w.mu.Lock()
	defer w.mu.Unlock()
	var lastErr error
	for attempt := 0; attempt < 2; attempt++ {
		if w.cmd == nil {
			if err := w.spawn(); err != nil {
				return nil, err
			}
		}
		if w.calls > 3000 { // recycle to bound memory
			w.kill()
			if err := w.spawn(); err != nil {
				return nil, err
			}
		}
		w.nextID++
		w.calls++
		req.ID = w.nextID
		resp, err := w.roundTrip(req)
		if err == nil {
			if resp.HarnessError != "" {
				return resp, fmt.Errorf("%w: worker: %s", ErrInfra, resp.HarnessError)
			}
			return resp, nil
		}
		lastErr = err
		w.kill()
	}
	return nil, fmt.Errorf("%w: %v", ErrInfra, lastErr)
}

func (w *Worker) roundTrip(req Req) (*Resp, error) {
	b, err := json.Marshal(req)
	if err != nil {
		return nil, err
	}
	b = append(b, '\n')
	type result struct {
		line []byte
		err  error
	}
	done := make(chan result, 1)
	go func() {
		if _, err := w.in.Write(b); err != nil {
			done <- result{nil, err}
			return
		}
		line, err := w.out.ReadBytes('\n')
		done <- result{line, err}
	}()
	limit := 30 * time.Second
	if req.TimeoutMs > 0 {
		limit += time.Duration(req.TimeoutMs) * time.Millisecond * time.Duration(1+len(req.Codes))
	}
	select {
	case r := <-done:
		if r.err != nil {
			return nil, r.err
		}
		var resp Resp
		if err := json.Unmarshal(r.line, &resp); err != nil {
			return nil, fmt.Errorf("bad worker response: %v", err)
		}
		if resp.ID != req.ID && resp.HarnessError == "" {
			return nil, fmt.Errorf("worker response id mismatch")
		}
		return &resp, nil
	case <-time.After(limit):
		return nil, fmt.Errorf("worker did not answer within %v", limit)
	}
}

// Script runs code as a classic script in a fresh context.
func (w *Worker) Script(code string, strict bool) (*Resp, error) {
	return w.Call(Req{Kind: "script", Code: code, Strict: strict})
}

// Module runs code as an ES module in a fresh context.
func (w *Worker) Module(code string, externals map[string]string) (*Resp, error) {
	return w.Call(Req{Kind: "module", Code: code, Externals: externals})
}

// ParseAll syntax-checks codes in the given goal ("script" or "module"); result i is "ok" or "error:...".
func (w *Worker) ParseAll(codes []string, goal string) ([]string, error) {
	r, err := w.Call(Req{Kind: "parse", Goal: goal, Codes: codes})
	if err != nil {
		return nil, err
	}
	if len(r.Results) != len(codes) {
		return nil, fmt.Errorf("%w: parse result arity", ErrInfra)
	}
	return r.Results, nil
}

// Batch evaluates each code in one shared fresh context and returns per-code results.
func (w *Worker) Batch(codes []string, prelude string) ([]string, error) {
	r, err := w.Call(Req{Kind: "batch", Codes: codes, Prelude: prelude})
	if err != nil {
		return nil, err
	}
	if len(r.Results) != len(codes) {
		return nil, fmt.Errorf("%w: batch result arity", ErrInfra)
	}
	// A "timeout" of a millisecond-sized script is almost always a scheduling hiccup of the busy
	// machine: re-run such entries alone with a generous limit before believing them.
	for i, res := range r.Results {
		if strings.HasPrefix(res, "timeout") {
			for attempt := 0; attempt < 2 && strings.HasPrefix(r.Results[i], "timeout"); attempt++ {
				r2, err := w.Call(Req{Kind: "batch", Codes: []string{codes[i]}, Prelude: prelude, TimeoutMs: 8000})
				if err != nil {
					return nil, err
				}
				if len(r2.Results) == 1 {
					r.Results[i] = r2.Results[0]
				}
			}
		}
	}
	return r.Results, nil
}

package jsgen

import "strings"

// Bounded-exhaustive expression × context enumeration (DESIGN.md S2, Appendix B).
//
// Expressions are built over three atoms a, b, c which the EnumPrelude defines as callable,
// constructible, coercible objects that log every interaction, so evaluation order, call
// receivers (`this`), short-circuiting and grouping are all observable. Children that are not
// atoms are always parenthesised in the *input*: the input text therefore spells out the
// intended tree and esbuild's printer has to decide by itself which parentheses are needed.

// EnumPrelude defines mk() and is evaluated once per V8 context (it is never given to esbuild).
const EnumPrelude = `
function mk(n) {
  function F() {
    log("call" + n, this === undefined ? "undef" : (this === globalThis ? "global" : (this && this.__id ? "this" + this.__id : typeof this)), arguments.length, new.target ? "new" : "call");
    return F;
  }
  F.__id = n;
  F.valueOf = function () { log("valueOf" + n); return n; };
  F.toString = function () { log("toString" + n); return "k" + n; };
  F.x = F; F.y = F; F.k2 = F; F.k3 = F; F.k5 = F;
  F[Symbol.iterator] = function* () { log("iter" + n); yield n; };
  F.then = undefined;
  return F;
}
var a, b, c;
`

// EnumReinit re-creates the atoms; it is prepended to every case (and goes through esbuild too).
const EnumReinit = "a = mk(2), b = mk(3), c = mk(5);\n"

// Tree is one generated expression.
type Tree struct {
	Text   string
	Kind   string // atom, unary, update, binary:<op>, cond, call, new, member, optchain, arrow, function, class, object, array, template, tagged, seq, assign:<op>, spread...
	LValue bool   // usable as assignment target
}

func wrap(t Tree) string {
	if t.Kind == "atom" {
		return t.Text
	}
	return "(" + t.Text + ")"
}

// EnumBinaryOps: every binary operator (one per token, all precedence levels).
var EnumBinaryOps = []string{",", "??", "||", "&&", "|", "^", "&", "==", "!=", "===", "!==", "<", "<=", ">", ">=", "in", "instanceof", "<<", ">>", ">>>", "+", "-", "*", "/", "%", "**"}

// EnumAssignOps: assignment operators.
var EnumAssignOps = []string{"=", "+=", "-=", "*=", "/=", "%=", "**=", "<<=", ">>=", ">>>=", "&=", "|=", "^=", "&&=", "||=", "??="}

var enumUnary = []string{"-", "+", "!", "~", "typeof ", "void ", "delete "}

// Atoms returns the leaves.
func Atoms() []Tree {
	return []Tree{{"a", "atom", true}, {"b", "atom", true}, {"c", "atom", true}}
}

// Build1 builds every one-operator tree over the given children (children are used in order for
// the operand slots: x for unary forms, x,y for binary, x,y,z for conditional).
func Build1(x, y, z Tree) []Tree {
	var out []Tree
	X, Y, Z := wrap(x), wrap(y), wrap(z)
	for _, op := range enumUnary {
		if op == "delete " && !(x.Kind == "member" || x.Kind == "optchain" || x.Kind == "atom") {
			// delete of a non-reference is legal too; keep a few
			out = append(out, Tree{op + X, "unary:" + strings.TrimSpace(op), false})
			continue
		}
		out = append(out, Tree{op + X, "unary:" + strings.TrimSpace(op), false})
	}
	if x.LValue {
		out = append(out, Tree{"++" + X, "update:pre++", false}, Tree{"--" + X, "update:pre--", false}, Tree{X + "++", "update:post++", false}, Tree{X + "--", "update:post--", false})
		for _, op := range EnumAssignOps {
			out = append(out, Tree{X + " " + op + " " + Y, "assign:" + op, false})
		}
	}
	for _, op := range EnumBinaryOps {
		out = append(out, Tree{X + " " + op + " " + Y, "binary:" + op, false})
	}
	out = append(out,
		Tree{X + " ? " + Y + " : " + Z, "cond", false},
		Tree{X + "()", "call", false},
		Tree{X + "(" + Y + ")", "call", false},
		Tree{X + "(..." + Y + ")", "call-spread", false},
		Tree{"new " + X, "new", false},
		Tree{"new " + X + "()", "new", false},
		Tree{"new " + X + "(" + Y + ")", "new", false},
		Tree{X + ".x", "member", true},
		Tree{X + "[" + y.Text + "]", "member", true},
		Tree{X + "?.x", "optchain", false},
		Tree{X + "?.[" + y.Text + "]", "optchain", false},
		Tree{X + "?.()", "optchain", false},
		Tree{X + "?.x.y", "optchain", false},
		Tree{X + "?.x(" + Y + ")", "optchain", false},
		Tree{X + "`t`", "tagged", false},
		Tree{X + "`t${" + y.Text + "}u`", "tagged", false},
		Tree{"`t${" + x.Text + "}u`", "template", false},
		Tree{"() => " + X, "arrow", false},
		Tree{"(p) => " + X, "arrow", false},
		Tree{"() => ({ x: " + x.Text + " })", "arrow", false},
		Tree{"async () => " + X, "arrow-async", false},
		Tree{"function () { return " + x.Text + "; }", "function", false},
		Tree{"function* () { yield " + x.Text + "; }", "function", false},
		Tree{"class { static x = " + x.Text + " }", "class", false},
		Tree{"class extends " + X + " {}", "class", false},
		Tree{"{ x: " + x.Text + " }", "object", false},
		Tree{"{ [" + x.Text + "]: " + y.Text + " }", "object", false},
		Tree{"{ ..." + X + " }", "object", false},
		Tree{"[" + x.Text + ", " + y.Text + "]", "array", false},
		Tree{"[..." + X + "]", "array", false},
		Tree{"[, " + x.Text + "]", "array", false},
	)
	return out
}

// Depth1 is every one-operator tree over atoms.
func Depth1() []Tree {
	at := Atoms()
	return Build1(at[0], at[1], at[2])
}

// Reps is a representative subset of Depth1 used as children of depth-2 trees: one or two forms per
// syntactic category / precedence level.
func Reps() []Tree {
	want := map[string]int{
		"unary:-": 1, "unary:typeof": 1, "unary:!": 1, "unary:delete": 1, "unary:void": 1, "update:pre++": 1, "update:post--": 1,
		"assign:=": 1, "assign:+=": 1, "assign:??=": 1, "assign:**=": 1,
		"binary:,": 1, "binary:??": 1, "binary:||": 1, "binary:&&": 1, "binary:|": 1, "binary:^": 1, "binary:&": 1, "binary:==": 1, "binary:<": 1, "binary:in": 1, "binary:instanceof": 1,
		"binary:<<": 1, "binary:+": 1, "binary:-": 1, "binary:*": 1, "binary:/": 1, "binary:**": 1,
		"cond": 1, "call": 2, "call-spread": 1, "new": 3, "member": 2, "optchain": 5, "tagged": 1, "template": 1, "arrow": 3, "arrow-async": 1, "function": 2, "class": 2, "object": 2, "array": 1,
	}
	var out []Tree
	for _, t := range Depth1() {
		if want[t.Kind] > 0 {
			want[t.Kind]--
			out = append(out, t)
		}
	}
	return out
}

// Depth2 enumerates one-operator trees whose operands are drawn from Reps (x) and Reps∪atoms (y),
// conditional's third operand fixed to atom c. Roughly |Reps|² × |forms| trees; the caller slices.
func Depth2(fn func(Tree) bool) {
	reps := Reps()
	at := Atoms()
	ys := append([]Tree{at[1]}, reps...)
	for _, x := range reps {
		for _, y := range ys {
			base := Build1(x, at[1], at[2])
			for i, t := range Build1(x, y, at[2]) {
				if y.Kind != "atom" && t.Text == base[i].Text {
					continue // forms that ignore y were already produced with the atom y
				}
				if !fn(t) {
					return
				}
			}
		}
	}
}

// Context is a syntactic position into which an expression can be placed ("@" is the hole).
type Context struct {
	Name     string
	Template string
	LValue   bool // hole must be an assignment target
	Raw      bool // hole is inserted without the protective parentheses (statement-start hazards)
}

// Contexts lists the embedding positions (Appendix B of DESIGN.md). The hole content is parenthesised
// unless it is an atom or ctx.Raw is set.
func Contexts() []Context {
	cs := []Context{
		{"stmt-start", "@;", false, true},
		{"stmt-start-paren", "(@);", false, true},
		{"label", "L: @;", false, true},
		{"assign-rhs", "x = @;", false, true},
		{"var-init", "var v = @; log(v);", false, true},
		{"let-init", "{ let l = @; log(l); }", false, true},
		{"arrow-body", "log((() => @)());", false, true},
		{"arrow-body-paren", "log((() => (@))());", false, true},
		{"return", "log((function () { return @; })());", false, true},
		{"throw", "try { throw @; } catch (e) { log(e); }", false, true},
		{"if", "if (@) log(1); else log(2);", false, true},
		{"while", "while (@) { log(1); break; }", false, true},
		{"do-while", "do { log(1); } while (!(@) && false);", false, true},
		{"switch", "switch (@) { case a: log(1); break; default: log(2); }", false, true},
		{"case", "switch (b) { case @: log(1); break; default: log(2); }", false, true},
		{"for-init", "for (@; false;) ;", false, true},
		{"for-var-init", "for (var i = @; false;) ;", false, true},
		{"for-test", "for (; @;) { log(1); break; }", false, true},
		{"for-update", "for (var i = 0; i < 1; i++, @) ;", false, true},
		{"for-update2", "for (var i = 0; i < 1; @, i++) ;", false, true},
		{"for-in-right", "for (var k in @) { log(k); break; }", false, true},
		{"for-of-right", "for (var k of @) { log(k); break; }", false, false},
		{"for-of-left", "for (@ of [1]) ;", true, false},
		{"for-in-left", "for (@ in { q: 1 }) ;", true, false},
		{"with", "with (@) log(typeof x);", false, true},
		{"call-arg", "log(@);", false, false},
		{"call-arg2", "log(1, @, 2);", false, false},
		{"spread-arg", "log(...@);", false, false},
		{"array-elem", "log([@]);", false, false},
		{"array-after-hole", "log([, @]);", false, false},
		{"array-spread", "log([...@]);", false, false},
		{"object-value", "log({ x: @ });", false, false},
		{"object-key", "log({ [@]: 1 });", false, true},
		{"object-spread", "log({ ...@ });", false, false},
		{"template-hole", "log(`x${@}y`);", false, true},
		{"callee", "log(@());", false, false},
		{"callee-args", "log(@(c));", false, false},
		{"new-callee", "log(new @);", false, false},
		{"new-callee-args", "log(new @(c));", false, false},
		{"member-target", "log(@.x);", false, false},
		{"index-target", "log(@[c]);", false, false},
		{"index-key", "log(c[@]);", false, true},
		{"opt-target", "log(@?.x);", false, false},
		{"opt-call-target", "log(@?.(c));", false, false},
		{"opt-key", "log(c?.[@]);", false, true},
		{"tag", "log(@`t`);", false, false},
		{"member-call", "log(@.x());", false, false},
		{"typeof", "log(typeof @);", false, false},
		{"void", "log(void @);", false, false},
		{"not", "log(!@);", false, false},
		{"neg", "log(-@);", false, false},
		{"plus", "log(+@);", false, false},
		{"bitnot", "log(~@);", false, false},
		{"delete", "log(delete @);", false, false},
		{"cond-test", "log(@ ? b : c);", false, false},
		{"cond-yes", "log(c ? @ : b);", false, false},
		{"cond-no", "log(0 ? b : @);", false, false},
		{"class-extends", "try { log(class extends @ {}); } catch (e) { log(e); }", false, false},
		{"class-field", "log(new (class { f = @; })().f);", false, true},
		{"class-static-field", "log((class { static f = @; }).f);", false, true},
		{"class-static-block", "(class { static { @; } });", false, true},
		{"class-computed-key", "log(new (class { [@]() { return 1; } })());", false, true},
		{"default-param", "log((function (q = @) { return q; })());", false, true},
		{"destructuring-default", "var [d = @] = []; log(d);", false, true},
		{"object-destructuring-default", "var { dd = @ } = {}; log(dd);", false, true},
		{"yield", "log((function* () { yield @; })().next().value);", false, true},
		{"yield-star", "log((function* () { yield* @; })().next().value);", false, false},
		{"export-default-like", "var ed = @; log(ed);", false, true},
		{"assign-target", "@ = c; log(a, b);", true, false},
		{"compound-assign-target", "@ += c; log(a, b);", true, false},
		{"update-target", "@++; log(a, b);", true, false},
		{"destructuring-target", "[@] = [c]; log(a, b);", true, false},
		{"comma-left", "log((@, c));", false, false},
		{"comma-right", "log((c, @));", false, false},
	}
	// one representative per precedence level, hole on the left and on the right
	for _, op := range []string{"=", "??", "||", "&&", "|", "^", "&", "==", "<", "in", "instanceof", "<<", "+", "-", "*", "/", "%", "**"} {
		if op == "=" {
			cs = append(cs, Context{"right-of-=", "log(x = @);", false, false})
			continue
		}
		cs = append(cs, Context{"left-of-" + op, "log(@ " + op + " c);", false, false}, Context{"right-of-" + op, "log(c " + op + " @);", false, false})
	}
	return cs
}

// Embed places a tree into a context. ok=false when the combination is not applicable.
func Embed(c Context, t Tree) (string, bool) {
	if c.LValue && !t.LValue {
		return "", false
	}
	h := t.Text
	if !c.Raw && t.Kind != "atom" {
		h = "(" + h + ")"
	}
	if c.Raw && (t.Kind == "object" || strings.HasPrefix(t.Kind, "function") || t.Kind == "class") && strings.HasPrefix(c.Template, "@") {
		// an object literal / function / class expression cannot start a statement unparenthesised
		h = "(" + h + ")"
	}
	if c.Raw && t.Kind == "binary:," && (strings.Contains(c.Name, "init") || c.Name == "arrow-body" || c.Name == "export-default-like" || strings.Contains(c.Name, "default") || strings.Contains(c.Name, "key") || c.Name == "class-field" || c.Name == "class-static-field" || c.Name == "yield" || c.Name == "assign-rhs") {
		h = "(" + h + ")"
	}
	if c.Raw && c.Name == "arrow-body" && t.Kind == "object" {
		h = "(" + h + ")"
	}
	if c.Raw && (c.Name == "for-init" || c.Name == "for-var-init") && strings.Contains(t.Kind, "binary:in") && !strings.Contains(t.Kind, "instanceof") {
		h = "(" + h + ")"
	}
	return strings.Replace(c.Template, "@", h, 1), true
}

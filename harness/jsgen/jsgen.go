// Package jsgen generates terminating, deterministic JavaScript programs whose only window on the
// world is the host functions log(...) and p(id, value) (S2 in DESIGN.md). All random choices are
// rapid draws so that failing programs shrink. The text is the only product: its meaning is
// whatever V8 says it is.
package jsgen

import (
	"fmt"
	"strconv"
	"strings"

	"pgregory.net/rapid"
)

// Feature switches (a hazard/feature profile).
type Feature uint64

const (
	FClasses Feature = 1 << iota
	FAsync
	FGenerators
	FDestructuring
	FOptionalChain
	FNullish
	FLogicalAssign
	FExponent
	FBigInt
	FSpread
	FTemplates
	FTaggedTemplates
	FClassFields
	FPrivateNames
	FStaticBlocks
	FObjectRest
	FForOf
	FLabels
	FSwitch
	FTryFinally
	FGetters
	FRegExp
	FArrows
	FLetConst
	FDefaultParams
	FForIn
	FWith
	FNumericSeparators
	FOptionalCatch
	FAsyncGenerators
	FForAwait
	FComma
	FNewTarget
	FSuper

	FES2015 = FClasses | FGenerators | FDestructuring | FSpread | FTemplates | FTaggedTemplates | FForOf | FLabels | FSwitch | FTryFinally | FGetters | FRegExp | FArrows | FLetConst | FDefaultParams | FForIn | FComma | FNewTarget | FSuper
	FAll    = FES2015 | FAsync | FOptionalChain | FNullish | FLogicalAssign | FExponent | FBigInt | FClassFields | FPrivateNames | FStaticBlocks | FObjectRest | FNumericSeparators | FOptionalCatch | FAsyncGenerators | FForAwait
)

// Config controls the generator.
type Config struct {
	Features  Feature
	MaxDepth  int  // expression depth (default 3)
	MaxStmts  int  // top-level statements (default 8)
	Module    bool // module goal: strict; may use top-level await when FAsync
	Strict    bool // emit "use strict" (scripts)
	Names     NameStyle
	WrapAsync bool // wrap the whole program in an async main so that await is available
	NoProbes  bool
}

// NameStyle selects identifier pools.
type NameStyle int

const (
	NamesPlain     NameStyle = iota // v0, v1, f0 ...
	NamesColliding                  // a, b, e, t, n, r, i, o, $, _, x2, x3 ... (minifier's favourites)
)

type varKind int

const (
	kVal varKind = iota
	kConst
	kLoop // readable, never assigned by generated code
	kFn
	kAsyncFn
	kGenFn
	kClass
	kOpaque // caught exception: only ever passed to log
)

type variable struct {
	name  string
	kind  varKind
	arity int
}

type scope struct {
	vars     []variable
	isFunc   bool
	labels   []string
	inLoop   bool
	inSwitch bool
}

// G is the generator state.
type G struct {
	t        *rapid.T
	cfg      Config
	scopes   []*scope
	nextID   int
	nextName int
	inAsync  bool
	inGen    bool
	inMethod bool // `this`/super property access allowed
	inCtor   bool
	fnDepth  int
	realFn   int // depth of non-arrow functions (new.target is legal)
	budget   int // remaining node budget to keep programs small
	used     map[string]bool
	needTag  bool
}

func (g *G) has(f Feature) bool { return g.cfg.Features&f != 0 }

func (g *G) intn(n int, label string) int {
	if n <= 1 {
		return 0
	}
	return rapid.IntRange(0, n-1).Draw(g.t, label)
}

func (g *G) chance(pct int, label string) bool {
	return rapid.IntRange(0, 99).Draw(g.t, label) < pct
}

func (g *G) pick(xs []string, label string) string {
	return xs[g.intn(len(xs), label)]
}

// Program generates one program.
func Program(t *rapid.T, cfg Config) string {
	if cfg.MaxDepth == 0 {
		cfg.MaxDepth = 3
	}
	if cfg.MaxStmts == 0 {
		cfg.MaxStmts = 8
	}
	g := &G{t: t, cfg: cfg, used: map[string]bool{}, budget: 220}
	g.push(true)
	var sb strings.Builder
	if cfg.Strict && !cfg.Module {
		sb.WriteString("\"use strict\";\n")
	}
	n := 1 + g.intn(cfg.MaxStmts, "nstmts")
	var body strings.Builder
	if cfg.WrapAsync {
		g.inAsync = true
	} else if cfg.Module && g.has(FAsync) {
		g.inAsync = true // top-level await
	}
	for i := 0; i < n; i++ {
		body.WriteString(g.topStmt())
		body.WriteString("\n")
	}
	if g.needTag {
		sb.WriteString("function T(s) { var a = [].slice.call(arguments, 1); log(\"T\", s, s.raw, a); return a.length; }\n")
	}
	if cfg.WrapAsync {
		sb.WriteString("(async function main() {\n")
		sb.WriteString(body.String())
		sb.WriteString("})().then(function () { log(\"done\"); }, function (e) { log(\"rejected\", e); });\n")
	} else {
		sb.WriteString(body.String())
	}
	return sb.String()
}

func (g *G) push(isFunc bool) *scope {
	s := &scope{isFunc: isFunc}
	if len(g.scopes) > 0 && !isFunc {
		p := g.scopes[len(g.scopes)-1]
		s.inLoop, s.inSwitch = p.inLoop, p.inSwitch
		s.labels = p.labels
	}
	g.scopes = append(g.scopes, s)
	return s
}
func (g *G) pop()        { g.scopes = g.scopes[:len(g.scopes)-1] }
func (g *G) cur() *scope { return g.scopes[len(g.scopes)-1] }

var collidingPool = []string{"a", "b", "c", "d", "e", "t", "n", "r", "i", "o", "s", "u", "$", "_", "x2", "x3", "a2", "e2", "t2", "_a", "$2"}

func (g *G) fresh(prefix string) string {
	if g.cfg.Names == NamesColliding {
		// prefer a pool name that is not yet used anywhere (no shadowing by construction: names are
		// globally unique per program, but coincide with what the minifier would like to use)
		for tries := 0; tries < 4; tries++ {
			n := collidingPool[g.intn(len(collidingPool), "cname")]
			if !g.used[n] {
				g.used[n] = true
				return n
			}
		}
	}
	for {
		n := prefix + strconv.Itoa(g.nextName)
		g.nextName++
		if !g.used[n] {
			g.used[n] = true
			return n
		}
	}
}

func (g *G) declare(name string, kind varKind, arity int) {
	s := g.cur()
	s.vars = append(s.vars, variable{name, kind, arity})
}

// declareVarScoped declares in the nearest function scope (for `var`).
func (g *G) declareVarScoped(name string, kind varKind) {
	for i := len(g.scopes) - 1; i >= 0; i-- {
		if g.scopes[i].isFunc {
			g.scopes[i].vars = append(g.scopes[i].vars, variable{name, kind, 0})
			return
		}
	}
}

func (g *G) visible(pred func(variable) bool) []variable {
	var out []variable
	for _, s := range g.scopes {
		for _, v := range s.vars {
			if pred(v) {
				out = append(out, v)
			}
		}
	}
	return out
}

func (g *G) id() string {
	g.nextID++
	return strconv.Itoa(g.nextID)
}

// ---------------------------------------------------------------- literals

var numPool = []string{"0", "1", "2", "3", "-1", "0.5", "1.5", "10", "255", "1e3", "0x10", "2147483647", "2147483648", "4294967295", "4294967296",
	"9007199254740991", "9007199254740993", "1e21", "1e-7", "5e-324", "1.7976931348623157e308", "0.1", "0.30000000000000004", "123456789", "1e100", ".5", "5.", "0b101", "0o17", "NaN", "Infinity", "-0"}

var strPool = []string{`""`, `"a"`, `"b"`, `"ab"`, `"0"`, `"1"`, `" 12 "`, `"x y"`, `'q'`, `"\n"`, `" "`, `"é"`, `"😀"`, `"\ud800"`, `"</script>"`, `"\0"`, `"\x001"`, `"'"`, `'"'`, "\"`\"", `"${x}"`, `"\\"`, `"length"`, `"__proto__"`, `"10"`, `"-0"`, `"1e3"`, `"0x10"`, `"true"`, `"null"`}

var propPool = []string{"a", "b", "c", "x", "y", "length", "k0", "k1"}

func (g *G) number() string {
	if g.chance(70, "numpool") {
		s := g.pick(numPool, "num")
		if s[0] == '-' {
			return "(" + s + ")"
		}
		return s
	}
	switch g.intn(4, "numkind") {
	case 0:
		return strconv.Itoa(rapid.IntRange(0, 1000000).Draw(g.t, "int"))
	case 1:
		f := rapid.Float64Range(0, 1e6).Draw(g.t, "float")
		return strconv.FormatFloat(f, 'g', -1, 64)
	case 2:
		if g.has(FNumericSeparators) {
			return "1_000"
		}
		return "1000"
	default:
		return "0x" + strconv.FormatInt(int64(rapid.IntRange(0, 1<<30).Draw(g.t, "hex")), 16)
	}
}

func (g *G) stringLit() string { return g.pick(strPool, "str") }

func (g *G) leaf() string {
	vals := g.visible(func(v variable) bool { return v.kind == kVal || v.kind == kConst || v.kind == kLoop })
	n := 9
	switch k := g.intn(n, "leaf"); {
	case k <= 2 && len(vals) > 0:
		return vals[g.intn(len(vals), "var")].name
	case k == 3:
		return g.stringLit()
	case k == 4:
		return g.pick([]string{"true", "false", "null", "undefined", "void 0"}, "kw")
	case k == 5 && g.has(FBigInt) && g.chance(30, "big"):
		return g.pick([]string{"0n", "1n", "10n", "0x10n", "12345678901234567890n"}, "bigint")
	case k == 6 && g.has(FRegExp) && g.chance(30, "re"):
		return g.pick([]string{"/a/", "/a+/g", "/[/]/", "/\\//i", "/(?:)/"}, "regex")
	case k == 7 && g.has(FTemplates) && g.chance(40, "tpl"):
		return g.pick([]string{"``", "`a`", "`a\\nb`", "`\\``", "`$`", "`\\${`"}, "template")
	case k == 8 && g.inMethod && g.chance(50, "this"):
		return "this"
	}
	return g.number()
}

func (g *G) probe(inner string) string {
	if g.cfg.NoProbes {
		return inner
	}
	return "p(" + g.id() + ", " + inner + ")"
}

// ---------------------------------------------------------------- expressions

var binOps = []string{"+", "-", "*", "/", "%", "==", "!=", "===", "!==", "<", "<=", ">", ">=", "<<", ">>", ">>>", "&", "|", "^", "&&", "||", "in", "instanceof"}
var assignOps = []string{"=", "+=", "-=", "*=", "/=", "%=", "<<=", ">>=", ">>>=", "&=", "|=", "^="}
var unOps = []string{"-", "+", "!", "~", "typeof ", "void "}

// Expr returns an expression; it is always safe to embed between parentheses and, as returned,
// safe as an operand of any operator (compound forms come parenthesised unless atom).
func (g *G) Expr(depth int) string {
	g.budget--
	if depth <= 0 || g.budget <= 0 {
		if g.chance(35, "probeleaf") {
			return g.probe(g.leaf())
		}
		return g.leaf()
	}
	d := depth - 1
	switch g.intn(30, "expr") {
	case 0, 1:
		return g.leaf()
	case 2, 3:
		return g.probe(g.Expr(d))
	case 4, 5, 6:
		op := g.pick(binOps, "binop")
		return "(" + g.Expr(d) + " " + op + " " + g.Expr(d) + ")"
	case 7:
		op := g.pick(unOps, "unop")
		return "(" + op + g.Expr(d) + ")"
	case 8:
		return "(" + g.Expr(d) + " ? " + g.Expr(d) + " : " + g.Expr(d) + ")"
	case 9:
		if lv := g.lvalue(d); lv != "" {
			op := g.pick(assignOps, "assignop")
			if g.has(FLogicalAssign) && g.chance(20, "logassign") {
				op = g.pick([]string{"&&=", "||=", "??="}, "lop")
			}
			if g.has(FExponent) && g.chance(8, "expassign") {
				op = "**="
			}
			return "(" + lv + " " + op + " " + g.Expr(d) + ")"
		}
	case 10:
		if lv := g.lvalue(d); lv != "" {
			return "(" + g.pick([]string{"++" + lv, "--" + lv, lv + "++", lv + "--"}, "update") + ")"
		}
	case 11:
		if g.has(FComma) {
			return "(" + g.Expr(d) + ", " + g.Expr(d) + ")"
		}
	case 12:
		return g.objectLit(d)
	case 13:
		return g.arrayLit(d)
	case 14:
		return g.member(d)
	case 15:
		return g.call(d)
	case 16:
		if g.has(FNullish) {
			return "(" + g.Expr(d) + " ?? " + g.Expr(d) + ")"
		}
	case 17:
		if g.has(FExponent) {
			return "(" + g.Expr(d) + " ** " + g.Expr(d) + ")"
		}
	case 18:
		if g.has(FTemplates) {
			return g.template(d, "")
		}
	case 19:
		if g.has(FTaggedTemplates) {
			g.needTag = true
			return g.template(d, "T")
		}
	case 20:
		return g.iife(d)
	case 21:
		return g.builtinCall(d)
	case 22:
		if g.has(FClasses) {
			if cs := g.visible(func(v variable) bool { return v.kind == kClass }); len(cs) > 0 {
				c := cs[g.intn(len(cs), "class")]
				return "new " + c.name + "(" + g.args(d, 2) + ")"
			}
		}
	case 23:
		if g.inAsync && g.has(FAsync) {
			return "(await " + g.Expr(d) + ")"
		}
	case 24:
		if g.inGen {
			return "(yield " + g.Expr(d) + ")"
		}
	case 25:
		if lv := g.memberLvalue(d); lv != "" {
			return "(delete " + lv + ")"
		}
	case 26:
		if g.has(FOptionalChain) {
			return g.optChain(d)
		}
	case 27:
		if g.has(FNewTarget) && g.realFn > 0 && g.chance(30, "newtarget") {
			return "(new.target === undefined)"
		}
	case 28:
		return "(typeof " + g.pick([]string{"undefinedGlobal", "log", "p"}, "typeofg") + ")"
	}
	return g.probe(g.Expr(d))
}

func (g *G) args(d, max int) string {
	n := g.intn(max+1, "nargs")
	parts := make([]string, 0, n)
	for i := 0; i < n; i++ {
		if g.has(FSpread) && g.chance(10, "spreadarg") {
			parts = append(parts, "..."+g.arrayLit(d))
		} else {
			parts = append(parts, g.Expr(d))
		}
	}
	return strings.Join(parts, ", ")
}

func (g *G) lvalue(d int) string {
	vals := g.visible(func(v variable) bool { return v.kind == kVal })
	if len(vals) > 0 && g.chance(60, "lvvar") {
		return vals[g.intn(len(vals), "lv")].name
	}
	return g.memberLvalue(d)
}

func (g *G) memberLvalue(d int) string {
	vals := g.visible(func(v variable) bool { return v.kind == kVal || v.kind == kConst })
	if len(vals) == 0 {
		return ""
	}
	base := vals[g.intn(len(vals), "mlv")].name
	if g.chance(70, "dot") {
		return base + "." + g.pick(propPool, "prop")
	}
	return base + "[" + g.Expr(d) + "]"
}

func (g *G) member(d int) string {
	base := g.Expr(d)
	if g.chance(65, "dot") {
		return base + "." + g.pick(propPool, "prop")
	}
	return base + "[" + g.Expr(d) + "]"
}

func (g *G) optChain(d int) string {
	base := g.Expr(d)
	var sb strings.Builder
	sb.WriteString(base)
	n := 1 + g.intn(3, "chainlen")
	for i := 0; i < n; i++ {
		opt := i == 0 || g.chance(40, "opt")
		switch g.intn(3, "chainkind") {
		case 0:
			if opt {
				sb.WriteString("?.")
			} else {
				sb.WriteString(".")
			}
			sb.WriteString(g.pick(propPool, "prop"))
		case 1:
			if opt {
				sb.WriteString("?.")
			}
			sb.WriteString("[" + g.Expr(d) + "]")
		case 2:
			if opt {
				sb.WriteString("?.")
			}
			sb.WriteString("(" + g.args(d, 1) + ")")
		}
	}
	if g.chance(15, "parenchain") {
		return "(" + sb.String() + ")." + g.pick(propPool, "prop")
	}
	return "(" + sb.String() + ")"
}

func (g *G) call(d int) string {
	fns := g.visible(func(v variable) bool { return v.kind == kFn || v.kind == kAsyncFn || v.kind == kGenFn })
	if len(fns) == 0 {
		return g.iife(d)
	}
	f := fns[g.intn(len(fns), "fn")]
	call := f.name + "(" + g.args(d, f.arity+1) + ")"
	switch f.kind {
	case kAsyncFn:
		if g.inAsync {
			return "(await " + call + ")"
		}
		return g.leaf() // an un-awaited async call would break the single-chain rule
	case kGenFn:
		if g.has(FSpread) {
			return "[..." + call + "]"
		}
		return "Array.from(" + call + ")"
	}
	return call
}

func (g *G) builtinCall(d int) string {
	switch g.intn(10, "builtin") {
	case 0:
		return "String(" + g.Expr(d) + ")"
	case 1:
		return "Number(" + g.Expr(d) + ")"
	case 2:
		return "Math.max(" + g.Expr(d) + ", " + g.Expr(d) + ")"
	case 3:
		return "JSON.stringify(" + g.Expr(d) + ")"
	case 4:
		return "Object.keys(" + g.Expr(d) + ")"
	case 5:
		return "Array.isArray(" + g.Expr(d) + ")"
	case 6:
		if g.has(FArrows) {
			return g.arrayLit(d) + ".map((" + "m" + g.id() + ") => " + g.Expr(d) + ")"
		}
		return g.arrayLit(d) + ".concat(" + g.Expr(d) + ")"
	case 7:
		return g.stringLit() + ".charCodeAt(" + g.Expr(d) + ")"
	case 8:
		return "Object.is(" + g.Expr(d) + ", " + g.Expr(d) + ")"
	default:
		return "parseInt(" + g.Expr(d) + ", " + g.pick([]string{"10", "16", "2", "undefined"}, "radix") + ")"
	}
}

func (g *G) propKey(d int) (string, bool) {
	switch g.intn(6, "key") {
	case 0:
		return g.stringLit(), false
	case 1:
		return g.pick([]string{"0", "1", "1e3", "0x10", "1.5"}, "numkey"), false
	case 2:
		return "[" + g.Expr(d) + "]", true
	}
	return g.pick(propPool, "prop"), false
}

func (g *G) objectLit(d int) string {
	n := g.intn(4, "nprops")
	parts := []string{}
	// V8 (≤12.4) orders the keys of a literal that mixes a spread with accessors differently from the
	// specification ({...s, set t(v){}, x: 1} has keys a, x, t): never mix them, V8 is our reference.
	hasSpread, hasAccessor := false, false
	for i := 0; i < n; i++ {
		k, _ := g.propKey(d)
		switch g.intn(8, "propkind") {
		case 0:
			if g.has(FSpread) && g.has(FObjectRest) && !hasAccessor {
				hasSpread = true
				parts = append(parts, "..."+g.Expr(d))
				continue
			}
		case 1:
			if g.has(FGetters) && !hasSpread {
				hasAccessor = true
				id := g.id()
				parts = append(parts, "get "+k+"() { log(\"get\", "+id+"); return "+g.Expr(0)+"; }")
				continue
			}
		case 2:
			if g.has(FGetters) && !hasSpread {
				hasAccessor = true
				id := g.id()
				parts = append(parts, "set "+k+"(sv) { log(\"set\", "+id+", sv); }")
				continue
			}
		case 3:
			vals := g.visible(func(v variable) bool { return v.kind == kVal || v.kind == kConst })
			if len(vals) > 0 {
				parts = append(parts, vals[g.intn(len(vals), "short")].name)
				continue
			}
		case 4:
			if g.chance(30, "proto") {
				parts = append(parts, "__proto__: "+g.pick([]string{"null", "{ inherited: 1 }", "[]"}, "protoval"))
				continue
			}
		}
		parts = append(parts, k+": "+g.Expr(d))
	}
	if len(parts) == 0 {
		return "({})"
	}
	return "({ " + strings.Join(parts, ", ") + " })"
}

func (g *G) arrayLit(d int) string {
	n := g.intn(4, "nelems")
	parts := []string{}
	for i := 0; i < n; i++ {
		switch {
		case g.chance(8, "hole"):
			parts = append(parts, "")
		case g.has(FSpread) && g.chance(10, "spread"):
			parts = append(parts, "..."+g.pick([]string{"[1, 2]", "\"ab\"", "[]"}, "spreadsrc"))
		default:
			parts = append(parts, g.Expr(d))
		}
	}
	s := strings.Join(parts, ", ")
	if n > 0 && parts[n-1] == "" {
		s += ","
	}
	return "[" + s + "]"
}

func (g *G) template(d int, tag string) string {
	var sb strings.Builder
	sb.WriteString(tag + "`")
	chunks := []string{"", "a", " ", "\\n", "\\u2028", "$", "\\`", "é", "\\\\", "{", "}", "\\x41", "\\u{1F600}", "\r\n"}
	if tag != "" {
		chunks = append(chunks, "\\u", "\\xg", "\\01") // invalid escapes are legal in tagged templates (cooked undefined)
	}
	n := g.intn(3, "nholes")
	for i := 0; i <= n; i++ {
		sb.WriteString(g.pick(chunks, "chunk"))
		if i < n {
			sb.WriteString("${" + g.Expr(d) + "}")
		}
	}
	sb.WriteString("`")
	return sb.String()
}

func (g *G) iife(d int) string {
	if g.chance(12, "strictprobe") {
		// a function-level directive must stay a directive (no escapes or line continuations inside it)
		return "(function () { \"use strict\"; return this === void 0; })()"
	}
	saved := g.saveCtx()
	defer g.restoreCtx(saved)
	g.push(true)
	defer g.pop()
	g.fnDepth++
	defer func() { g.fnDepth-- }()
	param := g.fresh("q")
	g.declare(param, kVal, 0)
	arg := g.ExprOuter(d, saved)
	if g.has(FArrows) && g.chance(50, "arrowiife") {
		// arrows keep the enclosing this/await context except await is not allowed in non-async arrow
		g.inAsync, g.inGen = false, false
		if g.chance(50, "exprbody") {
			return "((" + param + ") => " + g.Expr(d) + ")(" + arg + ")"
		}
		return "((" + param + ") => { " + g.stmtList(d, 2) + " return " + g.Expr(d) + "; })(" + arg + ")"
	}
	g.inAsync, g.inGen, g.inMethod = false, false, false
	g.realFn++
	defer func() { g.realFn-- }()
	return "(function (" + param + ") { " + g.stmtList(d, 2) + " return " + g.Expr(d) + "; })(" + arg + ")"
}

type ctx struct {
	inAsync, inGen, inMethod, inCtor bool
	nscopes                         int
}

func (g *G) saveCtx() ctx { return ctx{g.inAsync, g.inGen, g.inMethod, g.inCtor, len(g.scopes)} }
func (g *G) restoreCtx(c ctx) {
	g.inAsync, g.inGen, g.inMethod, g.inCtor = c.inAsync, c.inGen, c.inMethod, c.inCtor
}

// ExprOuter generates an expression evaluated in the scope chain that existed at c (used for
// arguments of an IIFE whose parameter scope has already been pushed).
func (g *G) ExprOuter(d int, c ctx) string {
	inner := g.scopes
	g.scopes = g.scopes[:c.nscopes]
	defer func() { g.scopes = inner }()
	return g.Expr(d)
}

// ---------------------------------------------------------------- statements

func (g *G) stmtList(d, max int) string {
	n := g.intn(max+1, "nstmt")
	var sb strings.Builder
	for i := 0; i < n; i++ {
		sb.WriteString(g.Stmt(d))
		sb.WriteString(" ")
	}
	return sb.String()
}

func (g *G) block(d, max int) string {
	g.push(false)
	defer g.pop()
	return "{ " + g.stmtList(d, max) + "}"
}

func (g *G) topStmt() string {
	d := g.cfg.MaxDepth
	if g.chance(35, "wraptry") {
		g.push(false)
		body := g.Stmt(d)
		g.pop()
		e := g.fresh("err")
		return "try { " + body + " } catch (" + e + ") { log(\"caught\", " + e + "); }"
	}
	return g.Stmt(d)
}

func (g *G) logStmt(d int) string {
	return "log(" + strconv.Quote("L"+g.id()) + ", " + g.Expr(d) + ");"
}

// Stmt generates one statement.
func (g *G) Stmt(depth int) string {
	g.budget--
	if g.budget <= 0 || depth <= 0 {
		return g.logStmt(0)
	}
	d := depth - 1
	sc := g.cur()
	switch g.intn(26, "stmt") {
	case 0, 1, 2:
		return g.logStmt(depth)
	case 3, 4:
		return g.varDecl(depth)
	case 5:
		return g.Expr(depth) + ";"
	case 6:
		s := "if (" + g.Expr(d) + ") " + g.block(d, 2)
		if g.chance(50, "else") {
			if g.chance(30, "elseif") {
				s += " else if (" + g.Expr(d) + ") " + g.block(d, 2)
			}
			s += " else " + g.block(d, 2)
		}
		return s
	case 7:
		return g.forLoop(d)
	case 8:
		if g.has(FForOf) {
			return g.forOf(d)
		}
	case 9:
		if g.has(FForIn) {
			return g.forIn(d)
		}
	case 10:
		return g.whileLoop(d)
	case 11:
		if g.has(FSwitch) {
			return g.switchStmt(d)
		}
	case 12:
		if g.has(FTryFinally) {
			return g.tryStmt(d)
		}
	case 13:
		if g.fnDepth < 2 {
			return g.funcDecl(d)
		}
	case 14:
		if g.has(FClasses) && g.fnDepth < 2 {
			return g.classDecl(d)
		}
	case 15:
		if g.has(FLabels) {
			return g.labelled(d)
		}
	case 16:
		if sc.inLoop && g.chance(60, "brk") {
			if g.chance(50, "cont") {
				return "if (" + g.Expr(d) + ") continue;"
			}
			return "if (" + g.Expr(d) + ") break;"
		}
	case 17:
		if len(sc.labels) > 0 {
			return "if (" + g.Expr(d) + ") break " + sc.labels[g.intn(len(sc.labels), "label")] + ";"
		}
	case 18:
		if g.fnDepth > 0 {
			return "if (" + g.Expr(d) + ") return " + g.Expr(d) + ";"
		}
	case 19:
		return "if (" + g.Expr(d) + ") throw " + g.Expr(d) + ";"
	case 20:
		return g.block(d, 3)
	case 21:
		if g.has(FDestructuring) {
			return g.destructuringAssign(d)
		}
	case 22:
		return ";"
	case 23:
		return g.Expr(depth) + ";"
	}
	return g.logStmt(depth)
}

func (g *G) varDecl(d int) string {
	kw := "var"
	if g.has(FLetConst) {
		kw = g.pick([]string{"var", "let", "const"}, "declkw")
	}
	if g.has(FDestructuring) && g.chance(25, "destruct") {
		pat, names := g.pattern(d-1, 2)
		init := g.patternSource(d)
		s := kw + " " + pat + " = " + init + ";"
		for _, n := range names {
			g.declName(kw, n)
		}
		return s
	}
	name := g.fresh("v")
	init := g.Expr(d)
	g.declName(kw, name)
	if kw != "const" && g.chance(10, "noinit") {
		return kw + " " + name + ";"
	}
	return kw + " " + name + " = " + init + ";"
}

func (g *G) declName(kw, name string) {
	switch kw {
	case "const":
		g.declare(name, kConst, 0)
	case "var":
		// visible from here on in the current block; after the block ends it is still declared in the
		// function scope, but we only use it inside the block (it might be uninitialised elsewhere:
		// reading `undefined` would be fine, but keep it simple)
		g.declare(name, kVal, 0)
	default:
		g.declare(name, kVal, 0)
	}
}

// pattern returns a destructuring pattern and the names it binds.
func (g *G) pattern(d, depth int) (string, []string) {
	var names []string
	if g.chance(50, "arrpat") {
		n := 1 + g.intn(3, "npat")
		parts := []string{}
		for i := 0; i < n; i++ {
			if g.chance(10, "pathole") {
				parts = append(parts, "")
				continue
			}
			if i == n-1 && g.chance(20, "patrest") {
				nm := g.fresh("v")
				names = append(names, nm)
				parts = append(parts, "..."+nm)
				continue
			}
			if depth > 0 && g.chance(20, "nestpat") {
				p, ns := g.pattern(d, depth-1)
				names = append(names, ns...)
				parts = append(parts, p)
				continue
			}
			nm := g.fresh("v")
			names = append(names, nm)
			if g.chance(30, "patdefault") {
				parts = append(parts, nm+" = "+g.Expr(d))
			} else {
				parts = append(parts, nm)
			}
		}
		return "[" + strings.Join(parts, ", ") + "]", names
	}
	n := 1 + g.intn(3, "npat")
	parts := []string{}
	for i := 0; i < n; i++ {
		if i == n-1 && g.has(FObjectRest) && g.chance(20, "patrest") {
			nm := g.fresh("v")
			names = append(names, nm)
			parts = append(parts, "..."+nm)
			continue
		}
		key := g.pick(propPool, "patkey")
		if g.chance(15, "computedpat") {
			key = "[" + g.Expr(d) + "]"
		}
		if depth > 0 && g.chance(20, "nestpat") {
			p, ns := g.pattern(d, depth-1)
			names = append(names, ns...)
			parts = append(parts, key+": "+p)
			continue
		}
		nm := g.fresh("v")
		names = append(names, nm)
		s := key + ": " + nm
		if g.chance(30, "patdefault") {
			s += " = " + g.Expr(d)
		}
		parts = append(parts, s)
	}
	return "{ " + strings.Join(parts, ", ") + " }", names
}

func (g *G) patternSource(d int) string {
	switch g.intn(4, "patsrc") {
	case 0:
		return g.arrayLit(d)
	case 1:
		return g.objectLit(d)
	case 2:
		return g.pick([]string{`"abc"`, "[[1, 2], [3]]", "({ a: [1, 2], b: { c: 3 } })", "[{ a: 1 }, { b: 2 }]"}, "patconst")
	}
	return g.Expr(d)
}

func (g *G) destructuringAssign(d int) string {
	vals := g.visible(func(v variable) bool { return v.kind == kVal })
	if len(vals) < 1 {
		return g.logStmt(d)
	}
	a := vals[g.intn(len(vals), "da")].name
	b := vals[g.intn(len(vals), "db")].name
	if g.chance(50, "arrassign") {
		return "[" + a + ", " + b + " = " + g.Expr(d) + "] = " + g.patternSource(d) + ";"
	}
	return "({ a: " + a + ", [" + g.Expr(d) + "]: " + b + " = " + g.Expr(d) + " } = " + g.patternSource(d) + ");"
}

func (g *G) loopBody(d int) string {
	g.push(false)
	g.cur().inLoop = true
	defer g.pop()
	return "{ " + g.stmtList(d, 3) + "}"
}

func (g *G) forLoop(d int) string {
	i := g.fresh("i")
	kw := "var"
	if g.has(FLetConst) && g.chance(60, "letloop") {
		kw = "let"
	}
	g.push(false)
	defer g.pop()
	g.declare(i, kLoop, 0)
	n := 1 + g.intn(3, "iters")
	return "for (" + kw + " " + i + " = 0; " + i + " < " + strconv.Itoa(n) + "; " + i + "++) " + g.loopBody(d)
}

func (g *G) forOf(d int) string {
	x := g.fresh("x")
	kw := g.pick([]string{"var", "let", "const"}, "forkw")
	if !g.has(FLetConst) {
		kw = "var"
	}
	src := g.arrayLit(d)
	fns := g.visible(func(v variable) bool { return v.kind == kGenFn })
	if len(fns) > 0 && g.chance(40, "overgen") {
		f := fns[g.intn(len(fns), "genfn")]
		src = f.name + "(" + g.args(d, f.arity) + ")"
	}
	g.push(false)
	defer g.pop()
	if kw == "const" {
		g.declare(x, kConst, 0)
	} else {
		g.declare(x, kVal, 0)
	}
	return "for (" + kw + " " + x + " of " + src + ") " + g.loopBody(d)
}

func (g *G) forIn(d int) string {
	x := g.fresh("k")
	src := g.objectLit(d)
	g.push(false)
	defer g.pop()
	g.declare(x, kVal, 0)
	return "for (var " + x + " in " + src + ") " + g.loopBody(d)
}

func (g *G) whileLoop(d int) string {
	w := g.fresh("w")
	n := 1 + g.intn(3, "iters")
	g.declare(w, kLoop, 0)
	if g.chance(40, "dowhile") {
		return "var " + w + " = 0; do " + g.loopBody(d) + " while (++" + w + " < " + strconv.Itoa(n) + " && " + g.Expr(d) + ");"
	}
	return "var " + w + " = 0; while (" + w + "++ < " + strconv.Itoa(n) + " && " + g.Expr(d) + ") " + g.loopBody(d)
}

func (g *G) switchStmt(d int) string {
	var sb strings.Builder
	sb.WriteString("switch (" + g.Expr(d) + ") { ")
	n := 1 + g.intn(3, "ncases")
	def := g.intn(n+2, "defaultpos")
	g.push(false)
	g.cur().inSwitch = true
	// `continue` inside a switch inside a loop is legal; `break` leaves the switch
	for i := 0; i < n; i++ {
		if i == def {
			sb.WriteString("default: " + g.caseBody(d))
		}
		sb.WriteString("case " + g.Expr(d) + ": " + g.caseBody(d))
	}
	if def >= n && def == n {
		sb.WriteString("default: " + g.caseBody(d))
	}
	g.pop()
	sb.WriteString("}")
	return sb.String()
}

func (g *G) caseBody(d int) string {
	// no lexical declarations directly in case clauses (shared scope hazards); nest in blocks
	s := g.logStmt(d) + " "
	if g.chance(40, "caseblock") {
		s += g.block(d, 2) + " "
	}
	if g.chance(60, "casebreak") {
		s += "break; "
	}
	return s
}

func (g *G) tryStmt(d int) string {
	var sb strings.Builder
	sb.WriteString("try " + g.block(d, 3))
	hasCatch := g.chance(70, "catch")
	if hasCatch {
		if g.has(FOptionalCatch) && g.chance(25, "nobinding") {
			sb.WriteString(" catch " + g.block(d, 2))
		} else {
			e := g.fresh("e")
			g.push(false)
			g.declare(e, kOpaque, 0)
			sb.WriteString(" catch (" + e + ") { log(\"c\", " + e + "); " + g.stmtList(d, 2) + "}")
			g.pop()
		}
	}
	if !hasCatch || g.chance(40, "finally") {
		sb.WriteString(" finally " + g.block(d, 2))
	}
	return sb.String()
}

func (g *G) labelled(d int) string {
	l := g.fresh("L")
	g.push(false)
	sc := g.cur()
	sc.labels = append(append([]string{}, sc.labels...), l)
	defer g.pop()
	if g.chance(50, "labelloop") {
		i := g.fresh("i")
		g.declare(i, kLoop, 0)
		n := 1 + g.intn(3, "iters")
		body := g.loopBody(d)
		return l + ": for (var " + i + " = 0; " + i + " < " + strconv.Itoa(n) + "; " + i + "++) " + body
	}
	return l + ": { " + g.stmtList(d, 3) + "}"
}

func (g *G) params(d int) (string, int, []string) {
	sa, sg := g.inAsync, g.inGen
	g.inAsync, g.inGen = false, false
	defer func() { g.inAsync, g.inGen = sa, sg }()
	n := g.intn(3, "nparams")
	parts := []string{}
	names := []string{}
	for i := 0; i < n; i++ {
		nm := g.fresh("a")
		names = append(names, nm)
		switch {
		case i == n-1 && g.has(FSpread) && g.chance(15, "restparam"):
			parts = append(parts, "..."+nm)
		case g.has(FDefaultParams) && g.chance(25, "defparam"):
			parts = append(parts, nm+" = "+g.Expr(d))
		default:
			parts = append(parts, nm)
		}
	}
	return strings.Join(parts, ", "), n, names
}

func (g *G) funcDecl(d int) string {
	name := g.fresh("f")
	kind := kFn
	prefix := "function "
	switch {
	case g.has(FAsync) && g.chance(20, "asyncfn"):
		kind, prefix = kAsyncFn, "async function "
	case g.has(FGenerators) && g.chance(20, "genfn"):
		kind, prefix = kGenFn, "function* "
	}
	saved := g.saveCtx()
	g.push(true)
	g.fnDepth++
	g.inAsync, g.inGen, g.inMethod = kind == kAsyncFn, kind == kGenFn, false
	g.realFn++
	ps, n, names := g.params(d)
	for _, nm := range names {
		g.declare(nm, kVal, 0)
	}
	body := g.stmtList(d, 4)
	ret := ""
	if g.chance(80, "ret") {
		ret = "return " + g.Expr(d) + "; "
	}
	g.fnDepth--
	g.realFn--
	g.pop()
	g.restoreCtx(saved)
	g.declare(name, kind, n)
	if kind == kFn && g.has(FArrows) && g.has(FLetConst) && g.chance(25, "arrowdecl") {
		return "const " + name + " = (" + ps + ") => { " + body + ret + "};"
	}
	return prefix + name + "(" + ps + ") { " + body + ret + "}"
}

func (g *G) classDecl(d int) string {
	name := g.fresh("C")
	var sb strings.Builder
	sb.WriteString("class " + name)
	classes := g.visible(func(v variable) bool { return v.kind == kClass })
	derived := false
	if len(classes) > 0 && g.chance(40, "extends") {
		sb.WriteString(" extends " + classes[g.intn(len(classes), "base")].name)
		derived = true
	} else if g.chance(10, "extendsnull") {
		// extends an expression evaluated once
		sb.WriteString(" extends " + g.probe("Object"))
		derived = true
	}
	sb.WriteString(" { ")
	saved := g.saveCtx()
	n := g.intn(5, "nmembers")
	privs := []string{}
	hasCtor := false
	for i := 0; i < n; i++ {
		static := ""
		if g.chance(30, "static") {
			static = "static "
		}
		key, _ := g.propKey(d)
		switch g.intn(8, "member") {
		case 0:
			if !hasCtor {
				hasCtor = true
				g.push(true)
				g.fnDepth++
				g.inAsync, g.inGen, g.inMethod = false, false, true
				ps, _, names := g.params(d)
				for _, nm := range names {
					g.declare(nm, kVal, 0)
				}
				sb.WriteString("constructor(" + ps + ") { ")
				if derived {
					sb.WriteString("super(" + g.args(d, 1) + "); ")
				}
				sb.WriteString("log(\"ctor\", " + g.id() + "); " + g.stmtList(d, 2) + "} ")
				g.fnDepth--
				g.pop()
				g.restoreCtx(saved)
				continue
			}
		case 1, 2:
			g.push(true)
			g.fnDepth++
			g.inAsync, g.inGen, g.inMethod = false, false, static == ""
			ps, _, names := g.params(d)
			for _, nm := range names {
				g.declare(nm, kVal, 0)
			}
			sb.WriteString(static + key + "(" + ps + ") { " + g.stmtList(d, 2) + "return " + g.Expr(d) + "; } ")
			g.fnDepth--
			g.pop()
			g.restoreCtx(saved)
			continue
		case 3:
			if g.has(FGetters) {
				sb.WriteString(static + "get " + key + "() { log(\"cget\", " + g.id() + "); return " + g.Expr(0) + "; } ")
				continue
			}
		case 4:
			if g.has(FClassFields) {
				g.inMethod = static == ""
				g.inAsync, g.inGen = false, false
				sb.WriteString(static + key + " = " + g.Expr(d) + "; ")
				g.restoreCtx(saved)
				continue
			}
		case 5:
			if g.has(FClassFields) && g.has(FPrivateNames) {
				pn := "#p" + g.id()
				privs = append(privs, static+pn)
				g.inMethod = static == ""
				g.inAsync, g.inGen = false, false
				sb.WriteString(static + pn + " = " + g.Expr(d) + "; ")
				g.restoreCtx(saved)
				continue
			}
		case 6:
			if g.has(FStaticBlocks) {
				g.push(true)
				g.fnDepth++
				g.inAsync, g.inGen, g.inMethod = false, false, false // `this` is the class here: a function value
				sb.WriteString("static { " + g.stmtList(d, 2) + "} ")
				g.fnDepth--
				g.pop()
				g.restoreCtx(saved)
				continue
			}
		}
		sb.WriteString(key + "() { return " + g.Expr(0) + "; } ")
	}
	// a reader for private names so that they are observable
	if len(privs) > 0 {
		var reads []string
		for _, p := range privs {
			if strings.HasPrefix(p, "static ") {
				reads = append(reads, name+"."+strings.TrimPrefix(p, "static "))
			} else {
				reads = append(reads, "this."+p)
			}
		}
		sb.WriteString("readPrivates() { return [" + strings.Join(reads, ", ") + "]; } ")
	}
	sb.WriteString("}")
	g.declare(name, kClass, 1)
	s := sb.String()
	// use it at once so that members run
	inst := g.fresh("v")
	g.declare(inst, kVal, 0)
	s += " var " + inst + " = new " + name + "(" + g.args(d, 1) + "); log(" + strconv.Quote("I"+g.id()) + ", " + inst + ");"
	if len(privs) > 0 {
		s += " log(" + inst + ".readPrivates());"
	}
	return s
}

// ExprOnly returns a standalone expression generator entry (fresh generator, no declared variables
// except the names given, which the caller defines as globals).
func ExprOnly(t *rapid.T, cfg Config, globals []string, depth int) string {
	g := &G{t: t, cfg: cfg, used: map[string]bool{}, budget: 60}
	g.push(true)
	for _, n := range globals {
		g.used[n] = true
		g.declare(n, kVal, 0)
	}
	return g.Expr(depth)
}

var _ = fmt.Sprintf

package jsgen
import "testing"
func TestCounts(t *testing.T) {
	n := 0
	Depth2(func(Tree) bool { n++; return true })
	t.Logf("depth1=%d reps=%d depth2=%d contexts=%d", len(Depth1()), len(Reps()), n, len(Contexts()))
}
